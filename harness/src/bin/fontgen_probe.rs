//! Smoke test of vh::fontgen: allsorts must load the synthesized font and agree on basics.
use allsorts::binary::read::ReadScope;
use allsorts::font::{Font, MatchingPresentation};
use allsorts::font_data::FontData;
use allsorts::tables::FontTableProvider;
use vh::fontgen::*;

fn main() {
    let mut f = TtFont::new(vec![GlyphSpec::Empty, triangle(0), triangle(5),
        GlyphSpec::Composite { components: vec![Component { gid: 1, dx: 100, dy: 0, transform: None, flags_extra: 0 }], instructions: vec![] }]);
    f.cmap = vec![(0x41, 1), (0x42, 2), (0x10000, 3)];
    f.num_h_metrics = 2;
    let bytes = f.build();
    let fd = ReadScope::new(&bytes).read::<FontData<'_>>().expect("fontdata");
    let prov = fd.table_provider(0).expect("provider");
    assert!(prov.has_table(allsorts::tag::GLYF));
    let mut font = Font::new(prov).expect("font");
    let (g, _) = font.lookup_glyph_index('A', MatchingPresentation::NotRequired, None);
    let (g2, _) = font.lookup_glyph_index('\u{10000}', MatchingPresentation::NotRequired, None);
    println!("A -> {} U+10000 -> {} adv(3) = {:?} n = {}", g, g2, font.horizontal_advance(3), font.num_glyphs());
    assert_eq!((g, g2), (1, 3));
    assert_eq!(font.horizontal_advance(3), Some(510));
    let dir = read_sfnt_dir(&bytes, 0).unwrap();
    assert_eq!(checksum(&bytes), 0xB1B0AFBA);
    println!("ok {} tables", dir.num_tables);
}
