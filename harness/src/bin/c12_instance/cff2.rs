//! C12, CFF2 part: a writer for complete CFF2 tables from the abstract fonts of MC_Cff2Instance and an
//! independent reader (no allsorts code) of CFF2 tables: INDEX, DICT, FDSelect, FDArray, Private DICT
//! (vsindex entry, local subroutines), VariationStore (region list, region index list of every
//! ItemVariationData).  Charstrings stay bytes: the TLA+ judge interprets them.
use vh::fontgen::W;

// ---------------------------------------------------------------------------------------------
// writer
// ---------------------------------------------------------------------------------------------

pub struct FdSpec {
    /// `n vsindex` entry of the Private DICT, None: no entry
    pub vsindex: Option<u16>,
    pub lsubrs: Vec<Vec<u8>>,
}

pub struct Cff2Spec {
    pub axis_count: u16,
    /// regions[r][axis] = (start, peak, end), F2Dot14 raw
    pub regions: Vec<Vec<[i16; 3]>>,
    /// region index list of every ItemVariationData
    pub ivds: Vec<Vec<u16>>,
    pub fds: Vec<FdSpec>,
    /// Font DICT of every glyph
    pub sel: Vec<u8>,
    pub sel_fmt: u8,
    pub gsubrs: Vec<Vec<u8>>,
    pub glyphs: Vec<Vec<u8>>,
}

fn off_size_for(v: usize) -> u8 {
    if v < 0x100 {
        1
    } else if v < 0x10000 {
        2
    } else if v < 0x1000000 {
        3
    } else {
        4
    }
}

/// CFF2 INDEX: count (u32), offSize, offsets, data; an empty INDEX is the count alone
pub fn index(objs: &[Vec<u8>]) -> Vec<u8> {
    let mut w = W::new();
    w.u32(objs.len() as u32);
    if objs.is_empty() {
        return w.done();
    }
    let total: usize = objs.iter().map(|o| o.len()).sum();
    let os = off_size_for(total + 1);
    w.u8(os);
    let mut off = 1usize;
    let put = |w: &mut W, v: usize| {
        for k in (0..os).rev() {
            w.u8((v >> (8 * k as usize)) as u8);
        }
    };
    put(&mut w, off);
    for o in objs {
        off += o.len();
        put(&mut w, off);
    }
    for o in objs {
        w.bytes(o);
    }
    w.done()
}

fn dict_int5(v: &mut Vec<u8>, n: u32) {
    v.push(29);
    v.extend_from_slice(&n.to_be_bytes());
}

fn dict_int(v: &mut Vec<u8>, n: i32) {
    if (-107..=107).contains(&n) {
        v.push((n + 139) as u8);
    } else if (108..=1131).contains(&n) {
        let m = n - 108;
        v.push((m >> 8) as u8 + 247);
        v.push(m as u8);
    } else {
        v.push(28);
        v.extend_from_slice(&(n as i16).to_be_bytes());
    }
}

pub fn vstore_bytes(axis_count: u16, regions: &[Vec<[i16; 3]>], ivds: &[Vec<u16>]) -> Vec<u8> {
    let mut ivs = W::new();
    let header = 8 + 4 * ivds.len();
    ivs.u16(1).u32(header as u32).u16(ivds.len() as u16);
    let region_list = 4 + regions.len() * axis_count as usize * 6;
    let mut off = header + region_list;
    for d in ivds {
        ivs.u32(off as u32);
        off += 6 + 2 * d.len();
    }
    ivs.u16(axis_count).u16(regions.len() as u16);
    for r in regions {
        assert_eq!(r.len(), axis_count as usize);
        for a in r {
            ivs.i16(a[0]).i16(a[1]).i16(a[2]);
        }
    }
    for d in ivds {
        ivs.u16(0).u16(0).u16(d.len() as u16);
        for r in d {
            ivs.u16(*r);
        }
    }
    let ivs = ivs.done();
    let mut w = W::new();
    w.u16(ivs.len() as u16).bytes(&ivs);
    w.done()
}

fn fdselect_bytes(sel: &[u8], fmt: u8) -> Vec<u8> {
    let mut w = W::new();
    w.u8(fmt);
    if fmt == 0 {
        for f in sel {
            w.u8(*f);
        }
    } else {
        let mut ranges: Vec<(u16, u8)> = Vec::new();
        for (g, f) in sel.iter().enumerate() {
            if ranges.last().map(|r| r.1) != Some(*f) {
                ranges.push((g as u16, *f));
            }
        }
        w.u16(ranges.len() as u16);
        for (g, f) in ranges {
            w.u16(g).u8(f);
        }
        w.u16(sel.len() as u16);
    }
    w.done()
}

/// header | Top DICT | Global Subr INDEX | VariationStore | CharStrings | FDSelect | FDArray |
/// (Private DICT, Local Subr INDEX) per Font DICT
pub fn build_cff2(s: &Cff2Spec) -> Vec<u8> {
    let multi = s.fds.len() > 1;
    let top_len = 6 + 7 + 6 + if multi { 7 } else { 0 };
    let gsubr = index(&s.gsubrs);
    let vstore = vstore_bytes(s.axis_count, &s.regions, &s.ivds);
    let chars = index(&s.glyphs);
    let fdsel = if multi { fdselect_bytes(&s.sel, s.sel_fmt) } else { Vec::new() };
    let vstore_off = 5 + top_len + gsubr.len();
    let chars_off = vstore_off + vstore.len();
    let fdsel_off = chars_off + chars.len();
    let fdarray_off = fdsel_off + fdsel.len();
    // Private DICTs
    let privs: Vec<(Vec<u8>, Vec<u8>)> = s
        .fds
        .iter()
        .map(|fd| {
            let mut p = Vec::new();
            if let Some(v) = fd.vsindex {
                dict_int(&mut p, v as i32);
                p.push(22);
            }
            // BlueValues with blended operands: k deltas per value, k = region count of the ItemVariationData
            // this Private DICT selects (its instance must come out without vsindex / blend)
            let k = s.ivds.get(fd.vsindex.unwrap_or(0) as usize).map(|d| d.len()).unwrap_or(0);
            dict_int(&mut p, -12);
            dict_int(&mut p, 12);
            for v in 0..2 {
                for j in 0..k {
                    dict_int(&mut p, (3 * v + j as i32) - 2);
                }
            }
            dict_int(&mut p, 2);
            p.push(23); // blend
            p.push(6); // BlueValues
            dict_int(&mut p, 7);
            p.extend_from_slice(&[12, 10]); // BlueShift
            let subrs = if fd.lsubrs.is_empty() { Vec::new() } else { index(&fd.lsubrs) };
            if !fd.lsubrs.is_empty() {
                // offset of the local subroutines relative to the start of the Private DICT
                let len = p.len() + 6;
                dict_int5(&mut p, len as u32);
                p.push(19);
            }
            (p, subrs)
        })
        .collect();
    let fdarray_len = 4 + 1 + (s.fds.len() + 1) * off_size_for(11 * s.fds.len() + 1) as usize + 11 * s.fds.len();
    let mut off = fdarray_off + fdarray_len;
    let mut font_dicts = Vec::new();
    for (p, subrs) in &privs {
        let mut d = Vec::new();
        dict_int5(&mut d, p.len() as u32);
        dict_int5(&mut d, off as u32);
        d.push(18);
        font_dicts.push(d);
        off += p.len() + subrs.len();
    }
    let fdarray = index(&font_dicts);
    assert_eq!(fdarray.len(), fdarray_len);
    let mut top = Vec::new();
    dict_int5(&mut top, chars_off as u32);
    top.push(17);
    dict_int5(&mut top, fdarray_off as u32);
    top.extend_from_slice(&[12, 36]);
    dict_int5(&mut top, vstore_off as u32);
    top.push(24);
    if multi {
        dict_int5(&mut top, fdsel_off as u32);
        top.extend_from_slice(&[12, 37]);
    }
    assert_eq!(top.len(), top_len);
    let mut w = W::new();
    w.u8(2).u8(0).u8(5).u16(top.len() as u16);
    w.bytes(&top).bytes(&gsubr).bytes(&vstore).bytes(&chars).bytes(&fdsel).bytes(&fdarray);
    for (p, subrs) in &privs {
        w.bytes(p).bytes(subrs);
    }
    w.done()
}

// ---------------------------------------------------------------------------------------------
// reader
// ---------------------------------------------------------------------------------------------

fn be(d: &[u8], at: usize, n: usize) -> Option<usize> {
    let s = d.get(at..at.checked_add(n)?)?;
    Some(s.iter().fold(0usize, |a, &b| (a << 8) | b as usize))
}

fn bi16(d: &[u8], at: usize) -> Option<i16> {
    Some(be(d, at, 2)? as u16 as i16)
}

/// objects of a CFF2 INDEX and the position after it
fn read_index(d: &[u8], at: usize) -> Option<(Vec<Vec<u8>>, usize)> {
    let count = be(d, at, 4)?;
    if count == 0 {
        return Some((Vec::new(), at + 4));
    }
    let os = *d.get(at + 4)? as usize;
    if !(1..=4).contains(&os) {
        return None;
    }
    let offs = at + 5;
    let data0 = offs + (count + 1) * os - 1;
    let mut v = Vec::with_capacity(count);
    let mut prev = be(d, offs, os)?;
    for i in 1..=count {
        let o = be(d, offs + i * os, os)?;
        if o < prev {
            return None;
        }
        v.push(d.get(data0 + prev..data0 + o)?.to_vec());
        prev = o;
    }
    Some((v, data0 + prev))
}

/// (operator, operands) in order; operator 12 x is 0x0c00 | x; operands as f64
fn read_dict(d: &[u8]) -> Option<Vec<(u16, Vec<f64>)>> {
    let mut out = Vec::new();
    let mut st: Vec<f64> = Vec::new();
    let mut p = 0;
    while p < d.len() {
        let b = d[p];
        match b {
            28 => {
                st.push(bi16(d, p + 1)? as f64);
                p += 3;
            }
            29 => {
                st.push(be(d, p + 1, 4)? as u32 as i32 as f64);
                p += 5;
            }
            30 => {
                let mut s = String::new();
                p += 1;
                'real: loop {
                    let byte = *d.get(p)?;
                    p += 1;
                    for nib in [byte >> 4, byte & 15] {
                        match nib {
                            0..=9 => s.push((b'0' + nib) as char),
                            10 => s.push('.'),
                            11 => s.push('E'),
                            12 => s.push_str("E-"),
                            14 => s.push('-'),
                            15 => break 'real,
                            _ => return None,
                        }
                    }
                }
                st.push(s.parse().ok()?);
            }
            32..=246 => {
                st.push(b as f64 - 139.0);
                p += 1;
            }
            247..=250 => {
                st.push(((b as i32 - 247) * 256 + *d.get(p + 1)? as i32 + 108) as f64);
                p += 2;
            }
            251..=254 => {
                st.push((-(b as i32 - 251) * 256 - *d.get(p + 1)? as i32 - 108) as f64);
                p += 2;
            }
            12 => {
                out.push((0x0c00 | *d.get(p + 1)? as u16, std::mem::take(&mut st)));
                p += 2;
            }
            0..=27 | 31 | 255 => {
                out.push((b as u16, std::mem::take(&mut st)));
                p += 1;
            }
        }
    }
    Some(out)
}

fn dict_get(dict: &[(u16, Vec<f64>)], op: u16) -> Option<&Vec<f64>> {
    dict.iter().find(|e| e.0 == op).map(|e| &e.1)
}

pub struct RFd {
    /// the `vsindex` entry of the Private DICT, -1: no entry
    pub vsindex: i64,
    pub lsubrs: Vec<Vec<u8>>,
    /// the Private DICT holds a `vsindex` or a `blend` operator
    pub variable: bool,
}

pub struct RVstore {
    pub regions: Vec<Vec<[i16; 3]>>,
    pub ivds: Vec<Vec<u16>>,
}

pub struct RCff2 {
    pub gsubrs: Vec<Vec<u8>>,
    pub glyphs: Vec<Vec<u8>>,
    pub fds: Vec<RFd>,
    /// Font DICT of every glyph
    pub sel: Vec<usize>,
    pub vstore: Option<RVstore>,
}

fn read_vstore(d: &[u8], at: usize) -> Option<RVstore> {
    let ivs = at + 2; // the length field first
    if be(d, ivs, 2)? != 1 {
        return None;
    }
    let rl = ivs + be(d, ivs + 2, 4)?;
    let n = be(d, ivs + 6, 2)?;
    let axes = be(d, rl, 2)?;
    let nr = be(d, rl + 2, 2)?;
    let mut regions = Vec::new();
    for r in 0..nr {
        let mut reg = Vec::new();
        for a in 0..axes {
            let p = rl + 4 + (r * axes + a) * 6;
            reg.push([bi16(d, p)?, bi16(d, p + 2)?, bi16(d, p + 4)?]);
        }
        regions.push(reg);
    }
    let mut ivds = Vec::new();
    for i in 0..n {
        let o = ivs + be(d, ivs + 8 + 4 * i, 4)?;
        let k = be(d, o + 4, 2)?;
        ivds.push((0..k).map(|j| be(d, o + 6 + 2 * j, 2).map(|v| v as u16)).collect::<Option<Vec<u16>>>()?);
    }
    Some(RVstore { regions, ivds })
}

fn read_fdselect(d: &[u8], at: usize, n: usize) -> Option<Vec<usize>> {
    match *d.get(at)? {
        0 => (0..n).map(|g| d.get(at + 1 + g).map(|v| *v as usize)).collect(),
        fmt @ (3 | 4) => {
            let (cw, rw, fw) = if fmt == 3 { (2, 2, 1) } else { (4, 4, 2) };
            let nr = be(d, at + 1, cw)?;
            let mut sel = vec![usize::MAX; n];
            for r in 0..nr {
                let p = at + 1 + cw + r * (rw + fw);
                let first = be(d, p, rw)?;
                let fd = be(d, p + rw, fw)?;
                let next = be(d, p + rw + fw, rw)?;
                for g in first..next.min(n) {
                    sel[g] = fd;
                }
            }
            if sel.iter().any(|f| *f == usize::MAX) {
                return None;
            }
            Some(sel)
        }
        _ => None,
    }
}

pub fn parse_cff2(d: &[u8]) -> Option<RCff2> {
    if *d.first()? != 2 {
        return None;
    }
    let hdr = *d.get(2)? as usize;
    let top_len = be(d, 3, 2)?;
    let top = read_dict(d.get(hdr..hdr + top_len)?)?;
    let (gsubrs, _) = read_index(d, hdr + top_len)?;
    let chars_off = *dict_get(&top, 17)?.last()? as usize;
    let (glyphs, _) = read_index(d, chars_off)?;
    let fdarray_off = *dict_get(&top, 0x0c24)?.last()? as usize;
    let (font_dicts, _) = read_index(d, fdarray_off)?;
    let mut fds = Vec::new();
    for fdict in &font_dicts {
        let fdict = read_dict(fdict)?;
        let pr = dict_get(&fdict, 18)?;
        let (size, off) = (*pr.first()? as usize, *pr.get(1)? as usize);
        let private = read_dict(d.get(off..off + size)?)?;
        let vsindex = dict_get(&private, 22).and_then(|v| v.last()).map(|v| *v as i64).unwrap_or(-1);
        let lsubrs = match dict_get(&private, 19).and_then(|v| v.last()) {
            Some(rel) => read_index(d, off + *rel as usize)?.0,
            None => Vec::new(),
        };
        let variable = private.iter().any(|e| e.0 == 22 || e.0 == 23);
        fds.push(RFd { vsindex, lsubrs, variable });
    }
    let sel = match dict_get(&top, 0x0c25).and_then(|v| v.last()) {
        Some(off) => read_fdselect(d, *off as usize, glyphs.len())?,
        None => vec![0; glyphs.len()],
    };
    let vstore = match dict_get(&top, 24).and_then(|v| v.last()) {
        Some(off) => Some(read_vstore(d, *off as usize)?),
        None => None,
    };
    Some(RCff2 { gsubrs, glyphs, fds, sel, vstore })
}
