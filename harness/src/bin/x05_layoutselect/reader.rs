//! Independent reader of the ScriptList / FeatureList / FeatureVariations structure of a GSUB or
//! GPOS table (no allsorts code): raw big-endian reads with bounds checks, returning the abstract
//! font of LayoutSelect.tla as JSON: {sl, fl, fv, nl}. None = the table is not well formed enough
//! to be described (offsets out of range ...); such tables are skipped by `record`.
use serde_json::{json, Value};

fn u16at(d: &[u8], at: usize) -> Option<usize> {
    d.get(at..at + 2).map(|b| u16::from_be_bytes([b[0], b[1]]) as usize)
}
fn i16at(d: &[u8], at: usize) -> Option<i64> {
    d.get(at..at + 2).map(|b| i16::from_be_bytes([b[0], b[1]]) as i64)
}
fn u32at(d: &[u8], at: usize) -> Option<usize> {
    d.get(at..at + 4).map(|b| u32::from_be_bytes([b[0], b[1], b[2], b[3]]) as usize)
}
fn tagat(d: &[u8], at: usize) -> Option<String> {
    u32at(d, at).map(|v| super::tag_text(v as u32))
}

fn langsys(d: &[u8], at: usize) -> Option<Value> {
    let req = u16at(d, at + 2)?;
    let n = u16at(d, at + 4)?;
    let mut f = Vec::new();
    for k in 0..n {
        f.push(u16at(d, at + 6 + 2 * k)?);
    }
    Some(json!({"n": 0, "r": if req == 0xFFFF { -1 } else { req as i64 }, "f": f}))
}

fn feature(d: &[u8], at: usize) -> Option<Vec<usize>> {
    let n = u16at(d, at + 2)?;
    let mut lk = Vec::new();
    for k in 0..n {
        lk.push(u16at(d, at + 4 + 2 * k)?);
    }
    Some(lk)
}

pub fn read_layout(d: &[u8]) -> Option<Value> {
    let major = u16at(d, 0)?;
    let minor = u16at(d, 2)?;
    if major != 1 {
        return None;
    }
    let (slo, flo, llo) = (u16at(d, 4)?, u16at(d, 6)?, u16at(d, 8)?);
    let mut sl = Vec::new();
    if slo != 0 {
        let n = u16at(d, slo)?;
        for k in 0..n {
            let tag = tagat(d, slo + 2 + 6 * k)?;
            let st = slo + u16at(d, slo + 2 + 6 * k + 4)?;
            let dflt = u16at(d, st)?;
            let dls = if dflt == 0 { json!({"n": 1, "r": -1, "f": []}) } else { langsys(d, st + dflt)? };
            let m = u16at(d, st + 2)?;
            let mut ls = Vec::new();
            for j in 0..m {
                let lt = tagat(d, st + 4 + 6 * j)?;
                let lo = u16at(d, st + 4 + 6 * j + 4)?;
                ls.push(json!({"tag": lt, "l": langsys(d, st + lo)?}));
            }
            sl.push(json!({"tag": tag, "d": dls, "ls": ls}));
        }
    }
    let mut fl = Vec::new();
    if flo != 0 {
        let n = u16at(d, flo)?;
        for k in 0..n {
            let tag = tagat(d, flo + 2 + 6 * k)?;
            let ft = flo + u16at(d, flo + 2 + 6 * k + 4)?;
            fl.push(json!({"tag": tag, "lk": feature(d, ft)?}));
        }
    }
    let nl = if llo != 0 { u16at(d, llo)? } else { 0 };
    let mut fv = Vec::new();
    if minor >= 1 {
        let fvo = u32at(d, 10)?;
        if fvo != 0 {
            if u16at(d, fvo)? != 1 {
                return None;
            }
            let n = u32at(d, fvo + 4)?;
            for k in 0..n {
                let cso = u32at(d, fvo + 8 + 8 * k)?;
                let fso = u32at(d, fvo + 8 + 8 * k + 4)?;
                let mut conds = Vec::new();
                if cso != 0 {
                    let cs = fvo + cso;
                    let cn = u16at(d, cs)?;
                    for j in 0..cn {
                        let c = cs + u32at(d, cs + 2 + 4 * j)?;
                        if u16at(d, c)? != 1 {
                            return None; // unknown condition format: C04 / C05 territory
                        }
                        conds.push(json!({"ax": u16at(d, c + 2)?, "lo": i16at(d, c + 4)?, "hi": i16at(d, c + 6)?}));
                    }
                }
                let mut subs = Vec::new();
                if fso != 0 {
                    let fs = fvo + fso;
                    if u16at(d, fs)? != 1 {
                        return None;
                    }
                    let sn = u16at(d, fs + 4)?;
                    for j in 0..sn {
                        let fi = u16at(d, fs + 6 + 6 * j)?;
                        let alt = fs + u32at(d, fs + 6 + 6 * j + 2)?;
                        subs.push(json!({"fi": fi, "lk": feature(d, alt)?}));
                    }
                }
                fv.push(json!({"c": conds, "s": subs}));
            }
        }
    }
    // feature indices must exist (otherwise the accessors report an error, not a selection)
    for s in &sl {
        let mut all = vec![&s["d"]];
        for l in s["ls"].as_array().unwrap() {
            all.push(&l["l"]);
        }
        for ls in all {
            if ls["f"].as_array().unwrap().iter().any(|i| i.as_u64().unwrap() as usize >= fl.len()) {
                return None;
            }
            if ls["r"].as_i64().unwrap() >= fl.len() as i64 {
                return None;
            }
        }
    }
    Some(json!({"sl": sl, "fl": fl, "fv": fv, "nl": nl}))
}
