//! X10 harness: cluster reordering and feature tagging of the Khmer and Myanmar shapers.
//!
//! The shapers are observed through the PUBLIC path `Font::map_glyphs` + `Font::shape` on the
//! specification's own fonts (printed by MC_Reorder as FONT lines: features, lookup order, glyph states,
//! transitions; encoded here into a real GSUB of single substitutions): glyph = (character, state), the
//! state left on a glyph tells which features fired on it (Khmer: one bit per feature) or how many stages
//! fired in order (Myanmar).  The order of the shaped glyphs is the reordering.
//! The cluster boundaries of a run are an INPUT of the judge; they come from the `#[cfg(allsorts_verif)]`
//! hooks `scripts::{khmer,myanmar}::verif_syllables` (X07's subject).
//!
//!   x10_reorder replay <spec.ndjson> <cases.ndjson> <mismatches.ndjson> <variants>
//!       spec.ndjson = the FONT and ALPHA lines.  Every CASE {f, r, e, x}: r = class string of the text;
//!       for `variants` choices of real code points (ALPHA) shape the text and compare [[id, state]..] with
//!       `e` (primary reading) and the alternatives `x` (Dev_ readings) by JSON equality.  ids: i = text
//!       index, -i = the U+17C1 inserted before the split vowel at i, 0 = dotted circle.  Cases the real
//!       segmentation does not treat as ONE cluster are counted (`not_one_cluster`), not compared.
//!   x10_reorder record <spec.ndjson> <seed> <n-per-family> <trace.ndjson>
//!       seeded random texts (cluster-shaped and arbitrary) over the blocks; one event per call for
//!       Trace_Reorder; plus the same through the repository's Khmer / Myanmar fonts (glyph order only).
//!   x10_reorder one <spec.ndjson> <family> <trace.ndjson> <hex cp>...     (one event, for --replay)
//!   x10_reorder shape <spec.ndjson> <family> <hex cp>...                  (probe)
//! The harness decides nothing: it records what allsorts returned.
use allsorts::binary::read::ReadScope;
use allsorts::font::MatchingPresentation;
use allsorts::font_data::FontData;
use allsorts::gsub::{FeatureMask, Features, GlyphOrigin, RawGlyph};
use allsorts::scripts::{khmer, myanmar};
use allsorts::Font;
use rand::rngs::StdRng;
use rand::{Rng, SeedableRng};
use serde_json::{json, Value};
use std::collections::{BTreeMap, HashMap};
use vh::fontgen::{tag_u32, GlyphSpec, TtFont};
use vh::sup::{guarded, Outcome};
use vh::util::{read_ndjson, repo_root, NdWriter};

type DynFont = Font<allsorts::font_data::DynamicFontTableProvider<'static>>;

const JOINERS: [u32; 2] = [0x200C, 0x200D];

fn universe(fam: &str) -> Vec<u32> {
    let mut v: Vec<u32> = Vec::new();
    match fam {
        "khmer" => {
            v.extend(0x1780..=0x17FF);
            v.extend(0x19E0..=0x19FF);
            v.extend_from_slice(&[0x20, 0x41, 0xA0, 0x2010, 0x2011, 0x2012, 0x2013, 0x2014, 0x25CC]);
        }
        "myanmar" => {
            v.extend(0x1000..=0x109F);
            v.extend(0xAA60..=0xAA7F);
            v.extend(0xA9E0..=0xA9FF);
            v.extend_from_slice(&[0x20, 0x2D, 0x41, 0xA0, 0xD7, 0x2012, 0x2013, 0x2014, 0x2015, 0x2022, 0x25CC, 0x25FB, 0xFE00]);
        }
        _ => panic!("family"),
    }
    v.sort();
    v.dedup();
    v
}

// ---- own small GSUB encoder (as in x02_joining) ---------------------------------------------------
struct Obj {
    d: Vec<u8>,
    refs: Vec<(usize, usize)>,
    kids: Vec<Obj>,
}
impl Obj {
    fn new() -> Obj {
        Obj { d: Vec::new(), refs: Vec::new(), kids: Vec::new() }
    }
    fn u16(&mut self, v: u16) -> &mut Obj {
        self.d.extend_from_slice(&v.to_be_bytes());
        self
    }
    fn tag(&mut self, t: &str) -> &mut Obj {
        assert_eq!(t.len(), 4, "tag {:?}", t);
        self.d.extend_from_slice(t.as_bytes());
        self
    }
    fn off16(&mut self, child: Obj) -> &mut Obj {
        self.refs.push((self.d.len(), self.kids.len()));
        self.kids.push(child);
        self.u16(0)
    }
    fn flatten(self) -> Vec<u8> {
        let mut out = self.d;
        let mut at = Vec::new();
        for k in self.kids {
            at.push(out.len());
            out.extend(k.flatten());
        }
        for (pos, kid) in self.refs {
            let off = at[kid];
            assert!(off <= 0xFFFF, "16-bit offset overflow");
            out[pos..pos + 2].copy_from_slice(&(off as u16).to_be_bytes());
        }
        out
    }
}

struct Built {
    fam: String,
    script: String,
    bytes: &'static [u8],
    n: usize,
    chars: Vec<u32>,
    states: Vec<i64>,
    n_glyphs: usize,
}

impl Built {
    /// (state, character) of a glyph of the state block
    fn decode(&self, gid: u16) -> Option<(i64, u32)> {
        let g = gid as usize;
        if g == 0 || g > self.states.len() * self.n {
            return None;
        }
        Some((self.states[(g - 1) / self.n], self.chars[(g - 1) % self.n]))
    }
}

fn build(v: &Value) -> Built {
    let s = |x: &Value| x.as_str().expect("string").to_string();
    let i = |x: &Value| x.as_i64().expect("int");
    let a = |x: &Value| x.as_array().expect("array").clone();
    let fam = s(&v["fam"]);
    let script = s(&v["script"]);
    let feats: Vec<(String, usize)> = a(&v["feats"]).iter().map(|f| (s(&f["tag"]), i(&f["lookup"]) as usize)).collect();
    let mut states: Vec<i64> = a(&v["states"]).iter().map(i).collect();
    states.sort();
    let trans: Vec<(usize, i64, i64)> = a(&v["trans"]).iter().map(|t| (i(&t[0]) as usize, i(&t[1]), i(&t[2]))).collect();
    let uni = universe(&fam);
    let chars: Vec<u32> = uni.iter().cloned().filter(|c| !JOINERS.contains(c)).collect();
    let n = chars.len();
    let ns = states.len();
    assert_eq!(states[0], 0);
    let n_glyphs = 1 + ns * n + JOINERS.len();
    assert!(n_glyphs <= 0xFFFF, "too many glyphs: {}", n_glyphs);

    let n_lookups = feats.len();
    let mut lookups: Vec<Option<Obj>> = (0..n_lookups).map(|_| None).collect();
    for (fk, (_tag, li)) in feats.iter().enumerate() {
        let trs: Vec<&(usize, i64, i64)> = trans.iter().filter(|t| t.0 == fk + 1).collect();
        let mut lk = Obj::new();
        lk.u16(1).u16(0).u16(trs.len() as u16);
        for t in trs {
            let from = states.binary_search(&t.1).expect("from state");
            let to = states.binary_search(&t.2).expect("to state");
            let first = 1 + from * n;
            let delta = (((to as i64 - from as i64) * n as i64).rem_euclid(65536)) as u16;
            let mut cov = Obj::new();
            cov.u16(2).u16(1).u16(first as u16).u16((first + n - 1) as u16).u16(0);
            let mut st = Obj::new();
            st.u16(1).off16(cov).u16(delta);
            lk.off16(st);
        }
        assert!(lookups[*li].is_none(), "lookup index used twice");
        lookups[*li] = Some(lk);
    }
    let mut ll = Obj::new();
    ll.u16(n_lookups as u16);
    for l in lookups {
        ll.off16(l.expect("every lookup index used"));
    }
    let mut order: Vec<usize> = (0..feats.len()).collect();
    order.sort_by(|x, y| feats[*x].0.cmp(&feats[*y].0));
    let mut fl = Obj::new();
    fl.u16(feats.len() as u16);
    for k in &order {
        let mut ft = Obj::new();
        ft.u16(0).u16(1).u16(feats[*k].1 as u16);
        fl.tag(&feats[*k].0).off16(ft);
    }
    let mut ls = Obj::new();
    ls.u16(0).u16(0xFFFF).u16(feats.len() as u16);
    for p in 0..feats.len() {
        ls.u16(p as u16);
    }
    let mut sc = Obj::new();
    sc.off16(ls).u16(0);
    let mut sl = Obj::new();
    sl.u16(1).tag(&script).off16(sc);
    let mut gsub = Obj::new();
    gsub.u16(1).u16(0).off16(sl).off16(fl).off16(ll);
    let gsub_bytes = gsub.flatten();

    let mut cmap: Vec<(u32, u16)> = chars.iter().enumerate().map(|(k, c)| (*c, (1 + k) as u16)).collect();
    for (k, c) in JOINERS.iter().enumerate() {
        cmap.push((*c, (1 + ns * n + k) as u16));
    }
    let f = TtFont {
        glyphs: (0..n_glyphs).map(|_| GlyphSpec::Empty).collect(),
        metrics: (0..n_glyphs).map(|_| (500u16, 0i16)).collect(),
        num_h_metrics: 1,
        cmap,
        extra_tables: vec![("GSUB".into(), gsub_bytes)],
        loca_long: false,
    };
    let bytes: &'static [u8] = Box::leak(f.build().into_boxed_slice());
    Built { fam, script, bytes, n, chars, states, n_glyphs }
}

struct SpecIn {
    fonts: BTreeMap<String, Built>,
    alpha: BTreeMap<String, BTreeMap<String, Vec<u32>>>,
}

fn load_spec(path: &str) -> SpecIn {
    let mut fonts = BTreeMap::new();
    let mut alpha = BTreeMap::new();
    for v in read_ndjson(path) {
        if v.get("fam").is_some() {
            let b = build(&v);
            fonts.insert(b.fam.clone(), b);
        } else {
            for (fam, m) in v.as_object().expect("alpha") {
                let mut mm = BTreeMap::new();
                for (c, l) in m.as_object().expect("classes") {
                    mm.insert(c.clone(), l.as_array().unwrap().iter().map(|x| x.as_u64().unwrap() as u32).collect());
                }
                alpha.insert(fam.clone(), mm);
            }
        }
    }
    assert!(fonts.contains_key("khmer") && fonts.contains_key("myanmar") && alpha.len() == 2, "spec file incomplete");
    SpecIn { fonts, alpha }
}

fn open_bytes(bytes: &'static [u8]) -> DynFont {
    let fd = ReadScope::new(bytes).read::<FontData<'static>>().expect("FontData");
    let prov = fd.table_provider(0).expect("provider");
    Font::new(prov).expect("Font::new")
}

// ---- one supervised call -------------------------------------------------------------------------
#[derive(Default)]
struct Shaped {
    run: Vec<u32>,            // characters map_glyphs handed to shape (after text preprocessing)
    seg: Vec<(Vec<i64>, String)>, // clusters of the run (1-based positions, 0 = inserted dotted circle), kind
    out: Vec<(u32, i64)>,     // (first character of the shaped glyph, state; -1 no state / -2 other character / -3 not observed)
    err: String,
    panic: String,
}

const DC_PROBE: u16 = 0xFFFE;

fn segment(fam: &str, glyphs: &[RawGlyph<()>]) -> Vec<(Vec<i64>, String)> {
    // glyph indices are replaced by positions so that the hook's answer can be projected
    let mut g2: Vec<RawGlyph<()>> = glyphs.to_vec();
    for (k, g) in g2.iter_mut().enumerate() {
        g.glyph_index = (k + 1) as u16;
    }
    let raw = match fam {
        "khmer" => khmer::verif_syllables(DC_PROBE, &g2),
        "myanmar" => myanmar::verif_syllables(&g2),
        _ => panic!("family"),
    };
    raw.into_iter()
        .map(|(idx, kind)| (idx.iter().map(|g| if *g == DC_PROBE { 0 } else { *g as i64 }).collect(), kind.to_string()))
        .collect()
}

fn shape_text(fam: &str, script: u32, font: &mut DynFont, decode: Option<&Built>, cps: &[u32]) -> Shaped {
    let text: String = cps.iter().map(|c| char::from_u32(*c).expect("scalar")).collect();
    let mut sh = Shaped::default();
    let r = guarded(|| {
        let glyphs = font.map_glyphs(&text, script, MatchingPresentation::NotRequired);
        let run: Vec<u32> = glyphs
            .iter()
            .map(|g| match g.glyph_origin {
                GlyphOrigin::Char(c) => c as u32,
                GlyphOrigin::Direct => 0,
            })
            .collect();
        let seg = segment(fam, &glyphs);
        let res = font.shape(glyphs, script, None, &Features::Mask(FeatureMask::default()), None, false);
        (run, seg, res)
    });
    match r {
        Outcome::Panicked(m) => sh.panic = m,
        Outcome::Returned((run, seg, res)) => {
            sh.run = run;
            sh.seg = seg;
            let infos = match res {
                Ok(i) => i,
                Err((e, i)) => {
                    sh.err = format!("{:?}", e);
                    i
                }
            };
            for info in infos {
                match decode {
                    Some(b) => {
                        let ch = info.glyph.unicodes.first().map(|c| *c as u32).unwrap_or(0);
                        let st = match b.decode(info.glyph.glyph_index) {
                            Some((id, c)) if c == ch => id,
                            Some(_) => -2,
                            None => -1,
                        };
                        sh.out.push((ch, st));
                    }
                    None => {
                        // a repository font: ligatures merge glyphs; the characters they stand for, in order
                        for c in info.glyph.unicodes.iter() {
                            sh.out.push((*c as u32, -3));
                        }
                    }
                }
            }
        }
    }
    sh
}

fn event(i: usize, case: &str, fam: &str, font: &str, text: &[u32], sh: &Shaped) -> Value {
    json!({"i": i, "case": case, "ev": "Shape",
           "a": {"f": fam, "font": font, "text": text, "run": sh.run,
                 "seg": sh.seg.iter().map(|(p, k)| json!([p, k])).collect::<Vec<_>>()},
           "o": {"out": sh.out.iter().map(|(c, s)| json!([c, s])).collect::<Vec<_>>(), "err": sh.err, "panic": sh.panic}})
}

fn bump(m: &mut BTreeMap<String, usize>, k: &str) {
    *m.entry(k.to_string()).or_default() += 1;
}

// ---- replay ---------------------------------------------------------------------------------------
fn concretise(alpha: &BTreeMap<String, Vec<u32>>, r: &[String], variant: usize) -> Vec<u32> {
    let mut seen: HashMap<&str, usize> = HashMap::new();
    r.iter()
        .map(|c| {
            let l = alpha.get(c.as_str()).unwrap_or_else(|| panic!("class {} not in ALPHA", c));
            let k = seen.entry(c.as_str()).or_insert(0);
            let cp = l[(variant + *k) % l.len()];
            *k += 1;
            cp
        })
        .collect()
}

fn cp_of_id(text: &[u32], id: i64) -> u32 {
    if id > 0 {
        text[(id - 1) as usize]
    } else if id < 0 {
        0x17C1
    } else {
        0x25CC
    }
}

fn replay(spec: &str, cases: &str, out: &str, variants: usize) {
    let sp = load_spec(spec);
    let mut fonts: BTreeMap<String, DynFont> = sp.fonts.iter().map(|(k, b)| (k.clone(), open_bytes(b.bytes))).collect();
    let mut w = NdWriter::create(out);
    let (mut n_cases, mut runs, mut ok_primary, mut ok_dev, mut mism, mut not_one, mut panics) = (0usize, 0usize, 0usize, 0usize, 0usize, 0usize, 0usize);
    let mut per_fam: BTreeMap<String, usize> = BTreeMap::new();
    let mut moved: BTreeMap<String, usize> = BTreeMap::new();
    let file = std::fs::File::open(cases).expect("cases");
    use std::io::BufRead;
    for (ln, line) in std::io::BufReader::new(file).lines().enumerate() {
        let line = line.expect("line");
        if line.trim().is_empty() {
            continue;
        }
        let c: Value = serde_json::from_str(&line).expect("case json");
        let fam = c["f"].as_str().expect("f").to_string();
        let planted = c.get("id").and_then(|x| x.as_str()).unwrap_or("").to_string();
        let r: Vec<String> = c["r"].as_array().unwrap().iter().map(|x| x.as_str().unwrap().to_string()).collect();
        let b = &sp.fonts[&fam];
        let script = tag_u32(if fam == "myanmar" { "mymr" } else { &b.script });
        n_cases += 1;
        bump(&mut per_fam, &fam);
        // vacuity counters from the generated expectation (inputs, not what allsorts did)
        let e = c["e"].as_array().unwrap();
        let ids: Vec<i64> = e.iter().map(|p| p[0].as_i64().unwrap()).collect();
        if ids.contains(&0) {
            bump(&mut moved, &format!("{}|circle", fam));
        }
        if ids.iter().any(|x| *x < 0) {
            bump(&mut moved, &format!("{}|split", fam));
        }
        let mut sorted = ids.clone();
        sorted.sort_by_key(|x| x.abs() * 2 - if *x < 0 { 1 } else { 0 });
        if sorted != ids {
            bump(&mut moved, &format!("{}|reordered", fam));
        }
        if !c["x"].as_array().unwrap().is_empty() {
            bump(&mut moved, &format!("{}|dev_readings_differ", fam));
        }
        for class in ["VPre", "MR", "A", "VBlw", "H", "Ra", "Split", "VS"] {
            if r.iter().any(|x| x == class) {
                bump(&mut moved, &format!("{}|has|{}", fam, class));
            }
        }
        if fam == "myanmar" && r.len() >= 3 && r[0] == "Ra" && r[1] == "As" && r[2] == "H" {
            bump(&mut moved, "myanmar|kinzi");
        }
        for variant in 0..variants {
            let text = concretise(&sp.alpha[&fam], &r, variant);
            let sh = shape_text(&fam, script, fonts.get_mut(&fam).unwrap(), Some(b), &text);
            runs += 1;
            if !sh.panic.is_empty() {
                panics += 1;
            }
            if sh.panic.is_empty() && sh.seg.len() != 1 && planted.is_empty() {
                not_one += 1;
                bump(&mut moved, &format!("{}|not_one_cluster", fam));
                continue;
            }
            let got: Vec<Value> = sh.out.iter().map(|(cp, st)| json!([cp, st])).collect();
            let conc = |exp: &Value| -> Vec<Value> {
                exp.as_array().unwrap().iter().map(|p| json!([cp_of_id(&text, p[0].as_i64().unwrap()), p[1].as_i64().unwrap()])).collect()
            };
            let clean = sh.panic.is_empty() && sh.err.is_empty();
            if clean && got == conc(&c["e"]) {
                ok_primary += 1;
            } else if clean && c["x"].as_array().unwrap().iter().any(|x| got == conc(x)) {
                ok_dev += 1;
            } else {
                mism += 1;
                if mism <= 3000 || !planted.is_empty() {
                    let mut ev = event(ln, "gen", &fam, "spec", &text, &sh);
                    ev["id"] = json!(planted);
                    ev["r"] = json!(r);
                    ev["variant"] = json!(variant);
                    ev["want"] = json!(conc(&c["e"]));
                    w.write(&ev);
                }
            }
        }
    }
    w.finish();
    println!(
        "{}",
        json!({"cases": n_cases, "runs": runs, "ok_primary": ok_primary, "ok_dev_reading": ok_dev, "mismatches": mism,
               "not_one_cluster": not_one, "panics": panics, "per_family": per_fam, "counters": moved,
               "glyphs": sp.fonts.iter().map(|(k, b)| (k.clone(), b.n_glyphs)).collect::<BTreeMap<_, _>>()})
    );
}

// ---- record ---------------------------------------------------------------------------------------
fn random_text(fam: &str, alpha: &BTreeMap<String, Vec<u32>>, uni: &[u32], rng: &mut StdRng) -> Vec<u32> {
    let mut t: Vec<u32> = Vec::new();
    let pick = |rng: &mut StdRng, c: &str| -> u32 {
        let l = &alpha[c];
        l[rng.gen_range(0..l.len())]
    };
    let pick_any = |rng: &mut StdRng, cs: &[&str]| -> u32 {
        let c = cs[rng.gen_range(0..cs.len())];
        pick(rng, c)
    };
    let n_clusters = rng.gen_range(1..=3);
    for _ in 0..n_clusters {
        let style = rng.gen_range(0..10);
        if style == 0 {
            // arbitrary characters of the blocks
            for _ in 0..rng.gen_range(1..=5) {
                t.push(uni[rng.gen_range(0..uni.len())]);
            }
            continue;
        }
        if fam == "khmer" {
            if rng.gen_range(0..8) != 0 {
                t.push(pick_any(rng, &["C", "C", "C", "Ra", "V", "GB", "DC"]));
            }
            if rng.gen_range(0..4) == 0 {
                t.push(pick_any(rng, &["RS", "N"]));
            }
            for _ in 0..rng.gen_range(0..=3) {
                t.push(pick(rng, "H"));
                t.push(pick_any(rng, &["C", "C", "Ra", "Ra", "V"]));
            }
            for _ in 0..rng.gen_range(0..=2) {
                if rng.gen_range(0..6) == 0 {
                    t.push(pick_any(rng, &["ZWJ", "ZWNJ"]));
                }
                t.push(pick_any(rng, &["VPre", "M", "M", "Split"]));
            }
            if rng.gen_range(0..4) == 0 {
                t.push(pick(rng, "H"));
                t.push(pick_any(rng, &["C", "Ra"]));
            }
            if rng.gen_range(0..3) == 0 {
                t.push(pick(rng, "SM"));
            }
        } else {
            let with_base = rng.gen_range(0..8) != 0;
            if with_base {
                if rng.gen_range(0..4) == 0 {
                    t.push(pick(rng, "Ra"));
                    t.push(pick(rng, "As"));
                    t.push(pick(rng, "H"));
                }
                t.push(pick_any(rng, &["C", "C", "Ra", "IV", "GB"]));
                if rng.gen_range(0..8) == 0 {
                    t.push(pick(rng, "VS"));
                }
                for _ in 0..rng.gen_range(0..=1) {
                    if rng.gen_range(0..3) == 0 {
                        t.push(pick(rng, "H"));
                        t.push(pick_any(rng, &["C", "Ra"]));
                    }
                }
            }
            let order = ["As", "MY", "As", "MR", "MW", "MH", "ML", "VPre", "VPre", "VAbv", "VBlw", "VBlw", "A", "A", "DB", "As", "VPst", "MH", "As", "VAbv", "A", "DB", "PT", "A", "SM", "ZWJ"];
            let density = rng.gen_range(1..=4);
            for c in order {
                if rng.gen_range(0..10) < density {
                    t.push(pick(rng, c));
                }
            }
            if style == 1 {
                // a sign out of its documented place
                let at = rng.gen_range(0..=t.len());
                t.insert(at, pick_any(rng, &["VPre", "MR", "VBlw", "A", "VS"]));
            }
        }
    }
    if t.is_empty() {
        t.push(uni[rng.gen_range(0..uni.len())]);
    }
    t
}

fn repo_fonts_of(fam: &str) -> Vec<(String, &'static [u8])> {
    let root = repo_root();
    let names: &[&str] = match fam {
        "khmer" => &["tests/fonts/khmer/Battambang-Regular.ttf", "tests/fonts/noto/NotoSansKhmer-Regular.ttf", "tests/fonts/noto/NotoSerifKhmer-Regular.ttf"],
        _ => &["tests/fonts/myanmar/Padauk-Regular.ttf"],
    };
    let mut v = Vec::new();
    for n in names {
        if let Ok(d) = std::fs::read(format!("{}/{}", root, n)) {
            let b: &'static [u8] = Box::leak(d.into_boxed_slice());
            v.push((n.rsplit('/').next().unwrap().to_string(), b));
        }
    }
    v
}

fn record(spec: &str, seed: u64, per_fam: usize, out: &str) {
    let sp = load_spec(spec);
    let mut w = NdWriter::create(out);
    let mut rng = StdRng::seed_from_u64(seed);
    let (mut events, mut panics, mut errors, mut repo_events) = (0usize, 0usize, 0usize, 0usize);
    let mut kinds: BTreeMap<String, usize> = BTreeMap::new();
    for fam in ["khmer", "myanmar"] {
        let b = &sp.fonts[fam];
        let script = tag_u32(if fam == "myanmar" { "mymr" } else { &b.script });
        let uni: Vec<u32> = universe(fam).into_iter().filter(|c| char::from_u32(*c).is_some()).collect();
        let mut font = open_bytes(b.bytes);
        let mut repo: Vec<(String, DynFont)> = repo_fonts_of(fam).into_iter().map(|(n, d)| (n, open_bytes(d))).collect();
        for k in 0..per_fam {
            let text = random_text(fam, &sp.alpha[fam], &uni, &mut rng);
            let sh = shape_text(fam, script, &mut font, Some(b), &text);
            for (_, kind) in &sh.seg {
                bump(&mut kinds, &format!("{}|{}", fam, kind));
            }
            if !sh.panic.is_empty() {
                panics += 1;
            }
            if !sh.err.is_empty() {
                errors += 1;
            }
            w.write(&event(events, &format!("{}-{}", fam, k), fam, "spec", &text, &sh));
            events += 1;
            if k % 4 == 0 && !repo.is_empty() {
                let n = repo.len();
                let (name, rf) = &mut repo[(k / 4) % n];
                let sh = shape_text(fam, script, rf, None, &text);
                if !sh.panic.is_empty() {
                    panics += 1;
                }
                w.write(&event(events, &format!("{}-{}-{}", fam, k, name), fam, name, &text, &sh));
                events += 1;
                repo_events += 1;
            }
        }
    }
    w.finish();
    println!("{}", json!({"events": events, "repo_font_events": repo_events, "panics": panics, "shape_errors": errors, "clusters": kinds}));
}

fn hex_cps(args: &[String]) -> Vec<u32> {
    args.iter().map(|a| u32::from_str_radix(a.trim_start_matches("U+"), 16).expect("hex cp")).collect()
}

fn main() {
    vh::sup::install_quiet_panic_hook();
    let args: Vec<String> = std::env::args().collect();
    match args.get(1).map(|s| s.as_str()) {
        Some("replay") => replay(&args[2], &args[3], &args[4], args.get(5).map(|s| s.parse().unwrap()).unwrap_or(2)),
        Some("record") => record(&args[2], args[3].parse().expect("seed"), args[4].parse().expect("n"), &args[5]),
        Some("classes") => {
            // the grammar terminals allsorts assigns (X07's input table), for cross-checking Reorder's class tables
            let mut out: BTreeMap<String, BTreeMap<String, Vec<u32>>> = BTreeMap::new();
            for fam in ["khmer", "myanmar"] {
                let mut m: BTreeMap<String, Vec<u32>> = BTreeMap::new();
                for cp in universe(fam) {
                    if let Some(ch) = char::from_u32(cp) {
                        let c = if fam == "khmer" { khmer::verif_class(ch) } else { myanmar::verif_class(ch) };
                        m.entry(c).or_default().push(cp);
                    }
                }
                out.insert(fam.to_string(), m);
            }
            std::fs::write(&args[2], serde_json::to_string(&out).unwrap()).expect("write");
            println!("{}", json!({"families": 2}));
        }
        Some("one") | Some("shape") => {
            let sp = load_spec(&args[2]);
            let fam = args[3].clone();
            let probe = args[1] == "shape";
            let cps = hex_cps(&args[if probe { 4 } else { 5 }..]);
            let b = &sp.fonts[&fam];
            let script = tag_u32(if fam == "myanmar" { "mymr" } else { &b.script });
            let mut font = open_bytes(b.bytes);
            let sh = shape_text(&fam, script, &mut font, Some(b), &cps);
            let ev = event(0, "one", &fam, "spec", &cps, &sh);
            if probe {
                println!("run {:04X?}\nseg {:?}\nout {}\nerr {:?} panic {:?}", sh.run, sh.seg,
                         sh.out.iter().map(|(c, s)| format!("{:04X}:{}", c, s)).collect::<Vec<_>>().join(" "), sh.err, sh.panic);
            } else {
                let mut w = NdWriter::create(&args[4]);
                w.write(&ev);
                w.finish();
                println!("{}", json!({"events": 1}));
            }
        }
        _ => {
            eprintln!("usage: x10_reorder replay|record|one|shape ...");
            std::process::exit(2);
        }
    }
}
