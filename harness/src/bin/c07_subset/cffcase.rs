//! Replay of the CASEs of MC_SubsetCff (spec -> impl, name-keyed CFF).
//!
//!   c07_subset replay-cff <cases.ndjson> <mismatches.ndjson>
//!
//! Every case names an abstract name-keyed font (names, plain / accented glyphs, metrics), a representation
//! (Subset.tla CffRep: header size, offSize, Top DICT order, charset / Encoding form, block order, Private DICT
//! variants) and a request.  The font is written by cffrep.rs, `subset::subset` and `subset::prince::subset` are
//! called, and the output is projected back to the vocabulary of the spec in two ways:
//!   vis  the outline allsorts' own CFF visitor delivers for each new glyph, contour by contour recognised as
//!        <<shape token, dx, dy>> (compared when the visitor reads the SOURCE as the model does: nested accented
//!        glyphs are C18's subject, counted otherwise)
//!   ind  the output's charset and charstrings read by the independent readers (ind.rs), accented glyphs resolved
//!        as Subset.tla CffFlat does: StandardEncoding code -> SID -> the glyph the OUTPUT's charset gives that
//!        name -> its charstring (recognised by its bytes, which the subsetter copies)
//! and advance / lsb from the output's hmtx.  Compared with the prescription by JSON equality.
use super::cffrep::{self, Cs, Enc, Fd, FontSpec, Rep};
use super::cffw::standard_encoding_sid;
use super::ind::{self, Tables};
use super::{guarded, panic_key, prince, subset, visit_cff_bytes, visit_many, Outcome, PrinceCmapTarget};
use allsorts::binary::read::ReadScope;
use allsorts::font_data::FontData;
use serde_json::{json, Value};
use std::collections::BTreeMap;
use std::io::{BufRead, BufReader};
use vh::fontgen;
use vh::util::NdWriter;

const RMOVETO: u8 = 21;
const RLINETO: u8 = 5;
const CALLSUBR: u8 = 10;
const RETURN: u8 = 11;
const ENDCHAR: u8 = 14;
const CALLGSUBR: u8 = 29;
const FINE: i64 = 16384;

fn num(v: i64) -> Vec<u8> {
    super::cffw::dict_int(v as i32)
}

fn op(args: &[i64], o: u8) -> Vec<u8> {
    let mut v: Vec<u8> = args.iter().flat_map(|a| num(*a)).collect();
    v.push(o);
    v
}

/// The contour of shape token t (absolute points): distinct edge vectors for every t.
pub fn shape(t: i64) -> [(i64, i64); 4] {
    let p0 = (10 + 7 * t, 20 + 3 * t);
    let p1 = (p0.0 + 40 + t, p0.1 + 5);
    let p2 = (p1.0 - 15, p1.1 + 30 + 2 * t);
    let p3 = (p2.0 - 20 - t, p2.1 + 4);
    [p0, p1, p2, p3]
}

fn plain(t: i64, w: Option<i32>, subrs: bool) -> Vec<u8> {
    let s = shape(t);
    let mut v = Vec::new();
    if let Some(w) = w {
        v.extend(num(w as i64));
    }
    v.extend(op(&[s[0].0, s[0].1], RMOVETO));
    v.extend(op(&[s[1].0 - s[0].0, s[1].1 - s[0].1], RLINETO));
    if subrs {
        // the operands of the subroutine's rlineto come from the caller
        v.extend(op(&[s[2].0 - s[1].0, s[2].1 - s[1].1, -107], CALLSUBR));
        v.extend(op(&[s[3].0 - s[2].0, s[3].1 - s[2].1, -107], CALLGSUBR));
    } else {
        v.extend(op(&[s[2].0 - s[1].0, s[2].1 - s[1].1], RLINETO));
        v.extend(op(&[s[3].0 - s[2].0, s[3].1 - s[2].1], RLINETO));
    }
    v.push(ENDCHAR);
    v
}

fn ints(v: &Value) -> Vec<i64> {
    v.as_array().map(|a| a.iter().map(|x| x.as_i64().expect("int")).collect()).unwrap_or_default()
}

fn rep_of(r: &Value) -> Rep {
    Rep {
        hdr_size: r["hdr"].as_u64().expect("hdr") as u8,
        hdr_off_size: r["hoff"].as_u64().expect("hoff") as u8,
        index_off_size: match r["ioff"].as_u64().expect("ioff") {
            0 => None,
            o => Some(o as u8),
        },
        top_order: r["top"].as_u64().expect("top") as usize,
        short_offsets: r["short"].as_bool().expect("short"),
        charset: match r["charset"].as_str().expect("charset") {
            "f0" => Cs::F0,
            "f1" => Cs::F1,
            "f2" => Cs::F2,
            "iso-omitted" => Cs::IsoOmitted,
            "iso-0" => Cs::Predefined(0),
            x => panic!("charset {}", x),
        },
        encoding: match r["enc"].as_str().expect("enc") {
            "absent" => Enc::Absent,
            "standard" => Enc::Standard,
            "expert" => Enc::Expert,
            "custom0" => Enc::Custom0,
            "custom1" => Enc::Custom1,
            x => panic!("encoding {}", x),
        },
        fdselect_fmt: 0,
        block_order: r["blocks"].as_u64().expect("blocks") as usize,
        subrs_gap: r["gap"].as_u64().expect("gap") as usize,
        priv_order: r["priv"].as_u64().expect("priv") as usize,
    }
}

struct CaseFont {
    file: Vec<u8>,
    charstrings: Vec<Vec<u8>>,
}

fn build_case_font(case: &Value) -> CaseFont {
    let n = case["n"].as_u64().expect("n") as usize;
    let nhm = case["nhm"].as_u64().expect("nhm") as usize;
    let adv = ints(&case["adv"]);
    let lsb = ints(&case["lsb"]);
    let names: Vec<u16> = ints(&case["names"]).iter().skip(1).map(|&s| s as u16).collect();
    let rp = &case["rep"];
    let subrs = rp["subrs"].as_bool().expect("subrs");
    let widths = rp["widths"].as_u64().expect("widths");
    let fd = Fd {
        lsubrs: if subrs { Some(vec![vec![RLINETO, RETURN], [op(&[90, 90], RLINETO), vec![RETURN]].concat()]) } else { None },
        dwx: if widths & 1 != 0 { Some(adv[0] as i32) } else { None },
        nwx: if widths & 2 != 0 { Some(380) } else { None },
    };
    let width_of = |g: usize| -> Option<i32> {
        let a = adv[g.min(nhm - 1)] as i32;
        match (fd.dwx, fd.nwx) {
            (Some(d), _) if d == a => None,
            (_, Some(nw)) => Some(a - nw),
            (_, None) => Some(a),
        }
    };
    let mut glyphs = Vec::new();
    for g in 0..n {
        let c = ints(&case["glyphs"][g]);
        if c[0] == 0 {
            glyphs.push(plain(c[1], width_of(g), subrs));
        } else {
            // <<1, bchar, achar, adx, ady>>; every other accented glyph without a width operand of its own
            let mut v = Vec::new();
            if let (Some(w), true) = (width_of(g), g % 2 == 1) {
                v.extend(num(w as i64));
            }
            v.extend(op(&[c[3], c[4], c[1], c[2]], ENDCHAR));
            glyphs.push(v);
        }
    }
    let spec = FontSpec {
        cid: false,
        glyphs: glyphs.clone(),
        gsubrs: if subrs { vec![vec![RLINETO, RETURN], [op(&[80, 80], RLINETO), vec![RETURN]].concat()] } else { vec![] },
        fds: vec![fd],
        fdselect: vec![],
        names,
    };
    let table = cffrep::build(&spec, &rep_of(rp));
    let long: Vec<(u16, i16)> = (0..nhm).map(|g| (adv[g] as u16, lsb[g] as i16)).collect();
    let lsbs: Vec<i16> = (nhm..n).map(|g| lsb[g] as i16).collect();
    let pairs: Vec<(u16, u16)> = (1..n).map(|g| (0x40 + g as u16, g as u16)).collect();
    let tables: Vec<(String, Vec<u8>)> = vec![
        ("head".into(), fontgen::head(1000, false, (0, 0, 1000, 1000))),
        ("hhea".into(), fontgen::hhea(nhm as u16, 800, -200, 1500)),
        ("maxp".into(), fontgen::maxp_cff(n as u16)),
        ("OS/2".into(), fontgen::os2_v4(0x41, 0x41 + n as u16)),
        ("hmtx".into(), fontgen::hmtx(&long, &lsbs)),
        ("cmap".into(), fontgen::cmap_format4(&pairs)),
        ("name".into(), fontgen::name(&[(0, "none"), (1, "VerifCase"), (2, "Regular"), (4, "VerifCase Regular"), (6, "VerifCase-Regular")])),
        ("post".into(), fontgen::post_v3()),
        ("CFF ".into(), table),
    ];
    CaseFont { file: fontgen::build_sfnt(0x4F54544F, &tables), charstrings: glyphs }
}

/// The command list of allsorts' visitor as the spec's outline: one <<token, dx, dy>> per contour.
fn project(v: &Value, n: i64) -> Value {
    if v["ok"] != json!(true) {
        return json!([[-1, 0, 0]]);
    }
    let mut out: Vec<Value> = Vec::new();
    let mut cur: Vec<(i64, i64)> = Vec::new();
    let empty = vec![];
    let cmds = v["cmds"].as_array().unwrap_or(&empty);
    let mut bad = false;
    for c in cmds {
        let c = ints(c);
        match c[0] {
            1 => {
                if !cur.is_empty() {
                    bad = true;
                }
                cur = vec![(c[1], c[2])];
            }
            2 => cur.push((c[1], c[2])),
            5 => {
                let mut found = None;
                if cur.len() == 4 {
                    for t in 0..n {
                        let s = shape(t);
                        let (dx, dy) = (cur[0].0 - s[0].0 * FINE, cur[0].1 - s[0].1 * FINE);
                        if dx % FINE == 0 && dy % FINE == 0 && (0..4).all(|k| cur[k].0 == s[k].0 * FINE + dx && cur[k].1 == s[k].1 * FINE + dy) {
                            found = Some(json!([t, dx / FINE, dy / FINE]));
                        }
                    }
                }
                match found {
                    Some(f) => out.push(f),
                    None => bad = true,
                }
                cur.clear();
            }
            _ => bad = true,
        }
    }
    if bad || !cur.is_empty() {
        return json!([[-2, 0, 0]]);
    }
    json!(out)
}

/// CffFlat of Subset.tla on a font given as (names, glyph definitions): <<token, dx, dy>> per leaf, None = no outline.
fn flat(names: &[u16], defs: &[Option<Vec<i64>>], g: i64, fuel: usize) -> Option<Vec<(i64, i64, i64)>> {
    if g < 0 || g as usize >= defs.len() {
        return None;
    }
    let c = defs[g as usize].as_ref()?;
    if c[0] == 0 {
        return Some(vec![(c[1], 0, 0)]);
    }
    if fuel == 0 {
        return None;
    }
    let of_code = |code: i64| -> i64 {
        let sid = if (0..=255).contains(&code) { standard_encoding_sid(code as u8) } else { 0 };
        if sid == 0 {
            return 0;
        }
        names.iter().enumerate().skip(1).find(|(_, s)| **s == sid).map(|(g, _)| g as i64).unwrap_or(-1)
    };
    let b = flat(names, defs, of_code(c[1]), fuel - 1)?;
    let a = flat(names, defs, of_code(c[2]), fuel - 1)?;
    let mut out = b;
    out.extend(a.into_iter().map(|(t, dx, dy)| (t, dx + c[3], dy + c[4])));
    Some(out)
}

fn flat_json(r: Option<Vec<(i64, i64, i64)>>) -> Value {
    match r {
        Some(ls) => json!(ls.iter().map(|x| json!([x.0, x.1, x.2])).collect::<Vec<_>>()),
        None => json!([[-1, 0, 0]]),
    }
}

pub fn replay_cff(cases: &str, mism_path: &str) {
    let mut mism = NdWriter::create(mism_path);
    let f = std::fs::File::open(cases).unwrap_or_else(|e| panic!("open {}: {}", cases, e));
    let (mut n_cases, mut n_mism, mut calls, mut refused) = (0usize, 0usize, 0usize, 0usize);
    let mut feat: BTreeMap<String, u64> = BTreeMap::new();
    let mut src_not_as_model = 0usize;
    let mut vis_compared = 0usize;
    for line in BufReader::new(f).lines() {
        let line = line.expect("read");
        if line.trim().is_empty() {
            continue;
        }
        let case: Value = serde_json::from_str(&line).expect("case json");
        n_cases += 1;
        let n = case["n"].as_i64().expect("n");
        let req: Vec<u16> = ints(&case["req"]).iter().map(|&g| g as u16).collect();
        let closed = ints(&case["closed"]);
        let defs: Vec<Option<Vec<i64>>> = (0..n as usize).map(|g| Some(ints(&case["glyphs"][g]))).collect();
        let src_names: Vec<u16> = ints(&case["names"]).iter().map(|&s| s as u16).collect();
        let font = build_case_font(&case);
        // ---- what the case exercises (inputs only)
        {
            let mut bump = |k: String| *feat.entry(k).or_default() += 1;
            let rp = &case["rep"];
            for k in ["hdr", "hoff", "ioff", "top", "short", "charset", "enc", "blocks", "gap", "priv", "subrs", "widths"] {
                bump(format!("rep:{}={}", k, rp[k].to_string().replace('"', "")));
            }
            let iso = src_names.iter().enumerate().all(|(g, s)| *s as usize == g);
            bump(format!("names:{}", if iso { "isoadobe-order" } else { "other-order" }));
            let prefix = req.iter().enumerate().all(|(i, g)| *g as usize == i);
            for (i, g) in req.iter().enumerate() {
                if defs[*g as usize].as_ref().unwrap()[0] == 1 {
                    let cl = closed[i] == 1;
                    bump(format!("accented:{}", if cl { "components-requested" } else { "component-not-requested" }));
                    if cl && prefix && req.len() > 1 {
                        bump(format!("accented:closed-in-prefix-request:{}", if iso { "isoadobe-order" } else { "other-order" }));
                    }
                    if cl && !prefix {
                        bump("accented:closed-in-permuted-request".to_string());
                    }
                    if cl && case["srcdraw"][i] == json!([[-1, 0, 0]]) {
                        bump("accented:source-has-no-outline".to_string());
                    }
                }
            }
        }
        // the harness's own reading of its own bytes: names and charstrings are what the case says
        let src_tables = Tables::from_sfnt(&font.file, 0).expect("own sfnt");
        let src_cff = src_tables.get("CFF ").expect("own CFF");
        assert_eq!(ind::cff_names(src_cff).expect("own charset readable"), src_names, "own charset as the case says");
        for g in 0..n as usize {
            assert_eq!(ind::cff_charstring(src_cff, g).expect("own charstring"), font.charstrings[g]);
        }
        let fd = ReadScope::new(&font.file).read::<FontData<'_>>().expect("FontData of synthesized font");
        let prov = fd.table_provider(0).expect("provider of synthesized font");
        // does allsorts' visitor read the SOURCE as the model does?
        let srcvis: Vec<Value> = visit_many(&prov, &req).iter().map(|v| project(v, n)).collect();
        let as_model: Vec<bool> = (0..req.len()).map(|i| srcvis[i] == case["srcdraw"][i]).collect();
        src_not_as_model += as_model.iter().filter(|x| !**x).count();
        let exp = &case["exp"];
        for api in ["subset", "prince"] {
            calls += 1;
            let result = match api {
                "subset" => guarded(|| subset(&prov, &req).map_err(|e| format!("{:?}", e))),
                _ => guarded(|| prince::subset(&prov, &req, PrinceCmapTarget::Unrestricted, false).map_err(|e| format!("{:?}", e))),
            };
            let mut what: std::collections::BTreeSet<String> = std::collections::BTreeSet::new();
            let mut ctx: std::collections::BTreeSet<&str> = std::collections::BTreeSet::new();
            let obs = match &result {
                Outcome::Returned(Ok(bytes)) => {
                    let (cff, metrics): (Option<Vec<u8>>, Option<(Vec<u16>, Vec<i16>)>) = if api == "subset" {
                        match Tables::from_sfnt(bytes, 0) {
                            Some(t) => (t.get("CFF ").map(|c| c.to_vec()), t.h_metrics().ok()),
                            None => (None, None),
                        }
                    } else {
                        (Some(bytes.clone()), None)
                    };
                    match cff {
                        None => json!({"fail": "output has no CFF table"}),
                        Some(cff) => {
                            // the output may be anything: the independent walk is guarded like a call of allsorts
                            let walked = guarded(|| {
                                let n_out = ind::cff_facts(&cff).map(|f| f.n_glyphs)?;
                                let names = ind::cff_names(&cff)?;
                                let cs: Vec<Option<Vec<u8>>> = (0..n_out).map(|g| ind::cff_charstring(&cff, g)).collect();
                                Some((n_out, names, cs))
                            });
                            match walked {
                                Outcome::Returned(Some((n_out, names, cs))) => {
                                    // every output charstring recognised by its bytes as a glyph of the case
                                    let odefs: Vec<Option<Vec<i64>>> =
                                        cs.iter().map(|c| c.as_ref().and_then(|c| font.charstrings.iter().position(|s| s == c)).and_then(|g| defs[g].clone())).collect();
                                    let news: Vec<u16> = (0..n_out as u16).collect();
                                    let vis = visit_cff_bytes(&cff, &news);
                                    let glyphs: Vec<Value> = (0..n_out)
                                        .map(|k| {
                                            let (a, l) = match &metrics {
                                                Some((a, l)) => (json!(a.get(k).map(|&v| v as i64).unwrap_or(-1)), json!(l.get(k).map(|&v| v as i64).unwrap_or(-99999))),
                                                None => (json!("-"), json!("-")),
                                            };
                                            json!([project(&vis[k], n), flat_json(flat(&names, &odefs, k as i64, n as usize)), a, l])
                                        })
                                        .collect();
                                    json!({"n": n_out, "glyphs": glyphs})
                                }
                                _ => json!({"fail": "output CFF table not walkable"}),
                            }
                        }
                    }
                }
                Outcome::Returned(Err(e)) => {
                    // a refusal is outside "a successful subset"
                    refused += 1;
                    *feat.entry(format!("refused:{}", e.chars().take(40).collect::<String>())).or_default() += 1;
                    continue;
                }
                Outcome::Panicked(m) => json!({"fail": format!("Panic:{}", panic_key(m))}),
            };
            if let Some(fl) = obs.get("fail") {
                what.insert(format!("failed:{}", fl.as_str().unwrap_or("?").chars().take(60).collect::<String>()));
            } else if obs["n"] != exp["n"] {
                what.insert("glyph-count".to_string());
            } else {
                for i in 0..req.len() {
                    let (e, o) = (&exp["glyphs"][i], &obs["glyphs"][i]);
                    let accented = defs[req[i] as usize].as_ref().unwrap()[0] == 1;
                    let mut bad = false;
                    if as_model[i] {
                        vis_compared += 1;
                        if o[0] != e[0] {
                            what.insert("outline".to_string());
                            bad = true;
                        }
                    }
                    if o[1] != e[0] {
                        what.insert("outline-ind".to_string());
                        bad = true;
                    }
                    if api == "subset" && o[2] != e[1] {
                        what.insert("advance".to_string());
                    }
                    if api == "subset" && o[3] != e[2] {
                        what.insert("lsb".to_string());
                    }
                    if bad && accented {
                        ctx.insert("accented");
                    }
                }
            }
            if what.is_empty() {
                continue;
            }
            if case["rep"]["charset"] == "iso-omitted" && ctx.contains("accented") {
                ctx.insert("no-charset-operator");
            }
            n_mism += 1;
            let mut input = case.clone();
            input.as_object_mut().unwrap().remove("exp");
            mism.write(&json!({"case": n_cases, "api": api, "class": what.into_iter().collect::<Vec<_>>().join("+"), "ctx": ctx.into_iter().collect::<Vec<_>>().join(","),
                               "input": input, "exp": exp, "obs": obs}));
        }
    }
    mism.finish();
    println!(
        "{}",
        json!({"cases": n_cases, "calls": calls, "mismatches": n_mism, "refused": refused, "glyphs_source_not_read_as_model": src_not_as_model,
               "glyphs_compared_through_visitor": vis_compared, "features": feat})
    );
}
