//! Representation choices of a glyf source (Subset.tla, "representation choices of the source"): the same
//! abstract font written in the legal but unusual ways a file may use.  Everything here is the harness's
//! own writer; nothing calls allsorts.
//!   ncc      numberOfContours of a composite: -1, -2, -32768 (any negative value means composite)
//!   loca     short | long (where short would do) | long-unpadded (odd offsets) | long-gaps (unused bytes)
//!   empty    no bytes (equal consecutive loca offsets) | a record with numberOfContours = 0 (the only form
//!            that can carry instructions)
//!   simple   short vectors | word deltas with REPEAT flags | OVERLAP_SIMPLE on the first flag
//!   dir      table directory sorted by tag | not sorted
use super::glyph::{self, GlyphRec, Kind};
use super::ind::Tables;
use vh::fontgen::{self, checksum, tag_u32, GlyphSpec, Pt, W};

/// numberOfContours of a record (its first word) set to `nc`
pub fn with_nc(mut rec: Vec<u8>, nc: i16) -> Vec<u8> {
    rec[0..2].copy_from_slice(&nc.to_be_bytes());
    rec
}

/// A simple glyph in the flag / coordinate encoding `style`.
pub fn simple_record(contours: Vec<Vec<Pt>>, instr: Vec<u8>, style: &str) -> Vec<u8> {
    match style {
        "words-repeat" => {
            let mut ends = vec![];
            let mut pts = vec![];
            for c in &contours {
                for p in c {
                    pts.push((p.x, p.y, p.on));
                }
                ends.push(pts.len() as u16 - 1);
            }
            let mut r = GlyphRec { kind: Kind::Simple, ends, pts, instr, bbox: [0; 4], comps: vec![] };
            r.bbox = r.computed_bbox();
            glyph::write_glyph(&r, 1)
        }
        "overlap-bit" => {
            let n_contours = contours.len();
            let il = instr.len();
            let mut r = fontgen::encode_glyph(&GlyphSpec::Simple { contours, instructions: instr }, None);
            // OVERLAP_SIMPLE (bit 6) on the first flag byte
            r[10 + 2 * n_contours + 2 + il] |= 0x40;
            r
        }
        _ => fontgen::encode_glyph(&GlyphSpec::Simple { contours, instructions: instr }, None),
    }
}

/// A glyph without contours: no bytes, or a record with numberOfContours = 0, an empty bounding box and
/// the instruction block (always when there are instructions).
pub fn empty_record(instr: &[u8], form: &str) -> Vec<u8> {
    if instr.is_empty() && form == "no-bytes" {
        return vec![];
    }
    let mut w = W::new();
    w.i16(0).i16(0).i16(0).i16(0).i16(0).u16(instr.len() as u16).bytes(instr);
    w.done()
}

/// glyf and loca under a loca representation; returns (glyf, loca, indexToLocFormat is long).
/// "long-gaps": four bytes that belong to no record follow every record that has bytes (a loca reader sees
/// them as trailing bytes of that glyph; a glyph without bytes keeps two equal offsets).
pub fn glyf_loca(records: &[Vec<u8>], loca: &str) -> (Vec<u8>, Vec<u8>, bool) {
    let long = loca != "short";
    let mut glyf: Vec<u8> = Vec::new();
    let mut table: Vec<u32> = Vec::new();
    for r in records {
        table.push(glyf.len() as u32);
        glyf.extend_from_slice(r);
        match loca {
            "short" => {
                if glyf.len() % 2 == 1 {
                    glyf.push(0);
                }
            }
            "long" => {
                while glyf.len() % 4 != 0 {
                    glyf.push(0);
                }
            }
            "long-gaps" => {
                if !r.is_empty() {
                    glyf.extend_from_slice(&[0xAA, 0x55, 0xAA, 0x55]);
                }
            }
            _ => {}
        }
    }
    table.push(glyf.len() as u32);
    let mut l = W::new();
    for o in &table {
        if long {
            l.u32(*o);
        } else {
            l.u16((*o / 2) as u16);
        }
    }
    (glyf, l.done(), long)
}

/// An sfnt whose table directory is NOT sorted by tag (descending); table data in the given order.
pub fn build_sfnt_unsorted(version: u32, tables: &[(String, Vec<u8>)]) -> Vec<u8> {
    let n = tables.len() as u16;
    let mut es = 0u16;
    while (1u32 << (es + 1)) <= n as u32 {
        es += 1;
    }
    let sr = (1u16 << es).wrapping_mul(16);
    let mut w = W::new();
    w.u32(version).u16(n).u16(sr).u16(es).u16(n.wrapping_mul(16).wrapping_sub(sr));
    let dir_at = w.len();
    for _ in 0..n {
        w.u32(0).u32(0).u32(0).u32(0);
    }
    let mut recs: Vec<(u32, u32, u32, u32)> = Vec::new();
    let mut head_off = None;
    for (tag, data) in tables {
        let off = w.len() as u32;
        let mut d = data.clone();
        if tag == "head" && d.len() >= 12 {
            d[8..12].copy_from_slice(&[0, 0, 0, 0]);
            head_off = Some(off as usize);
        }
        recs.push((tag_u32(tag), checksum(&d), off, d.len() as u32));
        w.bytes(&d);
        w.pad4();
    }
    recs.sort_by_key(|r| std::cmp::Reverse(r.0));
    for (i, r) in recs.iter().enumerate() {
        let at = dir_at + 16 * i;
        w.set_u32(at, r.0);
        w.set_u32(at + 4, r.1);
        w.set_u32(at + 8, r.2);
        w.set_u32(at + 12, r.3);
    }
    if let Some(h) = head_off {
        let total = checksum(&w.0);
        w.set_u32(h + 8, 0xB1B0AFBAu32.wrapping_sub(total));
    }
    w.done()
}

/// A repository glyf font written again under another representation: every composite's numberOfContours
/// becomes `nc`, records are stored under a long loca without padding (`unpadded`) or under the loca format
/// of the source, the table directory is left sorted or not.  Records are copied byte for byte otherwise.
/// Returns the new file and its tables (read back by the independent sfnt reader).
pub fn reencode(t: &Tables, nc: i16, unpadded: bool, unsorted: bool) -> Option<(Vec<u8>, Tables)> {
    let n = t.num_glyphs()?;
    let long = t.loca_long()?;
    let glyf = t.get("glyf")?;
    let offs = glyph::read_loca(t.get("loca")?, long, n).ok()?;
    let mut records: Vec<Vec<u8>> = Vec::with_capacity(n);
    for k in 0..n {
        let (a, b) = (offs[k] as usize, offs[k + 1] as usize);
        let mut r = glyf.get(a..b)?.to_vec();
        if r.len() >= 2 && i16::from_be_bytes([r[0], r[1]]) < 0 {
            r = with_nc(r, nc);
        }
        records.push(r);
    }
    let (g2, l2, long2) = if unpadded {
        // a record's trailing padding stays part of it; the records simply follow each other
        glyf_loca(&records, "long-unpadded")
    } else {
        glyf_loca(&records, if long { "long" } else { "short" })
    };
    let mut tables: Vec<(String, Vec<u8>)> = Vec::new();
    for tag in &t.order {
        let name = fontgen::tag_str(*tag);
        let data = match name.as_str() {
            "glyf" => g2.clone(),
            "loca" => l2.clone(),
            "head" => {
                let mut h = t.map[tag].clone();
                if h.len() >= 52 {
                    h[50..52].copy_from_slice(&(long2 as u16).to_be_bytes());
                }
                h
            }
            _ => t.map[tag].clone(),
        };
        tables.push((name, data));
    }
    let file = if unsorted { build_sfnt_unsorted(t.flavor, &tables) } else { fontgen::build_sfnt(t.flavor, &tables) };
    let t2 = Tables::from_sfnt(&file, 0)?;
    Some((file, t2))
}
