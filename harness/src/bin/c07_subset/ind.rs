//! Independent views of a font for C07 (nothing here calls allsorts): table sets sliced out of an
//! sfnt by the harness's own directory reader, glyph records / component lists / horizontal
//! metrics through c07_subset/glyph.rs, a structural classification of CFF tables, and the
//! harness's own WOFF 1 writer used to re-wrap repository fonts.
#![allow(dead_code)]
use super::glyph::{self, GlyphRec, Kind};
use flate2::write::ZlibEncoder;
use flate2::Compression;
use std::collections::BTreeMap;
use std::io::Write;
use vh::fontgen::{be16, be32, read_sfnt_dir, tag_u32, W};

#[derive(Clone, Default)]
pub struct Tables {
    pub flavor: u32,
    /// physical order of the source file (what a re-encoder sees)
    pub order: Vec<u32>,
    pub map: BTreeMap<u32, Vec<u8>>,
}

impl Tables {
    pub fn from_sfnt(d: &[u8], at: usize) -> Option<Tables> {
        let dir = read_sfnt_dir(d, at)?;
        let mut recs = dir.records.clone();
        recs.sort_by_key(|r| r.2);
        let mut t = Tables { flavor: dir.version, order: vec![], map: BTreeMap::new() };
        for r in recs {
            let b = d.get(r.2 as usize..(r.2 as usize).checked_add(r.3 as usize)?)?;
            t.order.push(r.0);
            t.map.insert(r.0, b.to_vec());
        }
        Some(t)
    }
    pub fn get(&self, tag: &str) -> Option<&[u8]> {
        self.map.get(&tag_u32(tag)).map(|v| v.as_slice())
    }
    pub fn has(&self, tag: &str) -> bool {
        self.map.contains_key(&tag_u32(tag))
    }
    pub fn num_glyphs(&self) -> Option<usize> {
        be16(self.get("maxp")?, 4).map(|v| v as usize)
    }
    pub fn num_h_metrics(&self) -> Option<usize> {
        be16(self.get("hhea")?, 34).map(|v| v as usize)
    }
    pub fn loca_long(&self) -> Option<bool> {
        Some(be16(self.get("head")?, 50)? != 0)
    }
    /// (advance, lsb) of every glyph by the hmtx rules, or why not.
    pub fn h_metrics(&self) -> Result<(Vec<u16>, Vec<i16>), String> {
        let n = self.num_glyphs().ok_or("no maxp")?;
        let nhm = self.num_h_metrics().ok_or("no hhea")?;
        glyph::read_hmtx(self.get("hmtx").ok_or("no hmtx")?, n, nhm)
    }
    pub fn glyphs(&self) -> Result<Vec<Result<GlyphRec, String>>, String> {
        let n = self.num_glyphs().ok_or("no maxp")?;
        let long = self.loca_long().ok_or("no head")?;
        let r = glyph::read_glyf(self.get("glyf").ok_or("no glyf")?, self.get("loca").ok_or("no loca")?, long, n)?;
        Ok(r.glyphs)
    }
}

pub fn comp_gids(g: &Result<GlyphRec, String>) -> Vec<u16> {
    match g {
        Ok(r) if r.kind == Kind::Composite => r.comps.iter().map(|c| c.gid).collect(),
        _ => vec![],
    }
}

// ---- CFF: structural classification only (INDEX / DICT walking, no charstring semantics) ----------

fn off(d: &[u8], at: usize, size: usize) -> Option<usize> {
    let mut v = 0usize;
    for k in 0..size {
        v = (v << 8) | *d.get(at + k)? as usize;
    }
    Some(v)
}

/// (count, offset of first object's data - 1, offSize, position after the INDEX)
pub fn index_at(d: &[u8], at: usize) -> Option<(usize, usize, usize, usize)> {
    let count = be16(d, at)? as usize;
    if count == 0 {
        return Some((0, 0, 0, at + 2));
    }
    let os = *d.get(at + 2)? as usize;
    let offs = at + 3;
    let last = off(d, offs + count * os, os)?;
    let data0 = offs + (count + 1) * os - 1;
    Some((count, data0, os, data0 + last))
}

pub fn index_obj(d: &[u8], at: usize, i: usize) -> Option<&[u8]> {
    let (count, data0, os, _) = index_at(d, at)?;
    if i >= count {
        return None;
    }
    let a = off(d, at + 3 + i * os, os)?;
    let b = off(d, at + 3 + (i + 1) * os, os)?;
    d.get(data0 + a..data0 + b)
}

/// operators of a DICT with their integer operands (reals skipped as 0)
pub fn dict_ops(d: &[u8]) -> Vec<(u16, Vec<i64>)> {
    let mut out = Vec::new();
    let mut st: Vec<i64> = Vec::new();
    let mut i = 0;
    while i < d.len() {
        let b = d[i];
        match b {
            0..=21 => {
                let op = if b == 12 {
                    i += 1;
                    0x0c00 | *d.get(i).unwrap_or(&0) as u16
                } else {
                    b as u16
                };
                out.push((op, std::mem::take(&mut st)));
                i += 1;
            }
            28 => {
                st.push(i16::from_be_bytes([*d.get(i + 1).unwrap_or(&0), *d.get(i + 2).unwrap_or(&0)]) as i64);
                i += 3;
            }
            29 => {
                st.push(be32(d, i + 1).unwrap_or(0) as i32 as i64);
                i += 5;
            }
            30 => {
                i += 1;
                while i < d.len() {
                    let x = d[i];
                    i += 1;
                    if x & 0x0f == 0x0f || x >> 4 == 0x0f {
                        break;
                    }
                }
                st.push(0);
            }
            32..=246 => {
                st.push(b as i64 - 139);
                i += 1;
            }
            247..=250 => {
                st.push((b as i64 - 247) * 256 + *d.get(i + 1).unwrap_or(&0) as i64 + 108);
                i += 2;
            }
            251..=254 => {
                st.push(-(b as i64 - 251) * 256 - *d.get(i + 1).unwrap_or(&0) as i64 - 108);
                i += 2;
            }
            _ => i += 1,
        }
    }
    out
}

/// Charstring `g` of a CFF 1 table, raw bytes (for reports).
pub fn cff_charstring(d: &[u8], g: usize) -> Option<Vec<u8>> {
    let hdr = *d.get(2)? as usize;
    let (_, _, _, after_name) = index_at(d, hdr)?;
    let top = index_obj(d, after_name, 0)?;
    let cs = dict_ops(top).iter().find(|o| o.0 == 17)?.1.first().copied()? as usize;
    index_obj(d, cs, g).map(|b| b.to_vec())
}

/// The names (string ids) of the glyphs of a name-keyed CFF 1 table as its charset says: format 0 / 1 / 2 tables,
/// the predefined ISOAdobe charset (glyph g is SID g up to 228; by `0 charset` or by the absence of the operator).
/// 0xFFFF: a glyph the charset does not name.  None: not walkable / a predefined Expert charset.
pub fn cff_names(d: &[u8]) -> Option<Vec<u16>> {
    let hdr = *d.get(2)? as usize;
    let (_, _, _, after_name) = index_at(d, hdr)?;
    let top = index_obj(d, after_name, 0)?;
    let ops = dict_ops(top);
    let cs = ops.iter().find(|o| o.0 == 17)?.1.first().copied()? as usize;
    let (n, _, _, _) = index_at(d, cs)?;
    let at = ops.iter().find(|o| o.0 == 15).and_then(|o| o.1.first().copied()).unwrap_or(0) as usize;
    let mut names: Vec<u16> = vec![0];
    match at {
        0 => names.extend((1..n).map(|g| if g <= 228 { g as u16 } else { 0xFFFF })),
        1 | 2 => return None,
        _ => match *d.get(at)? {
            0 => {
                for g in 1..n {
                    names.push(be16(d, at + 1 + 2 * (g - 1))?);
                }
            }
            f @ (1 | 2) => {
                let mut p = at + 1;
                while names.len() < n {
                    let first = be16(d, p)? as usize;
                    let left = if f == 1 { *d.get(p + 2)? as usize } else { be16(d, p + 2)? as usize };
                    p += if f == 1 { 3 } else { 4 };
                    for k in 0..=left {
                        if names.len() < n {
                            names.push((first + k).min(0xFFFF) as u16);
                        }
                    }
                }
            }
            _ => return None,
        },
    }
    Some(names)
}

#[derive(Clone, Debug, Default)]
pub struct CffFacts {
    pub cid: bool,
    pub n_glyphs: usize,
    pub global_subrs: usize,
    /// number of Private DICTs that carry a non-empty local Subrs INDEX
    pub local_subr_indices: usize,
    pub fd_count: usize,
}

/// Facts about a CFF 1 table: CID-keyed (ROS in the Top DICT), number of charstrings, subroutine INDEX sizes.
pub fn cff_facts(d: &[u8]) -> Option<CffFacts> {
    let hdr = *d.get(2)? as usize;
    let (_, _, _, after_name) = index_at(d, hdr)?;
    let top = index_obj(d, after_name, 0)?;
    let (_, _, _, after_top) = index_at(d, after_name)?;
    let (_, _, _, after_str) = index_at(d, after_top)?;
    let (gcount, _, _, _) = index_at(d, after_str)?;
    let ops = dict_ops(top);
    let get = |op: u16| ops.iter().find(|o| o.0 == op).map(|o| o.1.clone());
    let cid = get(0x0c1e).is_some();
    let cs = get(17)?.first().copied()? as usize;
    let (n_glyphs, _, _, _) = index_at(d, cs)?;
    let mut f = CffFacts { cid, n_glyphs, global_subrs: gcount, local_subr_indices: 0, fd_count: 0 };
    let mut privs: Vec<(usize, usize)> = Vec::new();
    if cid {
        if let Some(fda) = get(0x0c24).and_then(|v| v.first().copied()) {
            let (count, _, _, _) = index_at(d, fda as usize)?;
            f.fd_count = count;
            for i in 0..count {
                if let Some(fd) = index_obj(d, fda as usize, i) {
                    if let Some(p) = dict_ops(fd).iter().find(|o| o.0 == 18) {
                        if p.1.len() == 2 {
                            privs.push((p.1[0] as usize, p.1[1] as usize));
                        }
                    }
                }
            }
        }
    } else if let Some(p) = get(18) {
        if p.len() == 2 {
            privs.push((p[0] as usize, p[1] as usize));
        }
    }
    for (size, at) in privs {
        if let Some(pd) = d.get(at..at + size) {
            if let Some(s) = dict_ops(pd).iter().find(|o| o.0 == 19) {
                if let Some(&rel) = s.1.first() {
                    if let Some((c, _, _, _)) = index_at(d, at + rel as usize) {
                        if c > 0 {
                            f.local_subr_indices += 1;
                        }
                    }
                }
            }
        }
    }
    Some(f)
}

/// Bytes of object data of an INDEX of a CFF 1 table (last offset - 1); 0 for an empty INDEX.
fn index_data_len(d: &[u8], at: usize) -> Option<usize> {
    let (count, data0, _, end) = index_at(d, at)?;
    if count == 0 {
        return Some(0);
    }
    if end > d.len() {
        return None;
    }
    // a last offset of 0 (not 1-based: a broken INDEX) has no data length
    (end - data0).checked_sub(1)
}

/// Lengths of the charstrings of a CFF 1 table (independent INDEX walk).
pub fn cff_charstring_lengths(d: &[u8]) -> Option<Vec<usize>> {
    let hdr = *d.get(2)? as usize;
    let (_, _, _, after_name) = index_at(d, hdr)?;
    let top = index_obj(d, after_name, 0)?;
    let cs = dict_ops(top).iter().find(|o| o.0 == 17)?.1.first().copied()? as usize;
    let (count, _, os, _) = index_at(d, cs)?;
    let mut out = Vec::with_capacity(count);
    for i in 0..count {
        let a = off(d, cs + 3 + i * os, os)?;
        let b = off(d, cs + 3 + (i + 1) * os, os)?;
        out.push(b.checked_sub(a)?);
    }
    Some(out)
}

/// Bytes of object data of every INDEX of a CFF 1 table: [("name", n), ("top", n), ("string", n), ("gsubrs", n),
/// ("charstrings", n), ("fdarray", n), ("lsubrs", n per Private DICT that has one)].  None: not walkable.
pub fn cff_index_sizes(d: &[u8]) -> Option<Vec<(&'static str, usize)>> {
    let mut out = Vec::new();
    let hdr = *d.get(2)? as usize;
    out.push(("name", index_data_len(d, hdr)?));
    let (_, _, _, after_name) = index_at(d, hdr)?;
    out.push(("top", index_data_len(d, after_name)?));
    let top = index_obj(d, after_name, 0)?;
    let (_, _, _, after_top) = index_at(d, after_name)?;
    out.push(("string", index_data_len(d, after_top)?));
    let (_, _, _, after_str) = index_at(d, after_top)?;
    out.push(("gsubrs", index_data_len(d, after_str)?));
    let ops = dict_ops(top);
    let get = |op: u16| ops.iter().find(|o| o.0 == op).map(|o| o.1.clone());
    let cs = get(17)?.first().copied()? as usize;
    out.push(("charstrings", index_data_len(d, cs)?));
    let mut privs: Vec<(usize, usize)> = Vec::new();
    if let Some(fda) = get(0x0c24).and_then(|v| v.first().copied()) {
        let fda = fda as usize;
        out.push(("fdarray", index_data_len(d, fda)?));
        let (count, _, _, _) = index_at(d, fda)?;
        for i in 0..count {
            if let Some(p) = index_obj(d, fda, i).and_then(|fd| dict_ops(fd).into_iter().find(|o| o.0 == 18)) {
                if p.1.len() == 2 {
                    privs.push((p.1[0] as usize, p.1[1] as usize));
                }
            }
        }
    } else if let Some(p) = get(18) {
        if p.len() == 2 {
            privs.push((p[0] as usize, p[1] as usize));
        }
    }
    for (size, at) in privs {
        if let Some(pd) = d.get(at..at.checked_add(size)?) {
            if let Some(rel) = dict_ops(pd).iter().find(|o| o.0 == 19).and_then(|s| s.1.first().copied()) {
                out.push(("lsubrs", index_data_len(d, at + rel as usize)?));
            }
        }
    }
    Some(out)
}

/// (count, data0, offSize, end) of a CFF2 INDEX (32-bit count)
fn index2_at(d: &[u8], at: usize) -> Option<(usize, usize, usize, usize)> {
    let count = be32(d, at)? as usize;
    if count == 0 {
        return Some((0, 0, 0, at + 4));
    }
    let os = *d.get(at + 4)? as usize;
    let offs = at + 5;
    let last = off(d, offs + count * os, os)?;
    let data0 = offs + (count + 1) * os - 1;
    Some((count, data0, os, data0 + last))
}

/// Facts about a CFF2 table: number of charstrings, Font DICTs, subroutine INDEX sizes, variation store present.
pub fn cff2_facts(d: &[u8]) -> Option<(CffFacts, bool)> {
    let hdr = *d.get(2)? as usize;
    let top_len = be16(d, 3)? as usize;
    let top = d.get(hdr..hdr + top_len)?;
    let (gcount, _, _, _) = index2_at(d, hdr + top_len)?;
    let ops = dict_ops(top);
    let get = |op: u16| ops.iter().find(|o| o.0 == op).map(|o| o.1.clone());
    let cs = get(17)?.first().copied()? as usize;
    let (n_glyphs, _, _, _) = index2_at(d, cs)?;
    let mut f = CffFacts { cid: false, n_glyphs, global_subrs: gcount, local_subr_indices: 0, fd_count: 0 };
    if let Some(fda) = get(0x0c24).and_then(|v| v.first().copied()) {
        let fda = fda as usize;
        let (count, data0, os, _) = index2_at(d, fda)?;
        f.fd_count = count;
        for i in 0..count {
            let a = off(d, fda + 5 + i * os, os)?;
            let b = off(d, fda + 5 + (i + 1) * os, os)?;
            let fd = d.get(data0 + a..data0 + b)?;
            if let Some(p) = dict_ops(fd).iter().find(|o| o.0 == 18) {
                if p.1.len() == 2 {
                    let (size, at) = (p.1[0] as usize, p.1[1] as usize);
                    if let Some(pd) = d.get(at..at + size) {
                        if let Some(sr) = dict_ops(pd).iter().find(|o| o.0 == 19) {
                            if let Some(&rel) = sr.1.first() {
                                if let Some((c, _, _, _)) = index2_at(d, at + rel as usize) {
                                    if c > 0 {
                                        f.local_subr_indices += 1;
                                    }
                                }
                            }
                        }
                    }
                }
            }
        }
    }
    Some((f, get(24).is_some()))
}

// ---- WOFF 1 writer -----------------------------------------------------------------------------------

/// Re-wrap a table set as WOFF 1: every table zlib-compressed at `level` when that is shorter.
pub fn build_woff(t: &Tables, level: u32) -> Vec<u8> {
    let tags: Vec<u32> = t.map.keys().cloned().collect(); // directory sorted by tag
    let hdr = 44 + 20 * tags.len();
    let mut bodies = W::new();
    let mut dir = Vec::new();
    let mut total_sfnt = 12 + 16 * tags.len();
    for tag in &tags {
        let orig = &t.map[tag];
        let mut e = ZlibEncoder::new(Vec::new(), Compression::new(level));
        e.write_all(orig).unwrap();
        let c = e.finish().unwrap();
        let stored: &[u8] = if c.len() < orig.len() { &c } else { orig };
        let at = hdr + bodies.len();
        bodies.bytes(stored);
        bodies.pad4();
        dir.push((*tag, at as u32, stored.len() as u32, orig.len() as u32, vh::fontgen::checksum(orig)));
        total_sfnt += (orig.len() + 3) & !3;
    }
    let mut w = W::new();
    w.tag("wOFF").u32(t.flavor).u32((hdr + bodies.len()) as u32).u16(tags.len() as u16).u16(0);
    w.u32(total_sfnt as u32).u16(1).u16(0).u32(0).u32(0).u32(0).u32(0).u32(0);
    for (tag, at, comp, orig, sum) in dir {
        w.u32(tag).u32(at).u32(comp).u32(orig).u32(sum);
    }
    w.bytes(&bodies.0);
    w.done()
}
