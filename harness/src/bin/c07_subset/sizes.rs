//! Size boundaries of what the subsetters WRITE (C07, round 3).
//!
//! An INDEX of a CFF table stores 1-based offsets in offSize bytes: object data of 255 bytes needs the
//! offset 256 (two bytes), 65535 bytes the offset 65536 (three).  A glyf table under a short loca ends
//! at most at byte 131070.  Whether a subset sits on such a boundary depends on which glyphs are
//! retained, so the retained sets are CHOSEN here: by subset-sum over the lengths of the source's
//! charstrings / subroutines / glyph records (known exactly for the fonts synthesized here, read by the
//! independent INDEX walker for repository fonts), so that each INDEX the subsetter rebuilds holds
//! exactly 254, 255, 256, 65534, 65535, 65536 bytes of object data:
//!   CharStrings, global Subrs, local Subrs (per Font DICT)  - exact: the CFF subsetter copies charstrings
//!       and used subroutines verbatim, unused subroutines become empty entries;
//!   Name, String                                             - exact: copied from the source (String + 13
//!       bytes, "Adobe" and "Identity", on the Type 1 -> CID conversion);
//!   Top DICT, FDArray, everything on the CFF2 -> CFF path    - the implementation chooses operand forms,
//!       widths and strings: a LADDER of sources / lists whose predicted sizes step by one byte through a
//!       window around the boundary, so that some rung sits on it whatever the constant overhead is.
//! The plans carry their prediction in their name (`size:<index>:<bytes>`, `ladder:<index>:<predicted>`);
//! the harness tallies them when the call is made (inputs), and separately what its independent reader
//! measures in the output (`measured:<index>:<bytes>`, informative).
use super::cffw::{self, CffMeta, CffSpec, CharsetSpec, FdSpec};
use super::ind::Tables;
use super::syn::Syn;
use vh::fontgen::{self, GlyphSpec, Pt, TtFont};

pub const TARGETS: [usize; 6] = [254, 255, 256, 65534, 65535, 65536];

pub struct Plan {
    pub name: String,
    pub ids: Vec<u16>,
    pub apis: Vec<&'static str>,
}

pub struct Sized {
    pub syn: Syn,
    pub plans: Vec<Plan>,
    /// representation facts of the source (charset / FDSelect format ...), tallied when the font is run
    pub facts: Vec<String>,
}

/// Items (id, length): a subset whose lengths add up to `target` exactly; for the big targets the longest items
/// are tried first (fewer glyphs to retain), otherwise the smallest ids.
pub fn pick(items: &[(u16, usize)], target: usize) -> Option<Vec<u16>> {
    if target > 4096 {
        let mut sorted: Vec<(u16, usize)> = items.to_vec();
        sorted.sort_by_key(|x| std::cmp::Reverse(x.1));
        return pick_in_order(&sorted, target);
    }
    pick_in_order(items, target)
}

fn pick_in_order(items: &[(u16, usize)], target: usize) -> Option<Vec<u16>> {
    // reach[s] = 1 + index of the item that first reached the sum s (0: not reached; usize::MAX: the empty sum)
    let mut reach: Vec<usize> = vec![0; target + 1];
    reach[0] = usize::MAX;
    for (i, &(_, len)) in items.iter().enumerate() {
        if len == 0 || len > target {
            continue;
        }
        for s in (len..=target).rev() {
            if reach[s] == 0 && reach[s - len] != 0 {
                reach[s] = i + 1;
            }
        }
        if reach[target] != 0 {
            break;
        }
    }
    if reach[target] == 0 {
        return None;
    }
    let mut out = Vec::new();
    let mut s = target;
    while s > 0 {
        let i = reach[s] - 1;
        out.push(items[i].0);
        s -= items[i].1;
    }
    out.sort();
    Some(out)
}

// ---- Type 2 charstrings of an exact length --------------------------------------------------------------

fn n(v: i32) -> Vec<u8> {
    if (-107..=107).contains(&v) {
        vec![(v + 139) as u8]
    } else if (108..=1131).contains(&v) {
        let w = v - 108;
        vec![(w / 256 + 247) as u8, (w % 256) as u8]
    } else if (-1131..=-108).contains(&v) {
        let w = -v - 108;
        vec![(w / 256 + 251) as u8, (w % 256) as u8]
    } else {
        let b = (v as i16).to_be_bytes();
        vec![28, b[0], b[1]]
    }
}

const RLINETO: u8 = 5;
const CALLSUBR: u8 = 10;
const RETURN: u8 = 11;
const ENDCHAR: u8 = 14;
const HSTEMHM: u8 = 18;
const HINTMASK: u8 = 19;
const RMOVETO: u8 = 21;
const CALLGSUBR: u8 = 29;

/// `r` bytes (r >= 3) that draw a little and otherwise only fill: lines of 3 / 4 / 5 bytes, and - when the
/// glyph has declared 8 stems (`hinted`) - hintmask operators with one mask byte (2 bytes each, no outline).
fn filler(r: usize, seed: i32, hinted: bool) -> Vec<u8> {
    assert!(r >= 3, "filler of {} bytes", r);
    let mut v = Vec::with_capacity(r);
    let line = |v: &mut Vec<u8>, k: usize, bytes: usize| {
        // alternate the direction so that the pen stays near the start
        let sg = if k % 2 == 0 { 1 } else { -1 };
        let small = 1 + ((seed as usize + 7 * k) % 90) as i32;
        let (dx, dy) = match bytes {
            3 => (sg * small, -sg * (1 + (seed + k as i32) % 50)),
            4 => (sg * (108 + small), -sg * 3),
            _ => (sg * (108 + small), -sg * (110 + small)),
        };
        v.extend(n(dx));
        v.extend(n(dy));
        v.push(RLINETO);
    };
    if hinted {
        let first = if (r - 3) % 2 == 0 { 3 } else { 4 };
        line(&mut v, 0, first);
        let masks = (r - first) / 2;
        for i in 0..masks {
            v.push(HINTMASK);
            v.push((seed as usize + 37 * i) as u8);
        }
    } else {
        let mut left = r;
        let mut k = 0;
        while left > 0 {
            let b = match left {
                3 | 6 | 9 => 3,
                4 | 7 => 4,
                5 | 8 => 5,
                _ => 3,
            };
            line(&mut v, k, b);
            left -= b;
            k += 1;
        }
    }
    assert_eq!(v.len(), r);
    v
}

/// A glyph charstring of exactly `len` bytes: [8 stems] moveto [callsubr] [callgsubr] filler [endchar].
fn sized_glyph(len: usize, g: i32, hinted: bool, lsubr: Option<i32>, gsubr: Option<i32>, cff2: bool) -> Vec<u8> {
    let mut v = Vec::with_capacity(len);
    if hinted {
        for k in 0..16 {
            v.extend(n(10 + (k % 2) * 10));
        }
        v.push(HSTEMHM);
    }
    v.extend(n(5 + g % 100));
    v.extend(n(7 + (g / 100) % 100));
    v.push(RMOVETO);
    if let Some(i) = lsubr {
        v.extend(n(i - 107));
        v.push(CALLSUBR);
    }
    if let Some(i) = gsubr {
        v.extend(n(i - 107));
        v.push(CALLGSUBR);
    }
    let tail = if cff2 { 0 } else { 1 };
    v.extend(filler(len - v.len() - tail, g, hinted));
    if !cff2 {
        v.push(ENDCHAR);
    }
    assert_eq!(v.len(), len);
    v
}

fn sized_subr(len: usize, seed: i32, hinted: bool) -> Vec<u8> {
    let mut v = filler(len - 1, seed, hinted);
    v.push(RETURN);
    v
}

fn notdef(cff2: bool) -> Vec<u8> {
    let mut v = Vec::new();
    for (a, b, o) in [(0, 0, RMOVETO), (100, 0, RLINETO), (0, 100, RLINETO)] {
        v.extend(n(a));
        v.extend(n(b));
        v.push(o);
    }
    if !cff2 {
        v.push(ENDCHAR);
    }
    v
}

const NF: usize = 48; // fine glyphs 1 ..= NF: lengths one byte apart
const NB: usize = 40; // big glyphs NF+1 ..= NF+NB
const NG: usize = 1 + NF + NB;

fn is_big(g: usize) -> bool {
    g > NF
}
/// fine glyphs: one byte apart up to 24, then 37 bytes apart (middle sizes, so that every total between the
/// small and the big ones can be composed)
fn fine(g: usize) -> usize {
    if g <= 24 { g } else { 24 + 37 * (g - 24) }
}
fn cs_len(g: usize) -> usize {
    if is_big(g) { 1700 + 9 * (g - NF) } else { 14 + fine(g) }
}
fn lsubr_len(g: usize, big_base: usize, fd: usize) -> usize {
    if is_big(g) { big_base + 11 * (g - NF) + fd } else { 5 + fine(g) + fd }
}
fn gsubr_len(g: usize) -> usize {
    if is_big(g) { 1720 + 5 * (g - NF) } else { 7 + fine(g) }
}

fn wrap_uniform(label: &str, kind: &str, table_tag: &str, table: Vec<u8>, n_glyphs: usize, names: &[(u16, String)]) -> Syn {
    // one long metric: every glyph has the same advance (no width operand is needed on the CFF2 -> CFF path)
    let long: Vec<(u16, i16)> = vec![(600, -7)];
    let lsbs: Vec<i16> = (1..n_glyphs).map(|g| (g % 3000) as i16 - 7).collect();
    let pairs: Vec<(u16, u16)> = (1..n_glyphs.min(200)).map(|g| (0x40 + g as u16, g as u16)).collect();
    let recs: Vec<(u16, &str)> = names.iter().map(|(i, s)| (*i, s.as_str())).collect();
    let tables: Vec<(String, Vec<u8>)> = vec![
        ("head".into(), fontgen::head(1000, false, (0, 0, 1000, 1000))),
        ("hhea".into(), fontgen::hhea(1, 800, -200, 1500)),
        ("maxp".into(), fontgen::maxp_cff(n_glyphs as u16)),
        ("OS/2".into(), fontgen::os2_v4(0x41, 0x41 + n_glyphs.min(60000) as u16)),
        ("hmtx".into(), fontgen::hmtx(&long, &lsbs)),
        ("cmap".into(), fontgen::cmap_format4(&pairs)),
        ("name".into(), fontgen::name(&recs)),
        ("post".into(), fontgen::post_v3()),
        (table_tag.into(), table),
    ];
    let file = fontgen::build_sfnt(0x4F54544F, &tables);
    let t = Tables::from_sfnt(&file, 0).expect("own sfnt");
    Syn { label: label.to_string(), kind: kind.to_string(), tables: t, file, bounds: Vec::new(), seac: Vec::new() }
}

fn std_names() -> Vec<(u16, String)> {
    vec![(0, "none".into()), (1, "VerifSyn".into()), (2, "Regular".into()), (4, "VerifSyn Regular".into()), (6, "VerifSyn-Regular".into())]
}

fn ids_with_notdef(mut v: Vec<u16>) -> Vec<u16> {
    v.insert(0, 0);
    v
}

const CFF_APIS: [&str; 2] = ["subset", "prince:unrestricted:t1"];

/// Name-keyed (`fds` = 1) or CID-keyed (`fds` = 2) CFF whose charstrings, local and global subroutines have
/// the lengths above; glyph g calls local subroutine g-1 of its Font DICT and global subroutine g-1.
fn cff_sizes(label: &str, fds: usize, charset_fmt: u8, fdselect_fmt: u8, full: bool) -> Sized {
    let cid = fds > 1;
    let big_base = if cid { 3500 } else { 1750 };
    let fd_of = |g: usize| if fdselect_fmt == 3 { (g / 3) % fds } else { g % fds };
    let mut glyphs = vec![notdef(false)];
    for g in 1..NG {
        glyphs.push(sized_glyph(cs_len(g), g as i32, is_big(g), Some(g as i32 - 1), Some(g as i32 - 1), false));
    }
    let gsubrs: Vec<Vec<u8>> = (1..NG).map(|g| sized_subr(gsubr_len(g), 1000 + g as i32, is_big(g))).collect();
    let fdspecs: Vec<FdSpec> = (0..fds)
        .map(|f| FdSpec {
            lsubrs: Some((1..NG).map(|g| if fd_of(g) == f { sized_subr(lsubr_len(g, big_base, f), 2000 + g as i32, is_big(g)) } else { sized_subr(4, 3, false) }).collect()),
            vsindex: None,
            private_extra: vec![],
            fdict_extra: vec![],
        })
        .collect();
    let ids: Vec<u16> = if cid { (1..NG as u16).map(|g| 3 * g + 5 - (g % 2)).collect() } else { (1..NG as u16).collect() };
    let charset = match charset_fmt {
        0 => CharsetSpec::Format0(ids),
        1 => CharsetSpec::Ranges1(ids),
        _ => CharsetSpec::Ranges2(ids),
    };
    let spec = CffSpec { cid, glyphs: glyphs.clone(), gsubrs, fds: fdspecs, fdselect: (0..NG).map(|g| fd_of(g) as u8).collect(), fdselect_fmt, charset };
    let syn = wrap_uniform(label, if cid { "cid" } else { "cff" }, "CFF ", cffw::build_cff(&spec), NG, &std_names());
    // ---- plans: each rebuilt INDEX on each boundary
    let mut plans = Vec::new();
    let targets: Vec<usize> = if full { TARGETS.to_vec() } else { vec![254, 255, 256] };
    let mut add = |what: String, items: Vec<(u16, usize)>, base: usize, plans: &mut Vec<Plan>| {
        for &t in &targets {
            if let Some(v) = pick(&items, t - base) {
                plans.push(Plan { name: format!("size:{}:{}", what, t), ids: ids_with_notdef(v), apis: CFF_APIS.to_vec() });
            }
        }
    };
    add("charstrings".into(), (1..NG).map(|g| (g as u16, cs_len(g))).collect(), glyphs[0].len(), &mut plans);
    add("gsubrs".into(), (1..NG).map(|g| (g as u16, gsubr_len(g))).collect(), 0, &mut plans);
    for f in 0..fds {
        let what = if cid { format!("lsubrs-fd{}", f) } else { "lsubrs".to_string() };
        add(what, (1..NG).filter(|g| fd_of(*g) == f).map(|g| (g as u16, lsubr_len(g, big_base, f))).collect(), 0, &mut plans);
    }
    plans.push(Plan { name: "all".into(), ids: (0..NG as u16).collect(), apis: CFF_APIS.to_vec() });
    let mut facts = vec![format!("source:{}:charset-format-{}", if cid { "cid" } else { "cff" }, charset_fmt)];
    if cid {
        facts.push(format!("source:cid:fdselect-format-{}", fdselect_fmt));
    }
    Sized { syn, plans, facts }
}

/// CFF2 without subroutines, charstring lengths as above.  The conversion to CFF re-encodes every
/// charstring (operands, endchar, possibly a width): a ladder of lists around each boundary.
fn cff2_sizes() -> Sized {
    let mut glyphs = vec![notdef(true)];
    for g in 1..NG {
        glyphs.push(sized_glyph(cs_len(g), g as i32, is_big(g), None, None, true));
    }
    let spec = CffSpec {
        cid: false,
        glyphs: glyphs.clone(),
        gsubrs: vec![],
        fds: vec![FdSpec { lsubrs: None, vsindex: None, private_extra: vec![], fdict_extra: vec![] }],
        fdselect: vec![],
        fdselect_fmt: 0,
        charset: CharsetSpec::IsoAdobe,
    };
    let syn = wrap_uniform("syn/cff2-sizes", "cff2", "CFF2", cffw::build_cff2(&spec, None), NG, &std_names());
    // predicted length of a converted charstring: the source's bytes and an endchar
    let items: Vec<(u16, usize)> = (1..NG).map(|g| (g as u16, cs_len(g) + 1)).collect();
    let base = glyphs[0].len() + 1;
    let mut plans = Vec::new();
    for &t in &TARGETS {
        let span: i64 = if t < 1000 { 6 } else { 3 };
        for d in -span..=span {
            let want = (t as i64 + d) as usize;
            if let Some(v) = pick(&items, want - base) {
                plans.push(Plan { name: format!("ladder:cff2-charstrings:{}:predicted={}", t, want), ids: ids_with_notdef(v), apis: vec!["subset", "prince:unrestricted:t1"] });
            }
        }
    }
    plans.push(Plan { name: "all".into(), ids: (0..NG as u16).collect(), apis: vec!["subset"] });
    Sized { syn, plans, facts: vec![] }
}

// ---- DICT filler --------------------------------------------------------------------------------------

/// integer operands of exactly `bytes` bytes altogether (each 1, 2, 3 or 5 bytes in the canonical form)
fn int_operands(bytes: usize, max_count: usize) -> Option<Vec<u8>> {
    let mut v = Vec::new();
    let mut left = bytes;
    let mut count = 0;
    while left > 0 {
        let (sz, val): (usize, i32) = if left >= 5 && left != 6 && left != 7 && left != 9 {
            (5, 100_000 + count as i32)
        } else if left == 6 || left == 9 || left == 3 {
            (3, 2000 + count as i32)
        } else if left == 7 || left == 2 || left == 4 {
            (2, 500 + count as i32)
        } else {
            (1, 7)
        };
        v.extend(cffw::dict_int(val));
        left -= sz;
        count += 1;
    }
    assert_eq!(v.len(), bytes);
    if count > max_count {
        return None;
    }
    Some(v)
}

/// Top DICT entries of exactly `k` bytes: XUID (an array of integers) and, beyond its capacity, FontBBox
fn top_filler(k: usize) -> Vec<u8> {
    const XUID: u16 = 0x0C0E;
    const FONTBBOX: u16 = 5;
    let mut v = Vec::new();
    if k <= 2 + 5 * 44 {
        v.extend(int_operands(k - 2, 46).expect("xuid operands"));
        v.extend(cffw::dict_op(XUID));
    } else {
        // FontBBox: four operands, 4 .. 20 bytes (not 19), and its one byte operator
        let rest = k - (2 + 5 * 44);
        let bb = (rest - 1).clamp(4, 18);
        let xu = k - 2 - bb - 1;
        v.extend(int_operands(xu, 46).expect("xuid operands"));
        v.extend(cffw::dict_op(XUID));
        // four operands adding up to bb bytes
        let mut sizes = [1usize; 4];
        let mut left = bb - 4;
        for s in sizes.iter_mut() {
            let add = [4usize, 2, 1, 0].into_iter().find(|a| *a <= left).unwrap();
            *s += add;
            left -= add;
        }
        assert_eq!(left, 0);
        for (i, s) in sizes.iter().enumerate() {
            v.extend(cffw::dict_int(match s { 1 => 9, 2 => 600, 3 => 3000, _ => 70_000 } + i as i32));
        }
        v.extend(cffw::dict_op(FONTBBOX));
    }
    assert_eq!(v.len(), k, "top filler {}", k);
    v
}

/// FontMatrix entry of a Font DICT: six integer operands, `k` bytes with the two byte operator (8 ..= 30, 32)
fn fontmatrix_filler(k: usize) -> Vec<u8> {
    const FONTMATRIX: u16 = 0x0C07;
    let mut sizes = [1usize; 6];
    let mut left = k - 2 - 6;
    for s in sizes.iter_mut() {
        let add = [4usize, 2, 1, 0].into_iter().find(|a| *a <= left).unwrap();
        *s += add;
        left -= add;
    }
    assert_eq!(left, 0, "fontmatrix filler {}", k);
    let mut v = Vec::new();
    for (i, s) in sizes.iter().enumerate() {
        v.extend(cffw::dict_int(match s { 1 => 1, 2 => 700, 3 => 4000, _ => 80_000 } + i as i32));
    }
    v.extend(cffw::dict_op(FONTMATRIX));
    assert_eq!(v.len(), k);
    v
}

fn tiny_glyphs(n_glyphs: usize, cff2: bool) -> Vec<Vec<u8>> {
    let mut glyphs = vec![notdef(cff2)];
    for g in 1..n_glyphs {
        glyphs.push(sized_glyph(if cff2 { 12 } else { 13 } + g % 7, g as i32, false, None, None, cff2));
    }
    glyphs
}

fn plain_fd() -> FdSpec {
    FdSpec { lsubrs: None, vsindex: None, private_extra: vec![], fdict_extra: vec![] }
}

fn long_string(len: usize, seed: usize) -> Vec<u8> {
    (0..len).map(|i| b'a' + ((i + seed) % 26) as u8).collect()
}

/// Sources whose Name / String / Top DICT / FDArray INDEXes sit on (or step through) the boundaries.
fn meta_fonts(out: &mut Vec<Sized>) {
    let small = |n_glyphs: usize, cid: bool, fds: Vec<FdSpec>| -> CffSpec {
        let nfd = fds.len();
        CffSpec {
            cid,
            glyphs: tiny_glyphs(n_glyphs, false),
            gsubrs: vec![],
            fds,
            fdselect: (0..n_glyphs).map(|g| (g % nfd) as u8).collect(),
            fdselect_fmt: 0,
            charset: if cid { CharsetSpec::IdentityRange } else { CharsetSpec::Format0((1..n_glyphs as u16).collect()) },
        }
    };
    let few: Vec<u16> = vec![0, 1, 2, 3];
    // Name INDEX: copied from the source
    for len in [254usize, 255, 256] {
        let meta = CffMeta { name: long_string(len, 3), ..CffMeta::default() };
        let t = cffw::build_cff_meta(&small(5, false, vec![plain_fd()]), &meta);
        let syn = wrap_uniform(&format!("syn/cff-name-{}", len), "cff", "CFF ", t, 5, &std_names());
        out.push(Sized { syn, plans: vec![Plan { name: format!("size:name:{}", len), ids: few.clone(), apis: CFF_APIS.to_vec() }], facts: vec![] });
    }
    // String INDEX: copied from the source; the Type 1 -> CID conversion (more than 255 glyphs) appends "Adobe" and "Identity"
    for &t in &TARGETS {
        for convert in [false, true] {
            let total = if convert { t - 13 } else { t };
            let strings: Vec<Vec<u8>> = if total < 1000 { vec![long_string(total - 40, 1), long_string(40, 2)] } else { vec![long_string(30000, 1), long_string(30000, 2), long_string(total - 60000, 3)] };
            let n_glyphs = if convert { 260 } else { 5 };
            let meta = CffMeta { strings, ..CffMeta::default() };
            let tbl = cffw::build_cff_meta(&small(n_glyphs, false, vec![plain_fd()]), &meta);
            let (label, plan) = if convert {
                (format!("syn/cff-strings-cid-{}", t), Plan { name: format!("size:string+cid:{}", t), ids: (0..256u16).collect(), apis: vec!["subset", "prince:unrestricted:cid"] })
            } else {
                (format!("syn/cff-strings-{}", t), Plan { name: format!("size:string:{}", t), ids: few.clone(), apis: CFF_APIS.to_vec() })
            };
            out.push(Sized { syn: wrap_uniform(&label, "cff", "CFF ", tbl, n_glyphs, &std_names()), plans: vec![plan], facts: vec![] });
        }
    }
    // Top DICT ladder: name-keyed (charset, CharStrings, Private = 23 bytes as this writer encodes them) and
    // CID-keyed (ROS, charset, CharStrings, FDArray, FDSelect = 31 bytes)
    for (cid, own) in [(false, 23usize), (true, 31usize)] {
        for predicted in 238..=272usize {
            let meta = CffMeta { top_extra: top_filler(predicted - own), ..CffMeta::default() };
            let fds = if cid { vec![plain_fd(), plain_fd()] } else { vec![plain_fd()] };
            let tbl = cffw::build_cff_meta(&small(5, cid, fds), &meta);
            let kind = if cid { "cid" } else { "cff" };
            let syn = wrap_uniform(&format!("syn/{}-top-{}", kind, predicted), kind, "CFF ", tbl, 5, &std_names());
            out.push(Sized { syn, plans: vec![Plan { name: format!("ladder:top-{}:predicted={}", kind, predicted), ids: few.clone(), apis: vec!["subset"] }], facts: vec![] });
        }
    }
    // FDArray ladder: 18 Font DICTs of 11 bytes (as this writer and allsorts encode the Private operator) and
    // FontMatrix entries of e bytes altogether
    for e in 30..=80usize {
        let mut fds: Vec<FdSpec> = (0..18).map(|_| plain_fd()).collect();
        let mut left = e;
        let mut k = 0;
        while left > 0 {
            let part = if left <= 30 { left } else if left - 30 >= 8 { 30 } else { left - 8 };
            let part = if part == 29 || part == 31 { 21 } else { part };
            fds[k].fdict_extra = fontmatrix_filler(part);
            left -= part;
            k += 1;
        }
        let predicted = 18 * 11 + e;
        let tbl = cffw::build_cff(&small(20, true, fds));
        let syn = wrap_uniform(&format!("syn/cid-fdarray-{}", predicted), "cid", "CFF ", tbl, 20, &std_names());
        out.push(Sized { syn, plans: vec![Plan { name: format!("ladder:fdarray:predicted={}", predicted), ids: few.clone(), apis: vec!["subset"] }], facts: vec![] });
    }
    // CFF2 -> CFF: the Name INDEX is the PostScript name of the name table; the String INDEX is built from glyph
    // names and name table strings: a ladder over the length of the copyright string
    let cff2_small = || CffSpec { cid: false, glyphs: tiny_glyphs(5, true), gsubrs: vec![], fds: vec![plain_fd()], fdselect: vec![], fdselect_fmt: 0, charset: CharsetSpec::IsoAdobe };
    for len in [254usize, 255, 256] {
        let mut names = std_names();
        names[4].1 = String::from_utf8(long_string(len, 5)).unwrap();
        let syn = wrap_uniform(&format!("syn/cff2-psname-{}", len), "cff2", "CFF2", cffw::build_cff2(&cff2_small(), None), 5, &names);
        out.push(Sized { syn, plans: vec![Plan { name: format!("size:cff2-name:{}", len), ids: few.clone(), apis: vec!["subset", "prince:unrestricted:t1"] }], facts: vec![] });
    }
    for c in 150..=245usize {
        let mut names = std_names();
        names[0].1 = String::from_utf8(long_string(c, 7)).unwrap();
        let syn = wrap_uniform(&format!("syn/cff2-copyright-{}", c), "cff2", "CFF2", cffw::build_cff2(&cff2_small(), None), 5, &names);
        out.push(Sized { syn, plans: vec![Plan { name: format!("ladder:cff2-string:copyright={}", c), ids: few.clone(), apis: vec!["subset"] }], facts: vec![] });
    }
}

// ---- glyf ------------------------------------------------------------------------------------------------

/// a simple glyph record of exactly `len` bytes: a triangle that depends on `seed`, the rest instructions
fn sized_record(len: usize, seed: i16) -> Vec<u8> {
    let contours = vec![vec![
        Pt { x: 10 + seed % 300, y: 20 + seed % 7, on: true },
        Pt { x: 400 + seed % 50, y: 30 + seed % 11, on: true },
        Pt { x: 200 + seed % 13, y: 500 + seed % 90, on: true },
    ]];
    let base = fontgen::encode_glyph(&GlyphSpec::Simple { contours: contours.clone(), instructions: vec![] }, None).len();
    assert!(len >= base, "record of {} bytes, the smallest is {}", len, base);
    let instructions: Vec<u8> = (0..len - base).map(|i| (i as u8).wrapping_mul(7).wrapping_add(seed as u8)).collect();
    let r = fontgen::encode_glyph(&GlyphSpec::Simple { contours, instructions }, None);
    assert_eq!(r.len(), len);
    r
}

fn glyf_font(label: &str, records: &[Vec<u8>], long: bool, pad: bool) -> Syn {
    let n = records.len();
    let mut glyf = Vec::new();
    let mut offs: Vec<u32> = Vec::new();
    for r in records {
        offs.push(glyf.len() as u32);
        glyf.extend_from_slice(r);
        if pad {
            while glyf.len() % (if long { 4 } else { 2 }) != 0 {
                glyf.push(0);
            }
        }
    }
    offs.push(glyf.len() as u32);
    let mut loca = Vec::new();
    for o in offs {
        if long {
            loca.extend_from_slice(&o.to_be_bytes());
        } else {
            assert!(o % 2 == 0 && o / 2 <= 65535);
            loca.extend_from_slice(&((o / 2) as u16).to_be_bytes());
        }
    }
    let font = TtFont {
        glyphs: vec![GlyphSpec::Empty; n.min(4)], // glyf / loca / maxp are replaced below
        metrics: (0..n).map(|g| (500 + 3 * (g % 1000) as u16, (g % 2000) as i16 - 9)).collect(),
        num_h_metrics: 1,
        cmap: (1..n.min(100)).map(|g| (0x40 + g as u32, g as u16)).collect(),
        extra_tables: vec![],
        loca_long: long,
    };
    let nhm = (n + 1) / 2;
    let long_m: Vec<(u16, i16)> = font.metrics.iter().take(nhm).cloned().collect();
    let lsbs: Vec<i16> = font.metrics.iter().skip(nhm).map(|m| m.1).collect();
    let mut font = font;
    font.extra_tables = vec![
        ("maxp".to_string(), fontgen::maxp_tt(n as u16)),
        ("hhea".to_string(), fontgen::hhea(nhm as u16, 800, -200, 4000)),
        ("hmtx".to_string(), fontgen::hmtx(&long_m, &lsbs)),
        ("loca".to_string(), loca),
        ("glyf".to_string(), glyf),
    ];
    let file = font.build();
    let t = Tables::from_sfnt(&file, 0).expect("own sfnt");
    Syn { label: label.to_string(), kind: "glyf".into(), tables: t, file, bounds: Vec::new(), seac: Vec::new() }
}

fn glyf_fonts(out: &mut Vec<Sized>, thorough: bool) {
    // short loca, the glyf table ends exactly at byte 131070 (the last offset a short loca can hold)
    let mut recs = vec![sized_record(40, 1)];
    for g in 1..=5 {
        recs.push(sized_record(26198, 10 * g));
    }
    recs.push(sized_record(40, 77));
    assert_eq!(recs.iter().map(|r| r.len()).sum::<usize>(), 131070);
    let syn = glyf_font("syn/glyf-short-131070", &recs, false, true);
    let plans = vec![
        Plan { name: "size:glyf-short:131070".into(), ids: (0..7).collect(), apis: vec!["subset", "prince:unrestricted:t1"] },
        Plan { name: "size:glyf-short:131070".into(), ids: vec![0, 6, 5, 4, 3, 2, 1], apis: vec!["subset"] },
        Plan { name: "size:glyf-short:131030".into(), ids: (0..6).collect(), apis: vec!["subset"] },
    ];
    out.push(Sized { syn, plans, facts: vec!["source:glyf:short-loca-ends-at-131070".into()] });
    // long loca, records of odd lengths stored without padding; retained records add up to both sides of 131070 / 131072
    let mut recs = vec![sized_record(41, 2)];
    for g in 1..=5 {
        recs.push(sized_record(26101, 10 * g + 1));
    }
    for g in 6..=20 {
        recs.push(sized_record(40 + g, 3 * g as i16));
    }
    let lens: Vec<(u16, usize)> = recs.iter().enumerate().skip(1).map(|(g, r)| (g as u16, r.len())).collect();
    let syn = glyf_font("syn/glyf-long-odd", &recs, true, false);
    let mut plans = Vec::new();
    for t in [131069usize, 131070, 131071, 131072, 131073] {
        if let Some(v) = pick(&lens, t - recs[0].len()) {
            plans.push(Plan { name: format!("size:glyf-long:{}", t), ids: ids_with_notdef(v), apis: vec!["subset"] });
        }
    }
    plans.push(Plan { name: "all".into(), ids: (0..recs.len() as u16).collect(), apis: vec!["subset"] });
    out.push(Sized { syn, plans, facts: vec!["source:glyf:long-loca-odd-offsets".into()] });
    // 65535 glyphs (the most maxp can declare): ids up to 65534, old ids on both sides of numberOfHMetrics = 32768
    let n = 65535usize;
    let recs: Vec<Vec<u8>> = (0..n).map(|g| if g % 1024 == 1 || g >= n - 6 || g == 0 { sized_record(40 + 2 * (g % 5), (g % 30000) as i16) } else { vec![] }).collect();
    let syn = glyf_font("syn/glyf-65535", &recs, false, true);
    let mut plans = vec![Plan { name: "count:glyf:ids-up-to-65534".into(), ids: vec![0, 65534, 65533, 1, 32767, 32768, 1025, 65529], apis: vec!["subset", "prince:unrestricted:t1"] }];
    if thorough {
        plans.push(Plan { name: "count:glyf:65535-glyphs-retained".into(), ids: (0..=65534u16).collect(), apis: vec!["subset"] });
    }
    out.push(Sized { syn, plans, facts: vec!["source:glyf:65535-glyphs".into()] });
    // CID-keyed CFF with 65535 glyphs
    let spec = CffSpec {
        cid: true,
        glyphs: tiny_glyphs(n, false),
        gsubrs: vec![],
        fds: vec![plain_fd(), plain_fd()],
        fdselect: (0..n).map(|g| ((g / 1000) % 2) as u8).collect(),
        fdselect_fmt: 3,
        charset: CharsetSpec::IdentityRange,
    };
    let syn = wrap_uniform("syn/cid-65535", "cid", "CFF ", cffw::build_cff(&spec), n, &std_names());
    let mut plans = vec![Plan { name: "count:cid:ids-up-to-65534".into(), ids: vec![0, 65534, 65533, 1, 999, 1000, 32768], apis: vec!["subset", "prince:unrestricted:t1"] }];
    if thorough {
        plans.push(Plan { name: "count:cid:65535-glyphs-retained".into(), ids: (0..=65534u16).collect(), apis: vec!["subset"] });
    }
    out.push(Sized { syn, plans, facts: vec!["source:cid:65535-glyphs".into()] });
}

pub fn fonts(thorough: bool) -> Vec<Sized> {
    let mut out = vec![
        cff_sizes("syn/cff-sizes", 1, 1, 0, true),
        cff_sizes("syn/cid-sizes-2fd", 2, 2, 0, true),
        // the same fonts under the other charset / FDSelect formats of the source
        cff_sizes("syn/cff-sizes-charset0", 1, 0, 0, false),
        cff_sizes("syn/cff-sizes-charset2", 1, 2, 0, false),
        cff_sizes("syn/cid-sizes-charset0-fdselect3", 2, 0, 3, false),
        cff_sizes("syn/cid-sizes-charset1-fdselect3", 2, 1, 3, false),
        cff2_sizes(),
    ];
    meta_fonts(&mut out);
    glyf_fonts(&mut out, thorough);
    out
}

/// Lists for a repository CFF font: retained sets whose charstrings (copied verbatim) add up to the boundaries.
pub fn repo_cff_lists(cff: &[u8]) -> Vec<(String, Vec<u16>)> {
    let lens = match super::ind::cff_charstring_lengths(cff) {
        Some(l) if l.len() > 1 => l,
        _ => return vec![],
    };
    let items: Vec<(u16, usize)> = lens.iter().enumerate().skip(1).take(1500).map(|(g, l)| (g as u16, *l)).collect();
    let mut out = Vec::new();
    for &t in &TARGETS {
        if t > lens[0] {
            if let Some(v) = pick(&items, t - lens[0]) {
                out.push((format!("size:repo-charstrings:{}", t), ids_with_notdef(v)));
            }
        }
    }
    out
}
