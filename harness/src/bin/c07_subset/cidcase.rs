//! Replay of the CASEs of MC_SubsetCid (spec -> impl: subroutines and Font DICTs of CFF sources).
//!
//!   c07_subset replay-cid <cases.ndjson> <mismatches.ndjson>
//!
//! Every case names an abstract CID-keyed (or name-keyed, `t1`) font in the vocabulary of Subset.tla: the Font DICT of
//! every glyph, charstrings and subroutine bodies as sequences of items (<<0, shape token>>, <<1, operand>> callsubr,
//! <<2, operand>> callgsubr), the NUMBER of subroutines of every INDEX (the operands are biased by it; the subroutines
//! the case does not define hold a bare `return`), a representation (Subset.tla CffRep + FDSelect format) and a request.
//! The font is written by cffrep.rs, `subset::subset` and `subset::prince::subset` are called and the output is
//! projected back to "the sequence of shape tokens each new glyph draws" in two ways:
//!   vis  the outline allsorts' own CFF visitor delivers, contour by contour recognised as a shape token
//!   ind  an independent walk of the output: FDSelect (format 0 / 3) -> Font DICT -> Private DICT -> local Subr INDEX,
//!        the global Subr INDEX, calls resolved with the bias of the INDEX as the OUTPUT stores it, the drawing
//!        operators compared with the bytes a shape is written with
//! and advance / lsb from the output's hmtx.  Compared with the prescription by JSON equality.
use super::cffrep::{self, Cs, Enc, Fd, FontSpec, Rep};
use super::ind::{self, Tables};
use super::{guarded, panic_key, prince, subset, visit_cff_bytes, Outcome, PrinceCmapTarget};
use allsorts::binary::read::ReadScope;
use allsorts::font_data::FontData;
use serde_json::{json, Value};
use std::collections::BTreeMap;
use std::io::{BufRead, BufReader};
use vh::fontgen;
use vh::util::NdWriter;

const RMOVETO: u8 = 21;
const RLINETO: u8 = 5;
const CALLSUBR: u8 = 10;
const RETURN: u8 = 11;
const ENDCHAR: u8 = 14;
const CALLGSUBR: u8 = 29;
const FINE: i64 = 16384;
const MAX_TOKEN: i64 = 64;

fn num(v: i64) -> Vec<u8> {
    super::cffw::dict_int(v as i32)
}

fn op(args: &[i64], o: u8) -> Vec<u8> {
    let mut v: Vec<u8> = args.iter().flat_map(|a| num(*a)).collect();
    v.push(o);
    v
}

/// The contour of shape token t: four points with edge vectors of their own, then back to the origin - the pen is
/// where it was, so a shape draws the same wherever in a charstring or subroutine it stands.
fn shape(t: i64) -> [(i64, i64); 5] {
    let p0 = (10 + 7 * t, 20 + 3 * t);
    let p1 = (p0.0 + 40 + t, p0.1 + 5);
    let p2 = (p1.0 - 15, p1.1 + 30 + 2 * t);
    let p3 = (p2.0 - 20 - t, p2.1 + 4);
    [p0, p1, p2, p3, (0, 0)]
}

/// the drawing operators of a shape: (operator, operands)
fn shape_ops(t: i64) -> Vec<(u8, Vec<i64>)> {
    let s = shape(t);
    let mut out = vec![(RMOVETO, vec![s[0].0, s[0].1])];
    for k in 1..5 {
        out.push((RLINETO, vec![s[k].0 - s[k - 1].0, s[k].1 - s[k - 1].1]));
    }
    out
}

fn ints(v: &Value) -> Vec<i64> {
    v.as_array().map(|a| a.iter().map(|x| x.as_i64().expect("int")).collect()).unwrap_or_default()
}

/// items -> bytes (without the closing operator)
fn items_bytes(items: &Value) -> Vec<u8> {
    let mut v = Vec::new();
    for it in items.as_array().expect("items") {
        let it = ints(it);
        match it[0] {
            0 => {
                for (o, a) in shape_ops(it[1]) {
                    v.extend(op(&a, o));
                }
            }
            1 => v.extend(op(&[it[1]], CALLSUBR)),
            _ => v.extend(op(&[it[1]], CALLGSUBR)),
        }
    }
    v
}

fn index_objects(ix: &Value) -> Vec<Vec<u8>> {
    let n = ix["n"].as_u64().expect("n") as usize;
    let mut objs = vec![vec![RETURN]; n];
    for d in ix["def"].as_array().expect("def") {
        let k = d[0].as_u64().expect("index") as usize;
        let mut b = items_bytes(&d[1]);
        b.push(RETURN);
        objs[k] = b;
    }
    objs
}

fn rep_of(r: &Value) -> Rep {
    Rep {
        hdr_size: r["hdr"].as_u64().expect("hdr") as u8,
        hdr_off_size: r["hoff"].as_u64().expect("hoff") as u8,
        index_off_size: match r["ioff"].as_u64().expect("ioff") {
            0 => None,
            o => Some(o as u8),
        },
        top_order: r["top"].as_u64().expect("top") as usize,
        short_offsets: r["short"].as_bool().expect("short"),
        charset: match r["charset"].as_str().expect("charset") {
            "f0" => Cs::F0,
            "f1" => Cs::F1,
            _ => Cs::F2,
        },
        encoding: Enc::Absent,
        fdselect_fmt: r["fdsel"].as_u64().expect("fdsel") as u8,
        block_order: r["blocks"].as_u64().expect("blocks") as usize,
        subrs_gap: r["gap"].as_u64().expect("gap") as usize,
        priv_order: 0,
    }
}

fn build_case_font(case: &Value) -> Vec<u8> {
    let n = case["n"].as_u64().expect("n") as usize;
    let nhm = case["nhm"].as_u64().expect("nhm") as usize;
    let adv = ints(&case["adv"]);
    let lsb = ints(&case["lsb"]);
    let t1 = case["t1"].as_bool().expect("t1");
    let glyphs: Vec<Vec<u8>> = (0..n)
        .map(|g| {
            let mut b = items_bytes(&case["glyphs"][g]);
            b.push(ENDCHAR);
            b
        })
        .collect();
    let fds: Vec<Fd> = case["lsub"].as_array().expect("lsub").iter().map(|ix| Fd { lsubrs: Some(index_objects(ix)), dwx: None, nwx: None }).collect();
    let spec = FontSpec {
        cid: !t1,
        glyphs,
        gsubrs: index_objects(&case["gsub"]),
        fds,
        fdselect: ints(&case["fd"]).iter().map(|&f| f as u8).collect(),
        names: ints(&case["names"]).iter().skip(1).map(|&s| s as u16).collect(),
    };
    let table = cffrep::build(&spec, &rep_of(&case["rep"]));
    let long: Vec<(u16, i16)> = (0..nhm).map(|g| (adv[g] as u16, lsb[g] as i16)).collect();
    let lsbs: Vec<i16> = (nhm..n).map(|g| lsb[g] as i16).collect();
    let pairs: Vec<(u16, u16)> = (1..n).map(|g| (0x40 + g as u16, g as u16)).collect();
    let tables: Vec<(String, Vec<u8>)> = vec![
        ("head".into(), fontgen::head(1000, false, (0, 0, 1000, 1000))),
        ("hhea".into(), fontgen::hhea(nhm as u16, 800, -200, 1500)),
        ("maxp".into(), fontgen::maxp_cff(n as u16)),
        ("OS/2".into(), fontgen::os2_v4(0x41, 0x41 + n as u16)),
        ("hmtx".into(), fontgen::hmtx(&long, &lsbs)),
        ("cmap".into(), fontgen::cmap_format4(&pairs)),
        ("name".into(), fontgen::name(&[(0, "none"), (1, "VerifCid"), (2, "Regular"), (4, "VerifCid Regular"), (6, "VerifCid-Regular")])),
        ("post".into(), fontgen::post_v3()),
        ("CFF ".into(), table),
    ];
    fontgen::build_sfnt(0x4F54544F, &tables)
}

/// The command list of allsorts' visitor as the spec's outline: one shape token per contour; [-1] no outline, [-2] an
/// outline that is not a sequence of shapes.
fn project(v: &Value) -> Value {
    if v["ok"] != json!(true) {
        return json!([-1]);
    }
    let mut out: Vec<i64> = Vec::new();
    let mut cur: Vec<(i64, i64)> = Vec::new();
    let empty = vec![];
    let mut bad = false;
    let flush = |cur: &mut Vec<(i64, i64)>, out: &mut Vec<i64>, bad: &mut bool| {
        if cur.is_empty() {
            return;
        }
        let found = (0..MAX_TOKEN).find(|&t| {
            let s = shape(t);
            cur.len() == 5 && (0..5).all(|k| cur[k] == (s[k].0 * FINE, s[k].1 * FINE))
        });
        match found {
            Some(t) => out.push(t),
            None => *bad = true,
        }
        cur.clear();
    };
    for c in v["cmds"].as_array().unwrap_or(&empty) {
        let c = ints(c);
        match c[0] {
            1 => {
                flush(&mut cur, &mut out, &mut bad);
                cur = vec![(c[1], c[2])];
            }
            2 => cur.push((c[1], c[2])),
            5 => flush(&mut cur, &mut out, &mut bad),
            _ => bad = true,
        }
    }
    flush(&mut cur, &mut out, &mut bad);
    if bad {
        return json!([-2]);
    }
    json!(out)
}

// ---- the independent walk of an output table ----------------------------------------------------------------

fn bias(count: usize) -> i64 {
    if count < 1240 {
        107
    } else if count < 33900 {
        1131
    } else {
        32768
    }
}

struct OutCff<'a> {
    d: &'a [u8],
    gsubrs: usize,
    /// per glyph: position of the local Subr INDEX of its Font DICT, if it has one
    lsubrs: Vec<Option<usize>>,
    n_glyphs: usize,
}

fn walk<'a>(d: &'a [u8]) -> Option<OutCff<'a>> {
    let hdr = *d.get(2)? as usize;
    let (_, _, _, after_name) = ind::index_at(d, hdr)?;
    let top = ind::index_obj(d, after_name, 0)?;
    let (_, _, _, after_top) = ind::index_at(d, after_name)?;
    let (_, _, _, gsubrs) = ind::index_at(d, after_top)?;
    let ops = ind::dict_ops(top);
    let get = |op: u16| ops.iter().find(|o| o.0 == op).map(|o| o.1.clone());
    let cs = get(17)?.first().copied()? as usize;
    let (n_glyphs, _, _, _) = ind::index_at(d, cs)?;
    let lsubr_of_private = |p: &[i64]| -> Option<Option<usize>> {
        if p.len() != 2 {
            return None;
        }
        let (size, at) = (p[0] as usize, p[1] as usize);
        let pd = d.get(at..at + size)?;
        Some(ind::dict_ops(pd).iter().find(|o| o.0 == 19).and_then(|s| s.1.first().map(|&rel| at + rel as usize)))
    };
    let mut lsubrs = Vec::with_capacity(n_glyphs);
    if get(0x0c1e).is_some() {
        let fda = get(0x0c24)?.first().copied()? as usize;
        let (nfd, _, _, _) = ind::index_at(d, fda)?;
        let mut per_fd = Vec::new();
        for i in 0..nfd {
            let fd = ind::index_obj(d, fda, i)?;
            let p = ind::dict_ops(fd).iter().find(|o| o.0 == 18)?.1.clone();
            per_fd.push(lsubr_of_private(&p)?);
        }
        let sel = get(0x0c25)?.first().copied()? as usize;
        for g in 0..n_glyphs {
            let fd = match *d.get(sel)? {
                0 => *d.get(sel + 1 + g)? as usize,
                3 => {
                    let nr = u16::from_be_bytes([*d.get(sel + 1)?, *d.get(sel + 2)?]) as usize;
                    let mut fd = None;
                    for r in 0..nr {
                        let first = u16::from_be_bytes([*d.get(sel + 3 + 3 * r)?, *d.get(sel + 4 + 3 * r)?]) as usize;
                        let next = u16::from_be_bytes([*d.get(sel + 6 + 3 * r)?, *d.get(sel + 7 + 3 * r)?]) as usize;
                        if first <= g && g < next {
                            fd = Some(*d.get(sel + 5 + 3 * r)? as usize);
                        }
                    }
                    fd?
                }
                _ => return None,
            };
            lsubrs.push(*per_fd.get(fd)?);
        }
    } else {
        let l = lsubr_of_private(&get(18)?)?;
        lsubrs = vec![l; n_glyphs];
    }
    Some(OutCff { d, gsubrs, lsubrs, n_glyphs })
}

/// The drawing operators a charstring executes, subroutines entered; None = a call that cannot be resolved, an empty
/// subroutine, an unknown operator, nesting deeper than 10.
fn run(o: &OutCff<'_>, g: usize, code: &[u8], depth: usize, stack: &mut Vec<i64>, out: &mut Vec<(u8, Vec<i64>)>) -> Option<bool> {
    if code.is_empty() {
        return None;
    }
    let mut i = 0;
    while i < code.len() {
        let b = code[i];
        match b {
            RMOVETO | RLINETO => {
                out.push((b, std::mem::take(stack)));
                i += 1;
            }
            CALLSUBR | CALLGSUBR => {
                let at = if b == CALLSUBR { (*o.lsubrs.get(g)?)? } else { o.gsubrs };
                let (count, _, _, _) = ind::index_at(o.d, at)?;
                let k = stack.pop()? + bias(count);
                if k < 0 || depth >= 10 {
                    return None;
                }
                let body = ind::index_obj(o.d, at, k as usize)?;
                if run(o, g, body, depth + 1, stack, out)? {
                    return Some(true);
                }
                i += 1;
            }
            RETURN => return Some(false),
            ENDCHAR => return Some(true),
            28 => {
                stack.push(i16::from_be_bytes([*code.get(i + 1)?, *code.get(i + 2)?]) as i64);
                i += 3;
            }
            32..=246 => {
                stack.push(b as i64 - 139);
                i += 1;
            }
            247..=250 => {
                stack.push((b as i64 - 247) * 256 + *code.get(i + 1)? as i64 + 108);
                i += 2;
            }
            251..=254 => {
                stack.push(-(b as i64 - 251) * 256 - *code.get(i + 1)? as i64 - 108);
                i += 2;
            }
            _ => return None,
        }
    }
    Some(false)
}

fn tokens_ind(o: &OutCff<'_>, cff: &[u8], g: usize) -> Value {
    let cs = match ind::cff_charstring(cff, g) {
        Some(c) => c,
        None => return json!([-1]),
    };
    let mut ops = Vec::new();
    let mut stack = Vec::new();
    if run(o, g, &cs, 0, &mut stack, &mut ops) != Some(true) {
        return json!([-1]);
    }
    let mut toks = Vec::new();
    for chunk in ops.chunks(5) {
        match (0..MAX_TOKEN).find(|&t| shape_ops(t).as_slice() == chunk) {
            Some(t) => toks.push(t),
            None => return json!([-2]),
        }
    }
    json!(toks)
}

pub fn replay_cid(cases: &str, mism_path: &str) {
    let mut mism = NdWriter::create(mism_path);
    let f = std::fs::File::open(cases).unwrap_or_else(|e| panic!("open {}: {}", cases, e));
    let (mut n_cases, mut n_mism, mut calls, mut refused) = (0usize, 0usize, 0usize, 0usize);
    let mut feat: BTreeMap<String, u64> = BTreeMap::new();
    for line in BufReader::new(f).lines() {
        let line = line.expect("read");
        if line.trim().is_empty() {
            continue;
        }
        let case: Value = serde_json::from_str(&line).expect("case json");
        n_cases += 1;
        let n = case["n"].as_u64().expect("n") as usize;
        let req: Vec<u16> = ints(&case["req"]).iter().map(|&g| g as u16).collect();
        let file = build_case_font(&case);
        // ---- what the case exercises (inputs only)
        {
            let mut bump = |k: String| *feat.entry(k).or_default() += 1;
            let rp = &case["rep"];
            for k in ["hdr", "hoff", "ioff", "top", "short", "charset", "fdsel", "blocks", "gap"] {
                bump(format!("rep:{}={}", k, rp[k].to_string().replace('"', "")));
            }
            bump(format!("kind:{}", if case["t1"] == json!(true) { "name-keyed" } else { "cid-keyed" }));
            let fd = ints(&case["fd"]);
            let kept = &case["kept"];
            let gn = case["gsub"]["n"].as_u64().unwrap() as usize;
            let ln = case["lsub"][0]["n"].as_u64().unwrap() as usize;
            bump(format!("global-subrs:bias-{}", bias(gn)));
            bump(format!("local-subrs:bias-{}", bias(ln)));
            for c in [1239usize, 1240, 33899, 33900] {
                if gn == c {
                    bump(format!("global-subrs:count-{}", c));
                }
                if ln == c {
                    bump(format!("local-subrs:count-{}", c));
                }
            }
            bump(format!("global-index:{}", if kept["g"] == json!(0) { "dropped" } else { "kept" }));
            let l = ints(&kept["l"]);
            let lu = ints(&kept["lused"]);
            for (f, &c) in l.iter().enumerate() {
                bump(format!("local-index:{}", if c == 0 { "dropped" } else { "kept" }));
                if c == 0 && fd.iter().any(|&x| x as usize == f) && !req.iter().any(|&g| fd[g as usize] as usize == f) {
                    bump("local-index:dropped:no-glyph-of-its-font-dict-requested".to_string());
                }
                if c == 0 && req.iter().any(|&g| fd[g as usize] as usize == f) {
                    bump("local-index:dropped:requested-glyphs-call-none".to_string());
                }
                if c > 0 && (lu[f] as usize) < 3 {
                    bump("local-index:kept-with-unused-entries".to_string());
                }
            }
            if l.len() > 1 && l.iter().any(|&c| c == 0) && l.iter().any(|&c| c > 0) {
                bump("local-index:one-kept-one-dropped".to_string());
            }
            let used_fds: std::collections::BTreeSet<i64> = req.iter().map(|&g| fd[g as usize]).collect();
            bump(format!("font-dicts-of-requested-glyphs:{}", used_fds.len()));
            if req.iter().enumerate().any(|(i, &g)| i > 0 && fd[g as usize] != fd[i]) {
                bump("fdselect:new-glyph-in-another-font-dict-than-the-old-glyph-of-that-id".to_string());
            }
            // a local subroutine reached only through a global one (pattern <<callgsubr 1>> alone)
            for &g in &req {
                let cs = case["glyphs"][g as usize].as_array().unwrap();
                if cs.len() == 1 && cs[0][0] == json!(2) {
                    bump("glyph:local-subr-only-through-a-global-one".to_string());
                }
                if cs[0][0] == json!(1) && cs.len() == 2 {
                    bump("glyph:nested-local-global-local".to_string());
                }
            }
            if req.len() == n {
                bump("request:all".to_string());
            }
            if req.len() == 1 {
                bump("request:notdef-only".to_string());
            }
        }
        // the harness's own reading of its own bytes: the independent walk sees in the SOURCE what the case says
        {
            let t = Tables::from_sfnt(&file, 0).expect("own sfnt");
            let cff = t.get("CFF ").expect("own CFF");
            let o = walk(cff).expect("own CFF walkable");
            assert_eq!(o.n_glyphs, n);
        }
        let fd = ReadScope::new(&file).read::<FontData<'_>>().expect("FontData of synthesized font");
        let prov = fd.table_provider(0).expect("provider of synthesized font");
        let exp = &case["exp"];
        for api in ["subset", "prince"] {
            calls += 1;
            let result = match api {
                "subset" => guarded(|| subset(&prov, &req).map_err(|e| format!("{:?}", e))),
                _ => guarded(|| prince::subset(&prov, &req, PrinceCmapTarget::Unrestricted, false).map_err(|e| format!("{:?}", e))),
            };
            let mut what: std::collections::BTreeSet<String> = std::collections::BTreeSet::new();
            let obs = match &result {
                Outcome::Returned(Ok(bytes)) => {
                    let (cff, metrics): (Option<Vec<u8>>, Option<(Vec<u16>, Vec<i16>)>) = if api == "subset" {
                        match Tables::from_sfnt(bytes, 0) {
                            Some(t) => (t.get("CFF ").map(|c| c.to_vec()), t.h_metrics().ok()),
                            None => (None, None),
                        }
                    } else {
                        (Some(bytes.clone()), None)
                    };
                    match cff {
                        None => json!({"fail": "output has no CFF table"}),
                        Some(cff) => {
                            // the output may be anything: the independent walk is guarded like a call of allsorts
                            let walked = guarded(|| {
                                let o = walk(&cff)?;
                                Some((o.n_glyphs, (0..o.n_glyphs).map(|g| tokens_ind(&o, &cff, g)).collect::<Vec<Value>>()))
                            });
                            match walked {
                                Outcome::Returned(Some((n_out, ind_toks))) => {
                                    let news: Vec<u16> = (0..n_out as u16).collect();
                                    let vis = visit_cff_bytes(&cff, &news);
                                    let glyphs: Vec<Value> = (0..n_out)
                                        .map(|k| {
                                            let (a, l) = match &metrics {
                                                Some((a, l)) => (json!(a.get(k).map(|&v| v as i64).unwrap_or(-1)), json!(l.get(k).map(|&v| v as i64).unwrap_or(-99999))),
                                                None => (json!("-"), json!("-")),
                                            };
                                            json!([project(&vis[k]), ind_toks[k], a, l])
                                        })
                                        .collect();
                                    json!({"n": n_out, "glyphs": glyphs})
                                }
                                _ => json!({"fail": "output CFF table not walkable"}),
                            }
                        }
                    }
                }
                Outcome::Returned(Err(e)) => {
                    // a refusal is outside "a successful subset"
                    refused += 1;
                    *feat.entry(format!("refused:{}", e.chars().take(40).collect::<String>())).or_default() += 1;
                    continue;
                }
                Outcome::Panicked(m) => json!({"fail": format!("Panic:{}", panic_key(m))}),
            };
            if let Some(fl) = obs.get("fail") {
                what.insert(format!("failed:{}", fl.as_str().unwrap_or("?").chars().take(60).collect::<String>()));
            } else if obs["n"] != exp["n"] {
                what.insert("glyph-count".to_string());
            } else {
                for i in 0..req.len() {
                    let (e, o) = (&exp["glyphs"][i], &obs["glyphs"][i]);
                    if o[0] != e[0] {
                        what.insert(if o[0] == json!([-1]) { "outline-lost" } else { "outline" }.to_string());
                    }
                    if o[1] != e[0] {
                        what.insert("outline-ind".to_string());
                    }
                    if api == "subset" && o[2] != e[1] {
                        what.insert("advance".to_string());
                    }
                    if api == "subset" && o[3] != e[2] {
                        what.insert("lsb".to_string());
                    }
                }
            }
            if what.is_empty() {
                continue;
            }
            n_mism += 1;
            let mut input = case.clone();
            input.as_object_mut().unwrap().remove("exp");
            let kind = if case["t1"] == json!(true) { "cff" } else { "cid" };
            mism.write(&json!({"case": n_cases, "api": api, "kind": kind, "class": what.into_iter().collect::<Vec<_>>().join("+"),
                               "input": input, "exp": exp, "obs": obs}));
        }
    }
    mism.finish();
    println!("{}", json!({"cases": n_cases, "calls": calls, "mismatches": n_mism, "refused": refused, "features": feat}));
}
