//! Representation variants of a CFF SOURCE and `seac` glyphs (C07, round 3 of strengthening).
//!
//! The abstract font of a name-keyed CFF - glyph g has a name (a string id), an outline, a width; an accented
//! glyph is "base + accent displaced by (adx, ady)", the two named by StandardEncoding codes (`adx ady bchar
//! achar endchar`, the seac form of endchar: code -> StandardEncoding SID -> the glyph of that NAME) - can be
//! stored in many ways, all legal (TN5176):
//!   header        hdrSize 4, or longer (5, 8) with bytes a reader must skip; the header's offSize byte 1..4
//!   INDEXes       offSize as small as possible, or larger than needed
//!   Top DICT      operators in any order; offsets in the shortest operand form or in the five byte form
//!   charset       format 0 / 1 / 2, or predefined (ISOAdobe by omission or `0 charset`, Expert, ExpertSubset)
//!   Encoding      absent, predefined (Standard, Expert), custom format 0 / 1
//!   data blocks   CharStrings / charset / Encoding / Private / Subrs in any order, the local Subrs INDEX right
//!                 behind its Private DICT or further on
//!   Private DICT  with / without Subrs (and global subroutines), defaultWidthX / nominalWidthX present or not,
//!                 before or after Subrs; widths as operands of the charstrings accordingly
//!   glyph order   the ISOAdobe order (glyph i has SID i) or any other; more or fewer than 229 glyphs
//! None of this changes what a retained glyph draws: Subset.tla CffRepIndependent.  The writer below is the
//! harness's own (INDEX / DICT operand primitives from cffw.rs); each font names its representation in its facts.
//!
//! seac: the subsetter does not pull the base and accent in (CFF subsets hold exactly the requested glyphs), so
//! the lists come in three kinds, named in the plan: components retained (prefix of the font, everything, a
//! permutation with the accented glyph first, the minimal closed list in both orders) - the accented glyph must
//! draw what it drew in the source; components omitted (one or both) - Dev_SeacComponentsNotPulledIn of
//! Subset.tla: the accented glyph may have lost its outline, it must not draw anything else.
use super::cffw::{dict_int, dict_int5, dict_op, index, off_size_for, standard_encoding_sid};
use super::cffw::{OP_CHARSET, OP_CHARSTRINGS, OP_ENCODING, OP_FDARRAY, OP_FDSELECT, OP_PRIVATE, OP_ROS, OP_SUBRS};
use super::sizes::{Plan, Sized};
use super::syn;

const RMOVETO: u8 = 21;
const RLINETO: u8 = 5;
const RRCURVETO: u8 = 8;
const CALLSUBR: u8 = 10;
const RETURN: u8 = 11;
const ENDCHAR: u8 = 14;
const CALLGSUBR: u8 = 29;
const OP_DEFAULT_WIDTH_X: u16 = 20;
const OP_NOMINAL_WIDTH_X: u16 = 21;
const OP_FONTBBOX: u16 = 5;
const OP_UNDERLINE_POSITION: u16 = 0x0C03;
const OP_CIDCOUNT: u16 = 0x0C22;

fn n(v: i32) -> Vec<u8> {
    dict_int(v) // the one / two / three byte forms of a Type 2 integer are those of a DICT integer
}

fn op(args: &[i32], o: u8) -> Vec<u8> {
    assert!(args.iter().all(|a| (-32768..=32767).contains(a)));
    let mut v: Vec<u8> = args.iter().flat_map(|a| n(*a)).collect();
    v.push(o);
    v
}

/// The StandardEncoding code of a string id (TN5176 appendix B, read backwards), if it has one.
pub fn code_for_sid(sid: u16) -> Option<u8> {
    if sid == 0 {
        return None;
    }
    (0..=255u8).find(|c| standard_encoding_sid(*c) == sid)
}

#[derive(Clone, Copy, Debug, PartialEq)]
pub enum Cs {
    F0,
    F1,
    F2,
    /// predefined, the operator left out (ISOAdobe is the default)
    IsoOmitted,
    /// predefined, `id charset` written: 0 ISOAdobe, 1 Expert, 2 ExpertSubset
    Predefined(u8),
}

#[derive(Clone, Copy, Debug, PartialEq)]
pub enum Enc {
    Absent,
    Standard,
    Expert,
    Custom0,
    Custom1,
}

#[derive(Clone, Debug)]
pub struct Rep {
    pub hdr_size: u8,
    pub hdr_off_size: u8,
    /// offSize of every INDEX: None = the smallest that fits
    pub index_off_size: Option<u8>,
    pub top_order: usize,
    pub short_offsets: bool,
    pub charset: Cs,
    pub encoding: Enc,
    pub fdselect_fmt: u8,
    /// order of the data blocks behind the global Subr INDEX
    pub block_order: usize,
    /// bytes between a Private DICT and its local Subr INDEX
    pub subrs_gap: usize,
    /// Private DICT: 0 = widths then Subrs, 1 = Subrs then widths
    pub priv_order: usize,
}

impl Rep {
    pub fn plain() -> Rep {
        Rep { hdr_size: 4, hdr_off_size: 4, index_off_size: None, top_order: 0, short_offsets: false, charset: Cs::F0, encoding: Enc::Absent, fdselect_fmt: 0, block_order: 0, subrs_gap: 0, priv_order: 0 }
    }
    pub fn facts(&self, kind: &str) -> Vec<String> {
        let mut f = vec![
            format!("source:{}:hdr-size-{}", kind, self.hdr_size),
            format!("source:{}:header-off-size-{}", kind, self.hdr_off_size),
            format!("source:{}:index-off-size-{}", kind, self.index_off_size.map(|o| o.to_string()).unwrap_or_else(|| "minimal".into())),
            format!("source:{}:top-dict-order-{}", kind, self.top_order),
            format!("source:{}:offsets-{}", kind, if self.short_offsets { "shortest-form" } else { "five-byte-form" }),
            format!("source:{}:block-order-{}", kind, self.block_order),
            format!("source:{}:subrs-gap-{}", kind, self.subrs_gap),
        ];
        if kind == "cff" {
            f.push(format!(
                "source:cff:charset-{}",
                match self.charset {
                    Cs::F0 => "format-0",
                    Cs::F1 => "format-1",
                    Cs::F2 => "format-2",
                    Cs::IsoOmitted => "isoadobe-by-omission",
                    Cs::Predefined(0) => "isoadobe-predefined",
                    Cs::Predefined(1) => "expert-predefined",
                    _ => "expertsubset-predefined",
                }
            ));
            f.push(format!(
                "source:cff:encoding-{}",
                match self.encoding {
                    Enc::Absent => "absent",
                    Enc::Standard => "standard-predefined",
                    Enc::Expert => "expert-predefined",
                    Enc::Custom0 => "custom-format-0",
                    Enc::Custom1 => "custom-format-1",
                }
            ));
            f.push(format!("source:cff:private-dict-order-{}", self.priv_order));
        } else {
            f.push(format!("source:cid:fdselect-format-{}", self.fdselect_fmt));
        }
        f
    }
}

#[derive(Clone, Debug, Default)]
pub struct Fd {
    pub lsubrs: Option<Vec<Vec<u8>>>,
    pub dwx: Option<i32>,
    pub nwx: Option<i32>,
}

#[derive(Clone, Debug)]
pub struct FontSpec {
    pub cid: bool,
    pub glyphs: Vec<Vec<u8>>,
    pub gsubrs: Vec<Vec<u8>>,
    pub fds: Vec<Fd>,
    pub fdselect: Vec<u8>,
    /// SID (CID) of glyph 1, 2, ...
    pub names: Vec<u16>,
}

fn charset_bytes(names: &[u16], cs: Cs) -> Vec<u8> {
    let ranges = |cap: usize| -> Vec<(u16, usize)> {
        let mut r: Vec<(u16, usize)> = Vec::new();
        for &id in names {
            match r.last_mut() {
                Some(x) if x.0 as usize + x.1 + 1 == id as usize && x.1 < cap => x.1 += 1,
                _ => r.push((id, 0)),
            }
        }
        r
    };
    match cs {
        Cs::F0 => {
            let mut o = vec![0u8];
            for s in names {
                o.extend_from_slice(&s.to_be_bytes());
            }
            o
        }
        Cs::F1 => {
            let mut o = vec![1u8];
            for (first, left) in ranges(255) {
                o.extend_from_slice(&first.to_be_bytes());
                o.push(left as u8);
            }
            o
        }
        Cs::F2 => {
            let mut o = vec![2u8];
            for (first, left) in ranges(65535) {
                o.extend_from_slice(&first.to_be_bytes());
                o.extend_from_slice(&(left as u16).to_be_bytes());
            }
            o
        }
        Cs::IsoOmitted | Cs::Predefined(_) => Vec::new(),
    }
}

fn encoding_bytes(n_glyphs: usize, e: Enc) -> Vec<u8> {
    let k = (n_glyphs - 1).min(200);
    match e {
        Enc::Custom0 => {
            let mut o = vec![0u8, k as u8];
            o.extend((0..k).map(|i| (33 + i) as u8));
            o
        }
        Enc::Custom1 => {
            // two ranges
            let a = k / 2;
            let mut o = vec![1u8, 2];
            o.extend_from_slice(&[40, (a.max(1) - 1) as u8, 120, ((k - a).max(1) - 1) as u8]);
            o
        }
        _ => Vec::new(),
    }
}

fn fdselect_bytes(sel: &[u8], fmt: u8) -> Vec<u8> {
    let mut o = Vec::new();
    if fmt == 0 {
        o.push(0);
        o.extend_from_slice(sel);
    } else {
        o.push(3);
        let mut ranges: Vec<(u16, u8)> = Vec::new();
        for (g, fd) in sel.iter().enumerate() {
            if ranges.last().map(|r| r.1) != Some(*fd) {
                ranges.push((g as u16, *fd));
            }
        }
        o.extend_from_slice(&(ranges.len() as u16).to_be_bytes());
        for (first, fd) in ranges {
            o.extend_from_slice(&first.to_be_bytes());
            o.push(fd);
        }
        o.extend_from_slice(&(sel.len() as u16).to_be_bytes());
    }
    o
}

/// A complete CFF table of `s` under representation `r`.  Offsets depend on the layout and (in the shortest
/// operand form) the layout on the offsets: laid out again until nothing moves.
pub fn build(s: &FontSpec, r: &Rep) -> Vec<u8> {
    let force = r.index_off_size;
    let idx = |objs: &[Vec<u8>]| index(objs, false, force.map(|f| f.max(off_size_for(objs.iter().map(|o| o.len()).sum::<usize>() + 1))));
    let off = |v: usize| if r.short_offsets { dict_int(v as i32) } else { dict_int5(v as i32) };
    let name_idx = idx(&[b"VerifRep".to_vec()]);
    let strings: Vec<Vec<u8>> = if s.cid { vec![b"Adobe".to_vec(), b"Identity".to_vec()] } else { vec![] };
    let string_idx = idx(&strings);
    let gsubr_idx = idx(&s.gsubrs);
    let cs_idx = idx(&s.glyphs);
    let charset = charset_bytes(&s.names, r.charset);
    let encoding = if s.cid { Vec::new() } else { encoding_bytes(s.glyphs.len(), r.encoding) };
    let fdsel = if s.cid { fdselect_bytes(&s.fdselect, r.fdselect_fmt) } else { Vec::new() };
    let lsubr_idx: Vec<Option<Vec<u8>>> = s.fds.iter().map(|fd| fd.lsubrs.as_ref().map(|l| idx(l))).collect();

    let private_dict = |fd: &Fd, has_subrs: bool, dict_len_guess: usize| -> Vec<u8> {
        let mut widths = Vec::new();
        if let Some(v) = fd.dwx {
            widths.extend(dict_int(v));
            widths.extend(dict_op(OP_DEFAULT_WIDTH_X));
        }
        if let Some(v) = fd.nwx {
            widths.extend(dict_int(v));
            widths.extend(dict_op(OP_NOMINAL_WIDTH_X));
        }
        let mut subrs = Vec::new();
        if has_subrs {
            // relative to the start of the Private DICT
            subrs.extend(off(dict_len_guess + r.subrs_gap));
            subrs.extend(dict_op(OP_SUBRS));
        }
        if r.priv_order == 0 {
            [widths, subrs].concat()
        } else {
            [subrs, widths].concat()
        }
    };
    // the length of a Private DICT depends on its own length (Subrs offset): a fixpoint of at most a few rounds
    let privs: Vec<Vec<u8>> = s
        .fds
        .iter()
        .map(|fd| {
            let mut len = 0usize;
            for _ in 0..6 {
                let d = private_dict(fd, fd.lsubrs.is_some(), len);
                if d.len() == len {
                    return d;
                }
                len = d.len();
            }
            private_dict(fd, fd.lsubrs.is_some(), len)
        })
        .collect();
    for (fd, p) in s.fds.iter().zip(&privs) {
        assert_eq!(private_dict(fd, fd.lsubrs.is_some(), p.len()), *p, "Private DICT length settled");
    }

    // offsets of: charset, encoding, charstrings, fdselect, fdarray, private[i]
    #[derive(Clone, PartialEq, Default, Debug)]
    struct Offs {
        charset: usize,
        encoding: usize,
        charstrings: usize,
        fdselect: usize,
        fdarray: usize,
        privs: Vec<usize>,
    }
    let mut offs = Offs { privs: vec![0; s.fds.len()], ..Offs::default() };
    let mut result: Vec<u8> = Vec::new();
    for round in 0..12 {
        // ---- Top DICT
        let mut entries: Vec<(&str, Vec<u8>)> = Vec::new();
        entries.push(("bbox", [dict_int(-50), dict_int(-200), dict_int(1200), dict_int(900), dict_op(OP_FONTBBOX)].concat()));
        entries.push(("underline", [dict_int(-120), dict_op(OP_UNDERLINE_POSITION)].concat()));
        match r.charset {
            Cs::IsoOmitted => {}
            Cs::Predefined(id) => entries.push(("charset", [dict_int(id as i32), dict_op(OP_CHARSET)].concat())),
            _ => entries.push(("charset", [off(offs.charset), dict_op(OP_CHARSET)].concat())),
        }
        if !s.cid {
            match r.encoding {
                Enc::Absent => {}
                Enc::Standard => entries.push(("encoding", [dict_int(0), dict_op(OP_ENCODING)].concat())),
                Enc::Expert => entries.push(("encoding", [dict_int(1), dict_op(OP_ENCODING)].concat())),
                _ => entries.push(("encoding", [off(offs.encoding), dict_op(OP_ENCODING)].concat())),
            }
        }
        entries.push(("charstrings", [off(offs.charstrings), dict_op(OP_CHARSTRINGS)].concat()));
        if s.cid {
            entries.push(("fdarray", [off(offs.fdarray), dict_op(OP_FDARRAY)].concat()));
            entries.push(("fdselect", [off(offs.fdselect), dict_op(OP_FDSELECT)].concat()));
            entries.push(("cidcount", [dict_int(s.names.iter().cloned().max().unwrap_or(0) as i32 + 1), dict_op(OP_CIDCOUNT)].concat()));
        } else {
            entries.push(("private", [off(privs[0].len()), off(offs.privs[0]), dict_op(OP_PRIVATE)].concat()));
        }
        let order: &[&str] = match r.top_order {
            0 => &["bbox", "underline", "charset", "encoding", "charstrings", "fdarray", "fdselect", "cidcount", "private"],
            1 => &["private", "cidcount", "fdselect", "fdarray", "charstrings", "encoding", "charset", "underline", "bbox"],
            2 => &["charstrings", "private", "fdselect", "bbox", "charset", "fdarray", "encoding", "cidcount", "underline"],
            _ => &["encoding", "fdarray", "charset", "underline", "private", "cidcount", "bbox", "charstrings", "fdselect"],
        };
        let mut top = Vec::new();
        if s.cid {
            // ROS comes first in the Top DICT of a CIDFont
            top.extend([dict_int(391), dict_int(392), dict_int(0), dict_op(OP_ROS)].concat());
        }
        for name in order {
            if let Some(e) = entries.iter().find(|e| e.0 == *name) {
                top.extend_from_slice(&e.1);
            }
        }
        let top_idx = idx(&[top]);
        // ---- Font DICTs (CID)
        let fda = if s.cid {
            let fdicts: Vec<Vec<u8>> = (0..s.fds.len()).map(|i| [off(privs[i].len()), off(offs.privs[i]), dict_op(OP_PRIVATE)].concat()).collect();
            idx(&fdicts)
        } else {
            Vec::new()
        };
        // ---- layout
        let mut out = vec![1u8, 0, r.hdr_size, r.hdr_off_size];
        // bytes of a longer header: a reader skips them (they look like an INDEX count to one that does not)
        out.extend((4..r.hdr_size).map(|i| 0xA0 + i));
        out.extend_from_slice(&name_idx);
        out.extend_from_slice(&top_idx);
        out.extend_from_slice(&string_idx);
        out.extend_from_slice(&gsubr_idx);
        let mut now = Offs { privs: vec![0; s.fds.len()], ..Offs::default() };
        let blocks: &[&str] = match r.block_order {
            0 => &["charstrings", "charset", "encoding", "fdselect", "fdarray", "private"],
            1 => &["charset", "encoding", "private", "fdarray", "fdselect", "charstrings"],
            _ => &["private", "encoding", "fdselect", "charstrings", "fdarray", "charset"],
        };
        for b in blocks {
            match *b {
                "charstrings" => {
                    now.charstrings = out.len();
                    out.extend_from_slice(&cs_idx);
                }
                "charset" => {
                    now.charset = out.len();
                    out.extend_from_slice(&charset);
                }
                "encoding" => {
                    now.encoding = out.len();
                    out.extend_from_slice(&encoding);
                }
                "fdselect" => {
                    now.fdselect = out.len();
                    out.extend_from_slice(&fdsel);
                }
                "fdarray" => {
                    now.fdarray = out.len();
                    out.extend_from_slice(&fda);
                }
                _ => {
                    for i in 0..s.fds.len() {
                        now.privs[i] = out.len();
                        out.extend_from_slice(&privs[i]);
                        if let Some(l) = &lsubr_idx[i] {
                            out.extend((0..r.subrs_gap).map(|k| 0x5A + k as u8));
                            out.extend_from_slice(l);
                        }
                    }
                }
            }
        }
        if now == offs {
            result = out;
            break;
        }
        assert!(round < 11, "CFF layout does not settle");
        offs = now;
    }
    assert!(!result.is_empty());
    result
}

// ---- the abstract fonts ----------------------------------------------------------------------------------

/// advance of glyph g as syn::wrap writes the hmtx table
fn advance(g: usize, n_glyphs: usize) -> i32 {
    let nhm = (n_glyphs / 2).max(1);
    400 + 3 * g.min(nhm - 1) as i32
}

fn lsubrs() -> Vec<Vec<u8>> {
    vec![
        [op(&[4, 21], RLINETO), op(&[-6, 2], RLINETO), vec![RETURN]].concat(),
        [op(&[10, 0, 11, 10, 0, 10], RRCURVETO), vec![RETURN]].concat(),
        [op(&[90, 90], RLINETO), vec![RETURN]].concat(), // unused
    ]
}

fn gsubrs() -> Vec<Vec<u8>> {
    vec![[op(&[15, -3], RLINETO), vec![RETURN]].concat(), [op(&[-7, 11], RLINETO), vec![RETURN]].concat()]
}

fn call(i: i32, o: u8) -> Vec<u8> {
    op(&[i - 107], o)
}

/// width operand of glyph g (None: the glyph's width is defaultWidthX)
fn width_operand(g: usize, n_glyphs: usize, fd: &Fd) -> Option<i32> {
    let adv = advance(g, n_glyphs);
    match (fd.dwx, fd.nwx) {
        (Some(d), _) if d == adv => None,
        (_, Some(nw)) => Some(adv - nw),
        (_, None) => Some(adv), // nominalWidthX defaults to 0
    }
}

/// A plain glyph: distinct for every g, calls subroutines when the font has them.
fn plain(g: usize, w: Option<i32>, with_lsubrs: bool, with_gsubrs: bool) -> Vec<u8> {
    let gi = g as i32;
    let mut v = Vec::new();
    if let Some(w) = w {
        v.extend(n(w));
    }
    if g == 0 {
        v.extend(op(&[0, 0], RMOVETO));
        v.extend(op(&[100, 0], RLINETO));
        v.extend(op(&[0, 100], RLINETO));
        v.push(ENDCHAR);
        return v;
    }
    v.extend(op(&[10 * (gi % 90) + 5, 7 + gi / 90], RMOVETO));
    if with_lsubrs && g % 3 != 2 {
        v.extend(call((gi % 3) as i32, CALLSUBR));
    }
    v.extend(op(&[3, gi % 50 + 1], RLINETO));
    v.extend(op(&[-20 - gi % 7, 15], RLINETO));
    if with_gsubrs && g % 2 == 0 {
        v.extend(call(((gi / 2) % 2) as i32, CALLGSUBR));
    }
    v.push(ENDCHAR);
    v
}

fn seac_glyph(w: Option<i32>, adx: i32, ady: i32, bchar: u8, achar: u8) -> Vec<u8> {
    let mut v = Vec::new();
    if let Some(w) = w {
        v.extend(n(w));
    }
    v.extend(op(&[adx, ady, bchar as i32, achar as i32], ENDCHAR));
    v
}

/// glyph orders of a name-keyed font: the name (SID) of glyph 1, 2, ...
pub fn names_of(order: &str, n_glyphs: usize) -> Vec<u16> {
    let k = n_glyphs - 1;
    assert!(k <= 390, "standard strings only");
    match order {
        "iso" => (1..=k as u16).collect(),
        // neighbours exchanged: glyph 1 is SID 2, glyph 2 is SID 1, ...
        "swap" => (1..=k as u16).map(|g| if g % 2 == 1 { if g as usize + 1 <= k { g + 1 } else { g } } else { g - 1 }).collect(),
        "reverse" => (1..=k as u16).map(|g| k as u16 + 1 - g).collect(),
        // ISOAdobe order but for one late exchange, made by name_keyed (the first glyphs ARE in ISOAdobe order)
        "late-swap" => (1..=k as u16).collect(),
        "expert" => [1u16, 229, 230, 231, 232, 233, 234, 235, 236, 237, 238, 13, 14, 15, 99].iter().cloned().take(k).collect(),
        "expertsubset" => [1u16, 231, 232, 235, 236, 237, 238, 13, 14, 15, 99].iter().cloned().take(k).collect(),
        _ => panic!("order {}", order),
    }
}

pub struct Accented {
    pub gid: u16,
    pub base: u16,
    pub accent: u16,
}

/// A name-keyed font of `n_glyphs` in glyph order `order` with `n_seac` accented glyphs.  The accented glyphs sit
/// at the END of the font except the first, which sits in front of its components where the order allows.
fn name_keyed(order: &str, n_glyphs: usize, n_seac: usize, subrs: bool, widths: usize) -> (FontSpec, Vec<Accented>) {
    let mut names = names_of(order, n_glyphs);
    let fd = Fd {
        lsubrs: if subrs { Some(lsubrs()) } else { None },
        dwx: if widths & 1 != 0 { Some(advance(1, n_glyphs)) } else { None },
        nwx: if widths & 2 != 0 { Some(380) } else { None },
    };
    // accented glyphs: the last n_seac - 1 glyphs and one early glyph; their own names do not matter
    let mut seac_gids: Vec<usize> = (0..n_seac.saturating_sub(1)).map(|i| n_glyphs - 1 - i).collect();
    if n_seac > 0 {
        seac_gids.push(if n_glyphs > 8 { 3 } else { 1 });
    }
    // components: plain glyphs whose name has a StandardEncoding code
    let cands: Vec<usize> = (1..n_glyphs).filter(|g| !seac_gids.contains(g) && code_for_sid(names[g - 1]).is_some()).collect();
    assert!(cands.len() >= 2 || n_seac == 0, "{} {}: no components", order, n_glyphs);
    if order == "late-swap" {
        // the names of the last two glyphs that can be components change places: every glyph in front of them is in
        // ISOAdobe order, and the accent of the first accented glyph is one of the two
        let (a, b) = (cands[cands.len() - 1], cands[cands.len() - 2]);
        names.swap(a - 1, b - 1);
    }
    let mut glyphs = Vec::new();
    let mut acc = Vec::new();
    for g in 0..n_glyphs {
        let w = width_operand(g, n_glyphs, &fd);
        if let Some(i) = seac_gids.iter().position(|s| *s == g) {
            let base = cands[(7 * i + 1) % cands.len()];
            let mut accent = cands[(cands.len() - 1).saturating_sub((5 * i) % cands.len())];
            if accent == base && i % 2 == 0 {
                accent = cands[(cands.len() / 2 + i) % cands.len()];
            }
            let (adx, ady) = [(30, 40), (-25, 120), (0, 0), (300, -107), (108, 7)][i % 5];
            // every other accented glyph without a width operand of its own (four operands)
            let w = if i % 2 == 0 { w } else { None };
            glyphs.push(seac_glyph(w, adx, ady, code_for_sid(names[base - 1]).unwrap(), code_for_sid(names[accent - 1]).unwrap()));
            acc.push(Accented { gid: g as u16, base: base as u16, accent: accent as u16 });
        } else {
            glyphs.push(plain(g, w, subrs, subrs));
        }
    }
    (FontSpec { cid: false, glyphs, gsubrs: if subrs { gsubrs() } else { vec![] }, fds: vec![fd], fdselect: vec![], names }, acc)
}

fn cid_keyed(n_glyphs: usize) -> FontSpec {
    let fds = vec![Fd { lsubrs: Some(lsubrs()), dwx: None, nwx: None }, Fd { lsubrs: None, dwx: Some(500), nwx: Some(40) }];
    let sel: Vec<u8> = (0..n_glyphs).map(|g| ((g / 2) % 2) as u8).collect();
    let glyphs = (0..n_glyphs).map(|g| plain(g, width_operand(g, n_glyphs, &fds[sel[g] as usize]), sel[g] == 0, true)).collect();
    FontSpec { cid: true, glyphs, gsubrs: gsubrs(), fds, fdselect: sel, names: (1..n_glyphs as u16).map(|g| 2 * g + 7).collect() }
}

const APIS: [&str; 2] = ["subset", "prince:unrestricted:t1"];

fn dedup_keep_order(v: Vec<u16>) -> Vec<u16> {
    let mut out: Vec<u16> = Vec::new();
    for x in v {
        if !out.contains(&x) {
            out.push(x);
        }
    }
    out
}

/// Request lists of a font with accented glyphs.
fn seac_plans(n_glyphs: usize, acc: &[Accented], order: &str) -> Vec<Plan> {
    let n16 = n_glyphs as u16;
    let mut plans = Vec::new();
    let tag = |what: &str| format!("seac:{}:{}", what, if order == "iso" { "iso-order" } else { "other-order" });
    // components retained
    plans.push(Plan { name: tag("all"), ids: (0..n16).collect(), apis: APIS.to_vec() });
    // a prefix of the font that holds an accented glyph and its components (and as few others as possible), a
    // prefix on either side of 228 / 229 glyphs, the font but its last glyph
    let mut ks: Vec<u16> = vec![n16 - 1];
    if let Some(k) = acc.iter().map(|a| a.gid.max(a.base).max(a.accent) + 1).min() {
        ks.push(k);
    }
    for k in [227u16, 228, 229, 230, 231, 255, 256, 257] {
        if k < n16 {
            ks.push(k);
        }
    }
    ks.sort();
    ks.dedup();
    for k in ks {
        let apis: Vec<&'static str> = if k > 255 { vec!["subset", "prince:unrestricted:t1", "prince:unrestricted:cid"] } else { APIS.to_vec() };
        plans.push(Plan { name: tag(&format!("prefix:{}", if k > 255 { "more-than-255" } else if k > 229 { "more-than-229" } else if k >= 228 { "228-or-229" } else { "fewer-than-228" })), ids: (0..k).collect(), apis });
    }
    // the accented glyphs first, then their components from the back of the font to the front
    let mut v: Vec<u16> = vec![0];
    v.extend(acc.iter().map(|a| a.gid));
    let mut comps: Vec<u16> = acc.iter().flat_map(|a| [a.base, a.accent]).collect();
    comps.sort();
    comps.reverse();
    v.extend(comps);
    plans.push(Plan { name: tag("accented-first-components-reversed"), ids: dedup_keep_order(v), apis: APIS.to_vec() });
    if let Some(a) = acc.first() {
        plans.push(Plan { name: tag("minimal-closed"), ids: dedup_keep_order(vec![0, a.base, a.accent, a.gid]), apis: APIS.to_vec() });
        plans.push(Plan { name: tag("minimal-closed-reordered"), ids: dedup_keep_order(vec![0, a.gid, a.accent, a.base]), apis: APIS.to_vec() });
        // the whole font in another order
        let mut perm: Vec<u16> = vec![0];
        perm.extend((1..n16).rev());
        plans.push(Plan { name: tag("all-reversed"), ids: perm, apis: vec!["subset"] });
    }
    // components omitted (Dev_SeacComponentsNotPulledIn)
    let mut v: Vec<u16> = vec![0];
    v.extend(acc.iter().map(|a| a.gid));
    plans.push(Plan { name: tag("components-omitted"), ids: dedup_keep_order(v), apis: APIS.to_vec() });
    if let Some(a) = acc.iter().find(|a| a.base != a.accent) {
        plans.push(Plan { name: tag("accent-omitted"), ids: dedup_keep_order(vec![0, a.base, a.gid]), apis: vec!["subset"] });
        plans.push(Plan { name: tag("base-omitted"), ids: dedup_keep_order(vec![0, a.gid, a.accent]), apis: vec!["subset"] });
    }
    // the components alone
    let mut v: Vec<u16> = vec![0];
    v.extend(acc.iter().flat_map(|a| [a.accent, a.base]));
    plans.push(Plan { name: tag("components-alone"), ids: dedup_keep_order(v), apis: vec!["subset"] });
    plans
}

fn finish(label: &str, kind: &str, table: Vec<u8>, n_glyphs: usize, acc: Vec<Accented>, plans: Vec<Plan>, facts: Vec<String>) -> Sized {
    let mut s = syn::wrap(label, kind, "CFF ", table, n_glyphs);
    s.seac = acc.iter().map(|a| (a.gid, a.base, a.accent)).collect();
    Sized { syn: s, plans, facts }
}

fn order_fact(order: &str) -> String {
    format!("source:cff:glyph-order-{}", if order == "iso" { "isoadobe" } else { order })
}

fn count_fact(n_glyphs: usize) -> String {
    format!("source:cff:glyphs-{}", if n_glyphs < 229 { "fewer-than-229".to_string() } else if n_glyphs == 229 { "229".to_string() } else if n_glyphs <= 255 { "230-to-255".to_string() } else { "more-than-255".to_string() })
}

pub fn fonts(thorough: bool) -> Vec<Sized> {
    let mut out = Vec::new();
    // ---- accented glyphs: glyph order x glyph count; the representation rotates along
    let counts: &[usize] = if thorough { &[5, 12, 228, 229, 230, 231, 300] } else { &[5, 12, 229, 230, 300] };
    let orders = ["iso", "swap", "reverse", "late-swap"];
    let mut k = 0usize;
    let mut iso_fonts = 0usize;
    for &ng in counts {
        for order in orders {
            if order == "late-swap" && ng < 12 {
                continue;
            }
            let subrs = k % 2 == 0;
            let widths = k % 4;
            let (spec, acc) = name_keyed(order, ng, if ng < 8 { 1 } else { 4 }, subrs, widths);
            let iso_names = order == "iso" && ng <= 229;
            let rep = Rep {
                hdr_size: [4, 5, 8][k % 3],
                hdr_off_size: [4, 1, 2, 3][k % 4],
                index_off_size: [None, Some(2), Some(4), Some(3)][(k / 2) % 4],
                top_order: k % 4,
                short_offsets: k % 2 == 1,
                charset: if iso_names { [Cs::IsoOmitted, Cs::Predefined(0), Cs::F1, Cs::F0, Cs::F2][iso_fonts % 5] } else { [Cs::F0, Cs::F1, Cs::F2][(k / 3) % 3] },
                encoding: [Enc::Absent, Enc::Standard, Enc::Custom0, Enc::Expert, Enc::Custom1][k % 5],
                fdselect_fmt: 0,
                block_order: (k / 2) % 3,
                subrs_gap: [0, 3][(k / 3) % 2],
                priv_order: (k / 4) % 2,
            };
            if iso_names {
                iso_fonts += 1;
            }
            let mut facts = rep.facts("cff");
            facts.push(order_fact(order));
            facts.push(count_fact(ng));
            facts.push(format!("source:cff:private-{}", if subrs { "with-subrs" } else { "without-subrs" }));
            facts.push(format!("source:cff:widths-{}", ["none", "defaultWidthX", "nominalWidthX", "defaultWidthX+nominalWidthX"][widths]));
            let plans = seac_plans(ng, &acc, order);
            out.push(finish(&format!("syn/cff-seac-{}-{}", order, ng), "cff", build(&spec, &rep), ng, acc, plans, facts));
            k += 1;
        }
    }
    // ---- predefined Expert / ExpertSubset charsets (the first glyphs of those charsets: space, comma, hyphen,
    // period, fraction have StandardEncoding codes)
    for (order, ng, id) in [("expert", 16usize, 1u8), ("expertsubset", 12, 2)] {
        let (spec, acc) = name_keyed(order, ng, 3, true, 3);
        let rep = Rep { charset: Cs::Predefined(id), hdr_size: 5, ..Rep::plain() };
        let mut facts = rep.facts("cff");
        facts.push(order_fact(order));
        let plans = seac_plans(ng, &acc, order);
        out.push(finish(&format!("syn/cff-seac-{}-{}", order, ng), "cff", build(&spec, &rep), ng, acc, plans, facts));
    }
    // ---- one abstract font under every value of every representation choice (one choice varied at a time, and
    // a few combinations)
    let ng = 40usize;
    let (spec, _) = name_keyed("swap", ng, 4, true, 3);
    let base = Rep::plain();
    let mut reps: Vec<(String, Rep)> = vec![("plain".into(), base.clone())];
    for h in [5u8, 8, 12] {
        reps.push((format!("hdr{}", h), Rep { hdr_size: h, ..base.clone() }));
    }
    for o in [1u8, 2, 3] {
        reps.push((format!("hoff{}", o), Rep { hdr_off_size: o, ..base.clone() }));
    }
    for o in [2u8, 3, 4] {
        reps.push((format!("ioff{}", o), Rep { index_off_size: Some(o), ..base.clone() }));
    }
    for t in 1..4usize {
        reps.push((format!("top{}", t), Rep { top_order: t, ..base.clone() }));
        reps.push((format!("top{}-short", t), Rep { top_order: t, short_offsets: true, ..base.clone() }));
    }
    for (nm, c) in [("cs1", Cs::F1), ("cs2", Cs::F2)] {
        reps.push((nm.into(), Rep { charset: c, ..base.clone() }));
    }
    for (nm, e) in [("enc-std", Enc::Standard), ("enc-exp", Enc::Expert), ("enc-c0", Enc::Custom0), ("enc-c1", Enc::Custom1)] {
        reps.push((nm.into(), Rep { encoding: e, ..base.clone() }));
    }
    for b in 1..3usize {
        reps.push((format!("blocks{}", b), Rep { block_order: b, ..base.clone() }));
        reps.push((format!("blocks{}-gap", b), Rep { block_order: b, subrs_gap: 5, short_offsets: true, ..base.clone() }));
    }
    reps.push(("priv1".into(), Rep { priv_order: 1, ..base.clone() }));
    reps.push(("all-odd".into(), Rep { hdr_size: 8, hdr_off_size: 1, index_off_size: Some(4), top_order: 3, short_offsets: true, charset: Cs::F2, encoding: Enc::Custom1, fdselect_fmt: 0, block_order: 2, subrs_gap: 7, priv_order: 1 }));
    let lists: Vec<(String, Vec<u16>)> = vec![
        ("rep:all".into(), (0..ng as u16).collect()),
        ("rep:prefix".into(), (0..20u16).collect()),
        ("rep:permuted".into(), dedup_keep_order(std::iter::once(0u16).chain((1..ng as u16).rev().step_by(2)).chain((1..ng as u16).step_by(3)).collect())),
    ];
    for (nm, rep) in reps.iter() {
        let (_, acc) = name_keyed("swap", ng, 4, true, 3);
        let plans = lists.iter().map(|(n, ids)| Plan { name: n.clone(), ids: ids.clone(), apis: APIS.to_vec() }).collect();
        out.push(finish(&format!("syn/cff-rep-{}", nm), "cff", build(&spec, rep), ng, acc, plans, rep.facts("cff")));
    }
    // a font in ISOAdobe order under the predefined charset, by omission and by `0 charset`
    for (nm, c) in [("iso-omitted", Cs::IsoOmitted), ("iso-0", Cs::Predefined(0)), ("iso-f1", Cs::F1)] {
        let (spec, acc) = name_keyed("iso", ng, 4, true, 1);
        let rep = Rep { charset: c, hdr_size: 5, ..base.clone() };
        let mut facts = rep.facts("cff");
        facts.push(order_fact("iso"));
        let plans = lists.iter().map(|(n, ids)| Plan { name: n.clone(), ids: ids.clone(), apis: APIS.to_vec() }).collect();
        out.push(finish(&format!("syn/cff-rep-{}", nm), "cff", build(&spec, &rep), ng, acc, plans, facts));
    }
    // the same for the widths / subrs variants of the Private DICT (another abstract font each: the charstrings carry
    // the width operands)
    for widths in 0..4usize {
        for subrs in [false, true] {
            let (spec, acc) = name_keyed("swap", ng, 4, subrs, widths);
            let rep = Rep { priv_order: widths % 2, hdr_size: if subrs { 4 } else { 6 }, ..base.clone() };
            let mut facts = rep.facts("cff");
            facts.push(format!("source:cff:private-{}", if subrs { "with-subrs" } else { "without-subrs" }));
            facts.push(format!("source:cff:widths-{}", ["none", "defaultWidthX", "nominalWidthX", "defaultWidthX+nominalWidthX"][widths]));
            let plans = lists.iter().map(|(n, ids)| Plan { name: n.clone(), ids: ids.clone(), apis: APIS.to_vec() }).collect();
            out.push(finish(&format!("syn/cff-rep-widths{}-{}", widths, if subrs { "subrs" } else { "nosubrs" }), "cff", build(&spec, &rep), ng, acc, plans, facts));
        }
    }
    // ---- CID-keyed: header, offSize, Top DICT order, block order, FDSelect / charset format
    let ngc = 24usize;
    let cid = cid_keyed(ngc);
    let cid_lists: Vec<(String, Vec<u16>)> = vec![
        ("rep:all".into(), (0..ngc as u16).collect()),
        ("rep:prefix".into(), (0..9u16).collect()),
        ("rep:permuted".into(), vec![0, 23, 5, 4, 17, 2, 11, 10]),
    ];
    let cid_reps: Vec<(&str, Rep)> = vec![
        ("plain", Rep { charset: Cs::F2, ..base.clone() }),
        ("hdr5", Rep { hdr_size: 5, charset: Cs::F0, ..base.clone() }),
        ("hdr8-ioff3", Rep { hdr_size: 8, index_off_size: Some(3), charset: Cs::F1, fdselect_fmt: 3, ..base.clone() }),
        ("top1-short", Rep { top_order: 1, short_offsets: true, charset: Cs::F2, block_order: 1, ..base.clone() }),
        ("top2-blocks2-gap", Rep { top_order: 2, block_order: 2, subrs_gap: 4, hdr_off_size: 2, charset: Cs::F0, fdselect_fmt: 3, ..base.clone() }),
        ("top3-hoff1", Rep { top_order: 3, hdr_off_size: 1, index_off_size: Some(2), charset: Cs::F1, priv_order: 1, ..base.clone() }),
    ];
    for (nm, rep) in cid_reps {
        let plans = cid_lists.iter().map(|(n, ids)| Plan { name: n.clone(), ids: ids.clone(), apis: APIS.to_vec() }).collect();
        out.push(finish(&format!("syn/cid-rep-{}", nm), "cid", build(&cid, &rep), ngc, vec![], plans, rep.facts("cid")));
    }
    out
}
