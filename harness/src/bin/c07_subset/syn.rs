//! Synthesized CFF / CFF2 OpenType fonts for C07: what the repository does not hold - CFF2 charstrings
//! that call local and global subroutines (nested, with arguments handed over on the stack), several
//! Font DICTs with their own local subroutines (CFF2 and CID-keyed CFF), a name-keyed CFF with more
//! than 255 glyphs and subroutines.  Tables are written by the harness's own writers (cffw.rs,
//! vh::fontgen); every glyph has a distinct outline, advance and left side bearing.
use super::cffw::{self, CffSpec, CharsetSpec, FdSpec};
use super::ind::Tables;
use vh::fontgen;

/// Type 2 charstring integer
fn n(v: i32) -> Vec<u8> {
    if (-107..=107).contains(&v) {
        vec![(v + 139) as u8]
    } else if (108..=1131).contains(&v) {
        let w = v - 108;
        vec![(w / 256 + 247) as u8, (w % 256) as u8]
    } else if (-1131..=-108).contains(&v) {
        let w = -v - 108;
        vec![(w / 256 + 251) as u8, (w % 256) as u8]
    } else {
        let b = (v as i16).to_be_bytes();
        vec![28, b[0], b[1]]
    }
}

const RMOVETO: u8 = 21;
const RLINETO: u8 = 5;
const RRCURVETO: u8 = 8;
const CALLSUBR: u8 = 10;
const RETURN: u8 = 11;
const ENDCHAR: u8 = 14;
const CALLGSUBR: u8 = 29;

fn cat(parts: &[Vec<u8>]) -> Vec<u8> {
    parts.concat()
}

fn op(args: &[i32], o: u8) -> Vec<u8> {
    let mut v: Vec<u8> = args.iter().flat_map(|a| n(*a)).collect();
    v.push(o);
    v
}

/// subroutine number operand (bias 107: fewer than 1240 subroutines)
fn call(index: i32, o: u8) -> Vec<u8> {
    op(&[index - 107], o)
}

fn fin(mut v: Vec<u8>, cff2: bool, last: u8) -> Vec<u8> {
    if !cff2 {
        v.push(last);
    }
    v
}

/// Local subroutines of Font DICT `fd`: 0 two lines, 1 a curve, 2 a bare rlineto (its arguments come
/// from the caller), 3 calls local 0 and global 1 (nesting), 4 unused.
fn lsubrs(fd: i32, cff2: bool) -> Vec<Vec<u8>> {
    vec![
        fin(cat(&[op(&[3 + fd, 20], RLINETO), op(&[-5, 1 + fd], RLINETO)]), cff2, RETURN),
        fin(op(&[10, 0, 10 + fd, 10, 0, 10], RRCURVETO), cff2, RETURN),
        fin(vec![RLINETO], cff2, RETURN),
        fin(cat(&[call(0, CALLSUBR), op(&[2, 2 + fd], RLINETO), call(1, CALLGSUBR)]), cff2, RETURN),
        fin(op(&[90, 90], RLINETO), cff2, RETURN),
    ]
}

/// Global subroutines: 0 calls global 2, 1 a line, 2 a line, 3 unused.
fn gsubrs(cff2: bool) -> Vec<Vec<u8>> {
    vec![
        fin(cat(&[op(&[1, 2], RLINETO), call(2, CALLGSUBR)]), cff2, RETURN),
        fin(op(&[15, -3], RLINETO), cff2, RETURN),
        fin(op(&[-7, 11], RLINETO), cff2, RETURN),
        fin(op(&[80, 80], RLINETO), cff2, RETURN),
    ]
}

fn glyph(g: i32, cff2: bool, subrs: bool) -> Vec<u8> {
    if g == 0 {
        return fin(cat(&[op(&[0, 0], RMOVETO), op(&[100, 0], RLINETO), op(&[0, 100], RLINETO)]), cff2, ENDCHAR);
    }
    let mut parts = vec![op(&[10 * (g % 90) + 5, 7 + g / 90], RMOVETO)];
    if subrs {
        match g % 5 {
            0 => parts.push(call(0, CALLSUBR)),
            1 => parts.push(call(1, CALLSUBR)),
            2 => parts.push(cat(&[n(4), n(5 + g % 7), call(2, CALLSUBR)])), // arguments for the subroutine's rlineto
            3 => parts.push(call(3, CALLSUBR)),
            _ => {} // no local subroutine
        }
    }
    parts.push(op(&[3, g % 50 + 1], RLINETO));
    if subrs && g % 3 != 2 {
        parts.push(call(g % 3, CALLGSUBR));
    }
    fin(cat(&parts), cff2, ENDCHAR)
}

pub struct Syn {
    pub label: String,
    pub kind: String,
    pub tables: Tables,
    pub file: Vec<u8>,
}

fn wrap(label: &str, kind: &str, table_tag: &str, table: Vec<u8>, n_glyphs: usize) -> Syn {
    let nhm = (n_glyphs / 2).max(1);
    let long: Vec<(u16, i16)> = (0..nhm).map(|g| (400 + 3 * g as u16, g as i16 - 7)).collect();
    let lsbs: Vec<i16> = (nhm..n_glyphs).map(|g| g as i16 - 7).collect();
    let pairs: Vec<(u16, u16)> = (1..n_glyphs.min(200)).map(|g| (0x40 + g as u16, g as u16)).collect();
    let tables: Vec<(String, Vec<u8>)> = vec![
        ("head".into(), fontgen::head(1000, false, (0, 0, 1000, 1000))),
        ("hhea".into(), fontgen::hhea(nhm as u16, 800, -200, 1500)),
        ("maxp".into(), fontgen::maxp_cff(n_glyphs as u16)),
        ("OS/2".into(), fontgen::os2_v4(0x41, 0x41 + n_glyphs as u16)),
        ("hmtx".into(), fontgen::hmtx(&long, &lsbs)),
        ("cmap".into(), fontgen::cmap_format4(&pairs)),
        ("name".into(), fontgen::name(&[(0, "none"), (1, "VerifSyn"), (2, "Regular"), (4, "VerifSyn Regular"), (6, "VerifSyn-Regular")])),
        ("post".into(), fontgen::post_v3()),
        (table_tag.into(), table),
    ];
    let file = fontgen::build_sfnt(0x4F54544F, &tables);
    let t = Tables::from_sfnt(&file, 0).expect("own sfnt");
    Syn { label: label.to_string(), kind: kind.to_string(), tables: t, file }
}

pub fn fonts() -> Vec<Syn> {
    let mut out = Vec::new();
    // CFF2, one Font DICT, local and global subroutines
    let ng = 24usize;
    let spec = CffSpec {
        cid: false,
        glyphs: (0..ng as i32).map(|g| glyph(g, true, true)).collect(),
        gsubrs: gsubrs(true),
        fds: vec![FdSpec { lsubrs: Some(lsubrs(0, true)), vsindex: None, private_extra: vec![] }],
        fdselect: vec![],
        fdselect_fmt: 0,
        charset: CharsetSpec::IsoAdobe,
    };
    out.push(wrap("syn/cff2-subrs-1fd", "cff2", "CFF2", cffw::build_cff2(&spec, None), ng));
    // CFF2, two Font DICTs with different local subroutines under the same numbers
    let spec = CffSpec {
        cid: false,
        glyphs: (0..ng as i32).map(|g| glyph(g, true, true)).collect(),
        gsubrs: gsubrs(true),
        fds: vec![
            FdSpec { lsubrs: Some(lsubrs(0, true)), vsindex: None, private_extra: vec![] },
            FdSpec { lsubrs: Some(lsubrs(6, true)), vsindex: None, private_extra: vec![] },
        ],
        fdselect: (0..ng).map(|g| (g % 2) as u8).collect(),
        fdselect_fmt: 3,
        charset: CharsetSpec::IsoAdobe,
    };
    out.push(wrap("syn/cff2-subrs-2fd", "cff2", "CFF2", cffw::build_cff2(&spec, None), ng));
    // CFF2 without any subroutine, more than 255 glyphs (CID output)
    let nbig = 300usize;
    let spec = CffSpec {
        cid: false,
        glyphs: (0..nbig as i32).map(|g| glyph(g, true, false)).collect(),
        gsubrs: vec![],
        fds: vec![FdSpec { lsubrs: None, vsindex: None, private_extra: vec![] }],
        fdselect: vec![],
        fdselect_fmt: 0,
        charset: CharsetSpec::IsoAdobe,
    };
    out.push(wrap("syn/cff2-plain-300", "cff2", "CFF2", cffw::build_cff2(&spec, None), nbig));
    // CID-keyed CFF, two Font DICTs with their own local subroutines, a third without
    let spec = CffSpec {
        cid: true,
        glyphs: (0..ng as i32).map(|g| if g % 3 == 2 { glyph(g, false, false) } else { glyph(g, false, true) }).collect(),
        gsubrs: gsubrs(false),
        fds: vec![
            FdSpec { lsubrs: Some(lsubrs(0, false)), vsindex: None, private_extra: vec![] },
            FdSpec { lsubrs: Some(lsubrs(6, false)), vsindex: None, private_extra: vec![] },
            FdSpec { lsubrs: None, vsindex: None, private_extra: vec![] },
        ],
        fdselect: (0..ng).map(|g| (g % 3) as u8).collect(),
        fdselect_fmt: 3,
        charset: CharsetSpec::IdentityRange,
    };
    out.push(wrap("syn/cid-subrs-3fd", "cid", "CFF ", cffw::build_cff(&spec), ng));
    // name-keyed CFF with subroutines and more than 255 glyphs (Type 1 -> CID conversion)
    let spec = CffSpec {
        cid: false,
        glyphs: (0..nbig as i32).map(|g| glyph(g, false, true)).collect(),
        gsubrs: gsubrs(false),
        fds: vec![FdSpec { lsubrs: Some(lsubrs(0, false)), vsindex: None, private_extra: vec![] }],
        fdselect: vec![],
        fdselect_fmt: 0,
        charset: CharsetSpec::Format0((1..nbig as u16).collect()),
    };
    out.push(wrap("syn/cff-subrs-300", "cff", "CFF ", cffw::build_cff(&spec), nbig));
    out
}
