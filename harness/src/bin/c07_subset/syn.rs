//! Synthesized CFF / CFF2 OpenType fonts for C07: what the repository does not hold - CFF2 charstrings
//! that call local and global subroutines (nested, with arguments handed over on the stack), several
//! Font DICTs with their own local subroutines (CFF2 and CID-keyed CFF), a name-keyed CFF with more
//! than 255 glyphs and subroutines.  Tables are written by the harness's own writers (cffw.rs,
//! vh::fontgen); every glyph has a distinct outline, advance and left side bearing.
//!
//! Boundary glyphs (`families`): wherever the subsetter re-encodes charstring operands (CFF2 -> CFF
//! conversion) or moves charstrings into a rebuilt table (CFF subset, Type 1 -> CID conversion), the
//! retained glyphs must carry operands on both sides of every Type 2 number-encoding boundary
//! (-1133..-1130, -109..-106, 106..109, 1130..1133, the lead-byte steps 363/364, 619/620, 875/876 of the
//! two byte forms, the shortint extremes 32766/32767/-32767/-32768, 16.16 fixed values, integers in a
//! longer form than needed) as PATH coordinates of every operator family (moves, lines, all curve
//! operators, the four flex operators) and as hint values (hstem/vstem, hstemhm/vstemhm, implicit vstem
//! before hintmask, hintmask/cntrmask with two mask bytes); for CFF / CID sources also as arguments
//! handed to a subroutine, inside local and global subroutines, and behind a width operand.  A wrong
//! byte in any re-encoded operand then moves a point of an outline.
use super::cffw::{self, CffSpec, CharsetSpec, FdSpec};
use super::ind::Tables;
use vh::fontgen;

/// Type 2 charstring integer
fn n(v: i32) -> Vec<u8> {
    if (-107..=107).contains(&v) {
        vec![(v + 139) as u8]
    } else if (108..=1131).contains(&v) {
        let w = v - 108;
        vec![(w / 256 + 247) as u8, (w % 256) as u8]
    } else if (-1131..=-108).contains(&v) {
        let w = -v - 108;
        vec![(w / 256 + 251) as u8, (w % 256) as u8]
    } else {
        let b = (v as i16).to_be_bytes();
        vec![28, b[0], b[1]]
    }
}

const RMOVETO: u8 = 21;
const RLINETO: u8 = 5;
const RRCURVETO: u8 = 8;
const CALLSUBR: u8 = 10;
const RETURN: u8 = 11;
const ENDCHAR: u8 = 14;
const CALLGSUBR: u8 = 29;

fn cat(parts: &[Vec<u8>]) -> Vec<u8> {
    parts.concat()
}

fn op(args: &[i32], o: u8) -> Vec<u8> {
    let mut v: Vec<u8> = args.iter().flat_map(|a| n(*a)).collect();
    v.push(o);
    v
}

// ---- boundary glyphs -------------------------------------------------------------------------------

const VSTEM: u8 = 3;
const HSTEM: u8 = 1;
const VMOVETO: u8 = 4;
const HLINETO: u8 = 6;
const VLINETO: u8 = 7;
const HSTEMHM: u8 = 18;
const HINTMASK: u8 = 19;
const CNTRMASK: u8 = 20;
const HMOVETO: u8 = 22;
const VSTEMHM: u8 = 23;
const RCURVELINE: u8 = 24;
const RLINECURVE: u8 = 25;
const VVCURVETO: u8 = 26;
const HHCURVETO: u8 = 27;
const VHCURVETO: u8 = 30;
const HVCURVETO: u8 = 31;
const ESC: u8 = 12;
const HFLEX: u8 = 34;
const FLEX: u8 = 35;
const HFLEX1: u8 = 36;
const FLEX1: u8 = 37;

/// One operand: integer in the shortest form, 16.16 fixed (raw), integer in the three byte form
/// whatever its size (longer than needed).
#[derive(Clone, Copy, Debug, PartialEq)]
pub enum Num {
    I(i32),
    F(i32),
    L(i32),
}

fn enc(a: Num) -> Vec<u8> {
    match a {
        Num::I(v) => n(v),
        Num::F(raw) => {
            let b = raw.to_be_bytes();
            vec![255, b[0], b[1], b[2], b[3]]
        }
        Num::L(v) => {
            let b = (v as i16).to_be_bytes();
            vec![28, b[0], b[1]]
        }
    }
}

/// Both sides of every boundary of the one and two byte forms (and of their lead bytes), in an order
/// whose partial sums stay small: v, -v, ...
const SMALL: [i32; 35] = [
    106, -106, 107, -107, 108, -108, 109, -109, 363, -363, 364, -364, 619, -619, 620, -620, 875, -875, 876, -876, 1130, -1130, 1131, -1131, 1132,
    -1132, 1133, -1133, 255, -255, 256, -256, 0, 1, -1,
];
/// 16.16 values (raw): halves, the smallest steps, values next to the integer boundaries, integral
/// values kept as fixed, the extremes.
const FIX: [i32; 16] = [
    0x8000, -0x8000, 1, -1, 4, -4, 0x006B_8000, -0x006B_8000, 0x046B_8000, -0x046B_8000, 0x046C_0000, -0x046C_0000, 0x0064_0000, -0x006C_0000, 0x7FFF_FFFF,
    i32::MIN,
];
/// the values the vacuity counters name
pub const KEY_VALUES: [i32; 10] = [-32768, -1132, -1131, -108, -107, 107, 108, 1131, 1132, 32767];

/// Charstring under construction: every operand written is remembered (for the counters).
struct Cs {
    b: Vec<u8>,
    used: Vec<Num>,
}

impl Cs {
    fn new() -> Cs {
        Cs { b: Vec::new(), used: Vec::new() }
    }
    fn op(&mut self, args: &[Num], o: u8) {
        for a in args {
            self.b.extend(enc(*a));
            self.used.push(*a);
        }
        self.b.push(o);
    }
    fn esc(&mut self, args: &[Num], o: u8) {
        for a in args {
            self.b.extend(enc(*a));
            self.used.push(*a);
        }
        self.b.push(ESC);
        self.b.push(o);
    }
    fn ints(&mut self, args: &[i32], o: u8) {
        let v: Vec<Num> = args.iter().map(|a| Num::I(*a)).collect();
        self.op(&v, o);
    }
    fn mask(&mut self, o: u8, bytes: &[u8]) {
        self.b.push(o);
        self.b.extend_from_slice(bytes);
    }
}

/// Two streams over one list of values, one for operands that move the pen in x and one for y (rotated
/// by two so that a pair is never (v, v)); consumed in list order, so the pen stays near the origin.
struct Streams {
    vals: Vec<Num>,
    xi: usize,
    yi: usize,
}

impl Streams {
    fn small() -> Streams {
        Streams { vals: SMALL.iter().map(|v| Num::I(*v)).collect(), xi: 0, yi: 0 }
    }
    fn x(&mut self) -> Num {
        let v = self.vals[self.xi % self.vals.len()];
        self.xi += 1;
        v
    }
    fn y(&mut self) -> Num {
        let v = self.vals[(self.yi + 2) % self.vals.len()];
        self.yi += 1;
        v
    }
    /// operands for a pattern: 'x' / 'y' the next value of that stream, 'c' a constant
    fn args(&mut self, pat: &str) -> Vec<Num> {
        pat.chars()
            .map(|c| match c {
                'x' => self.x(),
                'y' => self.y(),
                _ => Num::I(50),
            })
            .collect()
    }
    fn done(&self, both: bool) -> bool {
        self.xi >= self.vals.len() && (!both || self.yi >= self.vals.len())
    }
}

pub const FAMILIES: [&str; 20] = [
    "moves", "rlineto", "hvlineto", "rrcurveto", "hhcurveto", "vvcurveto", "hvcurveto", "vhcurveto", "rcurveline", "rlinecurve", "flex", "hflex", "hflex1",
    "flex1", "stems", "stemhm", "hintmask", "fixed", "extremes", "long-form",
];
/// CFF / CID only (CFF2 glyphs that call subroutines are lost by the conversion: known finding 1)
pub const SUBR_FAMILIES: [&str; 3] = ["subr-arguments", "subr-body", "gsubr-body"];
/// index of the local / global subroutine that holds boundary operands
const LSUBR_BOUNDS: i32 = 5;
const GSUBR_BOUNDS: i32 = 4;

fn curve_groups(st: &mut Streams, first_h: bool, groups: usize, extra: bool) -> Vec<Num> {
    let mut a = Vec::new();
    let mut h = first_h;
    for _ in 0..groups {
        a.extend(st.args(if h { "xxyy" } else { "yxyx" }));
        h = !h;
    }
    if extra {
        // the last group started horizontally (ends vertically): the extra operand is a dx, and vice versa
        a.extend(st.args(if !h { "x" } else { "y" }));
    }
    a
}

/// The body of the boundary glyph of a family (no width, no endchar).
fn family_body(fam: &str) -> Cs {
    let mut c = Cs::new();
    let mut st = Streams::small();
    let mut round = 0usize;
    match fam {
        "moves" => {
            while !st.done(true) {
                c.op(&st.args("xy"), RMOVETO);
                c.ints(&[3, 4], RLINETO);
                c.op(&st.args("x"), HMOVETO);
                c.ints(&[7], HLINETO);
                c.op(&st.args("y"), VMOVETO);
                c.ints(&[9], VLINETO);
            }
        }
        "rlineto" => {
            c.ints(&[10, 10], RMOVETO);
            while !st.done(true) {
                let k = [1usize, 2, 22, 5][round % 4];
                c.op(&st.args(&"xy".repeat(k)), RLINETO);
                round += 1;
            }
        }
        "hvlineto" => {
            c.ints(&[10, 20], RMOVETO);
            while !st.done(true) {
                let k = [1usize, 2, 3, 4, 7, 12][round % 6];
                let hpat: String = (0..k).map(|i| if i % 2 == 0 { 'x' } else { 'y' }).collect();
                let vpat: String = (0..k).map(|i| if i % 2 == 0 { 'y' } else { 'x' }).collect();
                c.op(&st.args(&hpat), HLINETO);
                c.op(&st.args(&vpat), VLINETO);
                round += 1;
            }
        }
        "rrcurveto" => {
            c.ints(&[20, 10], RMOVETO);
            while !st.done(true) {
                let k = [1usize, 2, 7][round % 3];
                c.op(&st.args(&"xyxyxy".repeat(k)), RRCURVETO);
                round += 1;
            }
        }
        "hhcurveto" => {
            c.ints(&[20, 20], RMOVETO);
            while !st.done(true) {
                let k = [1usize, 2, 5][round % 3];
                let lead = if round % 2 == 0 { "y" } else { "" };
                c.op(&st.args(&format!("{}{}", lead, "xxyx".repeat(k))), HHCURVETO);
                round += 1;
            }
        }
        "vvcurveto" => {
            c.ints(&[30, 20], RMOVETO);
            while !st.done(true) {
                let k = [1usize, 2, 5][round % 3];
                let lead = if round % 2 == 0 { "x" } else { "" };
                c.op(&st.args(&format!("{}{}", lead, "yxyy".repeat(k))), VVCURVETO);
                round += 1;
            }
        }
        "hvcurveto" | "vhcurveto" => {
            c.ints(&[30, 30], RMOVETO);
            while !st.done(true) {
                let groups = [1usize, 1, 2, 2, 3, 4][round % 6];
                let extra = round % 2 == 1;
                let a = curve_groups(&mut st, fam == "hvcurveto", groups, extra);
                c.op(&a, if fam == "hvcurveto" { HVCURVETO } else { VHCURVETO });
                round += 1;
            }
        }
        "rcurveline" => {
            c.ints(&[40, 30], RMOVETO);
            while !st.done(true) {
                let k = [1usize, 2, 4][round % 3];
                c.op(&st.args(&format!("{}xy", "xyxyxy".repeat(k))), RCURVELINE);
                round += 1;
            }
        }
        "rlinecurve" => {
            c.ints(&[40, 40], RMOVETO);
            while !st.done(true) {
                let k = [1usize, 2, 9][round % 3];
                c.op(&st.args(&format!("{}xyxyxy", "xy".repeat(k))), RLINECURVE);
                round += 1;
            }
        }
        "flex" => {
            c.ints(&[50, 40], RMOVETO);
            while !st.done(true) {
                c.esc(&st.args("xyxyxyxyxyxyc"), FLEX);
            }
        }
        "hflex" => {
            c.ints(&[50, 50], RMOVETO);
            while !st.done(true) {
                c.esc(&st.args("xxyxxxx"), HFLEX);
            }
        }
        "hflex1" => {
            c.ints(&[60, 50], RMOVETO);
            while !st.done(true) {
                c.esc(&st.args("xyxyxxxyx"), HFLEX1);
            }
        }
        "flex1" => {
            c.ints(&[60, 60], RMOVETO);
            while !st.done(true) {
                c.esc(&st.args("xyxyxyxyxyx"), FLEX1);
            }
        }
        "stems" => {
            // 9 + 9 stems, every boundary value as a hint operand once, then as a coordinate
            c.op(&st.args(&"x".repeat(18)), HSTEM);
            c.op(&st.args(&"x".repeat(18)), VSTEM);
            c.ints(&[70, 60], RMOVETO);
            let mut st = Streams::small();
            while !st.done(true) {
                c.op(&st.args(&"xy".repeat(6)), RLINETO);
            }
        }
        "stemhm" => {
            // 3 + 3 stems declared by hstemhm / vstemhm: one mask byte
            c.op(&st.args(&"x".repeat(6)), HSTEMHM);
            c.op(&st.args(&"x".repeat(6)), VSTEMHM);
            c.mask(CNTRMASK, &[0xA4]);
            c.mask(HINTMASK, &[0x1C]);
            c.ints(&[60, 70], RMOVETO);
            while !st.done(true) {
                c.op(&st.args(&"xy".repeat(3)), RLINETO);
                c.mask(HINTMASK, &[0xFC]);
                c.op(&st.args("yxyx"), VHCURVETO);
            }
        }
        "hintmask" => {
            // 5 stems by hstemhm + 4 implicit vertical stems (operands in front of the first hintmask) = 9 stems:
            // two mask bytes, chosen to look like operators and number lead bytes
            c.op(&st.args(&"x".repeat(10)), HSTEMHM);
            for a in st.args(&"x".repeat(8)) {
                c.b.extend(enc(a));
                c.used.push(a);
            }
            c.mask(HINTMASK, &[0x1C, 0x80]);
            c.mask(CNTRMASK, &[0x0B, 0x00]);
            c.ints(&[70, 70], RMOVETO);
            while !st.done(true) {
                c.op(&st.args(&"xy".repeat(4)), RLINETO);
                c.mask(HINTMASK, &[0xFF, 0x80]);
                c.op(&st.args("xyxyxy"), RRCURVETO);
                c.mask(HINTMASK, &[0x0E, 0x00]);
            }
        }
        "fixed" => {
            // pen: the partial sums of either stream stay within -8 .. 32760, the start is negative (allsorts'
            // visitor refuses coordinates beyond int16)
            let mut fs = Streams { vals: FIX.iter().map(|v| Num::F(*v)).collect(), xi: 0, yi: 0 };
            c.op(&[Num::F(-0x0050_8000), Num::I(-70)], RMOVETO);
            while !fs.done(true) {
                c.op(&fs.args("xy"), RLINETO);
                c.op(&[fs.x(), Num::I(3), Num::I(-3), fs.y(), fs.x(), fs.y()], RRCURVETO);
                c.op(&fs.args("xyx"), HLINETO);
            }
        }
        "extremes" => {
            // the shortint extremes, pen kept inside int16 by hand (allsorts' visitor refuses anything beyond)
            c.ints(&[-32768, 32767], RMOVETO); //                 (-32768, 32767)
            c.ints(&[32767, -32767], RLINETO); //                 (-1, 0)
            c.ints(&[32766, -32768, -32767, 32767], RLINETO); //  (32765, -32768) (-2, -1)
            c.ints(&[32767, -32767, -32768, 32766], HLINETO); //  (32765, -1) (32765, -32768) (-3, -32768) (-3, -2)
            c.ints(&[32767, -32765, -32767, 32765], VLINETO); //  (-3, 32765) (-32768, 32765) (-32768, -2) (-3, -2)
            c.ints(&[-2, 2], RLINETO); //                         (-5, 0)
            c.ints(&[32767, 1, -32767, -32768, 1, 32767], RRCURVETO); // (32762, 1) (-5, -32767) (-4, 0)
            c.ints(&[32767], HMOVETO); //                         (32763, 0)
            c.ints(&[-32768, 5], RLINETO); //                     (-5, 5)
            c.ints(&[-32768], VMOVETO); //                        (-5, -32763)
            c.ints(&[7, 32767], RLINETO); //                      (2, 4)
        }
        "long-form" => {
            c.op(&[Num::L(80), Num::L(70)], RMOVETO);
            c.op(&[Num::L(100), Num::L(-107), Num::L(107), Num::L(108), Num::L(-108), Num::L(1131), Num::L(-1131), Num::L(-1132), Num::L(0), Num::L(1)], RLINETO);
            c.op(&[Num::L(1132), Num::I(1132), Num::L(-1), Num::F(0x0001_0000), Num::L(-1132), Num::I(-1132)], RRCURVETO);
        }
        // ---- CFF / CID only: subroutines
        "subr-arguments" => {
            // the operands of a bare rlineto in local subroutine 2 come from the caller
            c.ints(&[80, 80], RMOVETO);
            while !st.done(true) {
                let a = st.args("xy");
                for v in &a {
                    c.b.extend(enc(*v));
                    c.used.push(*v);
                }
                c.b.extend(call(2, CALLSUBR));
            }
        }
        "subr-body" => {
            c.ints(&[90, 80], RMOVETO);
            c.b.extend(call(LSUBR_BOUNDS, CALLSUBR));
            c.ints(&[5, 6], RLINETO);
            c.b.extend(call(LSUBR_BOUNDS, CALLSUBR));
        }
        "gsubr-body" => {
            c.ints(&[90, 90], RMOVETO);
            c.b.extend(call(GSUBR_BOUNDS, CALLGSUBR));
            c.ints(&[-5, 6], RLINETO);
        }
        _ => panic!("unknown family {}", fam),
    }
    c
}

/// A subroutine that draws through every boundary value.
fn bounds_subr(cff2: bool, shift: i32) -> Vec<u8> {
    let mut c = Cs::new();
    let mut st = Streams::small();
    c.ints(&[shift, 1], RLINETO);
    while !st.done(true) {
        c.op(&st.args(&"xy".repeat(8)), RLINETO);
    }
    fin(c.b, cff2, RETURN)
}

pub struct Bound {
    pub gid: u16,
    pub family: &'static str,
    /// KEY_VALUES that occur as integer operands of the glyph (through its subroutines too)
    pub ints: Vec<i32>,
    /// number of 16.16 operands
    pub fixed: usize,
}

/// The boundary glyph of a family as a charstring: `width` (CFF only) goes in front of the first
/// stack-clearing operator.
fn family_glyph(fam: &'static str, gid: u16, cff2: bool, width: Option<i32>) -> (Vec<u8>, Bound) {
    let c = family_body(fam);
    let mut used = c.used.clone();
    if matches!(fam, "subr-body" | "gsubr-body") {
        used.extend(SMALL.iter().map(|v| Num::I(*v)));
    }
    let mut b = Vec::new();
    if let (false, Some(w)) = (cff2, width) {
        b.extend(n(w));
        used.push(Num::I(w));
    }
    b.extend(c.b);
    let ints: Vec<i32> = KEY_VALUES.iter().cloned().filter(|k| used.iter().any(|u| matches!(u, Num::I(v) | Num::L(v) if v == k))).collect();
    let fixed = used.iter().filter(|u| matches!(u, Num::F(_))).count();
    (fin(b, cff2, ENDCHAR), Bound { gid, family: fam, ints, fixed })
}

/// Glyphs 1 .. of a font: the boundary glyph of every family (with the subroutine families when `subrs`).
fn family_glyphs(first: u16, cff2: bool, subrs: bool) -> (Vec<Vec<u8>>, Vec<Bound>) {
    let mut fams: Vec<&'static str> = FAMILIES.to_vec();
    if subrs {
        fams.extend(SUBR_FAMILIES);
    }
    let mut glyphs = Vec::new();
    let mut bounds = Vec::new();
    for (i, fam) in fams.into_iter().enumerate() {
        let gid = first + i as u16;
        // CFF: every other glyph has a width operand, a boundary value itself
        let width = if i % 2 == 0 { Some(SMALL[(2 * i + 2) % SMALL.len()]) } else { None };
        let (g, b) = family_glyph(fam, gid, cff2, width);
        glyphs.push(g);
        bounds.push(b);
    }
    (glyphs, bounds)
}

/// subroutine number operand (bias 107: fewer than 1240 subroutines)
fn call(index: i32, o: u8) -> Vec<u8> {
    op(&[index - 107], o)
}

fn fin(mut v: Vec<u8>, cff2: bool, last: u8) -> Vec<u8> {
    if !cff2 {
        v.push(last);
    }
    v
}

/// Local subroutines of Font DICT `fd`: 0 two lines, 1 a curve, 2 a bare rlineto (its arguments come
/// from the caller), 3 calls local 0 and global 1 (nesting), 4 unused.
fn lsubrs(fd: i32, cff2: bool) -> Vec<Vec<u8>> {
    vec![
        fin(cat(&[op(&[3 + fd, 20], RLINETO), op(&[-5, 1 + fd], RLINETO)]), cff2, RETURN),
        fin(op(&[10, 0, 10 + fd, 10, 0, 10], RRCURVETO), cff2, RETURN),
        fin(vec![RLINETO], cff2, RETURN),
        fin(cat(&[call(0, CALLSUBR), op(&[2, 2 + fd], RLINETO), call(1, CALLGSUBR)]), cff2, RETURN),
        fin(op(&[90, 90], RLINETO), cff2, RETURN),
    ]
}

/// ... and 5: lines through every boundary value
fn lsubrs_b(fd: i32, cff2: bool) -> Vec<Vec<u8>> {
    let mut v = lsubrs(fd, cff2);
    assert_eq!(v.len() as i32, LSUBR_BOUNDS);
    v.push(bounds_subr(cff2, 2 + fd));
    v
}

/// Global subroutines: 0 calls global 2, 1 a line, 2 a line, 3 unused.
fn gsubrs(cff2: bool) -> Vec<Vec<u8>> {
    vec![
        fin(cat(&[op(&[1, 2], RLINETO), call(2, CALLGSUBR)]), cff2, RETURN),
        fin(op(&[15, -3], RLINETO), cff2, RETURN),
        fin(op(&[-7, 11], RLINETO), cff2, RETURN),
        fin(op(&[80, 80], RLINETO), cff2, RETURN),
    ]
}

/// ... and 4: lines through every boundary value
fn gsubrs_b(cff2: bool) -> Vec<Vec<u8>> {
    let mut v = gsubrs(cff2);
    assert_eq!(v.len() as i32, GSUBR_BOUNDS);
    v.push(bounds_subr(cff2, 9));
    v
}

fn glyph(g: i32, cff2: bool, subrs: bool) -> Vec<u8> {
    if g == 0 {
        return fin(cat(&[op(&[0, 0], RMOVETO), op(&[100, 0], RLINETO), op(&[0, 100], RLINETO)]), cff2, ENDCHAR);
    }
    let mut parts = vec![op(&[10 * (g % 90) + 5, 7 + g / 90], RMOVETO)];
    if subrs {
        match g % 5 {
            0 => parts.push(call(0, CALLSUBR)),
            1 => parts.push(call(1, CALLSUBR)),
            2 => parts.push(cat(&[n(4), n(5 + g % 7), call(2, CALLSUBR)])), // arguments for the subroutine's rlineto
            3 => parts.push(call(3, CALLSUBR)),
            _ => {} // no local subroutine
        }
    }
    parts.push(op(&[3, g % 50 + 1], RLINETO));
    if subrs && g % 3 != 2 {
        parts.push(call(g % 3, CALLGSUBR));
    }
    fin(cat(&parts), cff2, ENDCHAR)
}

pub struct Syn {
    pub label: String,
    pub kind: String,
    pub tables: Tables,
    pub file: Vec<u8>,
    /// the boundary glyphs of the font
    pub bounds: Vec<Bound>,
    /// accented glyphs (the seac form of endchar) of a name-keyed CFF: (glyph, base glyph, accent glyph)
    pub seac: Vec<(u16, u16, u16)>,
}

pub fn wrap(label: &str, kind: &str, table_tag: &str, table: Vec<u8>, n_glyphs: usize) -> Syn {
    let nhm = (n_glyphs / 2).max(1);
    let long: Vec<(u16, i16)> = (0..nhm).map(|g| (400 + 3 * g as u16, g as i16 - 7)).collect();
    let lsbs: Vec<i16> = (nhm..n_glyphs).map(|g| g as i16 - 7).collect();
    let pairs: Vec<(u16, u16)> = (1..n_glyphs.min(200)).map(|g| (0x40 + g as u16, g as u16)).collect();
    let tables: Vec<(String, Vec<u8>)> = vec![
        ("head".into(), fontgen::head(1000, false, (0, 0, 1000, 1000))),
        ("hhea".into(), fontgen::hhea(nhm as u16, 800, -200, 1500)),
        ("maxp".into(), fontgen::maxp_cff(n_glyphs as u16)),
        ("OS/2".into(), fontgen::os2_v4(0x41, 0x41 + n_glyphs as u16)),
        ("hmtx".into(), fontgen::hmtx(&long, &lsbs)),
        ("cmap".into(), fontgen::cmap_format4(&pairs)),
        ("name".into(), fontgen::name(&[(0, "none"), (1, "VerifSyn"), (2, "Regular"), (4, "VerifSyn Regular"), (6, "VerifSyn-Regular")])),
        ("post".into(), fontgen::post_v3()),
        (table_tag.into(), table),
    ];
    let file = fontgen::build_sfnt(0x4F54544F, &tables);
    let t = Tables::from_sfnt(&file, 0).expect("own sfnt");
    Syn { label: label.to_string(), kind: kind.to_string(), tables: t, file, bounds: Vec::new(), seac: Vec::new() }
}

fn with_bounds(mut s: Syn, bounds: Vec<Bound>) -> Syn {
    s.bounds = bounds;
    s
}

/// glyph 0, the boundary glyphs, then ordinary glyphs up to `ng`
fn glyph_set(ng: usize, cff2: bool, subr_families: bool, ordinary_subrs: bool) -> (Vec<Vec<u8>>, Vec<Bound>) {
    let (fam, bounds) = family_glyphs(1, cff2, subr_families);
    let mut glyphs = vec![glyph(0, cff2, ordinary_subrs)];
    glyphs.extend(fam);
    for g in glyphs.len()..ng {
        glyphs.push(glyph(g as i32, cff2, ordinary_subrs));
    }
    (glyphs, bounds)
}

pub fn fonts() -> Vec<Syn> {
    let mut out = Vec::new();
    // CFF2, one Font DICT, local and global subroutines
    let ng = 24usize;
    let spec = CffSpec {
        cid: false,
        glyphs: (0..ng as i32).map(|g| glyph(g, true, true)).collect(),
        gsubrs: gsubrs(true),
        fds: vec![FdSpec { lsubrs: Some(lsubrs(0, true)), vsindex: None, private_extra: vec![], fdict_extra: vec![] }],
        fdselect: vec![],
        fdselect_fmt: 0,
        charset: CharsetSpec::IsoAdobe,
    };
    out.push(wrap("syn/cff2-subrs-1fd", "cff2", "CFF2", cffw::build_cff2(&spec, None), ng));
    // CFF2, two Font DICTs with different local subroutines under the same numbers
    let spec = CffSpec {
        cid: false,
        glyphs: (0..ng as i32).map(|g| glyph(g, true, true)).collect(),
        gsubrs: gsubrs(true),
        fds: vec![
            FdSpec { lsubrs: Some(lsubrs(0, true)), vsindex: None, private_extra: vec![], fdict_extra: vec![] },
            FdSpec { lsubrs: Some(lsubrs(6, true)), vsindex: None, private_extra: vec![], fdict_extra: vec![] },
        ],
        fdselect: (0..ng).map(|g| (g % 2) as u8).collect(),
        fdselect_fmt: 3,
        charset: CharsetSpec::IsoAdobe,
    };
    out.push(wrap("syn/cff2-subrs-2fd", "cff2", "CFF2", cffw::build_cff2(&spec, None), ng));
    // CFF2 without any subroutine, more than 255 glyphs (CID output); glyphs 1.. are the boundary glyphs
    let nbig = 430usize;
    let (glyphs, bounds) = glyph_set(nbig, true, false, false);
    let spec = CffSpec {
        cid: false,
        glyphs,
        gsubrs: vec![],
        fds: vec![FdSpec { lsubrs: None, vsindex: None, private_extra: vec![], fdict_extra: vec![] }],
        fdselect: vec![],
        fdselect_fmt: 0,
        charset: CharsetSpec::IsoAdobe,
    };
    out.push(with_bounds(wrap("syn/cff2-plain-430", "cff2", "CFF2", cffw::build_cff2(&spec, None), nbig), bounds));
    // CFF2, one Font DICT, no subroutines: the boundary glyphs (name-keyed CFF output)
    let nb = 1 + FAMILIES.len() + 3;
    let (glyphs, bounds) = glyph_set(nb, true, false, false);
    let spec = CffSpec {
        cid: false,
        glyphs,
        gsubrs: vec![],
        fds: vec![FdSpec { lsubrs: None, vsindex: None, private_extra: vec![], fdict_extra: vec![] }],
        fdselect: vec![],
        fdselect_fmt: 0,
        charset: CharsetSpec::IsoAdobe,
    };
    out.push(with_bounds(wrap("syn/cff2-bounds-1fd", "cff2", "CFF2", cffw::build_cff2(&spec, None), nb), bounds));
    // CFF2, two Font DICTs, no subroutines: the boundary glyphs (CID-keyed CFF output whatever the glyph count)
    let (glyphs, bounds) = glyph_set(nb, true, false, false);
    let spec = CffSpec {
        cid: false,
        glyphs,
        gsubrs: vec![],
        fds: vec![FdSpec { lsubrs: None, vsindex: None, private_extra: vec![], fdict_extra: vec![] }, FdSpec { lsubrs: None, vsindex: None, private_extra: vec![], fdict_extra: vec![] }],
        fdselect: (0..nb).map(|g| (g % 2) as u8).collect(),
        fdselect_fmt: 3,
        charset: CharsetSpec::IsoAdobe,
    };
    out.push(with_bounds(wrap("syn/cff2-bounds-2fd", "cff2", "CFF2", cffw::build_cff2(&spec, None), nb), bounds));
    // CFF2 allows 513 operands on the stack, CFF 48: glyphs whose operators take 48 operands (glyph 1: hstem, 49
    // with the width the conversion puts in front when the advance is not the most frequent one; glyph 2:
    // rlineto), 50 (glyph 3) and 96 (glyph 4)
    let deep: Vec<Vec<u8>> = vec![
        glyph(0, true, false),
        cat(&[op(&(0..48).map(|i| 10 + i).collect::<Vec<i32>>(), HSTEM), op(&[5, 6], RMOVETO), op(&[20, 30, -5, 7], RLINETO)]),
        cat(&[op(&[5, 5], RMOVETO), op(&(0..48).map(|i| 3 + i % 5 - 2 * (i % 3)).collect::<Vec<i32>>(), RLINETO)]),
        cat(&[op(&[7, 5], RMOVETO), op(&(0..50).map(|i| 4 + i % 7 - 3 * (i % 2)).collect::<Vec<i32>>(), RLINETO)]),
        cat(&[op(&[9, 5], RMOVETO), op(&(0..96).map(|i| 2 + i % 4 - (i % 3)).collect::<Vec<i32>>(), RRCURVETO)]),
        glyph(5, true, false),
    ];
    let spec = CffSpec {
        cid: false,
        glyphs: deep,
        gsubrs: vec![],
        fds: vec![FdSpec { lsubrs: None, vsindex: None, private_extra: vec![], fdict_extra: vec![] }],
        fdselect: vec![],
        fdselect_fmt: 0,
        charset: CharsetSpec::IsoAdobe,
    };
    out.push(wrap("syn/cff2-deep-stack", "cff2", "CFF2", cffw::build_cff2(&spec, None), 6));
    // CID-keyed CFF, three Font DICTs (two with local subroutines): the boundary glyphs; the subroutine
    // families sit in Font DICT 0 / 1
    let nbs = 1 + FAMILIES.len() + SUBR_FAMILIES.len() + 3;
    let (glyphs, bounds) = glyph_set(nbs, false, true, false);
    let first_subr = 1 + FAMILIES.len();
    let spec = CffSpec {
        cid: true,
        glyphs,
        gsubrs: gsubrs_b(false),
        fds: vec![
            FdSpec { lsubrs: Some(lsubrs_b(0, false)), vsindex: None, private_extra: vec![], fdict_extra: vec![] },
            FdSpec { lsubrs: Some(lsubrs_b(6, false)), vsindex: None, private_extra: vec![], fdict_extra: vec![] },
            FdSpec { lsubrs: None, vsindex: None, private_extra: vec![], fdict_extra: vec![] },
        ],
        fdselect: (0..nbs).map(|g| if g >= first_subr && g < first_subr + SUBR_FAMILIES.len() { (g % 2) as u8 } else { (g % 3) as u8 }).collect(),
        fdselect_fmt: 3,
        charset: CharsetSpec::IdentityRange,
    };
    out.push(with_bounds(wrap("syn/cid-bounds-3fd", "cid", "CFF ", cffw::build_cff(&spec), nbs), bounds));
    // CID-keyed CFF, two Font DICTs with their own local subroutines, a third without
    let spec = CffSpec {
        cid: true,
        glyphs: (0..ng as i32).map(|g| if g % 3 == 2 { glyph(g, false, false) } else { glyph(g, false, true) }).collect(),
        gsubrs: gsubrs(false),
        fds: vec![
            FdSpec { lsubrs: Some(lsubrs(0, false)), vsindex: None, private_extra: vec![], fdict_extra: vec![] },
            FdSpec { lsubrs: Some(lsubrs(6, false)), vsindex: None, private_extra: vec![], fdict_extra: vec![] },
            FdSpec { lsubrs: None, vsindex: None, private_extra: vec![], fdict_extra: vec![] },
        ],
        fdselect: (0..ng).map(|g| (g % 3) as u8).collect(),
        fdselect_fmt: 3,
        charset: CharsetSpec::IdentityRange,
    };
    out.push(wrap("syn/cid-subrs-3fd", "cid", "CFF ", cffw::build_cff(&spec), ng));
    // name-keyed CFF with subroutines and more than 255 glyphs (Type 1 -> CID conversion); glyphs 1.. are the
    // boundary glyphs, the subroutine families included.  380 glyphs: every SID of the charset is a standard string.
    let nbig = 380usize;
    let (glyphs, bounds) = glyph_set(nbig, false, true, true);
    let spec = CffSpec {
        cid: false,
        glyphs,
        gsubrs: gsubrs_b(false),
        fds: vec![FdSpec { lsubrs: Some(lsubrs_b(0, false)), vsindex: None, private_extra: vec![], fdict_extra: vec![] }],
        fdselect: vec![],
        fdselect_fmt: 0,
        charset: CharsetSpec::Format0((1..nbig as u16).collect()),
    };
    out.push(with_bounds(wrap("syn/cff-subrs-380", "cff", "CFF ", cffw::build_cff(&spec), nbig), bounds));
    out
}
