//! C13 harness: user coordinates normalise per fvar and avar.
//!
//!   c13_normalize replay <cases.ndjson> <trace.ndjson>
//!       every CASE printed by TLC from MC_Normalize (axis triple, segment map, placement, user
//!       values) is turned into `fvar` / `avar` table bytes and run through
//!       `FvarTable::normalize`; one `Normalize` event per case (plus `NormalizeLen` events for
//!       tuples of the wrong length).  The events are judged by Trace_Normalize.
//!   c13_normalize record <seed> <groups> <trace.ndjson>
//!       seeded random (axis, map, value) groups, the repository's variable fonts on a grid of
//!       user values (through `FvarTable::normalize` and through the tuple that
//!       `variations::instance` returns), and all 65 536 F2Dot14 values through the
//!       F2Dot14 <-> Fixed <-> f32 conversions.
//!
//! Round 3: every fvar table is written according to a *layout* (axesArrayOffset, axisSize,
//! instanceSize, instance count; positions of the records computed by TLC for generated cases), the
//! bytes that belong to no record are filled with a decoy axis record; `FvarRead` events record what
//! `FvarTable::read` / `axes()` / `instances()` see in such a table (judged against the table bytes by
//! Normalize!FvarAxes / FvarInstances).  Random segment maps cover the general class (to-coordinates
//! over the whole 2.14 range, decreasing / flat segments, duplicate from-coordinates, missing -1/0/+1
//! records, one-record maps); repository fonts are also instanced with a re-laid-out fvar and such an
//! avar table.
//!
//! The harness decides nothing: it builds bytes, calls allsorts, records what came back.
use allsorts::binary::read::ReadScope;
use allsorts::font_data::FontData;
use allsorts::tables::variable_fonts::avar::AvarTable;
use allsorts::tables::variable_fonts::fvar::FvarTable;
use allsorts::tables::{F2Dot14, Fixed, FontTableProvider};
use rand::rngs::StdRng;
use rand::{Rng, SeedableRng};
use serde_json::{json, Value};
use vh::fontgen::{be16, be32, build_sfnt, read_sfnt_dir, table_bytes, tag_str, W};
use vh::sup::{guarded, panic_key, Outcome};
use vh::util::{read_ndjson, repo_fonts, NdWriter};

type Axis = [i32; 3];
type Map = Vec<(i16, i16)>;

// ---- table synthesis --------------------------------------------------------------------

/// Layout of an fvar table: header fields and the position of every record.
#[derive(Clone, Debug)]
struct Layout {
    off: usize,
    asz: usize,
    isz: usize,
    ninst: usize,
    apos: Vec<usize>,
    ipos: Vec<usize>,
    len: usize,
}

impl Layout {
    /// The harness' own arithmetic, used for recorded (random, font) tables only; generated cases carry
    /// the positions computed by TLC.
    fn compute(off: usize, asz: usize, post: bool, ninst: usize, naxes: usize) -> Layout {
        let isz = 4 * naxes + 4 + if post { 2 } else { 0 };
        let inst0 = off + naxes * asz;
        Layout {
            off,
            asz,
            isz,
            ninst,
            apos: (0..naxes).map(|i| off + i * asz).collect(),
            ipos: (0..ninst).map(|j| inst0 + j * isz).collect(),
            len: inst0 + ninst * isz,
        }
    }
    fn std(naxes: usize) -> Layout {
        Layout::compute(16, 20, false, 0, naxes)
    }
    fn from_json(v: &Value) -> Layout {
        let us = |x: &Value| x.as_u64().unwrap() as usize;
        let arr = |x: &Value| x.as_array().unwrap().iter().map(|y| y.as_u64().unwrap() as usize).collect();
        Layout {
            off: us(&v["off"]),
            asz: us(&v["asz"]),
            isz: us(&v["isz"]),
            ninst: us(&v["ninst"]),
            apos: arr(&v["apos"]),
            ipos: arr(&v["ipos"]),
            len: us(&v["len"]),
        }
    }
    fn json(&self) -> Value {
        json!([self.off, self.asz, self.isz, self.ninst])
    }
    fn is_std(&self) -> bool {
        self.off == 16 && self.asz == 20 && self.ninst == 0
    }
}

const AXIS_TAGS: [&str; 8] = ["wght", "wdth", "opsz", "slnt", "XAAA", "XAAB", "XAAC", "XAAD"];

/// One instance record per layout slot: coordinates rotate through min / default / max of the axes.
fn instance_coords(axes: &[Axis], j: usize) -> Vec<i32> {
    axes.iter().enumerate().map(|(k, a)| a[(j + k) % 3]).collect()
}

fn put(buf: &mut [u8], at: usize, bytes: &[u8]) {
    buf[at..at + bytes.len()].copy_from_slice(bytes);
}

/// fvar table bytes: header, axis records at `apos`, instance records at `ipos`; every byte that
/// belongs to no field (padding before the axis array, the tail of wide axis records) is part of a
/// repeating decoy axis record (tag DCOY, -1.0 / 0.0 / +1.0), so that a reader that looks in the wrong
/// place finds a plausible, different axis.
fn fvar_bytes(axes: &[Axis], lay: &Layout) -> Vec<u8> {
    let mut decoy = W::new();
    decoy.tag("DCOY").i32(-65536).i32(0).i32(65536).u16(0).u16(999);
    let decoy = decoy.done();
    let mut b: Vec<u8> = (0..lay.len).map(|i| decoy[i % decoy.len()]).collect();
    let mut h = W::new();
    h.u16(1).u16(0).u16(lay.off as u16).u16(2).u16(axes.len() as u16).u16(lay.asz as u16).u16(lay.ninst as u16).u16(lay.isz as u16);
    put(&mut b, 0, &h.done());
    for (i, a) in axes.iter().enumerate() {
        let mut w = W::new();
        w.tag(AXIS_TAGS[i % AXIS_TAGS.len()]).i32(a[0]).i32(a[1]).i32(a[2]).u16(0).u16(256 + i as u16);
        put(&mut b, lay.apos[i], &w.done());
    }
    for j in 0..lay.ninst {
        let mut w = W::new();
        w.u16(300 + j as u16).u16(0);
        for c in instance_coords(axes, j) {
            w.i32(c);
        }
        if lay.isz > 4 * axes.len() + 4 {
            w.u16(400 + j as u16);
        }
        put(&mut b, lay.ipos[j], &w.done());
    }
    b
}

fn avar_bytes(maps: &[Map]) -> Vec<u8> {
    let mut w = W::new();
    w.u16(1).u16(0).u16(0).u16(maps.len() as u16);
    for m in maps {
        w.u16(m.len() as u16);
        for (f, t) in m {
            w.i16(*f).i16(*t);
        }
    }
    w.done()
}

// ---- independent readers of fvar / avar (for the repository fonts) ------------------------

fn parse_fvar(d: &[u8]) -> Option<Vec<Axis>> {
    let off = be16(d, 4)? as usize;
    let n = be16(d, 8)? as usize;
    let size = be16(d, 10)? as usize;
    let mut axes = Vec::new();
    for i in 0..n {
        let r = off + i * size;
        axes.push([be32(d, r + 4)? as i32, be32(d, r + 8)? as i32, be32(d, r + 12)? as i32]);
    }
    Some(axes)
}

fn parse_avar(d: &[u8]) -> Option<Vec<Map>> {
    let n = be16(d, 6)? as usize;
    let mut at = 8;
    let mut maps = Vec::new();
    for _ in 0..n {
        let k = be16(d, at)? as usize;
        at += 2;
        let mut m = Vec::new();
        for _ in 0..k {
            m.push((be16(d, at)? as i16, be16(d, at + 2)? as i16));
            at += 4;
        }
        maps.push(m);
    }
    Some(maps)
}

// ---- driving allsorts -----------------------------------------------------------------------

/// One call of FvarTable::normalize on table bytes. Ok(raw 2.14 values) or Err(description).
fn call_normalize(fvar: &[u8], avar: Option<&[u8]>, tuple: &[i32]) -> Result<Vec<i64>, String> {
    let r = guarded(|| -> Result<Vec<i64>, String> {
        let fvar = ReadScope::new(fvar).read::<FvarTable<'_>>().map_err(|e| format!("fvar:{:?}", e))?;
        let avar = match avar {
            Some(b) => Some(ReadScope::new(b).read::<AvarTable<'_>>().map_err(|e| format!("avar:{:?}", e))?),
            None => None,
        };
        let t = fvar
            .normalize(tuple.iter().map(|v| Fixed::from_raw(*v)), avar.as_ref())
            .map_err(|e| format!("{:?}", e))?;
        Ok(t.iter().map(|x| x.raw_value() as i64).collect())
    });
    match r {
        Outcome::Returned(x) => x,
        Outcome::Panicked(m) => Err(format!("Panic:{}", panic_key(&m))),
    }
}

fn maps_json(maps: &[Map]) -> Value {
    Value::Array(maps.iter().map(|m| Value::Array(m.iter().map(|(f, t)| json!([f, t])).collect())).collect())
}

struct Rec {
    w: NdWriter,
    i: u64,
    calls: u64,
    panics: u64,
}

impl Rec {
    fn ev(&mut self, case: &str, ev: &str, a: Value, o: Value) {
        self.i += 1;
        self.w.write(&json!({"i": self.i, "case": case, "ev": ev, "a": a, "o": o}));
    }

    /// A group of tuples over one (axes, maps) pair through FvarTable::normalize.
    /// What FvarTable::read, axes() and instances() see in a table.
    fn fvar_read(&mut self, case: &str, fvar: &[u8]) {
        self.calls += 1;
        let r = guarded(|| -> Result<(Vec<Value>, Vec<Value>), String> {
            let t = ReadScope::new(fvar).read::<FvarTable<'_>>().map_err(|e| format!("fvar:{:?}", e))?;
            let axes: Vec<Value> = t
                .axes()
                .map(|a| {
                    json!([a.axis_tag >> 16, a.axis_tag & 0xFFFF, a.min_value.raw_value(), a.default_value.raw_value(),
                           a.max_value.raw_value(), a.flags, a.axis_name_id])
                })
                .collect();
            let mut insts = Vec::new();
            for i in t.instances() {
                let i = i.map_err(|e| format!("instance:{:?}", e))?;
                insts.push(json!({"sub": i.subfamily_name_id, "flags": i.flags,
                                  "coords": i.coordinates.iter().map(|c| c.raw_value()).collect::<Vec<i32>>(),
                                  "ps": i.post_script_name_id.map(i64::from).unwrap_or(-1)}));
            }
            Ok((axes, insts))
        });
        let (ok, err, axes, insts) = match r {
            Outcome::Returned(Ok((a, i))) => (true, String::new(), a, i),
            Outcome::Returned(Err(e)) => (false, e, vec![], vec![]),
            Outcome::Panicked(m) => {
                self.panics += 1;
                (false, format!("Panic:{}", panic_key(&m)), vec![], vec![])
            }
        };
        self.ev(case, "FvarRead", json!({"bytes": fvar}), json!({"ok": ok, "err": err, "axes": axes, "insts": insts}));
    }

    fn normalize_group(&mut self, case: &str, axes: &[Axis], avar: bool, maps: &[Map], tuples: &[Vec<i32>], lay: &Layout) {
        let fb = fvar_bytes(axes, lay);
        let ab = if avar { Some(avar_bytes(maps)) } else { None };
        let (mut ok, mut err, mut outs) = (Vec::new(), Vec::new(), Vec::new());
        for t in tuples {
            self.calls += 1;
            match call_normalize(&fb, ab.as_deref(), t) {
                Ok(v) => {
                    ok.push(true);
                    err.push(String::new());
                    outs.push(v);
                }
                Err(e) => {
                    if e.starts_with("Panic:") {
                        self.panics += 1;
                    }
                    ok.push(false);
                    err.push(e);
                    outs.push(vec![]);
                }
            }
        }
        let no_maps: Vec<Map> = axes.iter().map(|_| Vec::new()).collect();
        self.ev(
            case,
            "Normalize",
            json!({"axes": axes, "avar": avar, "maps": maps_json(if avar { maps } else { &no_maps }),
                   "tuples": tuples, "via": "normalize", "lay": lay.json()}),
            json!({"ok": ok, "err": err, "outs": outs}),
        );
    }

    fn length_probe(&mut self, case: &str, axes: &[Axis], avar: bool, maps: &[Map], len: usize, lay: &Layout) {
        let fb = fvar_bytes(axes, lay);
        let ab = if avar { Some(avar_bytes(maps)) } else { None };
        let tuple: Vec<i32> = (0..len).map(|k| axes.get(k).map(|a| a[1]).unwrap_or(0)).collect();
        self.calls += 1;
        let r = call_normalize(&fb, ab.as_deref(), &tuple);
        // the other constructor of a normalised tuple: FvarTable::owned_tuple
        let owned = guarded(|| {
            let t = ReadScope::new(&fb).read::<FvarTable<'_>>().ok()?;
            let vals: Vec<F2Dot14> = (0..len).map(|k| F2Dot14::from_raw(k as i16)).collect();
            Some(t.owned_tuple(&vals).is_some())
        });
        let owned = match owned {
            Outcome::Returned(Some(b)) => json!(b),
            Outcome::Returned(None) => json!("fvar unreadable"),
            Outcome::Panicked(m) => json!(format!("Panic:{}", panic_key(&m))),
        };
        self.ev(
            case,
            "NormalizeLen",
            json!({"naxes": axes.len(), "len": len, "avar": avar}),
            json!({"ok": r.is_ok(), "err": r.err().unwrap_or_default(), "owned": owned}),
        );
    }
}

// filler axes used to place the axis under test at different positions of a tuple
const FILL_A: Axis = [-3 * 65536, 0, 7 * 65536];
const FILL_B: Axis = [0, 65536, 65536];

fn fill_map_a() -> Map {
    vec![(-16384, -16384), (-8192, -4096), (0, 0), (16384, 16384)]
}
fn fill_map_b() -> Map {
    vec![]
}
fn fill_vals_a() -> Vec<i32> {
    vec![-4 * 65536, -3 * 65536, -98304 - 1, -98304, -1, 0, 1, 229376, 7 * 65536 - 1, 7 * 65536, 8 * 65536]
}
fn fill_vals_b() -> Vec<i32> {
    vec![-1, 0, 1, 32768, 65535, 65536, 65537]
}

/// Place the axis under test: 0 = alone, 1 = last of two, 2 = first of three.
fn place(p: u64, ax: Axis, map: &Map, vs: &[i32]) -> (Vec<Axis>, Vec<Map>, Vec<Vec<i32>>) {
    let fa = fill_vals_a();
    let fb = fill_vals_b();
    match p {
        0 => (vec![ax], vec![map.clone()], vs.iter().map(|v| vec![*v]).collect()),
        1 => (
            vec![FILL_A, ax],
            vec![fill_map_a(), map.clone()],
            vs.iter().enumerate().map(|(k, v)| vec![fa[k % fa.len()], *v]).collect(),
        ),
        _ => (
            vec![ax, FILL_B, FILL_A],
            vec![map.clone(), fill_map_b(), fill_map_a()],
            vs.iter().enumerate().map(|(k, v)| vec![*v, fb[k % fb.len()], fa[(k / 2) % fa.len()]]).collect(),
        ),
    }
}

fn replay(cases: &str, out: &str) {
    let cases = read_ndjson(cases);
    let mut r = Rec { w: NdWriter::create(out), i: 0, calls: 0, panics: 0 };
    for (ci, c) in cases.iter().enumerate() {
        let axv: Vec<i32> = c["ax"].as_array().unwrap().iter().map(|x| x.as_i64().unwrap() as i32).collect();
        let ax: Axis = [axv[0], axv[1], axv[2]];
        let avar = c["avar"].as_bool().unwrap();
        let map: Map = c["map"]
            .as_array()
            .unwrap()
            .iter()
            .map(|k| (k[0].as_i64().unwrap() as i16, k[1].as_i64().unwrap() as i16))
            .collect();
        let vs: Vec<i32> = c["vs"].as_array().unwrap().iter().map(|x| x.as_i64().unwrap() as i32).collect();
        let (axes, maps, tuples) = place(c["place"].as_u64().unwrap(), ax, &map, &vs);
        let lay = Layout::from_json(&c["lay"]);
        let case = format!("g{}", ci);
        r.normalize_group(&case, &axes, avar, &maps, &tuples, &lay);
        if !lay.is_std() || ci % 16 == 0 {
            r.fvar_read(&case, &fvar_bytes(&axes, &lay));
        }
        for len in [0usize, axes.len().saturating_sub(1), axes.len(), axes.len() + 1, axes.len() + 5] {
            r.length_probe(&case, &axes, avar, &maps, len, &lay);
        }
    }
    let n = r.w.n;
    r.w.finish();
    println!("{}", json!({"cases": cases.len(), "events": n, "calls": r.calls, "panics": r.panics}));
}

// ---- recording --------------------------------------------------------------------------------

fn rand_axis(rng: &mut StdRng) -> Axis {
    // magnitude classes: tiny raw values, typical registered-axis ranges, large, the whole i32 range
    let mut v: Vec<i64> = match rng.gen_range(0..10) {
        0 => (0..3).map(|_| rng.gen_range(-40i64..40)).collect(),
        1..=4 => (0..3).map(|_| rng.gen_range(-200i64..1001) * 65536 + [0i64, 0, 32768, 16384][rng.gen_range(0..4)]).collect(),
        5 | 6 => (0..3).map(|_| rng.gen_range(-1000i64 * 65536..1000 * 65536)).collect(),
        7 | 8 => (0..3).map(|_| rng.gen_range(-8191i64 * 65536..8191 * 65536)).collect(),
        _ => (0..3).map(|_| rng.gen_range(i32::MIN as i64..=i32::MAX as i64)).collect(),
    };
    v.sort();
    match rng.gen_range(0..12) {
        0 => v[1] = v[0],
        1 => v[1] = v[2],
        2 => {
            v[0] = v[1];
            v[2] = v[1];
        }
        _ => {}
    }
    [v[0] as i32, v[1] as i32, v[2] as i32]
}

/// A to-coordinate anywhere in the 2.14 range, with the interesting values over-represented.
fn rand_to(rng: &mut StdRng) -> i16 {
    match rng.gen_range(0..8) {
        0 => [-32768i16, -16385, -16384, -1, 0, 1, 16384, 16385, 32767][rng.gen_range(0..9)],
        1 | 2 => rng.gen_range(-32768i32..=32767) as i16,
        3 => rng.gen_range(16384i32..=20000) as i16,
        4 => rng.gen_range(-20000i32..=-16384) as i16,
        _ => rng.gen_range(-16384i32..=16384) as i16,
    }
}

/// A segment map of the general class: from-coordinates in non-decreasing order (duplicates
/// allowed, beyond -1/+1 now and then), to-coordinates anywhere (decreasing and flat segments), with
/// or without the -1 / 0 / +1 records, of 1 .. 7 records.
fn rand_general_map(rng: &mut StdRng) -> Map {
    let n = rng.gen_range(0..5);
    let mut fs: Vec<i16> = (0..n)
        .map(|_| match rng.gen_range(0..8) {
            0 => [-16384i16, -16383, -1, 0, 1, 16383, 16384][rng.gen_range(0..7)],
            1 => rng.gen_range(-32768i32..=32767) as i16,
            _ => rng.gen_range(-16384i32..=16384) as i16,
        })
        .collect();
    if n >= 2 && rng.gen_range(0..4) == 0 {
        fs[1] = fs[0]; // duplicate from-coordinate
    }
    let keep = rng.gen_range(0..8u8); // which of the -1 / 0 / +1 records are present
    let keep = if rng.gen_range(0..2) == 0 { 7 } else { keep };
    let mut m: Map = fs.into_iter().map(|f| (f, rand_to(rng))).collect();
    if rng.gen_range(0..3) == 0 && m.len() >= 2 {
        m[1].1 = m[0].1; // flat
    }
    for (bit, f) in [(1u8, -16384i16), (2, 0), (4, 16384)] {
        if keep & bit != 0 {
            let t = if rng.gen_range(0..6) == 0 { rand_to(rng) } else { f };
            m.push((f, t));
        }
    }
    // stable sort by from-coordinate: records on one from-coordinate keep their random order
    m.sort_by_key(|r| r.0);
    if m.is_empty() {
        m.push((rng.gen_range(-16384i32..=16384) as i16, rand_to(rng)));
    }
    m
}

fn rand_map(rng: &mut StdRng) -> Map {
    if rng.gen_range(0..8) == 0 {
        return vec![];
    }
    if rng.gen_range(0..5) < 2 {
        return rand_general_map(rng);
    }
    let mut side = |rng: &mut StdRng| -> Vec<(i16, i16)> {
        // interior knots on (0, 16384): strictly increasing from, non-decreasing to
        let n = rng.gen_range(0..3);
        let mut fs: Vec<i16> = Vec::new();
        while fs.len() < n {
            let f = match rng.gen_range(0..6) {
                0 => rng.gen_range(1..4),
                1 => rng.gen_range(16380..16384),
                _ => rng.gen_range(1..16384),
            };
            if !fs.contains(&f) {
                fs.push(f);
            }
        }
        fs.sort();
        let mut ts: Vec<i16> = (0..n)
            .map(|_| match rng.gen_range(0..6) {
                0 => 0,
                1 => 16384,
                _ => rng.gen_range(0..=16384),
            })
            .collect();
        ts.sort();
        fs.into_iter().zip(ts).collect()
    };
    let pos = side(rng);
    let neg: Vec<(i16, i16)> = side(rng).into_iter().rev().map(|(f, t)| (-f, -t)).collect();
    let mut m = vec![(-16384, -16384)];
    m.extend(neg);
    m.push((0, 0));
    m.extend(pos);
    m.push((16384, 16384));
    m
}

/// User values for an axis: inside, at the ends, next to the pre-images of the knots, outside.
fn rand_values(rng: &mut StdRng, ax: Axis, map: &Map, n: usize) -> Vec<i32> {
    let (mn, df, mx) = (ax[0] as i64, ax[1] as i64, ax[2] as i64);
    let clampi = |x: i64| x.clamp(i32::MIN as i64, i32::MAX as i64) as i32;
    let mut out = Vec::new();
    for _ in 0..n {
        let v = match rng.gen_range(0..10) {
            0 => [mn, df, mx][rng.gen_range(0..3)] + rng.gen_range(-2i64..3),
            5 if map.len() >= 2 => {
                // strictly inside a segment
                let k = rng.gen_range(0..map.len() - 1);
                let (f0, f1) = (map[k].0 as i64, map[k + 1].0 as i64);
                let f = if f1 > f0 { rng.gen_range(f0..=f1) } else { f0 };
                let span = if f < 0 { df - mn } else { mx - df };
                df + (f * span).div_euclid(16384) + rng.gen_range(-1i64..2)
            }
            1 if !map.is_empty() => {
                let f = map[rng.gen_range(0..map.len())].0 as i64;
                let span = if f < 0 { df - mn } else { mx - df };
                df + (f * span).div_euclid(16384) + rng.gen_range(-2i64..3)
            }
            2 => rng.gen_range(i32::MIN as i64..=i32::MAX as i64),
            3 => mn - rng.gen_range(0i64..100000),
            4 => mx + rng.gen_range(0i64..100000),
            _ => {
                if mn == mx {
                    mn
                } else {
                    rng.gen_range(mn..=mx)
                }
            }
        };
        out.push(clampi(v));
    }
    out
}

fn record_random(r: &mut Rec, seed: u64, groups: usize) {
    let mut rng = StdRng::seed_from_u64(seed);
    for g in 0..groups {
        let na = [1usize, 1, 2, 3][rng.gen_range(0..4)];
        let axes: Vec<Axis> = (0..na).map(|_| rand_axis(&mut rng)).collect();
        let avar = rng.gen_range(0..4) != 0;
        let maps: Vec<Map> = (0..na).map(|_| rand_map(&mut rng)).collect();
        let nt = 24;
        let cols: Vec<Vec<i32>> = (0..na).map(|j| rand_values(&mut rng, axes[j], &maps[j], nt)).collect();
        let tuples: Vec<Vec<i32>> = (0..nt).map(|i| (0..na).map(|j| cols[j][i]).collect()).collect();
        let lay = if rng.gen_range(0..2) == 0 {
            Layout::std(na)
        } else {
            let off = [16usize, 16, 18, 20, 24, 36, 64][rng.gen_range(0..7)] + rng.gen_range(0..2) * rng.gen_range(0..9);
            let asz = [20usize, 20, 22, 24, 40][rng.gen_range(0..5)] + rng.gen_range(0..2) * rng.gen_range(0..7);
            Layout::compute(off, asz, rng.gen_range(0..2) == 1, rng.gen_range(0..5), na)
        };
        let case = format!("r{}", g);
        r.normalize_group(&case, &axes, avar, &maps, &tuples, &lay);
        if !lay.is_std() {
            r.fvar_read(&case, &fvar_bytes(&axes, &lay));
        }
        if g % 16 == 0 {
            r.length_probe(&case, &axes, avar, &maps, rng.gen_range(0..6), &lay);
        }
    }
}

/// Grid of user values of one axis of a real font: the ends, the default, 32 steps, outside.
fn grid(ax: Axis) -> Vec<i32> {
    let (mn, df, mx) = (ax[0] as i64, ax[1] as i64, ax[2] as i64);
    let mut v: Vec<i64> = vec![mn - 65536, mn - 1, mn, mn + 1, df - 1, df, df + 1, mx - 1, mx, mx + 1, mx + 65536];
    for k in 0..=32 {
        v.push(mn + (mx - mn) * k / 32);
    }
    v.sort();
    v.dedup();
    v.into_iter().map(|x| x.clamp(i32::MIN as i64, i32::MAX as i64) as i32).collect()
}

/// Drive one font (its bytes): FvarTable::normalize over a grid per axis on the font's own fvar / avar
/// bytes, and the tuple returned by variations::instance on a thinner grid.  Returns the number of
/// instance calls, None when the font has no usable fvar.
fn drive_font(r: &mut Rec, name: &str, data: &[u8], with_instance: bool) -> Option<usize> {
    let dir = read_sfnt_dir(data, 0)?;
    let fvar_b = table_bytes(data, &dir, "fvar")?;
    let axes = parse_fvar(fvar_b)?;
    if axes.is_empty() {
        return None;
    }
    let avar_b = table_bytes(data, &dir, "avar");
    let maps: Vec<Map> = match avar_b.and_then(parse_avar) {
        Some(m) if m.len() == axes.len() => m,
        Some(_) => return None, // avar disagrees with fvar about the axis count: malformed, not C13's
        None => axes.iter().map(|_| Vec::new()).collect(),
    };
    let mut n_instance = 0;
    r.fvar_read(&format!("font/{}/fvar", name), fvar_b);
    let lay_json = json!([be16(fvar_b, 4), be16(fvar_b, 10), be16(fvar_b, 14), be16(fvar_b, 12)]);
    // one group per axis: that axis runs over its grid, the others stay at their defaults
    for j in 0..axes.len() {
        let tuples: Vec<Vec<i32>> = grid(axes[j])
            .into_iter()
            .map(|v| (0..axes.len()).map(|k| if k == j { v } else { axes[k][1] }).collect())
            .collect();
        let case = format!("font/{}/axis{}", name, j);
        // through the real table bytes of the font
        let (mut ok, mut err, mut outs) = (Vec::new(), Vec::new(), Vec::new());
        for t in &tuples {
            r.calls += 1;
            match call_normalize(fvar_b, avar_b, t) {
                Ok(v) => {
                    ok.push(true);
                    err.push(String::new());
                    outs.push(v);
                }
                Err(e) => {
                    ok.push(false);
                    err.push(e);
                    outs.push(vec![]);
                }
            }
        }
        r.ev(
            &case,
            "Normalize",
            json!({"axes": axes, "avar": avar_b.is_some(), "maps": maps_json(&maps), "tuples": tuples, "via": "normalize",
                   "lay": lay_json}),
            json!({"ok": ok, "err": err, "outs": outs}),
        );
        if !with_instance {
            continue;
        }
        // the tuple returned by variations::instance, on a thinner grid
        let thin: Vec<Vec<i32>> = tuples.iter().step_by(4).cloned().collect();
        let (mut ok, mut err, mut outs) = (Vec::new(), Vec::new(), Vec::new());
        for t in &thin {
            r.calls += 1;
            n_instance += 1;
            let res = guarded(|| -> Result<Vec<i64>, String> {
                let fd = ReadScope::new(data).read::<FontData<'_>>().map_err(|e| format!("{:?}", e))?;
                let provider = fd.table_provider(0).map_err(|e| format!("{:?}", e))?;
                let user: Vec<Fixed> = t.iter().map(|v| Fixed::from_raw(*v)).collect();
                let (_font, tuple) =
                    allsorts::variations::instance(&provider, &user).map_err(|e| format!("{:?}", e))?;
                Ok(tuple.iter().map(|x| x.raw_value() as i64).collect())
            });
            match res {
                Outcome::Returned(Ok(v)) => {
                    ok.push(true);
                    err.push(String::new());
                    outs.push(v);
                }
                Outcome::Returned(Err(e)) => {
                    ok.push(false);
                    err.push(e);
                    outs.push(vec![]);
                }
                Outcome::Panicked(m) => {
                    ok.push(false);
                    err.push(format!("Panic:{}", panic_key(&m)));
                    outs.push(vec![]);
                }
            }
        }
        // an instancing failure is C12's business (e.g. CFF2 not supported): record only the
        // tuples that came back
        let keep: Vec<usize> = (0..thin.len()).filter(|&k| ok[k]).collect();
        if !keep.is_empty() {
            r.ev(
                &format!("{}/instance", case),
                "Normalize",
                json!({"axes": axes, "avar": avar_b.is_some(), "maps": maps_json(&maps),
                       "tuples": keep.iter().map(|&k| thin[k].clone()).collect::<Vec<_>>(), "via": "instance",
                       "lay": lay_json}),
                json!({"ok": keep.iter().map(|_| true).collect::<Vec<_>>(),
                       "err": keep.iter().map(|_| "").collect::<Vec<_>>(),
                       "outs": keep.iter().map(|&k| outs[k].clone()).collect::<Vec<_>>()}),
            );
        }
        let _ = err;
    }
    Some(n_instance)
}

/// The general segment maps the re-laid-out fonts are given, one per axis in rotation.
fn variant_maps(n: usize, salt: usize) -> Vec<Map> {
    let pool: Vec<Map> = vec![
        vec![(-16384, -16384), (0, 0), (8192, 20480), (16384, 16384)],
        vec![(-16384, -16384), (-8192, -2048), (-4096, -12288), (0, 0), (4096, 12288), (8192, 4096), (16384, 16384)],
        vec![(-16384, -20000), (0, 0), (16384, 20000)],
        vec![(0, 0), (8192, 12288), (16384, 16384)],
        vec![(-16384, -16384), (-6000, -32768), (0, 0), (8192, 4096), (8192, 12288), (16384, 16384)],
        vec![(0, 4096)],
    ];
    (0..n).map(|k| pool[(k + salt) % pool.len()].clone()).collect()
}

/// The same font with its fvar table written in another layout and an avar table of general maps.
fn variant_font(data: &[u8], salt: usize) -> Option<Vec<u8>> {
    let dir = read_sfnt_dir(data, 0)?;
    let axes = parse_fvar(table_bytes(data, &dir, "fvar")?)?;
    if axes.is_empty() || axes.iter().any(|a| a[0] > a[1] || a[1] > a[2]) {
        return None;
    }
    let lays = [(20usize, 20usize, false, 1usize), (16, 24, true, 2), (36, 28, true, 0), (18, 20, false, 3), (16, 40, false, 1)];
    let (off, asz, post, ninst) = lays[salt % lays.len()];
    let lay = Layout::compute(off, asz, post, ninst, axes.len());
    let fvar = fvar_bytes(&axes, &lay);
    let avar = avar_bytes(&variant_maps(axes.len(), salt));
    let mut tables: Vec<(String, Vec<u8>)> = Vec::new();
    for rec in &dir.records {
        let tag = tag_str(rec.0);
        let bytes = data.get(rec.2 as usize..(rec.2 as usize).checked_add(rec.3 as usize)?)?;
        match tag.as_str() {
            "fvar" => tables.push((tag, fvar.clone())),
            "avar" => {}
            _ => tables.push((tag, bytes.to_vec())),
        }
    }
    tables.push(("avar".to_string(), avar));
    tables.sort_by_key(|t| vh::fontgen::tag_u32(&t.0));
    Some(build_sfnt(dir.version, &tables))
}

fn record_fonts(r: &mut Rec, with_instance: bool) -> (usize, usize, usize) {
    let mut n_fonts = 0;
    let mut n_instance = 0;
    let mut n_variant_instance = 0;
    for path in repo_fonts() {
        let data = match std::fs::read(&path) {
            Ok(d) => d,
            Err(_) => continue,
        };
        if data.len() < 12 || !matches!(be32(&data, 0), Some(0x00010000) | Some(0x4F54544F) | Some(0x74727565)) {
            continue;
        }
        let name = path.rsplit('/').next().unwrap_or(&path).to_string();
        let Some(k) = drive_font(r, &name, &data, with_instance) else { continue };
        n_fonts += 1;
        n_instance += k;
        if let Some(v) = variant_font(&data, n_fonts) {
            n_variant_instance += drive_font(r, &format!("{}~relaid", name), &v, with_instance).unwrap_or(0);
        }
    }
    (n_fonts, n_instance, n_variant_instance)
}

/// All 65 536 F2Dot14 values through the conversions, in batches of 256.
fn record_conversions(r: &mut Rec) {
    let mut x0 = i16::MIN as i32;
    while x0 <= i16::MAX as i32 {
        let n = 256;
        let mut fixed = Vec::new();
        let mut back: Vec<Vec<i64>> = vec![Vec::new(); 4];
        let mut f32s = Vec::new();
        let mut errs = String::new();
        for x in x0..x0 + n {
            let x = x as i16;
            let res = guarded(|| {
                let f = Fixed::from(F2Dot14::from_raw(x)).raw_value();
                let mut b = [0i64; 4];
                for (d, slot) in b.iter_mut().enumerate() {
                    // 4x-2, 4x-1, 4x, 4x+1 all round to x
                    let y = (x as i32) * 4 + d as i32 - 2;
                    *slot = F2Dot14::from(Fixed::from_raw(y)).raw_value() as i64;
                }
                let g = F2Dot14::from(f32::from(F2Dot14::from_raw(x))).raw_value();
                (f as i64, b, g as i64)
            });
            match res {
                Outcome::Returned((f, b, g)) => {
                    fixed.push(f);
                    for d in 0..4 {
                        back[d].push(b[d]);
                    }
                    f32s.push(g);
                }
                Outcome::Panicked(m) => {
                    errs = format!("Panic:{}", panic_key(&m));
                    fixed.push(i64::from(i32::MAX));
                    for b in back.iter_mut() {
                        b.push(i64::from(i32::MAX));
                    }
                    f32s.push(i64::from(i32::MAX));
                }
            }
            r.calls += 6;
        }
        r.ev(
            &format!("conv/{}", x0),
            "Conv",
            json!({"x0": x0, "n": n}),
            json!({"fixed": fixed, "back": back, "f32": f32s, "err": errs}),
        );
        x0 += n;
    }
}

fn record(seed: u64, groups: usize, out: &str) {
    let mut r = Rec { w: NdWriter::create(out), i: 0, calls: 0, panics: 0 };
    record_random(&mut r, seed, groups);
    let random_events = r.w.n;
    let (fonts, inst, vinst) = record_fonts(&mut r, true);
    let font_events = r.w.n - random_events;
    record_conversions(&mut r);
    let n = r.w.n;
    r.w.finish();
    println!(
        "{}",
        json!({"events": n, "random_groups": groups, "random_events": random_events, "variable_fonts": fonts,
               "font_events": font_events, "instance_calls": inst, "variant_instance_calls": vinst, "calls": r.calls, "panics": r.panics})
    );
}

fn main() {
    let args: Vec<String> = std::env::args().collect();
    match args.get(1).map(|s| s.as_str()) {
        Some("replay") => replay(&args[2], &args[3]),
        Some("record") => record(args[2].parse().expect("seed"), args[3].parse().expect("groups"), &args[4]),
        _ => {
            eprintln!("usage: c13_normalize replay <cases> <trace> | record <seed> <groups> <trace>");
            std::process::exit(2);
        }
    }
}
