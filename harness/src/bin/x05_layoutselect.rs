//! X05 harness: script / language-system / feature selection and the ordered lookup list.
//!
//! The abstract font (ScriptList, FeatureList, FeatureVariations) and the request come from the
//! specification (LayoutSelect.tla); this file only ENCODES them into real GSUB / GPOS bytes whose
//! lookups are the specification's marker lookups, calls allsorts and projects what it returned:
//!   GSUB  lookup l = alternate substitution (through an extension lookup); a glyph IS the sequence
//!         of <<lookup, alternate>> steps applied so far (glyph id = 1 + number of the path), so the
//!         lookups that ran, their order and the alternate index (= the feature they ran under) are
//!         read off the one shaped glyph;
//!   GPOS  abstract lookup l = real lookups 2l (single adjustment adding 16^l to the advance of a
//!         counter glyph: how often l ran) and 2l+1 (mark-to-base attachment with base anchor
//!         x = 100 + l of the marks of every pair {l, x}: which of two lookups ran last).
//! Accessors observed directly: find_script_or_default, find_langsys_or_default,
//! feature_indices_iter, find_langsys_feature, feature_variations, features_supported,
//! get_lookups_cache_index + cached_lookups, FeatureMask::from_tag / iter.
//!
//!   x05_layoutselect replay <cases.ndjson> <mismatches.ndjson>
//!   x05_layoutselect record <seed> <n-random-fonts> <max-pairs-per-repo-font> <trace.ndjson>
//!   x05_layoutselect dump <font file>            (independent reader, probe)
//!
//! The harness decides nothing: replay compares by JSON equality with the sets the specification
//! printed, record writes events for Trace_LayoutSelect.
use allsorts::binary::read::ReadScope;
use allsorts::font_data::FontData;
use allsorts::gpos::{self, Info, Placement};
use allsorts::gsub::{self, FeatureInfo, FeatureMask, Features, GlyphOrigin, RawGlyph, RawGlyphFlags};
use allsorts::layout::{new_layout_cache, LayoutTable, GPOS, GSUB};
use allsorts::tables::variable_fonts::fvar::Tuple;
use allsorts::tables::{F2Dot14, FontTableProvider};
use rand::rngs::StdRng;
use rand::{Rng, SeedableRng};
use serde_json::{json, Value};
use std::collections::BTreeMap;
use tinyvec::tiny_vec;
use vh::fontgen::tag_u32;
use vh::sup::{guarded, Outcome};
use vh::util::{read_ndjson, repo_fonts, NdWriter};

#[path = "x05_layoutselect/reader.rs"]
mod reader;

// ---- byte builder ---------------------------------------------------------------------------------
struct Obj {
    d: Vec<u8>,
    refs: Vec<(usize, usize, bool)>, // position, child, 32-bit
    kids: Vec<Obj>,
}
impl Obj {
    fn new() -> Obj {
        Obj { d: Vec::new(), refs: Vec::new(), kids: Vec::new() }
    }
    fn u16(&mut self, v: u16) -> &mut Obj {
        self.d.extend_from_slice(&v.to_be_bytes());
        self
    }
    fn i16(&mut self, v: i16) -> &mut Obj {
        self.d.extend_from_slice(&v.to_be_bytes());
        self
    }
    fn u32(&mut self, v: u32) -> &mut Obj {
        self.d.extend_from_slice(&v.to_be_bytes());
        self
    }
    fn tag(&mut self, t: &str) -> &mut Obj {
        let b = tag_bytes(t);
        self.d.extend_from_slice(&b);
        self
    }
    fn off16(&mut self, child: Obj) -> &mut Obj {
        self.refs.push((self.d.len(), self.kids.len(), false));
        self.kids.push(child);
        self.u16(0)
    }
    fn off32(&mut self, child: Obj) -> &mut Obj {
        self.refs.push((self.d.len(), self.kids.len(), true));
        self.kids.push(child);
        self.u32(0)
    }
    fn flatten(self) -> Vec<u8> {
        let mut out = self.d;
        let mut at = Vec::new();
        for k in self.kids {
            at.push(out.len());
            out.extend(k.flatten());
        }
        for (pos, kid, wide) in self.refs {
            let off = at[kid];
            if wide {
                out[pos..pos + 4].copy_from_slice(&(off as u32).to_be_bytes());
            } else {
                assert!(off <= 0xFFFF, "16-bit offset overflow");
                out[pos..pos + 2].copy_from_slice(&(off as u16).to_be_bytes());
            }
        }
        out
    }
}

/// tags travel as text; a tag that is not four printable ASCII characters is written x<8 hex digits>
fn tag_bytes(t: &str) -> [u8; 4] {
    let b = t.as_bytes();
    if b.len() == 9 && b[0] == b'x' {
        let v = u32::from_str_radix(&t[1..], 16).expect("hex tag");
        return v.to_be_bytes();
    }
    assert_eq!(b.len(), 4, "tag {:?}", t);
    [b[0], b[1], b[2], b[3]]
}
fn tag_num(t: &str) -> u32 {
    u32::from_be_bytes(tag_bytes(t))
}
pub fn tag_text(v: u32) -> String {
    let b = v.to_be_bytes();
    if b.iter().all(|c| (0x20..0x7f).contains(c) && *c != b'"' && *c != b'\\') {
        b.iter().map(|c| *c as char).collect()
    } else {
        format!("x{:08X}", v)
    }
}

// ---- abstract font ----------------------------------------------------------------------------------
fn arr(v: &Value) -> &Vec<Value> {
    v.as_array().expect("array")
}
fn int(v: &Value) -> i64 {
    v.as_i64().expect("int")
}
fn text(v: &Value) -> &str {
    v.as_str().expect("string")
}
fn ints(v: &Value) -> Vec<i64> {
    arr(v).iter().map(int).collect()
}

#[derive(Clone, Copy, PartialEq)]
enum Table {
    Gsub,
    Gpos,
}

struct Marker {
    l: usize,
    d: usize,
    a: usize,
}
impl Marker {
    fn syms(&self) -> usize {
        self.l * self.a
    }
    fn offset(&self, len: usize) -> usize {
        (0..len).map(|m| self.syms().pow(m as u32)).sum()
    }
    fn states(&self) -> usize {
        self.offset(self.d + 1)
    }
    /// glyph id -> path of [lookup, alternate]
    fn decode(&self, gid: u16) -> Option<Vec<[i64; 2]>> {
        let g = gid as usize;
        if g == 0 || g > self.states() {
            return None;
        }
        let id = g - 1;
        let len = (0..=self.d).rev().find(|n| self.offset(*n) <= id)?;
        let mut r = id - self.offset(len);
        let mut path = Vec::new();
        for _ in 0..len {
            let sym = r % self.syms();
            r /= self.syms();
            path.push([(sym / self.a) as i64, (sym % self.a) as i64]);
        }
        Some(path)
    }
    /// LookupList of the GSUB marker font
    fn gsub_lookup_list(&self) -> Vec<u8> {
        let s = self.syms();
        let sources = self.offset(self.d); // states with fewer than d steps: glyphs 1..=sources
        let mut subtables: Vec<Vec<u8>> = Vec::new();
        for l in 0..self.l {
            let mut st = Obj::new();
            let cov_at = 6 + 2 * sources + (2 + 2 * self.a) * sources;
            assert!(cov_at <= 0xFFFF);
            st.u16(1).u16(cov_at as u16).u16(sources as u16);
            for k in 0..sources {
                st.u16((6 + 2 * sources + (2 + 2 * self.a) * k) as u16);
            }
            for id in 0..sources {
                let len = (0..self.d).rev().find(|n| self.offset(*n) <= id).unwrap();
                st.u16(self.a as u16);
                for a in 0..self.a {
                    let sym = l * self.a + a;
                    let to = id + (sym + 1) * s.pow(len as u32);
                    st.u16((1 + to) as u16);
                }
            }
            st.u16(2).u16(1).u16(1).u16(sources as u16).u16(0);
            subtables.push(st.flatten());
        }
        let mut out = Vec::new();
        out.extend_from_slice(&(self.l as u16).to_be_bytes());
        for l in 0..self.l {
            out.extend_from_slice(&((2 + 2 * self.l + 16 * l) as u16).to_be_bytes());
        }
        let heads = 2 + 2 * self.l + 16 * self.l;
        let mut pos = heads;
        for (l, stb) in subtables.iter().enumerate() {
            let ext_at = 2 + 2 * self.l + 16 * l + 8;
            out.extend_from_slice(&7u16.to_be_bytes());
            out.extend_from_slice(&0u16.to_be_bytes());
            out.extend_from_slice(&1u16.to_be_bytes());
            out.extend_from_slice(&8u16.to_be_bytes());
            out.extend_from_slice(&1u16.to_be_bytes());
            out.extend_from_slice(&3u16.to_be_bytes());
            out.extend_from_slice(&((pos - ext_at) as u32).to_be_bytes());
            pos += stb.len();
        }
        for stb in subtables {
            out.extend(stb);
        }
        out
    }
}

const PAIRS: [[usize; 2]; 6] = [[0, 1], [0, 2], [0, 3], [1, 2], [1, 3], [2, 3]];
const G_BASE: u16 = 1;
const G_MARK0: u16 = 2;
const G_COUNT: u16 = 8;

fn gpos_lookup_list(l_count: usize) -> Vec<u8> {
    let mut ll = Obj::new();
    ll.u16((2 * l_count) as u16);
    for l in 0..l_count {
        // 2l: SinglePos format 1 on the counter glyph, xAdvance 16^l
        let mut cov = Obj::new();
        cov.u16(1).u16(1).u16(G_COUNT);
        let mut sp = Obj::new();
        sp.u16(1).off16(cov).u16(0x0004).i16(16i16.pow(l as u32));
        let mut lk = Obj::new();
        lk.u16(1).u16(0).u16(1).off16(sp);
        ll.off16(lk);
        // 2l+1: MarkBasePos: marks of the pairs containing l, base anchor x = 100 + l
        let marks: Vec<u16> = PAIRS.iter().enumerate().filter(|(_, p)| p.contains(&l)).map(|(k, _)| G_MARK0 + k as u16).collect();
        let mut mcov = Obj::new();
        mcov.u16(1).u16(marks.len() as u16);
        for m in &marks {
            mcov.u16(*m);
        }
        let mut bcov = Obj::new();
        bcov.u16(1).u16(1).u16(G_BASE);
        let mut marr = Obj::new();
        marr.u16(marks.len() as u16);
        for _ in &marks {
            let mut an = Obj::new();
            an.u16(1).i16(0).i16(0);
            marr.u16(0).off16(an);
        }
        let mut barr = Obj::new();
        let mut ban = Obj::new();
        ban.u16(1).i16(100 + l as i16).i16(0);
        barr.u16(1).off16(ban);
        let mut mb = Obj::new();
        mb.u16(1).off16(mcov).off16(bcov).u16(1).off16(marr).off16(barr);
        let mut lk2 = Obj::new();
        lk2.u16(4).u16(0).u16(1).off16(mb);
        ll.off16(lk2);
    }
    ll.flatten()
}

fn feature_table(lk: &[i64], table: Table) -> Obj {
    let real: Vec<u16> = match table {
        Table::Gsub => lk.iter().map(|l| *l as u16).collect(),
        Table::Gpos => lk.iter().flat_map(|l| [2 * *l as u16, 2 * *l as u16 + 1]).collect(),
    };
    let mut ft = Obj::new();
    ft.u16(0).u16(real.len() as u16);
    for l in real {
        ft.u16(l);
    }
    ft
}

fn langsys(ls: &Value) -> Obj {
    let mut o = Obj::new();
    let r = int(&ls["r"]);
    let f = ints(&ls["f"]);
    o.u16(0).u16(if r < 0 { 0xFFFF } else { r as u16 }).u16(f.len() as u16);
    for i in f {
        o.u16(i as u16);
    }
    o
}

/// the abstract font as GSUB / GPOS bytes; `lookup_list` = the marker LookupList
fn encode(font: &Value, table: Table, lookup_list: &[u8]) -> Vec<u8> {
    let mut sl = Obj::new();
    sl.u16(arr(&font["sl"]).len() as u16);
    for sc in arr(&font["sl"]) {
        let mut st = Obj::new();
        if int(&sc["d"]["n"]) == 1 {
            st.u16(0);
        } else {
            st.off16(langsys(&sc["d"]));
        }
        st.u16(arr(&sc["ls"]).len() as u16);
        for rec in arr(&sc["ls"]) {
            st.tag(text(&rec["tag"])).off16(langsys(&rec["l"]));
        }
        sl.tag(text(&sc["tag"])).off16(st);
    }
    let mut fl = Obj::new();
    fl.u16(arr(&font["fl"]).len() as u16);
    for f in arr(&font["fl"]) {
        fl.tag(text(&f["tag"])).off16(feature_table(&ints(&f["lk"]), table));
    }
    let fvs = arr(&font["fv"]);
    let mut top = Obj::new();
    top.u16(1).u16(if fvs.is_empty() { 0 } else { 1 }).off16(sl).off16(fl);
    let ll_ref_at = top.d.len();
    top.u16(0);
    if !fvs.is_empty() {
        let mut fv = Obj::new();
        fv.u16(1).u16(0).u32(fvs.len() as u32);
        for rec in fvs {
            let conds = arr(&rec["c"]);
            if conds.is_empty() {
                fv.u32(0); // no condition set: the universal condition
            } else {
                let mut cs = Obj::new();
                cs.u16(conds.len() as u16);
                for c in conds {
                    let mut ct = Obj::new();
                    ct.u16(1).u16(int(&c["ax"]) as u16).i16(int(&c["lo"]) as i16).i16(int(&c["hi"]) as i16);
                    cs.off32(ct);
                }
                fv.off32(cs);
            }
            let mut fts = Obj::new();
            fts.u16(1).u16(0).u16(arr(&rec["s"]).len() as u16);
            for s in arr(&rec["s"]) {
                fts.u16(int(&s["fi"]) as u16).off32(feature_table(&ints(&s["lk"]), table));
            }
            fv.off32(fts);
        }
        top.off32(fv);
    }
    let mut bytes = top.flatten();
    let at = bytes.len();
    assert!(at <= 0xFFFF, "LookupList offset overflow");
    bytes[ll_ref_at..ll_ref_at + 2].copy_from_slice(&(at as u16).to_be_bytes());
    bytes.extend_from_slice(lookup_list);
    bytes
}

// ---- requests ---------------------------------------------------------------------------------------
struct Req {
    table: Table,
    sc: u32,
    lg: Option<u32>,
    mask: bool,
    tags: Vec<String>,
    alts: Vec<i64>,
    tup: Option<Vec<F2Dot14>>,
    kern: bool,
}

fn req_of(r: &Value) -> Req {
    Req {
        table: if text(&r["t"]) == "GSUB" { Table::Gsub } else { Table::Gpos },
        sc: tag_num(text(&r["sc"])),
        lg: if text(&r["lg"]).is_empty() { None } else { Some(tag_num(text(&r["lg"]))) },
        mask: text(&r["mode"]) == "mask",
        tags: arr(&r["tags"]).iter().map(|t| text(t).to_string()).collect(),
        alts: if r["alts"].is_array() { ints(&r["alts"]) } else { vec![] },
        tup: if int(&r["ht"]) == 1 { Some(ints(&r["tup"]).iter().map(|v| F2Dot14::from_raw(*v as i16)).collect()) } else { None },
        kern: r.get("kern").map(|k| int(k) == 1).unwrap_or(false),
    }
}

fn tuple_of(v: &Option<Vec<F2Dot14>>) -> Option<Tuple<'_>> {
    // SAFETY: the slice outlives the returned Tuple (same borrow)
    v.as_ref().map(|v| unsafe { Tuple::from_raw_parts(v.as_ptr(), v.len()) })
}

fn mask_of(tags: &[String]) -> FeatureMask {
    let mut m = FeatureMask::empty();
    for t in tags {
        m |= FeatureMask::from_tag(tag_num(t));
    }
    m
}

fn features_of(rq: &Req) -> Features {
    if rq.mask {
        Features::Mask(mask_of(&rq.tags))
    } else {
        Features::Custom(
            rq.tags
                .iter()
                .enumerate()
                .map(|(k, t)| FeatureInfo {
                    feature_tag: tag_num(t),
                    alternate: match rq.alts.get(k).copied().unwrap_or(-1) {
                        a if a < 0 => None,
                        a => Some(a as usize),
                    },
                })
                .collect(),
        )
    }
}

// ---- observations -----------------------------------------------------------------------------------
/// [script record (1-based, 0 none), LangSys (-1 none, 0 default, k record k), feature indices]
fn resolve_obs<T>(table: &LayoutTable<T>, sc: u32, lg: Option<u32>) -> Result<Value, String> {
    let script = table.find_script_or_default(sc).map_err(|e| format!("{:?}", e))?;
    let script = match script {
        None => return Ok(json!([0, -1, []])),
        Some(s) => s,
    };
    let recs = table.opt_script_list.as_ref().expect("script list").script_records();
    let si = recs.iter().position(|r| std::ptr::eq(r.script_table(), script)).map(|p| p as i64 + 1).unwrap_or(-9);
    let ls = script.find_langsys_or_default(lg).map_err(|e| format!("{:?}", e))?;
    let ls = match ls {
        None => return Ok(json!([si, -1, []])),
        Some(l) => l,
    };
    let li = if script.default_langsys_record().map(|d| std::ptr::eq(d, ls)).unwrap_or(false) {
        0
    } else {
        script.langsys_records().iter().position(|r| std::ptr::eq(r.langsys_table(), ls)).map(|p| p as i64 + 1).unwrap_or(-9)
    };
    let f: Vec<u16> = ls.feature_indices_iter().copied().collect();
    Ok(json!([si, li, f]))
}

/// lookup indices of the feature found by tag in the resolved LangSys ([-1]: none)
fn feature_obs<T>(table: &LayoutTable<T>, sc: u32, lg: Option<u32>, tag: u32, tup: &Option<Vec<F2Dot14>>) -> Result<Value, String> {
    let e = |e| format!("{:?}", e);
    let script = match table.find_script_or_default(sc).map_err(e)? {
        None => return Ok(json!([-1])),
        Some(s) => s,
    };
    let ls = match script.find_langsys_or_default(lg).map_err(e)? {
        None => return Ok(json!([-1])),
        Some(l) => l,
    };
    let fv = table.feature_variations(tuple_of(tup)).map_err(e)?;
    match table.find_langsys_feature(ls, tag, fv.as_ref()).map_err(e)? {
        None => Ok(json!([-1])),
        Some(ft) => Ok(json!(ft.lookup_indices)),
    }
}

/// gsub::get_lookups_cache_index + cached_lookups: [[lookup, tag]...], and features_supported
fn lookups_obs(bytes: &[u8], sc: u32, lg: Option<u32>, tags: &[String], tup: &Option<Vec<F2Dot14>>) -> Result<(Value, i64), String> {
    let e = |e| format!("{:?}", e);
    let table = ReadScope::new(bytes).read::<LayoutTable<GSUB>>().map_err(e)?;
    let cache = new_layout_cache(table);
    let mask = mask_of(tags);
    let sup = gsub::features_supported(&cache, sc, lg, mask).map_err(|e| format!("{:?}", e))?;
    let fv = cache.layout_table.feature_variations(tuple_of(tup)).map_err(e)?;
    let idx = gsub::get_lookups_cache_index(&cache, sc, lg, fv.as_ref(), mask).map_err(e)?;
    let sel: Vec<Value> = cache.cached_lookups.borrow()[idx].iter().map(|(l, t)| json!([l, tag_text(*t)])).collect();
    Ok((Value::Array(sel), sup as i64))
}

fn raw_glyph(gid: u16, ch: char) -> RawGlyph<()> {
    RawGlyph {
        unicodes: tiny_vec![[char; 1] => ch],
        glyph_index: gid,
        liga_component_pos: 0,
        glyph_origin: GlyphOrigin::Char(ch),
        flags: RawGlyphFlags::empty(),
        variation: None,
        extra_data: (),
    }
}

fn apply_gsub(mk: &Marker, bytes: &[u8], rq: &Req) -> Result<Value, String> {
    let table = ReadScope::new(bytes).read::<LayoutTable<GSUB>>().map_err(|e| format!("{:?}", e))?;
    let cache = new_layout_cache(table);
    let mut glyphs = vec![raw_glyph(1, 'a')];
    gsub::apply(0, &cache, None, rq.sc, rq.lg, &features_of(rq), tuple_of(&rq.tup), u16::MAX, &mut glyphs)
        .map_err(|e| format!("{:?}", e))?;
    if glyphs.len() != 1 {
        return Ok(json!([[-2, glyphs.len()]]));
    }
    match mk.decode(glyphs[0].glyph_index) {
        Some(p) => Ok(json!(p)),
        None => Ok(json!([[-1, glyphs[0].glyph_index]])),
    }
}

fn apply_gpos(bytes: &[u8], rq: &Req) -> Result<Value, String> {
    let table = ReadScope::new(bytes).read::<LayoutTable<GPOS>>().map_err(|e| format!("{:?}", e))?;
    let cache = new_layout_cache(table);
    let mut glyphs = Vec::new();
    for p in 0..PAIRS.len() {
        glyphs.push(raw_glyph(G_BASE, 'a'));
        glyphs.push(raw_glyph(G_MARK0 + p as u16, 'b'));
    }
    glyphs.push(raw_glyph(G_COUNT, 'c'));
    let mut infos = Info::init_from_glyphs(None, glyphs);
    gpos::apply(&cache, None, None, rq.kern, &features_of(rq), tuple_of(&rq.tup), rq.sc, rq.lg, &mut infos)
        .map_err(|e| format!("{:?}", e))?;
    let k = infos[2 * PAIRS.len()].kerning as i64;
    let cnt: Vec<i64> = (0..4).map(|l| if k < 0 { -1 } else { (k >> (4 * l)) & 15 }).collect();
    let last: Vec<i64> = (0..PAIRS.len())
        .map(|p| match infos[2 * p + 1].placement {
            Placement::None => -1,
            Placement::MarkAnchor(_, base, _) => base.x as i64 - 100,
            _ => -7,
        })
        .collect();
    Ok(json!({"cnt": cnt, "last": last}))
}

fn lookup_list_for(table: Table, gsub_ll: &[u8], gpos_ll: &[u8]) -> Vec<u8> {
    match table {
        Table::Gsub => gsub_ll.to_vec(),
        Table::Gpos => gpos_ll.to_vec(),
    }
}

struct Observed {
    res: Value,
    sel: Value,
    sup: i64,
    obs: Value,
    err: String,
    panic: String,
}

fn observe(mk: &Marker, gsub_ll: &[u8], gpos_ll: &[u8], font: &Value, rqv: &Value) -> Observed {
    let rq = req_of(rqv);
    let bytes = encode(font, rq.table, &lookup_list_for(rq.table, gsub_ll, gpos_ll));
    let empty_obs = if rq.table == Table::Gsub { json!([]) } else { json!({"cnt": [], "last": []}) };
    let mut o = Observed { res: json!([-9, -9, []]), sel: json!([]), sup: -1, obs: empty_obs, err: String::new(), panic: String::new() };
    let r = guarded(|| -> Result<(Value, Value, i64, Value), String> {
        let res = match rq.table {
            Table::Gsub => {
                let t = ReadScope::new(&bytes).read::<LayoutTable<GSUB>>().map_err(|e| format!("{:?}", e))?;
                resolve_obs(&t, rq.sc, rq.lg)?
            }
            Table::Gpos => {
                let t = ReadScope::new(&bytes).read::<LayoutTable<GPOS>>().map_err(|e| format!("{:?}", e))?;
                resolve_obs(&t, rq.sc, rq.lg)?
            }
        };
        let (sel, sup) = if rq.table == Table::Gsub && rq.mask { lookups_obs(&bytes, rq.sc, rq.lg, &rq.tags, &rq.tup)? } else { (json!([]), -1) };
        let obs = match rq.table {
            Table::Gsub => apply_gsub(mk, &bytes, &rq)?,
            Table::Gpos => apply_gpos(&bytes, &rq)?,
        };
        Ok((res, sel, sup, obs))
    });
    match r {
        Outcome::Panicked(m) => o.panic = m,
        Outcome::Returned(Err(e)) => o.err = e,
        Outcome::Returned(Ok((res, sel, sup, obs))) => {
            o.res = res;
            o.sel = sel;
            o.sup = sup;
            o.obs = obs;
        }
    }
    o
}

fn bump(m: &mut BTreeMap<String, usize>, k: &str) {
    *m.entry(k.to_string()).or_default() += 1;
}

fn marker_of(c: &Value) -> Marker {
    let mk = ints(&c["mk"]);
    Marker { l: mk[0] as usize, d: mk[1] as usize, a: mk[2] as usize }
}

// ---- replay -------------------------------------------------------------------------------------------
fn replay(cases: &str, out: &str) {
    let mut w = NdWriter::create(out);
    let mut cnt: BTreeMap<String, usize> = BTreeMap::new();
    let mut known_counts: BTreeMap<String, usize> = BTreeMap::new();
    let mut lists: Option<(usize, usize, usize, Vec<u8>, Vec<u8>)> = None;
    let mut n = 0usize;
    for c in read_ndjson(cases) {
        n += 1;
        let mk = marker_of(&c);
        if lists.as_ref().map(|l| (l.0, l.1, l.2) != (mk.l, mk.d, mk.a)).unwrap_or(true) {
            lists = Some((mk.l, mk.d, mk.a, mk.gsub_lookup_list(), gpos_lookup_list(mk.l)));
        }
        let (_, _, _, gsub_ll, gpos_ll) = lists.as_ref().unwrap();
        let o = observe(&mk, gsub_ll, gpos_ll, &c["font"], &c["req"]);
        let e = &c["e"];
        let t = text(&c["req"]["t"]);
        let mode = text(&c["req"]["mode"]);
        // vacuity counters over the specification's side
        bump(&mut cnt, &format!("fam|{}|{}|{}", text(&c["fam"]), t, mode));
        if int(&e["m"]) != 0 {
            bump(&mut cnt, "fv-record-matched");
        }
        if arr(&e["obs"]).len() > 1 {
            bump(&mut cnt, "several-readings");
        }
        if !arr(&c["k"]).is_empty() {
            bump(&mut cnt, "defect-reading-differs");
        }
        if arr(&e["res"]).iter().any(|r| int(&r[0]) == 0) {
            bump(&mut cnt, "no-script");
        }
        if arr(&e["res"]).iter().any(|r| int(&r[0]) != 0 && int(&r[1]) == -1) {
            bump(&mut cnt, "no-langsys");
        }
        let mut rec = json!({"id": c.get("id").cloned().unwrap_or(Value::Null), "fam": c["fam"], "mk": c["mk"], "font": c["font"],
                             "req": c["req"], "e": e, "res": o.res, "sel": o.sel, "sup": o.sup, "obs": o.obs,
                             "err": o.err, "panic": o.panic});
        let mut bad: Vec<&str> = Vec::new();
        let mut defects: Vec<String> = Vec::new();
        if !o.panic.is_empty() {
            bad.push("panic");
        } else if !o.err.is_empty() {
            bad.push("error");
        } else {
            if !arr(&e["res"]).contains(&o.res) {
                bad.push("res");
            }
            if t == "GSUB" && mode == "mask" {
                if !arr(&e["sup"]).contains(&json!(o.sup)) {
                    bad.push("sup");
                }
            }
            // obs and sel: the specification's set, else the first named defect set that explains BOTH
            let sel_wanted = t == "GSUB" && mode == "mask";
            let ok0 = arr(&e["obs"]).contains(&o.obs) && (!sel_wanted || arr(&e["sel"]).contains(&o.sel));
            if !ok0 {
                let hit = arr(&c["k"]).iter().find(|k| arr(&k["obs"]).contains(&o.obs) && (!sel_wanted || arr(&k["sel"]).contains(&o.sel)));
                match hit {
                    Some(k) => defects = arr(&k["d"]).iter().map(|d| text(d).to_string()).collect(),
                    None => {
                        if !arr(&e["obs"]).contains(&o.obs) {
                            bad.push("obs");
                        }
                        if sel_wanted && !arr(&e["sel"]).contains(&o.sel) {
                            bad.push("sel");
                        }
                    }
                }
            }
        }
        if bad.is_empty() && defects.is_empty() {
            bump(&mut cnt, "ok");
            continue;
        }
        let m = rec.as_object_mut().unwrap();
        if !bad.is_empty() {
            m.insert("kind".into(), json!("mismatch"));
            m.insert("bad".into(), json!(bad));
            bump(&mut cnt, "mismatch");
            w.write(&rec);
        } else {
            let key = defects.join("+");
            let seen = known_counts.entry(format!("{}|{}", t.to_lowercase(), key)).or_default();
            *seen += 1;
            bump(&mut cnt, "known");
            if *seen <= 3 {
                m.insert("kind".into(), json!("known"));
                m.insert("d".into(), json!(defects));
                w.write(&rec);
            }
        }
    }
    w.finish();
    println!("{}", json!({"cases": n, "counters": cnt, "known_by_defects": known_counts}));
}

// ---- record ---------------------------------------------------------------------------------------------
const MASK_TAGS: &[&str] = &[
    "abvf", "abvs", "afrc", "akhn", "blwf", "blws", "c2sc", "calt", "ccmp", "cfar", "cjct", "clig", "dlig", "fina", "fin2",
    "fin3", "frac", "half", "haln", "hlig", "init", "isol", "liga", "lnum", "locl", "medi", "med2", "mset", "nukt", "onum",
    "ordn", "pnum", "pref", "pres", "pstf", "psts", "rclt", "rkrf", "rlig", "rphf", "rvrn", "smcp", "tnum", "vatu", "vert",
    "vrt2", "zero", "kern", "mark", "zzzz", "LIGA", "ss01",
];

fn random_font(rng: &mut StdRng, gpos: bool) -> Value {
    let script_pool = ["DFLT", "dflt", "latn", "cyrl", "grek", "arab", "dev2", "deva", "hebr", "thai"];
    let lang_pool = ["AZE ", "TRK ", "ROM ", "dflt", "DEU "];
    let tag_pool: &[&str] = if gpos {
        &["kern", "mark", "mkmk", "dist", "curs", "abvm", "blwm", "zzzz", "liga"]
    } else {
        &["liga", "calt", "ccmp", "clig", "locl", "rlig", "smcp", "rvrn", "vert", "vrt2", "zzzz", "dlig", "ss01"]
    };
    let nf = rng.gen_range(1..=7usize);
    let lk = |rng: &mut StdRng| -> Vec<i64> {
        let n = [0usize, 1, 1, 1, 2, 2, 3, 4][rng.gen_range(0..8)];
        (0..n).map(|_| rng.gen_range(0..4)).collect()
    };
    let fl: Vec<Value> = (0..nf).map(|_| json!({"tag": tag_pool[rng.gen_range(0..tag_pool.len())], "lk": lk(rng)})).collect();
    let ls = |rng: &mut StdRng| -> Value {
        let n = rng.gen_range(0..=nf.min(5));
        let mut f: Vec<i64> = Vec::new();
        while f.len() < n {
            let i = rng.gen_range(0..nf) as i64;
            if !f.contains(&i) {
                f.push(i);
            }
        }
        let mut r = if rng.gen_range(0..3) == 0 { rng.gen_range(0..nf) as i64 } else { -1 };
        // the required feature is never 'rvrn' and never also in the list (OpenType: distinct from featureIndices)
        if r >= 0 && (text(&fl[r as usize]["tag"]) == "rvrn" || f.contains(&r)) {
            r = -1;
        }
        json!({"n": 0, "r": r, "f": f})
    };
    let mut scripts: Vec<&str> = Vec::new();
    for s in script_pool {
        if rng.gen_range(0..10) < 3 {
            scripts.push(s);
        }
    }
    let sl: Vec<Value> = scripts
        .iter()
        .map(|s| {
            let d = if rng.gen_range(0..4) == 0 { json!({"n": 1, "r": -1, "f": []}) } else { ls(rng) };
            let mut langs: Vec<&str> = Vec::new();
            for l in lang_pool {
                if rng.gen_range(0..10) < 3 {
                    langs.push(l);
                }
            }
            let recs: Vec<Value> = langs.iter().map(|l| json!({"tag": l, "l": ls(rng)})).collect();
            json!({"tag": s, "d": d, "ls": recs})
        })
        .collect();
    let nfv = [0usize, 0, 1, 2, 3][rng.gen_range(0..5)];
    let fv: Vec<Value> = (0..nfv)
        .map(|_| {
            let nc = rng.gen_range(0..=2);
            let c: Vec<Value> = (0..nc)
                .map(|_| {
                    let lo = [-16384i64, -8192, 0, 1, 8192][rng.gen_range(0..5)];
                    let hi = [0i64, 8192, 16384][rng.gen_range(0..3)].max(lo);
                    json!({"ax": rng.gen_range(0..3), "lo": lo, "hi": hi})
                })
                .collect();
            let mut fis: Vec<i64> = (0..nf as i64).filter(|_| rng.gen_range(0..3) == 0).collect();
            fis.sort();
            let s: Vec<Value> = fis.iter().map(|fi| json!({"fi": fi, "lk": lk(rng)})).collect();
            json!({"c": c, "s": s})
        })
        .collect();
    json!({"sl": sl, "fl": fl, "fv": fv, "nl": 4})
}

fn random_req(rng: &mut StdRng, gpos: bool, font: &Value) -> Value {
    let present: Vec<&str> = arr(&font["sl"]).iter().map(|s| text(&s["tag"])).collect();
    let default_class = ["latn", "cyrl", "grek", "hebr", "zzzz"];
    let any_class = ["latn", "cyrl", "arab", "syrc", "deva", "beng", "khmr", "mymr", "thai", "lao ", "hebr"];
    let sc = if gpos { any_class[rng.gen_range(0..any_class.len())] } else { default_class[rng.gen_range(0..default_class.len())] };
    let _ = present;
    let lg = ["", "", "TRK ", "AZE ", "ROM ", "ZZZ ", "dflt"][rng.gen_range(0..7)];
    let mask = rng.gen_range(0..2) == 0;
    let pool: &[&str] = if gpos { &["kern", "mark", "mkmk", "dist", "curs", "abvm", "zzzz", "liga"] } else { &["liga", "calt", "ccmp", "clig", "locl", "rlig", "smcp", "rvrn", "vrt2", "dlig", "zzzz", "ss01", "vert"] };
    let mut tags: Vec<&str> = Vec::new();
    if mask {
        for t in ["calt", "ccmp", "clig", "liga", "locl", "rlig"] {
            if rng.gen_range(0..10) < 8 {
                tags.push(t);
            }
        }
        for t in ["smcp", "dlig", "vrt2", "rvrn"] {
            if rng.gen_range(0..10) < 3 {
                tags.push(t);
            }
        }
    } else {
        let n = rng.gen_range(0..=4);
        while tags.len() < n {
            let t = pool[rng.gen_range(0..pool.len())];
            if !tags.contains(&t) {
                tags.push(t);
            }
        }
    }
    let alts: Vec<i64> = if mask { vec![] } else { tags.iter().map(|t| if *t == "rvrn" { -1 } else { rng.gen_range(-1..=1) }).collect() };
    let ht = rng.gen_range(0..2);
    let nt = rng.gen_range(0..=3);
    let tup: Vec<i64> = (0..nt).map(|_| [-16384i64, -8192, 0, 1, 4096, 8192, 16384][rng.gen_range(0..7)]).collect();
    json!({"t": if gpos { "GPOS" } else { "GSUB" }, "sc": sc, "lg": lg, "mode": if mask { "mask" } else { "custom" },
           "tags": tags, "alts": alts, "ht": ht, "tup": if ht == 1 { tup } else { vec![] }, "kern": rng.gen_range(0..2)})
}

fn record(seed: u64, n_random: usize, max_pairs: usize, out: &str) {
    let mut rng = StdRng::seed_from_u64(seed ^ 0x0505_5E1E_C705);
    let mut w = NdWriter::create(out);
    let mut i = 0u64;
    let mut cnt: BTreeMap<String, usize> = BTreeMap::new();
    let mut ev = |w: &mut NdWriter, case: &str, name: &str, a: Value, o: Value| {
        w.write(&json!({"i": i, "case": case, "ev": name, "a": a, "o": o}));
        i += 1;
    };
    // ---- the FeatureMask <-> tag table
    {
        let bits: Vec<i64> = MASK_TAGS
            .iter()
            .map(|t| {
                let b = FeatureMask::from_tag(tag_u32(t)).bits();
                if b == 0 { -2 } else if b.count_ones() == 1 { b.trailing_zeros() as i64 } else { -1 }
            })
            .collect();
        let iters: Vec<Vec<String>> = MASK_TAGS.iter().map(|t| FeatureMask::from_tag(tag_u32(t)).iter().map(|f| tag_text(f.feature_tag)).collect()).collect();
        let def: Vec<String> = FeatureMask::default().iter().map(|f| tag_text(f.feature_tag)).collect();
        ev(&mut w, "masktable", "MaskTable", json!({"tags": MASK_TAGS}), json!({"bit": bits, "iter": iters, "def": def}));
        bump(&mut cnt, "MaskTable");
    }
    // ---- repository fonts, read by the independent reader
    let mut fonts_with = 0usize;
    for path in repo_fonts() {
        let data = match std::fs::read(&path) {
            Ok(d) => d,
            Err(_) => continue,
        };
        let name = path.rsplit("/tests/fonts/").next().unwrap_or(&path).to_string();
        let tables = guarded(|| -> Option<Vec<(Table, Vec<u8>)>> {
            let fd = ReadScope::new(&data).read::<FontData<'_>>().ok()?;
            let prov = fd.table_provider(0).ok()?;
            let mut v = Vec::new();
            for (t, tg) in [(Table::Gsub, "GSUB"), (Table::Gpos, "GPOS")] {
                if let Ok(Some(b)) = prov.table_data(tag_u32(tg)) {
                    v.push((t, b.to_vec()));
                }
            }
            Some(v)
        });
        let tables = match tables {
            Outcome::Returned(Some(v)) if !v.is_empty() => v,
            _ => continue,
        };
        for (t, bytes) in tables {
            let tname = if t == Table::Gsub { "GSUB" } else { "GPOS" };
            let font = match reader::read_layout(&bytes) {
                Some(f) => f,
                None => {
                    bump(&mut cnt, "repo-table-unreadable-by-independent-reader");
                    continue;
                }
            };
            // allsorts must be able to read it as well, otherwise there is nothing to observe
            let readable = guarded(|| match t {
                Table::Gsub => ReadScope::new(&bytes).read::<LayoutTable<GSUB>>().is_ok(),
                Table::Gpos => ReadScope::new(&bytes).read::<LayoutTable<GPOS>>().is_ok(),
            });
            if !matches!(readable, Outcome::Returned(true)) {
                bump(&mut cnt, "repo-table-unreadable-by-allsorts");
                continue;
            }
            fonts_with += 1;
            bump(&mut cnt, &format!("repo-tables|{}", tname));
            let case = format!("repo:{}:{}", name, tname);
            ev(&mut w, &case, "Font", font.clone(), json!({}));
            // (script, language) pairs: every script and language the font names, plus absent ones
            let mut pairs: Vec<(String, String)> = Vec::new();
            for s in arr(&font["sl"]) {
                let st = text(&s["tag"]).to_string();
                pairs.push((st.clone(), String::new()));
                pairs.push((st.clone(), "ZZZ ".into()));
                for l in arr(&s["ls"]) {
                    pairs.push((st.clone(), text(&l["tag"]).to_string()));
                }
            }
            for s in ["zzzz", "latn", "cyrl", "DFLT", "deva"] {
                pairs.push((s.to_string(), String::new()));
                pairs.push((s.to_string(), "TRK ".into()));
            }
            while pairs.len() > max_pairs {
                let k = rng.gen_range(0..pairs.len());
                pairs.swap_remove(k);
            }
            let tuples: Vec<Option<Vec<i64>>> = {
                let mut v: Vec<Option<Vec<i64>>> = vec![None];
                let fvs = arr(&font["fv"]);
                if !fvs.is_empty() {
                    let axes = fvs.iter().flat_map(|r| arr(&r["c"]).iter().map(|c| int(&c["ax"]))).max().unwrap_or(0) as usize + 1;
                    v.push(Some(vec![0; axes]));
                    for r in fvs.iter().take(4) {
                        let mut tp = vec![0i64; axes];
                        for c in arr(&r["c"]) {
                            tp[int(&c["ax"]) as usize] = int(&c["lo"]);
                        }
                        v.push(Some(tp.clone()));
                        for c in arr(&r["c"]) {
                            tp[int(&c["ax"]) as usize] = int(&c["hi"]);
                        }
                        v.push(Some(tp));
                    }
                }
                v
            };
            for (sc, lg) in pairs {
                let scn = tag_num(&sc);
                let lgn = if lg.is_empty() { None } else { Some(tag_num(&lg)) };
                let r = guarded(|| match t {
                    Table::Gsub => resolve_obs(&ReadScope::new(&bytes).read::<LayoutTable<GSUB>>().unwrap(), scn, lgn),
                    Table::Gpos => resolve_obs(&ReadScope::new(&bytes).read::<LayoutTable<GPOS>>().unwrap(), scn, lgn),
                });
                let (res, err, panic) = match r {
                    Outcome::Returned(Ok(v)) => (v, String::new(), String::new()),
                    Outcome::Returned(Err(e)) => (json!([-9, -9, []]), e, String::new()),
                    Outcome::Panicked(m) => (json!([-9, -9, []]), String::new(), m),
                };
                let fidx: Vec<i64> = if res.is_array() { ints(&res[2]) } else { vec![] };
                ev(&mut w, &case, "Resolve", json!({"t": tname, "sc": sc, "lg": lg}), json!({"res": res, "err": err, "panic": panic}));
                bump(&mut cnt, "Resolve");
                // features by tag (those of the LangSys, one absent), with and without a tuple
                let mut tags: Vec<String> = fidx.iter().filter_map(|i| arr(&font["fl"]).get(*i as usize)).map(|f| text(&f["tag"]).to_string()).collect();
                tags.sort();
                tags.dedup();
                while tags.len() > 6 {
                    let k = rng.gen_range(0..tags.len());
                    tags.remove(k);
                }
                tags.push("zzzz".into());
                for tp in &tuples {
                    let tupv: Option<Vec<F2Dot14>> = tp.as_ref().map(|v| v.iter().map(|x| F2Dot14::from_raw(*x as i16)).collect());
                    for tg in &tags {
                        let tgn = tag_num(tg);
                        let r = guarded(|| match t {
                            Table::Gsub => feature_obs(&ReadScope::new(&bytes).read::<LayoutTable<GSUB>>().unwrap(), scn, lgn, tgn, &tupv),
                            Table::Gpos => feature_obs(&ReadScope::new(&bytes).read::<LayoutTable<GPOS>>().unwrap(), scn, lgn, tgn, &tupv),
                        });
                        let (lk, err, panic) = match r {
                            Outcome::Returned(Ok(v)) => (v, String::new(), String::new()),
                            Outcome::Returned(Err(e)) => (json!([-9]), e, String::new()),
                            Outcome::Panicked(m) => (json!([-9]), String::new(), m),
                        };
                        ev(&mut w, &case, "Feature",
                           json!({"t": tname, "sc": sc, "lg": lg, "tag": tg, "ht": if tp.is_some() { 1 } else { 0 }, "tup": tp.clone().unwrap_or_default()}),
                           json!({"lk": lk, "err": err, "panic": panic}));
                        bump(&mut cnt, "Feature");
                    }
                    if t == Table::Gsub {
                        // lookup lists of masks: default, default + more, everything the LangSys has, none
                        let mut all: Vec<String> = tags.iter().filter(|t| !FeatureMask::from_tag(tag_num(t)).is_empty()).map(|t| if t == "vert" { "vrt2".to_string() } else { t.clone() }).collect();
                        all.sort();
                        all.dedup();
                        let d: Vec<String> = ["calt", "ccmp", "clig", "liga", "locl", "rlig"].iter().map(|s| s.to_string()).collect();
                        let mut d2 = d.clone();
                        d2.extend(["smcp", "vrt2", "dlig", "rvrn"].iter().map(|s| s.to_string()));
                        for mtags in [d, d2, all, vec![]] {
                            let r = guarded(|| lookups_obs(&bytes, scn, lgn, &mtags, &tupv));
                            let (sel, sup, err, panic) = match r {
                                Outcome::Returned(Ok((s, p))) => (s, p, String::new(), String::new()),
                                Outcome::Returned(Err(e)) => (json!([]), -1, e, String::new()),
                                Outcome::Panicked(m) => (json!([]), -1, String::new(), m),
                            };
                            ev(&mut w, &case, "Lookups",
                               json!({"t": tname, "sc": sc, "lg": lg, "mode": "mask", "tags": mtags, "alts": [], "ht": if tp.is_some() { 1 } else { 0 },
                                      "tup": tp.clone().unwrap_or_default(), "kern": 0}),
                               json!({"sel": sel, "sup": sup, "err": err, "panic": panic}));
                            bump(&mut cnt, "Lookups");
                        }
                    }
                }
            }
        }
    }
    // ---- seeded random fonts with the marker lookups
    let mk = Marker { l: 4, d: 5, a: 2 };
    let gsub_ll = mk.gsub_lookup_list();
    let gpos_ll = gpos_lookup_list(mk.l);
    for k in 0..n_random {
        let gpos = k % 2 == 1;
        let font = random_font(&mut rng, gpos);
        let case = format!("rnd:{}", k);
        ev(&mut w, &case, "Font", font.clone(), json!({}));
        for _ in 0..3 {
            let rq = random_req(&mut rng, gpos, &font);
            let o = observe(&mk, &gsub_ll, &gpos_ll, &font, &rq);
            ev(&mut w, &case, "Resolve", json!({"t": rq["t"], "sc": rq["sc"], "lg": rq["lg"]}), json!({"res": o.res, "err": o.err, "panic": o.panic}));
            bump(&mut cnt, "Resolve");
            if !gpos && text(&rq["mode"]) == "mask" {
                ev(&mut w, &case, "Lookups", rq.clone(), json!({"sel": o.sel, "sup": o.sup, "err": o.err, "panic": o.panic}));
                bump(&mut cnt, "Lookups");
            }
            let mut a = rq.clone();
            a.as_object_mut().unwrap().insert("mk".into(), json!([mk.l, mk.d, mk.a]));
            ev(&mut w, &case, "Apply", a, json!({"obs": o.obs, "err": o.err, "panic": o.panic}));
            bump(&mut cnt, &format!("Apply|{}|{}", text(&rq["t"]), text(&rq["mode"])));
        }
    }
    let n = w.n;
    w.finish();
    println!("{}", json!({"events": n, "repo_tables": fonts_with, "counters": cnt}));
}

fn main() {
    let args: Vec<String> = std::env::args().collect();
    match args.get(1).map(|s| s.as_str()) {
        Some("replay") => replay(&args[2], &args[3]),
        Some("record") => record(args[2].parse().expect("seed"), args[3].parse().expect("n"), args[4].parse().expect("pairs"), &args[5]),
        Some("dump") => {
            let data = std::fs::read(&args[2]).expect("read");
            let fd = ReadScope::new(&data).read::<FontData<'_>>().expect("font");
            let prov = fd.table_provider(0).expect("provider");
            for tg in ["GSUB", "GPOS"] {
                if let Ok(Some(b)) = prov.table_data(tag_u32(tg)) {
                    println!("{} {}", tg, reader::read_layout(&b).map(|v| v.to_string()).unwrap_or("unreadable".into()));
                }
            }
        }
        _ => {
            eprintln!("usage: x05_layoutselect replay|record|dump ...");
            std::process::exit(2);
        }
    }
}
