//! Independent reader for CFF / CFF2 tables (no allsorts code): INDEX, DICT, FDSelect, charset,
//! ItemVariationStore regions, and a light charstring walker that finds which subroutines a glyph
//! reaches (so that they can be attached to a trace event).  Also used by the C15 harness.
#![allow(dead_code)]
use std::collections::BTreeSet;

#[derive(Clone, Debug, Default)]
pub struct Index {
    /// (start, end) of each object inside the table
    pub ranges: Vec<(usize, usize)>,
    pub off_size: u8,
    pub start: usize,
    pub end: usize,
}

impl Index {
    pub fn len(&self) -> usize {
        self.ranges.len()
    }
    pub fn get<'a>(&self, d: &'a [u8], i: usize) -> Option<&'a [u8]> {
        self.ranges.get(i).map(|&(a, b)| &d[a..b])
    }
}

fn be(d: &[u8], at: usize, n: usize) -> Option<usize> {
    let s = d.get(at..at + n)?;
    Some(s.iter().fold(0usize, |a, &b| (a << 8) | b as usize))
}

pub fn read_index(d: &[u8], at: usize, count32: bool) -> Option<Index> {
    let (count, mut p) = if count32 { (be(d, at, 4)?, at + 4) } else { (be(d, at, 2)?, at + 2) };
    if count == 0 {
        return Some(Index { ranges: vec![], off_size: 0, start: at, end: p });
    }
    let os = *d.get(p)? as usize;
    if !(1..=4).contains(&os) {
        return None;
    }
    p += 1;
    let data0 = p + (count + 1) * os - 1;
    let mut ranges = Vec::with_capacity(count);
    let mut prev = be(d, p, os)?;
    for i in 1..=count {
        let o = be(d, p + i * os, os)?;
        if o < prev || data0 + o > d.len() {
            return None;
        }
        ranges.push((data0 + prev, data0 + o));
        prev = o;
    }
    Some(Index { ranges, off_size: os as u8, start: at, end: data0 + prev })
}

#[derive(Clone, Debug, PartialEq)]
pub enum DictNum {
    Int(i64),
    /// the nibbles of a real number, as text ("-1.5E-3")
    Real(String),
}

impl DictNum {
    pub fn int(&self) -> Option<i64> {
        match self {
            DictNum::Int(v) => Some(*v),
            _ => None,
        }
    }
}

pub fn read_dict(d: &[u8]) -> Option<Vec<(u16, Vec<DictNum>)>> {
    let mut out = Vec::new();
    let mut ops = Vec::new();
    let mut p = 0;
    while p < d.len() {
        let b0 = d[p];
        match b0 {
            0..=11 | 13..=24 => {
                out.push((b0 as u16, std::mem::take(&mut ops)));
                p += 1;
            }
            12 => {
                let b1 = *d.get(p + 1)?;
                out.push((0x0C00 | b1 as u16, std::mem::take(&mut ops)));
                p += 2;
            }
            28 => {
                ops.push(DictNum::Int(be(d, p + 1, 2)? as u16 as i16 as i64));
                p += 3;
            }
            29 => {
                ops.push(DictNum::Int(be(d, p + 1, 4)? as u32 as i32 as i64));
                p += 5;
            }
            30 => {
                let mut s = String::new();
                p += 1;
                'outer: loop {
                    let b = *d.get(p)?;
                    p += 1;
                    for nib in [b >> 4, b & 15] {
                        match nib {
                            0..=9 => s.push((b'0' + nib) as char),
                            10 => s.push('.'),
                            11 => s.push('E'),
                            12 => s.push_str("E-"),
                            14 => s.push('-'),
                            15 => break 'outer,
                            _ => return None,
                        }
                    }
                }
                ops.push(DictNum::Real(s));
            }
            32..=246 => {
                ops.push(DictNum::Int(b0 as i64 - 139));
                p += 1;
            }
            247..=250 => {
                ops.push(DictNum::Int((b0 as i64 - 247) * 256 + *d.get(p + 1)? as i64 + 108));
                p += 2;
            }
            251..=254 => {
                ops.push(DictNum::Int(-(b0 as i64 - 251) * 256 - *d.get(p + 1)? as i64 - 108));
                p += 2;
            }
            _ => return None,
        }
    }
    Some(out)
}

pub fn dict_get<'a>(dict: &'a [(u16, Vec<DictNum>)], op: u16) -> Option<&'a Vec<DictNum>> {
    dict.iter().find(|(o, _)| *o == op).map(|(_, v)| v)
}

#[derive(Clone, Debug, Default)]
pub struct Fd {
    pub lsubrs: Option<Index>,
    pub vsindex: i64,
    pub private: Vec<(u16, Vec<DictNum>)>,
    pub private_range: (usize, usize),
}

#[derive(Clone, Debug, Default)]
pub struct VStore {
    pub axis_count: usize,
    /// every region: per axis (start, peak, end) raw F2Dot14
    pub regions: Vec<Vec<[i16; 3]>>,
    /// per ItemVariationData its region indexes
    pub ivds: Vec<Vec<u16>>,
}

#[derive(Clone, Debug, Default)]
pub struct CffFont {
    pub cff2: bool,
    pub cid: bool,
    pub glyphs: Index,
    pub gsubrs: Index,
    pub fds: Vec<Fd>,
    /// per glyph FD (empty: single FD)
    pub fdselect: Vec<u8>,
    /// gid -> SID/CID; None: predefined charset (id)
    pub charset: Option<Vec<u16>>,
    pub charset_predefined: i64,
    pub vstore: Option<VStore>,
    pub top: Vec<(u16, Vec<DictNum>)>,
    pub name_index: Index,
    pub string_index: Index,
    pub top_index: Index,
}

fn read_fdselect(d: &[u8], at: usize, nglyphs: usize) -> Option<Vec<u8>> {
    match *d.get(at)? {
        0 => Some(d.get(at + 1..at + 1 + nglyphs)?.to_vec()),
        3 => {
            let n = be(d, at + 1, 2)?;
            let mut out = vec![0u8; nglyphs];
            for i in 0..n {
                let first = be(d, at + 3 + 3 * i, 2)?;
                let fd = *d.get(at + 5 + 3 * i)?;
                let next = be(d, at + 3 + 3 * (i + 1), 2)?;
                for g in first..next.min(nglyphs) {
                    out[g] = fd;
                }
            }
            Some(out)
        }
        _ => None,
    }
}

fn read_charset(d: &[u8], at: usize, nglyphs: usize) -> Option<Vec<u16>> {
    let mut out = vec![0u16];
    match *d.get(at)? {
        0 => {
            for i in 0..nglyphs.saturating_sub(1) {
                out.push(be(d, at + 1 + 2 * i, 2)? as u16);
            }
        }
        f @ (1 | 2) => {
            let mut p = at + 1;
            while out.len() < nglyphs {
                let first = be(d, p, 2)?;
                let nleft = if f == 1 { be(d, p + 2, 1)? } else { be(d, p + 2, 2)? };
                p += if f == 1 { 3 } else { 4 };
                for k in 0..=nleft {
                    if out.len() < nglyphs {
                        out.push((first + k) as u16);
                    }
                }
            }
        }
        _ => return None,
    }
    Some(out)
}

fn read_fd(d: &[u8], fdict: &[(u16, Vec<DictNum>)], count32: bool) -> Option<Fd> {
    let p = dict_get(fdict, 18)?;
    let (len, off) = (p.get(0)?.int()? as usize, p.get(1)?.int()? as usize);
    let private = read_dict(d.get(off..off + len)?)?;
    let lsubrs = match dict_get(&private, 19) {
        Some(v) => Some(read_index(d, off + v.get(0)?.int()? as usize, count32)?),
        None => None,
    };
    let vsindex = dict_get(&private, 22).and_then(|v| v.get(0)).and_then(|v| v.int()).unwrap_or(0);
    Some(Fd { lsubrs, vsindex, private, private_range: (off, off + len) })
}

pub fn parse_cff(d: &[u8]) -> Option<CffFont> {
    if *d.get(0)? != 1 {
        return None;
    }
    let hdr = *d.get(2)? as usize;
    let name_index = read_index(d, hdr, false)?;
    let top_index = read_index(d, name_index.end, false)?;
    let string_index = read_index(d, top_index.end, false)?;
    let gsubrs = read_index(d, string_index.end, false)?;
    let top = read_dict(top_index.get(d, 0)?)?;
    let cs_off = dict_get(&top, 17)?.get(0)?.int()? as usize;
    let glyphs = read_index(d, cs_off, false)?;
    let cid = top.first().map(|(o, _)| *o) == Some(0x0C1E);
    let mut fds = Vec::new();
    let mut fdselect = Vec::new();
    if cid {
        let fda = read_index(d, dict_get(&top, 0x0C24)?.get(0)?.int()? as usize, false)?;
        for i in 0..fda.len() {
            fds.push(read_fd(d, &read_dict(fda.get(d, i)?)?, false)?);
        }
        fdselect = read_fdselect(d, dict_get(&top, 0x0C25)?.get(0)?.int()? as usize, glyphs.len())?;
    } else {
        fds.push(read_fd(d, &top, false)?);
    }
    let cs = dict_get(&top, 15).and_then(|v| v.get(0)).and_then(|v| v.int()).unwrap_or(0);
    let charset = if cs > 2 { Some(read_charset(d, cs as usize, glyphs.len())?) } else { None };
    Some(CffFont {
        cff2: false,
        cid,
        glyphs,
        gsubrs,
        fds,
        fdselect,
        charset,
        charset_predefined: cs,
        vstore: None,
        top,
        name_index,
        string_index,
        top_index,
    })
}

fn read_vstore(d: &[u8], at: usize) -> Option<VStore> {
    let base = at + 2; // after the u16 length
    let rl = base + be(d, base + 2, 4)?;
    let n_ivd = be(d, base + 6, 2)?;
    let axis_count = be(d, rl, 2)?;
    let n_regions = be(d, rl + 2, 2)?;
    let mut regions = Vec::new();
    for r in 0..n_regions {
        let mut axes = Vec::new();
        for a in 0..axis_count {
            let p = rl + 4 + (r * axis_count + a) * 6;
            axes.push([be(d, p, 2)? as u16 as i16, be(d, p + 2, 2)? as u16 as i16, be(d, p + 4, 2)? as u16 as i16]);
        }
        regions.push(axes);
    }
    let mut ivds = Vec::new();
    for i in 0..n_ivd {
        let off = base + be(d, base + 8 + 4 * i, 4)?;
        let n = be(d, off + 4, 2)?;
        let mut idx = Vec::new();
        for k in 0..n {
            idx.push(be(d, off + 6 + 2 * k, 2)? as u16);
        }
        ivds.push(idx);
    }
    Some(VStore { axis_count, regions, ivds })
}

pub fn parse_cff2(d: &[u8]) -> Option<CffFont> {
    if *d.get(0)? != 2 {
        return None;
    }
    let hdr = *d.get(2)? as usize;
    let top_len = be(d, 3, 2)?;
    let top = read_dict(d.get(hdr..hdr + top_len)?)?;
    let gsubrs = read_index(d, hdr + top_len, true)?;
    let glyphs = read_index(d, dict_get(&top, 17)?.get(0)?.int()? as usize, true)?;
    let fda = read_index(d, dict_get(&top, 0x0C24)?.get(0)?.int()? as usize, true)?;
    let mut fds = Vec::new();
    for i in 0..fda.len() {
        fds.push(read_fd(d, &read_dict(fda.get(d, i)?)?, true)?);
    }
    let fdselect = match dict_get(&top, 0x0C25) {
        Some(v) => read_fdselect(d, v.get(0)?.int()? as usize, glyphs.len())?,
        None => Vec::new(),
    };
    let vstore = match dict_get(&top, 24) {
        Some(v) => Some(read_vstore(d, v.get(0)?.int()? as usize)?),
        None => None,
    };
    Some(CffFont {
        cff2: true,
        cid: false,
        glyphs,
        gsubrs,
        fds,
        fdselect,
        charset: None,
        charset_predefined: 0,
        vstore,
        top,
        ..Default::default()
    })
}

pub fn bias(count: usize) -> i64 {
    if count < 1240 {
        107
    } else if count < 33900 {
        1131
    } else {
        32768
    }
}

#[derive(Default, Debug)]
pub struct Closure {
    pub gsubrs: BTreeSet<usize>,
    pub lsubrs: BTreeSet<usize>,
    /// (base code, accent code) of a seac-style endchar
    pub seac: Option<(i64, i64)>,
    pub ops: usize,
    pub failed: bool,
}

struct Walk<'a> {
    d: &'a [u8],
    font: &'a CffFont,
    fd: usize,
    stack: Vec<i64>,
    stems: usize,
    done: bool,
    k_regions: usize,
    out: Closure,
}

impl<'a> Walk<'a> {
    fn run(&mut self, code: &[u8], depth: usize) {
        let mut p = 0;
        while p < code.len() && !self.done && !self.out.failed {
            let b0 = code[p];
            match b0 {
                28 => {
                    if p + 2 >= code.len() {
                        self.out.failed = true;
                        return;
                    }
                    self.stack.push(i16::from_be_bytes([code[p + 1], code[p + 2]]) as i64 * 65536);
                    p += 3;
                }
                255 => {
                    if p + 4 >= code.len() {
                        self.out.failed = true;
                        return;
                    }
                    self.stack.push(i32::from_be_bytes([code[p + 1], code[p + 2], code[p + 3], code[p + 4]]) as i64);
                    p += 5;
                }
                32..=246 => {
                    self.stack.push((b0 as i64 - 139) * 65536);
                    p += 1;
                }
                247..=254 => {
                    if p + 1 >= code.len() {
                        self.out.failed = true;
                        return;
                    }
                    let b1 = code[p + 1] as i64;
                    let v = if b0 <= 250 { (b0 as i64 - 247) * 256 + b1 + 108 } else { -(b0 as i64 - 251) * 256 - b1 - 108 };
                    self.stack.push(v * 65536);
                    p += 2;
                }
                _ => {
                    self.out.ops += 1;
                    p += 1;
                    match b0 {
                        1 | 3 | 18 | 23 => {
                            self.stems += self.stack.len() / 2;
                            self.stack.clear();
                        }
                        19 | 20 => {
                            self.stems += self.stack.len() / 2;
                            self.stack.clear();
                            p += (self.stems + 7) / 8;
                        }
                        10 | 29 => {
                            let global = b0 == 29;
                            let idx = match self.stack.pop() {
                                Some(v) if v % 65536 == 0 => v / 65536,
                                _ => {
                                    self.out.failed = true;
                                    return;
                                }
                            };
                            let table = if global { Some(&self.font.gsubrs) } else { self.font.fds[self.fd].lsubrs.as_ref() };
                            let table = match table {
                                Some(t) => t,
                                None => {
                                    self.out.failed = true;
                                    return;
                                }
                            };
                            let real = idx + bias(table.len());
                            if real < 0 || real as usize >= table.len() || depth >= 10 {
                                self.out.failed = true;
                                return;
                            }
                            if global {
                                self.out.gsubrs.insert(real as usize);
                            } else {
                                self.out.lsubrs.insert(real as usize);
                            }
                            let body = table.get(self.d, real as usize).unwrap().to_vec();
                            self.run(&body, depth + 1);
                        }
                        11 => return,
                        14 => {
                            if self.stack.len() >= 4 {
                                let n = self.stack.len();
                                self.out.seac = Some((self.stack[n - 2] / 65536, self.stack[n - 1] / 65536));
                            }
                            self.done = true;
                        }
                        15 => {
                            // vsindex: the number of regions of that ItemVariationData
                            if let (Some(v), Some(vs)) = (self.stack.pop(), self.font.vstore.as_ref()) {
                                self.k_regions = vs.ivds.get((v / 65536) as usize).map(|x| x.len()).unwrap_or(0);
                            }
                            self.stack.clear();
                        }
                        16 => {
                            let n = self.stack.pop().unwrap_or(0) / 65536;
                            let drop = (n as usize) * self.k_regions;
                            let keep = self.stack.len().saturating_sub(drop);
                            self.stack.truncate(keep);
                        }
                        12 => {
                            p += 1;
                            self.stack.clear();
                        }
                        _ => self.stack.clear(),
                    }
                }
            }
        }
    }
}

pub fn fd_of(font: &CffFont, gid: usize) -> usize {
    if font.fdselect.is_empty() {
        0
    } else {
        font.fdselect.get(gid).copied().unwrap_or(0) as usize
    }
}

/// Which subroutines does glyph `gid` reach?
pub fn closure(d: &[u8], font: &CffFont, gid: usize) -> Closure {
    let fd = fd_of(font, gid);
    let k_regions = font
        .vstore
        .as_ref()
        .and_then(|vs| vs.ivds.get(font.fds.get(fd).map(|f| f.vsindex).unwrap_or(0) as usize))
        .map(|x| x.len())
        .unwrap_or(0);
    let mut w = Walk { d, font, fd, stack: Vec::new(), stems: 0, done: false, k_regions, out: Closure::default() };
    if fd >= font.fds.len() {
        w.out.failed = true;
        return w.out;
    }
    match font.glyphs.get(d, gid) {
        Some(code) => {
            let code = code.to_vec();
            w.run(&code, 0)
        }
        None => w.out.failed = true,
    }
    w.out
}
