//! C11 - WOFF2 decoding reconstructs the original font.
//!
//!   c11_woff2 replay <cases.ndjson> <mismatches.ndjson>       spec -> impl
//!   c11_woff2 record <seed> <quick|thorough> <trace.ndjson>   impl -> spec
//!
//! The harness builds WOFF2 bytes with its OWN encoder (c11_woff2/enc.rs, written from the text of
//! the recommendation, brotli as stored meta-blocks), hands them to allsorts
//! (`ReadScope::read::<Woff2Font>`, `table_provider(i)`, `table_data(tag)`) and projects what comes
//! back through an independent glyf/loca/hmtx reader (c11_woff2/glyph.rs). It decides nothing:
//! replay compares the projection with the expectation computed by TLC by JSON equality, record
//! writes events that Trace_Woff2 judges.

#[path = "c11_woff2/brotli.rs"]
mod brotli;
#[path = "c11_woff2/enc.rs"]
mod enc;
#[path = "c11_woff2/glyph.rs"]
mod glyph;
#[path = "c11_woff2/obs.rs"]
mod obs;
#[path = "c11_woff2/synth.rs"]
mod synth;

use enc::{Choices, DirTable, SrcFont};
use glyph::{GlyphRec, Kind};
use rand::rngs::StdRng;
use rand::seq::SliceRandom;
use rand::{Rng, SeedableRng};
use serde_json::{json, Value};
use std::collections::{BTreeMap, BTreeSet};
use vh::fontgen::{self, tag_str, tag_u32};
use vh::util::{hex, read_ndjson, NdWriter};

fn bytes_of(v: &Value) -> Vec<u8> {
    v.as_array().map(|a| a.iter().map(|x| x.as_u64().unwrap() as u8).collect()).unwrap_or_default()
}

fn choices_of(ch: &Value) -> Choices {
    Choices {
        glyf: ch["glyf"].as_u64().unwrap() as u8,
        hmtx: ch["hmtx"].as_u64().unwrap() as u8,
        trip: ch["trip"].as_str().unwrap().to_string(),
        u16p: ch["u16"].as_str().unwrap().to_string(),
        bbox: ch["bbox"].as_str().unwrap().to_string(),
        order: ch["order"].as_str().unwrap().to_string(),
        tags: ch["tags"].as_str().unwrap().to_string(),
        overlap: ch["overlap"].as_u64().unwrap() == 1,
        chunk: ch["chunk"].as_u64().unwrap() as usize,
        meta: ch["meta"].as_u64().unwrap_or(0) as u8,
        fgt: bytes_of(&ch["fgt"]),
        fhf: bytes_of(&ch["fhf"]),
    }
}

// ---- spec -> impl ---------------------------------------------------------------------------------

/// A transformed-glyf font whose glyph k is one contour of one point given by triplet vector k.
fn trip_font(vecs: &[(u8, Vec<u8>)]) -> Vec<u8> {
    let n = vecs.len();
    let per: Vec<enc::GlyphStreams> = vecs
        .iter()
        .map(|(fl, b)| {
            let mut gl = b.clone();
            gl.push(0); // instructionLength
            enc::GlyphStreams { nc: vec![0, 1], np: vec![1], fl: vec![*fl], gl, ..Default::default() }
        })
        .collect();
    let xglyf = enc::glyf_table_bytes(&per, 1, None);
    let lsbs = vec![0i16; n - 1];
    let mk = |tag: &str, ver: u8, orig_len: u32, tlen: Option<u32>, data: Vec<u8>| DirTable { tag: tag_u32(tag), explicit: false, ver, orig_len, tlen, data };
    let plain = |tag: &str, d: Vec<u8>| DirTable { tag: tag_u32(tag), explicit: false, ver: 0, orig_len: d.len() as u32, tlen: None, data: d };
    let tables = vec![
        plain("head", fontgen::head(1000, true, (0, 0, 0, 0))),
        plain("hhea", fontgen::hhea(1, 800, -200, 500)),
        plain("maxp", fontgen::maxp_tt(n as u16)),
        plain("hmtx", fontgen::hmtx(&[(500, 0)], &lsbs)),
        mk("glyf", 0, (16 * n) as u32, Some(xglyf.len() as u32), xglyf),
        mk("loca", 0, (4 * (n + 1)) as u32, Some(0), vec![]),
    ];
    enc::assemble_single(&tables, 0x00010000, 65536)
}

fn trip_observe(vecs: &[(u8, Vec<u8>)]) -> Result<Vec<Value>, String> {
    let bytes = trip_font(vecs);
    let want = [tag_u32("glyf"), tag_u32("loca"), tag_u32("head"), tag_u32("maxp")];
    let tables = obs::decode_tables(&bytes, 0, &want)?;
    let v = obs::view(&tables)?;
    if v.n != vecs.len() || !v.loca_ok {
        return Err(format!("glyph count {} / loca consistent {}", v.n, v.loca_ok));
    }
    Ok(v.glyphs
        .iter()
        .map(|g| match g {
            Ok(g) if g.kind == Kind::Simple && g.pts.len() == 1 && g.ends == vec![0] && g.instr.is_empty() && g.bbox == [g.pts[0].0, g.pts[0].1, g.pts[0].0, g.pts[0].1] => {
                json!({"x": g.pts[0].0, "y": g.pts[0].1, "on": g.pts[0].2 as u8})
            }
            Ok(g) => json!({"unexpected": g.to_json()}),
            Err(e) => json!({"unreadable": e}),
        })
        .collect())
}

struct Stats {
    cases: BTreeMap<String, u64>,
    vectors: BTreeMap<String, u64>,
    trip_entries: BTreeSet<u8>,
    u255_first: BTreeSet<u8>,
    choice_counts: BTreeMap<String, u64>,
    glyph_kinds: BTreeMap<String, u64>,
    encoder_disagreements: Vec<Value>,
    /// size-boundary families: how many generated fonts / glyphs / directories sat on each edge
    boundaries: BTreeMap<String, u64>,
    /// glyph counts of the fonts decoded through the glyf transform
    glyph_counts: BTreeSet<usize>,
    lemma_cases: u64,
    /// composite glyphs that went through the glyf transform: where each per-component property sat
    composites: BTreeMap<String, u64>,
    /// container-level features of the encoded files (collections of unlike members, overlap bitmap, metadata
    /// blocks, spelled-out tags of transformed tables, values at the ends of their fields, every known tag)
    features: BTreeMap<String, u64>,
}

/// Position bookkeeping of the composite glyphs of one generated font (measured on the generator's output, i.e.
/// on the INPUT of the encoder - never on what allsorts returned): which components carry WE_HAVE_INSTRUCTIONS,
/// argument mode / transform kind / remaining flag bits per position, what follows the composite.
fn note_composites(m: &mut BTreeMap<String, u64>, glyphs: &[GlyphRec]) {
    for (gi, g) in glyphs.iter().enumerate() {
        if g.kind != Kind::Composite {
            continue;
        }
        let k = g.comps.len();
        let at: Vec<String> = (0..k).filter(|&j| g.comps[j].flags & 0x0100 != 0).map(|j| (j + 1).to_string()).collect();
        bump(m, &format!("k={}.instr_at={}", k, if at.is_empty() { "none".to_string() } else { at.join("+") }), 1);
        if !at.is_empty() && g.comps[k - 1].flags & 0x0100 == 0 {
            bump(m, "instr_flag_not_on_last", 1);
        }
        if !at.is_empty() && g.instr.is_empty() {
            bump(m, "hinted_with_zero_instructions", 1);
        }
        if (0..k).all(|j| (g.comps[j].flags & 0x0020 != 0) == (j + 1 < k)) {
            bump(m, &format!("k={}.more_components_consistent", k), 1);
        }
        for (j, c) in g.comps.iter().enumerate() {
            let pos = format!("pos{}of{}", j + 1, k);
            bump(m, &format!("{}.args={}_{}", pos, if c.flags & 1 != 0 { "words" } else { "bytes" }, if c.flags & 2 != 0 { "xy" } else { "pt" }), 1);
            bump(m, &format!("{}.tr={}", pos, match glyph::comp_tr_count(c.flags) { 0 => "none", 1 => "scale", 2 => "xy", _ => "2x2" }), 1);
            for b in [2u16, 9, 10, 11, 12] {
                if c.flags & (1 << b) != 0 {
                    bump(m, &format!("{}.bit{}", pos, b), 1);
                }
            }
        }
        match glyphs.get(gi + 1) {
            Some(n) if n.kind == Kind::Simple && !n.instr.is_empty() => bump(m, "followed_by_simple_with_instructions", 1),
            Some(n) if n.kind == Kind::Composite => bump(m, "followed_by_composite", 1),
            _ => {}
        }
    }
}

/// The 255UInt16 code boundaries (last one-byte value, first 255-coded, ..., first word-only).
const U16_BOUNDS: [usize; 8] = [252, 253, 505, 506, 508, 509, 761, 762];

/// Boundary bookkeeping of one encoded font (measured on the bytes the encoder produced).
fn note_boundaries(b: &mut BTreeMap<String, u64>, counts: &mut BTreeSet<usize>, info: &enc::FontInfo) {
    if !info.glyf_transformed {
        return;
    }
    let n = info.n;
    counts.insert(n);
    let words = (n + 31) / 32;
    let cls = match n % 32 {
        0 => "32k",
        1 => "32k+1",
        31 => "32k-1",
        _ => "",
    };
    if !cls.is_empty() && n >= 31 {
        let explicit: Vec<usize> = (0..n).filter(|&g| info.per[g].bit).collect();
        bump(b, &format!("bitmap.n={}", cls), 1);
        if explicit.is_empty() {
            bump(b, &format!("bitmap.n={}.no_explicit_bbox", cls), 1);
        }
        if explicit.iter().any(|&g| g / 32 == 0) {
            bump(b, &format!("bitmap.n={}.explicit_in_first_word", cls), 1);
        }
        if explicit.iter().any(|&g| g / 32 == words - 1) {
            bump(b, &format!("bitmap.n={}.explicit_in_last_word", cls), 1);
        }
        if explicit.iter().any(|&g| g % 32 == 31) || explicit.iter().any(|&g| g % 32 == 0 && g > 0) {
            bump(b, &format!("bitmap.n={}.explicit_at_word_edge", cls), 1);
        }
        if explicit.iter().any(|&g| info.recs[g].kind == Kind::Composite) {
            bump(b, &format!("bitmap.n={}.explicit_composite", cls), 1);
        }
        if explicit.iter().any(|&g| info.recs[g].kind == Kind::Simple && info.recs[g].bbox != info.recs[g].computed_bbox()) {
            bump(b, &format!("bitmap.n={}.explicit_simple_not_tight", cls), 1);
        }
    }
    if info.hmtx_flags != 0 && n >= 31 {
        let k = if info.nhm == n { "nhm=n".to_string() } else if info.nhm == 1 { "nhm=1".to_string() } else if info.nhm + 1 == n { "nhm=n-1".to_string() } else { format!("nhm={}", info.nhm) };
        bump(b, &format!("hmtx.n>=31.{}", k), 1);
    }
    // Size of the glyf table a decoder that writes glyphs the plain way produces (what allsorts does: simple
    // glyph = 12 + 2 * contours + instructions + 5 * points, composite = as stored, each padded to even).
    // Derived from the INPUT only, so that the counters say what the generator reached even when decoding fails.
    let plain: usize = info
        .recs
        .iter()
        .map(|g| {
            let l = match g.kind {
                Kind::Empty => 0,
                Kind::Simple => 12 + 2 * g.ends.len() + g.instr.len() + 5 * g.pts.len(),
                Kind::Composite => 10 + g.comps.iter().map(|c| glyph::comp_bytes(c).len()).sum::<usize>() + if g.has_instr_flag() { 2 + g.instr.len() } else { 0 },
            };
            (l + 1) & !1
        })
        .sum();
    if plain > 131000 {
        bump(b, &format!("loca.plain_glyf{}131070", if plain < 131070 { "<" } else if plain == 131070 { "=" } else { ">" }), 1);
        bump(b, &format!("loca.plain_glyf_over_131000.source_{}", if info.src_loca_long { "long" } else { "short" }), 1);
        if plain > 131070 && !info.src_loca_long {
            bump(b, "loca.plain_glyf>131070.source_short", 1);
        }
    }
    for g in &info.recs {
        let mut prev: i64 = -1;
        for &e in &g.ends {
            let cnt = (e as i64 - prev) as usize;
            prev = e as i64;
            if U16_BOUNDS.contains(&cnt) {
                bump(b, &format!("u16.contour_points={}", cnt), 1);
            }
        }
        if U16_BOUNDS.contains(&g.instr.len()) {
            bump(b, &format!("u16.{}_instructions={}", if g.kind == Kind::Composite { "composite" } else { "simple" }, g.instr.len()), 1);
        }
        if g.instr.len() > 65000 {
            bump(b, "u16.instructions>65000", 1);
        }
        for lim in [127usize, 128, 255, 256] {
            if g.ends.len() == lim {
                bump(b, &format!("contours={}", lim), 1);
            }
        }
        if g.ends.len() > 256 {
            bump(b, "contours>256", 1);
        }
    }
}

/// Container-level bookkeeping of one encoded file (measured on the encoder's input and output only).
fn note_features(m: &mut BTreeMap<String, u64>, e: &enc::Encoded, ch: &Choices) {
    let f = &e.fonts;
    let glyf_t = tag_u32("glyf");
    if f.len() > 1 {
        if f.iter().any(|x| x.n != f[0].n) {
            bump(m, "coll.members_differ_in_numGlyphs", 1);
            if f.iter().any(|x| (x.n + 31) / 32 != (f[0].n + 31) / 32) {
                bump(m, "coll.members_differ_in_bitmap_words", 1);
            }
        }
        if f.iter().any(|x| x.nhm != f[0].nhm) {
            bump(m, "coll.members_differ_in_numberOfHMetrics", 1);
        }
        if f.iter().any(|x| x.src_loca_long != f[0].src_loca_long) {
            bump(m, "coll.members_differ_in_loca_format", 1);
        }
        if f.iter().any(|x| x.glyf_transformed != f[0].glyf_transformed) {
            bump(m, if f[0].glyf_transformed { "coll.mixed_transform.first_transformed" } else { "coll.mixed_transform.first_null" }, 1);
        }
        if f.iter().any(|x| x.hmtx_flags != f[0].hmtx_flags) {
            bump(m, "coll.members_differ_in_hmtx_transform", 1);
        }
        if f.len() >= 3 {
            bump(m, "coll.three_members", 1);
        }
        // which directory entry is each member's glyf: shared, and is member 0's glyf the first glyf entry?
        let glyf_of: Vec<Option<u16>> = e.font_idx.iter().map(|idx| idx.iter().copied().find(|&i| e.entries[i as usize].0 == glyf_t)).collect();
        let first_glyf = e.entries.iter().position(|x| x.0 == glyf_t).map(|x| x as u16);
        if glyf_of.len() >= 2 && glyf_of[0].is_some() && glyf_of.iter().skip(1).any(|g| *g == glyf_of[0]) {
            bump(m, "coll.glyf_shared", 1);
        }
        if glyf_of.len() >= 3 && glyf_of[0].is_some() && glyf_of[2] == glyf_of[0] && glyf_of[1] != glyf_of[0] {
            bump(m, "coll.glyf_shared_by_first_and_third_only", 1);
        }
        if glyf_of[0].is_some() && glyf_of[0] != first_glyf {
            bump(m, "coll.first_member_glyf_not_first_in_directory", 1);
        }
    }
    for x in f.iter().filter(|x| x.glyf_transformed) {
        if ch.overlap {
            bump(m, "overlap.bitmap_present", 1);
            if x.overlap_bits.iter().any(|&b| b) {
                bump(m, "overlap.bits_set", 1);
            }
            if (x.n + 7) / 8 != 4 * ((x.n + 31) / 32) {
                bump(m, "overlap.length_differs_from_bbox_bitmap", 1);
            }
        }
        if ch.tags == "explicitall" {
            bump(m, "tags.transformed_glyf_spelled_out", 1);
            if x.hmtx_flags != 0 {
                bump(m, "tags.transformed_hmtx_spelled_out", 1);
            }
        }
        for g in &x.recs {
            let (mut px, mut py) = (0i32, 0i32);
            for p in &g.pts {
                for (v, d) in [(p.0 as i32, p.0 as i32 - px), (p.1 as i32, p.1 as i32 - py)] {
                    if v == 32767 {
                        bump(m, "ext.coordinate=32767", 1);
                    }
                    if v == -32768 {
                        bump(m, "ext.coordinate=-32768", 1);
                    }
                    if d == 32767 {
                        bump(m, "ext.delta=32767", 1);
                    }
                    if d == -32768 {
                        bump(m, "ext.delta=-32768", 1);
                    }
                }
                px = p.0 as i32;
                py = p.1 as i32;
            }
            for c in &g.comps {
                if c.gid == 65535 {
                    bump(m, "ext.component_gid=65535", 1);
                }
                for a in [c.a1, c.a2] {
                    if [-32768, 32767, 65535, -128, 127, 255].contains(&a) {
                        bump(m, &format!("ext.component_arg={}", a), 1);
                    }
                }
                if c.tr.contains(&-32768) && c.tr.contains(&32767) {
                    bump(m, "ext.component_scale=both_ends", 1);
                }
            }
        }
        if x.hmtx_flags != 0 && x.lsb.contains(&-32768) {
            bump(m, "ext.elided_lsb=-32768", 1);
        }
        if x.adv.contains(&65535) {
            bump(m, "ext.advance=65535", 1);
        }
    }
    if ch.meta >= 1 {
        bump(m, &format!("meta.blocks={}", ch.meta), 1);
    }
}

fn bump(m: &mut BTreeMap<String, u64>, k: &str, by: u64) {
    *m.entry(k.to_string()).or_insert(0) += by;
}

fn replay(cases: &str, out: &str) {
    let mut w = NdWriter::create(out);
    let mut st = Stats {
        cases: BTreeMap::new(),
        vectors: BTreeMap::new(),
        trip_entries: BTreeSet::new(),
        u255_first: BTreeSet::new(),
        choice_counts: BTreeMap::new(),
        glyph_kinds: BTreeMap::new(),
        encoder_disagreements: vec![],
        boundaries: BTreeMap::new(),
        glyph_counts: BTreeSet::new(),
        lemma_cases: 0,
        composites: BTreeMap::new(),
        features: BTreeMap::new(),
    };
    let mut mism = 0u64;
    for c in read_ndjson(cases) {
        let kind = c["kind"].as_str().unwrap().to_string();
        bump(&mut st.cases, &kind, 1);
        match kind.as_str() {
            // a design lemma that has no concrete counterpart (checked by TLC alone)
            "lemma" => st.lemma_cases += 1,
            "b128" | "u255" => {
                for v in c["vec"].as_array().unwrap() {
                    let b = bytes_of(&v["b"]);
                    let got = if kind == "b128" { obs::read_b128(&b) } else { obs::read_255(&b) };
                    bump(&mut st.vectors, &kind, 1);
                    if kind == "u255" && !b.is_empty() {
                        st.u255_first.insert(b[0]);
                    }
                    if got != v["exp"] {
                        mism += 1;
                        w.write(&json!({"kind": kind, "id": c["id"], "sub": {"b": b}, "want": v["exp"], "got": got,
                            "case": {"kind": kind, "id": c["id"], "vec": [v]}}));
                    }
                }
            }
            "trip" => {
                let vecs: Vec<(u8, Vec<u8>)> = c["vec"].as_array().unwrap().iter().map(|v| (v["fl"].as_u64().unwrap() as u8, bytes_of(&v["b"]))).collect();
                let exp: Vec<Value> = c["vec"].as_array().unwrap().iter().map(|v| json!({"x": v["x"], "y": v["y"], "on": v["on"]})).collect();
                bump(&mut st.vectors, "trip", vecs.len() as u64);
                for v in &vecs {
                    st.trip_entries.insert(v.0 & 0x7F);
                }
                let got: Vec<Value> = match trip_observe(&vecs) {
                    Ok(g) => g,
                    // the whole font failed: localise by decoding every vector on its own
                    Err(_) => vecs
                        .iter()
                        .map(|v| match trip_observe(std::slice::from_ref(v)) {
                            Ok(mut g) => g.remove(0),
                            Err(e) => json!({"err": e}),
                        })
                        .collect(),
                };
                for k in 0..vecs.len() {
                    if got[k] != exp[k] {
                        mism += 1;
                        w.write(&json!({"kind": "trip", "id": c["id"], "sub": {"fl": vecs[k].0, "b": vecs[k].1, "entry": vecs[k].0 & 0x7F}, "want": exp[k], "got": got[k],
                            "case": {"kind": "trip", "id": c["id"], "vec": [c["vec"][k]]}}));
                    }
                }
            }
            "font" => {
                let ch = &c["ch"];
                let choices = choices_of(ch);
                let coll = ch["coll"].as_str().unwrap();
                let afonts: Vec<synth::AbstractFont> = c["fonts"].as_array().unwrap().iter().map(synth::AbstractFont::from_json).collect();
                let style = if choices.u16p == "word" { 1 } else { 0 };
                let zlen = ch["zlen"].as_u64().unwrap_or(13) as usize;
                let src_long = ch["loca"].as_u64().unwrap() == 1;
                // per member: head.indexToLocFormat (`floca`), a name / feat / Feat salt for members that are fonts of their own
                let floca = bytes_of(&ch["floca"]);
                let own = matches!(coll, "other" | "sub" | "tri" | "mixt");
                let srcs: Vec<SrcFont> = afonts
                    .iter()
                    .enumerate()
                    .map(|(k, f)| synth::build_ov(f, floca.get(k).map(|&x| x == 1).unwrap_or(src_long), style, if own { k as u8 } else { 0 }, zlen, choices.overlap))
                    .collect();
                bump(&mut st.boundaries, &format!("dir.table_length={}", zlen), 1);
                let mut rng = StdRng::seed_from_u64(0);
                let e = enc::encode_woff2(&srcs, &choices, &mut rng);
                for (k, v) in [("glyf", ch["glyf"].to_string()), ("hmtx", ch["hmtx"].to_string()), ("trip", choices.trip.clone()), ("u16", choices.u16p.clone()), ("bbox", choices.bbox.clone()),
                    ("order", choices.order.clone()), ("tags", choices.tags.clone()), ("coll", coll.to_string()), ("nhm<n", (afonts[0].nhm < afonts[0].glyphs.len()).to_string()),
                    ("meta", choices.meta.to_string()), ("overlap", (choices.overlap as u8).to_string())] {
                    bump(&mut st.choice_counts, &format!("{}={}", k, v), 1);
                }
                if choices.glyf == 0 {
                    note_composites(&mut st.composites, &afonts[0].glyphs);
                }
                for f in &afonts {
                    for g in &f.glyphs {
                        let k = match g.kind {
                            Kind::Empty => "empty".to_string(),
                            Kind::Simple => format!("simple{}{}", if g.instr.is_empty() { "" } else { "+instr" }, if g.bbox != g.computed_bbox() { "+bbox" } else { "" }),
                            Kind::Composite => format!("composite{}", if g.instr.is_empty() { "" } else { "+instr" }),
                        };
                        bump(&mut st.glyph_kinds, &k, 1);
                    }
                }
                // the harness encoder must agree with the specification's encoder, byte for byte
                for info in e.fonts.iter() {
                    note_boundaries(&mut st.boundaries, &mut st.glyph_counts, info);
                }
                note_features(&mut st.features, &e, &choices);
                for (k, info) in e.fonts.iter().enumerate() {
                    let xg = bytes_of(&c["xglyf"][k]);
                    let xh = bytes_of(&c["xhmtx"][k]);
                    let want_gt = choices.fgt.get(k).copied().unwrap_or(choices.glyf);
                    let want_hf = choices.fhf.get(k).copied().unwrap_or(choices.hmtx);
                    if info.xglyf != xg || info.xhmtx != xh || info.glyf_transformed != (want_gt == 0) || info.hmtx_flags != want_hf {
                        if st.encoder_disagreements.len() < 5 {
                            st.encoder_disagreements.push(json!({"id": c["id"], "font": k, "note": info.note, "spec_glyf": hex(&xg), "harness_glyf": hex(&info.xglyf),
                                "spec_hmtx": hex(&xh), "harness_hmtx": hex(&info.xhmtx)}));
                        }
                    }
                }
                let mut fonts_obs = Vec::new();
                let mut diff: Vec<String> = Vec::new();
                let mut err: Option<String> = None;
                for (k, info) in e.fonts.iter().enumerate() {
                    let want: Vec<u32> = info.expect.iter().map(|t| t.0).collect();
                    let tables = match obs::decode_tables(&e.bytes, k, &want) {
                        Ok(t) => t,
                        Err(x) => {
                            err = Some(x);
                            break;
                        }
                    };
                    for (tag, orig) in &info.expect {
                        let name = tag_str(*tag);
                        let rebuilt = (info.glyf_transformed && (name == "glyf" || name == "loca")) || (info.hmtx_flags != 0 && name == "hmtx");
                        match tables.get(tag) {
                            None => diff.push(format!("{}:-{}", k, name)),
                            Some(got) => {
                                let d = obs::diff_offsets(orig, got, 16);
                                let ok = if rebuilt {
                                    true
                                } else if name == "head" && info.glyf_transformed {
                                    obs::head_diff_allowed(&d)
                                } else {
                                    d.is_empty()
                                };
                                if !ok {
                                    diff.push(format!("{}:{}", k, name));
                                }
                            }
                        }
                    }
                    for t in tables.keys() {
                        if !want.contains(t) {
                            diff.push(format!("{}:+{}", k, tag_str(*t)));
                        }
                    }
                    match obs::view(&tables) {
                        Err(x) => {
                            err = Some(format!("view:{}", x));
                            break;
                        }
                        Ok(v) => {
                            if !v.loca_ok {
                                diff.push(format!("{}:loca-inconsistent", k));
                            }
                            if info.glyf_transformed {
                                // which side of the 16-bit loca limit the rebuilt glyf fell on (observation, for the counters only)
                                let glen = tables.get(&tag_u32("glyf")).map(|t| t.len()).unwrap_or(0);
                                let dec_long = tables.get(&tag_u32("head")).and_then(|h| fontgen::be16(h, 50)).unwrap_or(0) != 0;
                                let key = format!("loca.source_{}.rebuilt_{}", if src_long { "long" } else { "short" }, if dec_long { "long" } else { "short" });
                                bump(&mut st.boundaries, &key, 1);
                                if glen == 131070 {
                                    bump(&mut st.boundaries, "loca.rebuilt_glyf=131070", 1);
                                }
                                if glen > 131070 {
                                    bump(&mut st.boundaries, "loca.rebuilt_glyf>131070", 1);
                                }
                                if glen > 131000 && glen < 131070 {
                                    bump(&mut st.boundaries, "loca.rebuilt_glyf_just_below_131070", 1);
                                }
                            }
                            fonts_obs.push(json!({
                                "glyphs": v.glyphs.iter().map(|g| match g { Ok(g) => g.to_json(), Err(e) => json!({"kind": "unreadable", "err": e}) }).collect::<Vec<_>>(),
                                "nhm": v.nhm,
                                "adv": if v.hmtx_err.is_empty() { json!(v.adv) } else { json!(v.hmtx_err) },
                                "lsb": v.lsb,
                            }));
                        }
                    }
                }
                let got = match err {
                    Some(x) => json!({"ok": false, "err": x}),
                    None => json!({"ok": true, "fonts": fonts_obs, "diff": diff}),
                };
                // (`exp_fonts` is only present in the driver's binding self-check: a corrupted expectation)
                let exp = json!({"ok": true, "fonts": if c["exp_fonts"].is_null() { &c["fonts"] } else { &c["exp_fonts"] }, "diff": c["diff"]});
                if got != exp {
                    mism += 1;
                    w.write(&json!({"kind": "font", "id": c["id"], "sub": {"ch": ch}, "want": exp, "got": got, "woff2": hex(&e.bytes), "case": c}));
                }
            }
            "dir" => {
                let n = c["n"].as_u64().unwrap() as u16;
                let dir = bytes_of(&c["dir"]);
                let coll = bytes_of(&c["coll"]);
                let flavor = if coll.is_empty() { 0x00010000 } else { tag_u32("ttcf") };
                let file = enc::file_bytes(flavor, n, &dir, &coll, &brotli::stored(&[], 1), 12);
                let got = match obs::read_directory(&file) {
                    Ok(d) => json!({
                        "entries": d.entries.iter().map(|e| json!([obs::tag_bytes(e.0), e.1, e.2, e.3])).collect::<Vec<_>>(),
                        "fonts": d.fonts,
                    }),
                    Err(x) => json!({"err": x}),
                };
                bump(&mut st.vectors, "dir_entries", n as u64);
                if n == 63 {
                    // all 63 known tags in one directory: by index (one flag byte each) or spelled out
                    let spelled = dir.len() > 63 * 5;
                    bump(&mut st.features, if spelled { "dir.all_known_tags_spelled_out" } else { "dir.all_known_tags_by_index" }, 1);
                }
                if let Some(fs) = c["exp"]["fonts"].as_array() {
                    if U16_BOUNDS.contains(&fs.len()) {
                        bump(&mut st.boundaries, &format!("u16.collection_fonts={}", fs.len()), 1);
                    }
                    for f in fs {
                        let l = f.as_array().map(|a| a.len()).unwrap_or(0);
                        if U16_BOUNDS.contains(&l) {
                            bump(&mut st.boundaries, &format!("u16.collection_font_tables={}", l), 1);
                        }
                    }
                }
                if got != c["exp"] {
                    mism += 1;
                    w.write(&json!({"kind": "dir", "id": c["id"], "sub": {"dir": dir, "coll": coll}, "want": c["exp"], "got": got, "case": c}));
                }
            }
            _ => panic!("unknown case kind {}", kind),
        }
    }
    w.finish();
    println!(
        "{}",
        json!({"cases": st.cases, "vectors": st.vectors, "mismatches": mism, "triplet_entries_exercised": st.trip_entries.len(),
            "u255_first_bytes_exercised": st.u255_first.len(), "choices": st.choice_counts, "glyph_kinds": st.glyph_kinds,
            "encoder_disagreements": st.encoder_disagreements, "boundaries": st.boundaries, "lemma_cases": st.lemma_cases, "composites": st.composites, "features": st.features,
            "glyph_counts_transformed": st.glyph_counts.iter().collect::<Vec<_>>()})
    );
}

// ---- impl -> spec ---------------------------------------------------------------------------------

fn load_sfnt(path: &str) -> Option<SrcFont> {
    let d = std::fs::read(path).ok()?;
    let dir = fontgen::read_sfnt_dir(&d, 0)?;
    if ![0x00010000u32, tag_u32("true"), tag_u32("OTTO")].contains(&dir.version) || dir.num_tables == 0 {
        return None;
    }
    let mut recs = dir.records.clone();
    recs.sort_by_key(|r| r.2); // physical order = the order a re-encoder sees
    let mut tables = Vec::new();
    for r in recs {
        let b = d.get(r.2 as usize..(r.2 as usize).checked_add(r.3 as usize)?)?;
        tables.push((r.0, b.to_vec()));
    }
    Some(SrcFont { flavor: dir.version, tables })
}

fn random_choices(rng: &mut StdRng, variant: usize) -> Choices {
    let pick = |rng: &mut StdRng, xs: &[&str]| xs[rng.gen_range(0..xs.len())].to_string();
    Choices {
        glyf: if variant % 4 == 3 { 3 } else { 0 },
        hmtx: if variant % 4 == 3 { 0 } else { [3u8, 1, 2, 3, 0][rng.gen_range(0..5)] },
        trip: pick(rng, &["ref", "min", "max", "alt", "rand"]),
        u16p: pick(rng, &["short", "word", "alt", "rand"]),
        bbox: pick(rng, &["needed", "all", "rand"]),
        order: pick(rng, &["asis", "bytag", "reverse"]),
        tags: pick(rng, &["known", "explicit", "explicitall"]),
        overlap: rng.gen_bool(0.25),
        meta: [0u8, 0, 1, 2][rng.gen_range(0..4)],
        fgt: vec![],
        fhf: vec![],
        chunk: [65536usize, 1 << 24, 4096, 1 << 20, 50000][rng.gen_range(0..5)] + if rng.gen_bool(0.3) { rng.gen_range(0..1000) } else { 0 },
    }
}

struct Rec {
    w: NdWriter,
    i: u64,
    counts: BTreeMap<String, u64>,
}

impl Rec {
    fn ev(&mut self, case: &str, ev: &str, a: Value, o: Value) {
        self.w.write(&json!({"i": self.i, "case": case, "ev": ev, "a": a, "o": o}));
        self.i += 1;
        bump(&mut self.counts, ev, 1);
    }
}

fn rec_json(g: &Result<GlyphRec, String>) -> Value {
    match g {
        Ok(g) => g.to_json(),
        Err(_) => json!({"kind": "unreadable", "ends": [], "pts": [], "instr": [], "bbox": [0, 0, 0, 0], "comps": []}),
    }
}

fn sample_glyphs(recs: &[GlyphRec], cap: usize, rng: &mut StdRng) -> Vec<usize> {
    let mut chosen: BTreeSet<usize> = BTreeSet::new();
    let classes: Vec<Box<dyn Fn(&GlyphRec) -> bool>> = vec![
        Box::new(|g| g.kind == Kind::Composite && !g.instr.is_empty()),
        Box::new(|g| g.kind == Kind::Composite),
        Box::new(|g| g.kind == Kind::Simple && g.bbox != g.computed_bbox()),
        Box::new(|g| g.kind == Kind::Simple && !g.instr.is_empty()),
        Box::new(|g| g.kind == Kind::Empty),
        Box::new(|g| g.kind == Kind::Simple && g.ends.len() > 3),
    ];
    for (k, cl) in classes.iter().enumerate() {
        let mut c: Vec<usize> = (0..recs.len()).filter(|&g| cl(&recs[g])).collect();
        c.shuffle(rng);
        for g in c.into_iter().take(if k == 4 { 2 } else { cap / 8 + 1 }) {
            chosen.insert(g);
        }
    }
    let mut all: Vec<usize> = (0..recs.len()).collect();
    all.shuffle(rng);
    for g in all {
        if chosen.len() >= cap {
            break;
        }
        chosen.insert(g);
    }
    chosen.into_iter().collect()
}

/// Encode `srcs` with `ch`, decode with allsorts, write the events of this case.
fn record_case(r: &mut Rec, case: &str, srcs: &[SrcFont], ch: &Choices, rng: &mut StdRng, glyph_cap: usize, tally: &mut BTreeMap<String, u64>) {
    let e = enc::encode_woff2(srcs, ch, rng);
    // table directory and collection directory as allsorts parsed them
    let mut dirbytes = e.dir.clone();
    dirbytes.extend_from_slice(&e.coll);
    match obs::read_directory(&e.bytes) {
        Ok(d) => r.ev(
            case,
            "Dir",
            json!({"n": e.num_tables, "ttcf": e.is_collection as u8, "bytes": dirbytes,
                   "want": {"entries": e.entries.iter().map(|x| json!([obs::tag_bytes(x.0), x.1, x.2, x.3])).collect::<Vec<_>>(), "fonts": if e.is_collection { json!(e.font_idx) } else { json!([]) }}}),
            json!({"ok": true, "entries": d.entries.iter().map(|x| json!([obs::tag_bytes(x.0), x.1, x.2, x.3])).collect::<Vec<_>>(), "fonts": d.fonts}),
        ),
        Err(x) => r.ev(case, "Dir", json!({"n": e.num_tables, "ttcf": e.is_collection as u8, "bytes": dirbytes, "want": {"entries": [], "fonts": []}}), json!({"ok": false, "entries": [], "fonts": [], "err": x})),
    }
    for (k, info) in e.fonts.iter().enumerate() {
        bump(tally, if info.glyf_transformed { "fonts_glyf_transformed" } else if !info.recs.is_empty() { "fonts_glyf_null_transform" } else { "fonts_without_glyf" }, 1);
        bump(tally, &format!("fonts_hmtx_flags_{}", info.hmtx_flags), 1);
        if info.glyf_transformed && info.n >= 31 && [0usize, 1, 31].contains(&(info.n % 32)) {
            bump(tally, &format!("fonts_glyf_transformed_glyph_count_mod32_{}", info.n % 32), 1);
            if info.per.iter().any(|s| s.bit) {
                bump(tally, &format!("fonts_glyf_transformed_glyph_count_mod32_{}_with_explicit_bbox", info.n % 32), 1);
            }
        }
        if info.glyf_transformed && info.n > 65000 {
            bump(tally, "fonts_glyf_transformed_more_than_65000_glyphs", 1);
        }
        if info.hmtx_flags & 2 != 0 && info.nhm < info.n {
            bump(tally, "fonts_elided_tail_lsb_with_nhm_lt_n", 1);
        }
        if !info.note.is_empty() {
            bump(tally, &format!("note:{}", info.note.split(':').next().unwrap_or("")), 1);
        }
        let want: Vec<u32> = info.expect.iter().map(|t| t.0).collect();
        // `huge`: the glyph count is one for which numGlyphs + 31 does not fit 16 bits (part of the judge's key)
        let a = json!({"font": k, "ch": ch.to_json(), "glyf_transformed": info.glyf_transformed as u8, "hmtx_flags": info.hmtx_flags, "bytes": e.bytes.len(),
            "huge": (info.glyf_transformed && info.n > 65504) as u8});
        let tables = match obs::decode_tables(&e.bytes, k, &want) {
            Ok(t) => {
                r.ev(case, "Decode", a, json!({"ok": true, "err": ""}));
                t
            }
            Err(x) => {
                r.ev(case, "Decode", a, json!({"ok": false, "err": x}));
                bump(tally, "decode_failures", 1);
                continue;
            }
        };
        for (tag, orig) in &info.expect {
            let name = tag_str(*tag);
            let rebuilt = (info.glyf_transformed && (name == "glyf" || name == "loca")) || (info.hmtx_flags != 0 && name == "hmtx");
            let mode = if rebuilt { "rebuilt" } else if name == "head" && info.glyf_transformed { "head" } else { "plain" };
            let o = match tables.get(tag) {
                None => json!({"present": false, "same": false, "diff": [], "len": 0}),
                Some(got) => {
                    let d = obs::diff_offsets(orig, got, 16);
                    json!({"present": true, "same": d.is_empty(), "diff": d, "len": got.len()})
                }
            };
            r.ev(case, "Table", json!({"font": k, "tag": name, "mode": mode, "len": orig.len()}), o);
        }
        let extra: Vec<String> = tables.keys().filter(|t| !want.contains(t)).map(|t| tag_str(*t)).collect();
        if !extra.is_empty() {
            r.ev(case, "Table", json!({"font": k, "tag": extra.join(","), "mode": "absent", "len": 0}), json!({"present": true, "same": false, "diff": [], "len": 0}));
        }
        if info.recs.is_empty() {
            continue;
        }
        // glyph level, through the independent reader
        let v = match obs::view(&tables) {
            Ok(v) => v,
            Err(x) => {
                r.ev(case, "GlyfSum", json!({"font": k, "n": info.n}), json!({"n": -1, "loca_ok": false, "diff": [], "unreadable": [], "err": x}));
                continue;
            }
        };
        let mut diffg = Vec::new();
        let mut unread = Vec::new();
        for g in 0..info.n.min(v.glyphs.len()) {
            match &v.glyphs[g] {
                Ok(x) => {
                    if !x.same_as(&info.recs[g]) && diffg.len() < 10 {
                        diffg.push(g);
                    }
                }
                Err(_) => {
                    if unread.len() < 10 {
                        unread.push(g)
                    }
                }
            }
        }
        r.ev(case, "GlyfSum", json!({"font": k, "n": info.n}), json!({"n": v.n, "loca_ok": v.loca_ok, "diff": diffg, "unreadable": unread, "err": ""}));
        bump(tally, "glyphs_compared_by_reader", info.n as u64);
        if info.glyf_transformed && v.glyphs.len() == info.n {
            let mut picks = sample_glyphs(&info.recs, glyph_cap, rng);
            for g in diffg.iter().chain(unread.iter()) {
                if !picks.contains(g) {
                    picks.push(*g);
                }
            }
            for g in picks {
                let s = &info.per[g];
                bump(tally, &format!("glyph_events_{}", match info.recs[g].kind { Kind::Empty => "empty", Kind::Simple => "simple", Kind::Composite => "composite" }), 1);
                r.ev(
                    case,
                    "Glyph",
                    json!({"font": k, "g": g, "nc": s.nc, "np": s.np, "fl": s.fl, "gl": s.gl, "co": s.co, "bit": s.bit as u8, "bb": s.bb, "ins": s.ins, "orig": info.recs[g].to_json()}),
                    json!({"rec": rec_json(&v.glyphs[g])}),
                );
            }
        }
        if info.hmtx_flags != 0 {
            let xmin: Vec<i16> = info.recs.iter().map(|g| g.x_min()).collect();
            r.ev(
                case,
                "Hmtx",
                json!({"font": k, "n": info.n, "nhm": info.nhm, "xf": info.xhmtx, "xmin": xmin, "orig_adv": info.adv, "orig_lsb": info.lsb}),
                if v.hmtx_err.is_empty() { json!({"ok": true, "nhm": v.nhm, "adv": v.adv, "lsb": v.lsb, "len": v.hmtx_len}) } else { json!({"ok": false, "nhm": v.nhm, "adv": [], "lsb": [], "len": v.hmtx_len}) },
            );
        }
    }
}

/// The repository's own WOFF2 files: judged through the transformed tables in the decompressed
/// block (allsorts' brotli output is taken as given) and against the source font where there is one.
fn record_fixture(r: &mut Rec, path: &str, tally: &mut BTreeMap<String, u64>) {
    let name = path.rsplit('/').next().unwrap().to_string();
    let case = format!("fixture:{}", name);
    let bytes = match std::fs::read(path) {
        Ok(b) if b.len() >= 48 => b,
        _ => return,
    };
    let n = u16::from_be_bytes([bytes[12], bytes[13]]) as usize;
    let ttcf = bytes[4..8] == *b"ttcf";
    let d = match obs::read_directory(&bytes) {
        Ok(d) => d,
        Err(x) => {
            r.ev(&case, "Decode", json!({"font": 0, "fixture": name, "huge": 0}), json!({"ok": false, "err": x}));
            return;
        }
    };
    let cap = bytes.len().min(48 + 40 * n + 600);
    r.ev(
        &case,
        "Dir",
        json!({"n": n, "ttcf": ttcf as u8, "bytes": bytes[48..cap].to_vec(), "want": {"entries": [], "fonts": []}}),
        json!({"ok": true, "entries": d.entries.iter().map(|x| json!([obs::tag_bytes(x.0), x.1, x.2, x.3])).collect::<Vec<_>>(), "fonts": d.fonts}),
    );
    let nfonts = if ttcf { d.fonts.len() } else { 1 };
    let original: Option<SrcFont> = match name.as_str() {
        "SFNT-TTF-Composite.woff2" => load_sfnt(&format!("{}/tests/fonts/opentype/SFNT-TTF-Composite.ttf", vh::util::repo_root())),
        "test-font.woff2" => load_sfnt(&format!("{}/tests/fonts/opentype/test-font.ttf", vh::util::repo_root())),
        _ => None,
    };
    for k in 0..nfonts {
        let tables = match obs::decode_tables(&bytes, k, &[]) {
            Ok(t) => {
                r.ev(&case, "Decode", json!({"font": k, "fixture": name, "huge": 0}), json!({"ok": true, "err": ""}));
                t
            }
            Err(x) => {
                r.ev(&case, "Decode", json!({"font": k, "fixture": name, "huge": 0}), json!({"ok": false, "err": x}));
                bump(tally, "decode_failures", 1);
                continue;
            }
        };
        bump(tally, "fixture_fonts_decoded", 1);
        if !tables.contains_key(&tag_u32("glyf")) {
            continue;
        }
        let v = match obs::view(&tables) {
            Ok(v) => v,
            Err(x) => {
                r.ev(&case, "GlyfSum", json!({"font": k, "n": -1}), json!({"n": -1, "loca_ok": false, "diff": [], "unreadable": [], "err": x}));
                continue;
            }
        };
        let idx: Vec<usize> = if ttcf { d.fonts[k].iter().map(|&x| x as usize).collect() } else { (0..d.entries.len()).collect() };
        let find = |t: &str| idx.iter().map(|&x| d.entries[x]).find(|x| x.0 == tag_u32(t));
        // glyph by glyph against the source font, when the repository has it
        let mut diffg = Vec::new();
        let mut want_n = v.n as i64;
        if let Some(src) = &original {
            if let (Some(head), Some(maxp), Some(glyf), Some(loca)) = (src.get("head"), src.get("maxp"), src.get("glyf"), src.get("loca")) {
                let long = fontgen::be16(head, 50).unwrap_or(0) != 0;
                let sn = fontgen::be16(maxp, 4).unwrap_or(0) as usize;
                want_n = sn as i64;
                if let Ok(rd) = glyph::read_glyf(glyf, loca, long, sn) {
                    for g in 0..sn.min(v.glyphs.len()) {
                        if let (Ok(a), Ok(b)) = (&rd.glyphs[g], &v.glyphs[g]) {
                            if !a.same_as(b) {
                                diffg.push(g);
                            }
                        }
                    }
                    bump(tally, "fixture_glyphs_compared_with_source", sn as u64);
                }
            }
        }
        let unread: Vec<usize> = (0..v.glyphs.len()).filter(|&g| v.glyphs[g].is_err()).collect();
        r.ev(&case, "GlyfSum", json!({"font": k, "n": want_n}), json!({"n": v.n, "loca_ok": v.loca_ok, "diff": diffg, "unreadable": unread, "err": ""}));
        if let Some(ge) = find("glyf") {
            if ge.3 >= 0 {
                let (off, len) = (ge.1 as usize, ge.3 as usize);
                if let Some(tbl) = d.block.get(off..off + len) {
                    r.ev(&case, "GlyfTable", json!({"font": k, "tbl": tbl}), json!({"recs": v.glyphs.iter().map(rec_json).collect::<Vec<_>>()}));
                    bump(tally, "fixture_transformed_glyf_tables", 1);
                }
            }
        }
        if let Some(he) = find("hmtx") {
            if he.3 >= 0 {
                let (off, len) = (he.1 as usize, he.3 as usize);
                if let Some(xf) = d.block.get(off..off + len) {
                    let xmin: Vec<i16> = v.glyphs.iter().map(|g| g.as_ref().map(|g| g.x_min()).unwrap_or(0)).collect();
                    r.ev(
                        &case,
                        "Hmtx",
                        json!({"font": k, "n": v.n, "nhm": v.nhm, "xf": xf, "xmin": xmin, "orig_adv": [], "orig_lsb": []}),
                        if v.hmtx_err.is_empty() { json!({"ok": true, "nhm": v.nhm, "adv": v.adv, "lsb": v.lsb, "len": v.hmtx_len}) } else { json!({"ok": false, "nhm": v.nhm, "adv": [], "lsb": [], "len": v.hmtx_len}) },
                    );
                    bump(tally, "fixture_transformed_hmtx_tables", 1);
                }
            }
        }
    }
}

fn record(seed: u64, tier: &str, out: &str) {
    let quick = tier == "quick";
    let mut rng = StdRng::seed_from_u64(seed ^ 0xC11);
    let mut r = Rec { w: NdWriter::create(out), i: 0, counts: BTreeMap::new() };
    let mut tally: BTreeMap<String, u64> = BTreeMap::new();
    let root = vh::util::repo_root();

    // 1. random byte strings through the two varint readers
    let nv = if quick { 3000 } else { 30000 };
    for k in 0..nv {
        let len = rng.gen_range(0..7);
        let mut b: Vec<u8> = (0..len).map(|_| if rng.gen_bool(0.5) { rng.gen() } else { [0x80u8, 0xFF, 0x7F, 0x00, 0x81, 253, 254, 255][rng.gen_range(0..8)] }).collect();
        if k % 2 == 0 {
            r.ev("varint", "B128", json!({"b": b}), obs::read_b128(&b));
        } else {
            if !b.is_empty() && rng.gen_bool(0.5) {
                b[0] = [253u8, 254, 255, 252][rng.gen_range(0..4)];
            }
            r.ev("varint", "U255", json!({"b": b}), obs::read_255(&b));
        }
    }

    // 2. the repository's own WOFF2 files
    let fonts = vh::util::repo_fonts();
    for p in fonts.iter().filter(|p| p.ends_with(".woff2")) {
        record_fixture(&mut r, p, &mut tally);
    }

    // 3. repository fonts re-encoded by the harness encoder with seeded encoder choices
    let mut glyf_fonts: Vec<(String, usize)> = Vec::new();
    let mut cff_fonts: Vec<(String, usize)> = Vec::new();
    let mut aots: Vec<(String, usize)> = Vec::new();
    for p in fonts.iter().filter(|p| p.ends_with(".ttf") || p.ends_with(".otf")) {
        let sz = std::fs::metadata(p).map(|m| m.len() as usize).unwrap_or(0);
        if sz == 0 {
            continue;
        }
        if let Some(f) = load_sfnt(p) {
            if p.contains("/tests/aots/") {
                aots.push((p.clone(), sz));
            } else if f.get("glyf").is_some() {
                glyf_fonts.push((p.clone(), sz));
            } else {
                cff_fonts.push((p.clone(), sz));
            }
        } else {
            bump(&mut tally, "fonts_not_loadable_as_sfnt", 1);
        }
    }
    glyf_fonts.shuffle(&mut rng);
    cff_fonts.sort_by_key(|x| x.1);
    aots.shuffle(&mut rng);
    let mut selected: Vec<String> = Vec::new();
    for must in ["opentype/test-font.ttf", "opentype/SFNT-TTF-Composite.ttf"] {
        if let Some(x) = glyf_fonts.iter().find(|x| x.0.ends_with(must)) {
            selected.push(x.0.clone());
        }
    }
    let (budget, max_n, n_cff, n_aots, variants, glyph_cap) = if quick { (2_500_000usize, 22usize, 2usize, 8usize, 2usize, 40usize) } else { (usize::MAX, usize::MAX, 6, 60, 3, 150) };
    let mut used = 0usize;
    // Selected by PROPERTY, not by name: glyf fonts whose glyph count sits on the bboxBitmap word boundary
    // (numGlyphs mod 32 = 0, and one neighbour on each side), smallest first; quick takes at most two
    // multiples of 32, thorough all of them. How many the repository offers is reported in the tally.
    let glyph_count = |p: &str| -> Option<usize> { load_sfnt(p).and_then(|f| f.get("maxp").and_then(|m| fontgen::be16(m, 4))).map(|n| n as usize) };
    let mut by_size: Vec<(String, usize)> = glyf_fonts.iter().filter(|x| !x.0.contains("/tests/aots/")).cloned().collect();
    by_size.sort_by(|a, b| (a.1, &a.0).cmp(&(b.1, &b.0)));
    let counts: Vec<(String, usize, usize)> = by_size.iter().filter_map(|(p, sz)| glyph_count(p).map(|n| (p.clone(), *sz, n))).collect();
    for (residue, name, cap) in [(0usize, "multiple_of_32", if quick { 2usize } else { usize::MAX }), (1, "multiple_of_32_plus_1", 1), (31, "multiple_of_32_minus_1", 1)] {
        let avail: Vec<&(String, usize, usize)> = counts.iter().filter(|x| x.2 >= 31 && x.2 % 32 == residue).collect();
        bump(&mut tally, &format!("repository_glyf_fonts_with_glyph_count_{}", name), avail.len() as u64);
        for x in avail.into_iter().take(cap) {
            if !selected.contains(&x.0) && (!quick || x.1 <= 1_000_000) {
                used += x.1;
                selected.push(x.0.clone());
                bump(&mut tally, &format!("selected_glyph_count_{}", name), 1);
            }
        }
    }
    for (p, sz) in &glyf_fonts {
        if selected.contains(p) {
            continue;
        }
        if selected.len() >= max_n || used + sz > budget {
            continue;
        }
        used += sz;
        selected.push(p.clone());
    }
    selected.extend(cff_fonts.iter().take(n_cff).map(|x| x.0.clone()));
    selected.extend(aots.iter().take(n_aots).map(|x| x.0.clone()));
    let mut prev: Option<SrcFont> = None;
    for (fi, p) in selected.iter().enumerate() {
        let src = match load_sfnt(p) {
            Some(s) => s,
            None => continue,
        };
        let rel = p.strip_prefix(&format!("{}/tests/", root)).unwrap_or(p).to_string();
        bump(&mut tally, "source_fonts", 1);
        for variant in 0..variants {
            let ch = random_choices(&mut rng, fi + variant * 3);
            let case = format!("{}#{}", rel, variant);
            record_case(&mut r, &case, std::slice::from_ref(&src), &ch, &mut rng, glyph_cap, &mut tally);
        }
        // every third font also as a collection: itself, itself with another name table, the previous font
        if fi % 3 == 1 && src.tables.iter().map(|t| t.1.len()).sum::<usize>() < 400_000 {
            let mut twin = src.clone();
            if let Some(t) = twin.tables.iter_mut().find(|t| t.0 == tag_u32("name")) {
                t.1.push(0);
            } else {
                twin.tables.push((tag_u32("name"), vec![0, 0, 0, 0, 0, 6]));
            }
            let mut members = vec![src.clone(), twin];
            if let Some(pv) = &prev {
                if pv.tables.iter().map(|t| t.1.len()).sum::<usize>() < 400_000 {
                    members.push(pv.clone());
                }
            }
            let mut ch = random_choices(&mut rng, fi);
            // every other collection stores its members with unlike transforms (member k: glyf version, hmtx flags)
            if fi % 6 == 1 {
                ch.fgt = (0..members.len()).map(|k| if k % 2 == 0 { 0 } else { 3 }).collect();
                ch.fhf = (0..members.len()).map(|k| if k % 2 == 0 { 3 } else { 0 }).collect();
                bump(&mut tally, "collections_mixed_transform", 1);
            }
            let case = format!("{}#collection", rel);
            bump(&mut tally, "collections", 1);
            record_case(&mut r, &case, &members, &ch, &mut rng, glyph_cap / 2, &mut tally);
        }
        prev = Some(src);
    }
    // 4. synthetic fonts at the upper end of the glyph count: 65504 = 32 * 2047 (the last count for which
    // numGlyphs + 31 still fits 16 bits), 65505 and 65535. Nearly all glyphs are empty; the few that are not
    // sit at both ends of the bboxBitmap (simple with a box that is not tight, composite, plain dot).
    for &n in &[65504usize, 65505, 65535] {
        let dot = |j: i16, loose: bool| GlyphRec { kind: Kind::Simple, ends: vec![0], pts: vec![(j, 2 * j + 1, true)], instr: vec![], bbox: if loose { [j - 2, 2 * j, j + 1, 2 * j + 3] } else { [j, 2 * j + 1, j, 2 * j + 1] }, comps: vec![] };
        let comp = |j: i16| GlyphRec { kind: Kind::Composite, ends: vec![], pts: vec![], instr: vec![], bbox: [j, -j, 300 + j, 400], comps: vec![glyph::Comp { flags: 2, gid: 1, a1: 5, a2: -3, tr: vec![] }] };
        let mut glyphs = vec![GlyphRec::empty(); n];
        glyphs[1] = dot(10, false);
        glyphs[2] = dot(20, true);
        glyphs[31] = comp(3);
        glyphs[32] = dot(30, true);
        glyphs[n - 33] = dot(40, false);
        glyphs[n - 32] = comp(4);
        glyphs[n - 2] = dot(50, true);
        glyphs[n - 1] = comp(5);
        let lsb: Vec<i16> = glyphs.iter().map(|g| g.x_min()).collect();
        let f = synth::AbstractFont { glyphs, nhm: 1, adv: vec![500; n], lsb };
        let src = synth::build(&f, false, 0, 0, 13);
        // (hmtx is left untransformed: an Hmtx event of 65535 glyphs would cost the judge more than it tells)
        for (v, bb) in [(0usize, "needed"), (1, "all")] {
            let ch = Choices { glyf: 0, hmtx: 0, trip: "ref".into(), u16p: "short".into(), bbox: bb.into(), order: "asis".into(), tags: "known".into(), overlap: v == 1, chunk: 65536, meta: 0, fgt: vec![], fhf: vec![] };
            bump(&mut tally, "synthetic_big_fonts", 1);
            record_case(&mut r, &format!("synthetic:{}glyphs#{}", n, v), std::slice::from_ref(&src), &ch, &mut rng, 24, &mut tally);
        }
    }
    // 5. synthetic fonts of seeded random composite glyphs: 1..5 components, every per-component property (argument
    // width / signedness, transform kind, WE_HAVE_INSTRUCTIONS and the other flag bits) drawn independently per
    // POSITION, hinted composites with zero instruction bytes, simple glyphs with instructions in between. The first
    // composite of every font carries WE_HAVE_INSTRUCTIONS on its first component only.
    for v in 0..(if quick { 2usize } else { 8 }) {
        let n = 48usize;
        let mut glyphs: Vec<GlyphRec> = Vec::with_capacity(n);
        glyphs.push(GlyphRec::empty());
        glyphs.push(GlyphRec { kind: Kind::Simple, ends: vec![2], pts: vec![(10, 20, true), (300, 40, true), (150, 400, false)], instr: vec![], bbox: [10, 20, 300, 400], comps: vec![] });
        let mut forced = false;
        while glyphs.len() < n {
            let gi = glyphs.len() as i16;
            if rng.gen_bool(0.35) {
                let il = [0usize, 0, 1, 5, 300][rng.gen_range(0..5)];
                let np = rng.gen_range(1..6usize);
                let pts: Vec<(i16, i16, bool)> = (0..np).map(|_| (rng.gen_range(-2000..2000), rng.gen_range(-2000..2000), rng.gen_bool(0.7))).collect();
                let mut g = GlyphRec { kind: Kind::Simple, ends: vec![(np - 1) as u16], pts, instr: (0..il).map(|_| rng.gen()).collect(), bbox: [0; 4], comps: vec![] };
                g.bbox = g.computed_bbox();
                glyphs.push(g);
                continue;
            }
            let k = if !forced { 2 } else { [1usize, 1, 2, 2, 3, 3, 4, 5][rng.gen_range(0..8)] };
            let mut comps = Vec::with_capacity(k);
            for j in 0..k {
                let (words, xy) = (rng.gen_bool(0.5), rng.gen_bool(0.5));
                let mut flags: u16 = words as u16 | (xy as u16) << 1;
                let ntr = [0usize, 1, 2, 4][rng.gen_range(0..4)];
                flags |= match ntr { 1 => 0x0008, 2 => 0x0040, 4 => 0x0080, _ => 0 };
                for b in [2u16, 9, 10, 11, 12] {
                    if rng.gen_bool(0.2) {
                        flags |= 1 << b;
                    }
                }
                if j + 1 < k {
                    flags |= 0x0020;
                }
                let hinted = if !forced { j == 0 } else { rng.gen_bool(0.35) };
                if hinted {
                    flags |= 0x0100;
                }
                let arg = |rng: &mut StdRng| -> i32 {
                    match (words, xy) {
                        (true, true) => rng.gen_range(-32768..=32767),
                        (true, false) => rng.gen_range(0..=65535),
                        (false, true) => rng.gen_range(-128..=127),
                        (false, false) => rng.gen_range(0..=255),
                    }
                };
                let (a1, a2) = (arg(&mut rng), arg(&mut rng));
                comps.push(glyph::Comp { flags, gid: rng.gen_range(0..2), a1, a2, tr: (0..ntr).map(|_| rng.gen::<i16>()).collect() });
            }
            forced = true;
            let any = comps.iter().any(|c| c.flags & 0x0100 != 0);
            let il = if any { [0usize, 1, 3, 7, 260][rng.gen_range(0..5)] } else { 0 };
            glyphs.push(GlyphRec { kind: Kind::Composite, ends: vec![], pts: vec![], instr: (0..il).map(|_| rng.gen()).collect(), bbox: [gi - 50, -gi, 300 + gi, 400], comps });
        }
        for g in glyphs.iter().filter(|g| g.kind == Kind::Composite) {
            bump(&mut tally, "synthetic_composites", 1);
            bump(&mut tally, &format!("synthetic_composites_of_{}_components", g.comps.len()), 1);
            if g.has_instr_flag() && g.comps.last().unwrap().flags & 0x0100 == 0 {
                bump(&mut tally, "synthetic_composites_instr_flag_not_on_last", 1);
            }
            if g.has_instr_flag() {
                bump(&mut tally, "synthetic_composites_hinted", 1);
            }
        }
        let lsb: Vec<i16> = glyphs.iter().map(|g| g.x_min()).collect();
        let nhm = [n, 1, n - 1, 7][v % 4];
        let f = synth::AbstractFont { glyphs, nhm, adv: (0..n).map(|g| 400 + 3 * g.min(nhm - 1) as u16).collect(), lsb };
        let src = synth::build(&f, v % 2 == 1, (v % 2) as u8, 0, 13);
        let mut ch = random_choices(&mut rng, v);
        ch.glyf = 0;
        bump(&mut tally, "synthetic_composite_fonts", 1);
        record_case(&mut r, &format!("synthetic:composites#{}", v), std::slice::from_ref(&src), &ch, &mut rng, 64, &mut tally);
    }
    let events = r.i;
    let counts = r.counts.clone();
    r.w.finish();
    println!("{}", json!({"events": events, "by_kind": counts, "tally": tally, "fonts_selected": selected.len()}));
}

/// Not part of the check: what allsorts does with an hmtx transform next to a null-transformed glyf
/// (unusual input, reported to C01). Prints the outcome.
fn probe() {
    let tri = |d: i16| GlyphRec { kind: Kind::Simple, ends: vec![2], pts: vec![(10 + d, 0, true), (300, 40, true), (150, 400, true)], instr: vec![], bbox: [10 + d, 0, 300, 400], comps: vec![] };
    let f = synth::AbstractFont { glyphs: vec![GlyphRec::empty(), tri(0), tri(5)], nhm: 1, adv: vec![500, 500, 500], lsb: vec![0, 10, 15] };
    let src = synth::build(&f, false, 0, 0, 13);
    let tables: Vec<DirTable> = src
        .tables
        .iter()
        .map(|(tag, d)| {
            let name = tag_str(*tag);
            if name == "hmtx" {
                let x = enc::enc_hmtx(3, 3, 1, &f.adv, &f.lsb);
                DirTable { tag: *tag, explicit: false, ver: 1, orig_len: d.len() as u32, tlen: Some(x.len() as u32), data: x }
            } else {
                let ver = if name == "glyf" || name == "loca" { 3 } else { 0 };
                DirTable { tag: *tag, explicit: false, ver, orig_len: d.len() as u32, tlen: None, data: d.clone() }
            }
        })
        .collect();
    let bytes = enc::assemble_single(&tables, 0x00010000, 65536);
    println!("{}", json!({"hmtx_transform_with_null_glyf_transform": format!("{:?}", obs::decode_tables(&bytes, 0, &[]).map(|t| t.len()))}));
    // An EMPTY glyph whose bboxBitmap bit is set (and 8 bytes in the bbox stream): the recommendation tells a decoder
    // to reject the file. No conforming encoder writes this, so it is outside C11's quantifier; what allsorts does:
    let ch = Choices { glyf: 0, hmtx: 0, trip: "ref".into(), u16p: "short".into(), bbox: "needed".into(), order: "asis".into(), tags: "known".into(), overlap: false, chunk: 65536, meta: 0, fgt: vec![], fhf: vec![] };
    let mut rng = StdRng::seed_from_u64(1);
    let mut per: Vec<enc::GlyphStreams> = f.glyphs.iter().map(|g| enc::encode_glyph_streams(g, &ch, &mut rng)).collect();
    per[0].bit = true;
    per[0].bb = vec![0, 1, 0, 2, 0, 3, 0, 4];
    let xglyf = enc::glyf_table_bytes(&per, 0, None);
    let tables: Vec<DirTable> = src
        .tables
        .iter()
        .map(|(tag, d)| match tag_str(*tag).as_str() {
            "glyf" => DirTable { tag: *tag, explicit: false, ver: 0, orig_len: d.len() as u32, tlen: Some(xglyf.len() as u32), data: xglyf.clone() },
            "loca" => DirTable { tag: *tag, explicit: false, ver: 0, orig_len: d.len() as u32, tlen: Some(0), data: vec![] },
            _ => DirTable { tag: *tag, explicit: false, ver: 0, orig_len: d.len() as u32, tlen: None, data: d.clone() },
        })
        .collect();
    let bytes = enc::assemble_single(&tables, 0x00010000, 65536);
    let r = obs::decode_tables(&bytes, 0, &[]).and_then(|t| obs::view(&t)).map(|v| v.glyphs.iter().map(rec_json).collect::<Vec<_>>());
    println!("{}", json!({"empty_glyph_with_bbox_bit_set": format!("{:?}", r.map(|g| json!(g).to_string()))}));
    // sfnt_version() of the table provider of a collection member (the member's flavor is in the collection directory)
    let e = enc::encode_woff2(&[src.clone(), synth::build(&f, false, 0, 1, 13)], &ch, &mut rng);
    println!("{}", json!({"collection_member_sfnt_version": format!("{:?}", obs::member_flavor(&e.bytes, 1).map(|v| format!("{:08x}", v)))}));
}

fn main() {
    if let Err(e) = brotli::self_test() {
        eprintln!("{}", e);
        std::process::exit(3);
    }
    let args: Vec<String> = std::env::args().collect();
    match args.get(1).map(|s| s.as_str()) {
        Some("replay") => replay(&args[2], &args[3]),
        Some("record") => record(args[2].parse().expect("seed"), &args[3], &args[4]),
        Some("probe") => probe(),
        _ => {
            eprintln!("usage: c11_woff2 replay <cases> <mismatches> | record <seed> <quick|thorough> <trace>");
            std::process::exit(2);
        }
    }
}
