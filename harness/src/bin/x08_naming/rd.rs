//! Independent readers (no allsorts): name, STAT, fvar, the style fields of OS/2 / head / post, and
//! the projection of an instanced font.
use serde_json::{json, Value};
use vh::fontgen::{be16, be32, read_sfnt_dir, table_bytes};

pub type NameRec = (u16, u16, u16, u16, Vec<u8>);

fn bi32(d: &[u8], at: usize) -> Option<i64> {
    be32(d, at).map(|v| v as i32 as i64)
}
/// 16.16 raw value in the vocabulary of the specification (the lowest value has a stand-in)
fn fx(d: &[u8], at: usize) -> Option<i64> {
    bi32(d, at).map(|v| if v == i32::MIN as i64 { -2147483647 } else { v })
}
fn tagcps(d: &[u8], at: usize) -> Option<Vec<i64>> {
    d.get(at..at + 4).map(|t| t.iter().map(|b| *b as i64).collect())
}

pub fn read_name_records(d: &[u8]) -> Option<Vec<NameRec>> {
    let format = be16(d, 0)?;
    if format > 1 {
        return None;
    }
    let count = be16(d, 2)? as usize;
    let so = be16(d, 4)? as usize;
    let mut out = Vec::new();
    for k in 0..count {
        let at = 6 + 12 * k;
        let (len, off) = (be16(d, at + 8)? as usize, be16(d, at + 10)? as usize);
        let s = d.get(so + off..so + off + len)?.to_vec();
        out.push((be16(d, at)?, be16(d, at + 2)?, be16(d, at + 4)?, be16(d, at + 6)?, s));
    }
    Some(out)
}

/// <<p, e, l, id, length, weighted checksum>> of every record whose id instancing does not rewrite
pub fn kept_compact(recs: &[NameRec]) -> Value {
    let v: Vec<Value> = recs
        .iter()
        .filter(|r| ![1u16, 2, 3, 4, 6, 16, 17].contains(&r.3))
        .map(|r| {
            let mut s: u64 = 0;
            for (k, b) in r.4.iter().enumerate() {
                s = (s + (*b as u64) * (((k + 1) % 7) as u64 + 1)) % 65521;
            }
            json!([r.0, r.1, r.2, r.3, r.4.len(), s])
        })
        .collect();
    Value::Array(v)
}

pub fn read_stat(d: &[u8]) -> Option<Value> {
    if be16(d, 0)? != 1 {
        return None;
    }
    let minor = be16(d, 2)?;
    let asize = be16(d, 4)? as usize;
    let acount = be16(d, 6)? as usize;
    let aoff = be32(d, 8)? as usize;
    let vcount = be16(d, 12)? as usize;
    let voff = be32(d, 14)? as usize;
    let fb = if minor > 0 { be16(d, 18)? as i64 } else { 0 };
    let mut axes = Vec::new();
    for k in 0..acount {
        let at = aoff + k * asize;
        axes.push(json!([tagcps(d, at)?, be16(d, at + 4)?, be16(d, at + 6)?]));
    }
    let mut tabs = Vec::new();
    for k in 0..vcount {
        let at = voff + be16(d, voff + 2 * k)? as usize;
        let f = be16(d, at)?;
        let t = match f {
            1 => json!([1, be16(d, at + 2)?, be16(d, at + 4)? & 3, be16(d, at + 6)?, fx(d, at + 8)?, 0, 0, 0, []]),
            2 => json!([2, be16(d, at + 2)?, be16(d, at + 4)? & 3, be16(d, at + 6)?, fx(d, at + 8)?, fx(d, at + 12)?, fx(d, at + 16)?, 0, []]),
            3 => json!([3, be16(d, at + 2)?, be16(d, at + 4)? & 3, be16(d, at + 6)?, fx(d, at + 8)?, 0, 0, fx(d, at + 12)?, []]),
            4 => {
                let n = be16(d, at + 2)? as usize;
                let mut av = Vec::new();
                for j in 0..n {
                    av.push(json!([be16(d, at + 8 + 6 * j)?, fx(d, at + 10 + 6 * j)?]));
                }
                json!([4, 0, be16(d, at + 4)? & 3, be16(d, at + 6)?, 0, 0, 0, 0, av])
            }
            _ => json!([f, 0, 0, 0, 0, 0, 0, 0, []]),
        };
        tabs.push(t);
    }
    Some(json!({"ver": if minor > 0 { 1 } else { 0 }, "fb": fb, "axes": axes, "tabs": tabs}))
}

pub fn read_fvar(d: &[u8]) -> Option<Value> {
    let aoff = be16(d, 4)? as usize;
    let acount = be16(d, 8)? as usize;
    let asize = be16(d, 10)? as usize;
    let icount = be16(d, 12)? as usize;
    let isize = be16(d, 14)? as usize;
    let mut axes = Vec::new();
    for k in 0..acount {
        let at = aoff + k * asize;
        axes.push(json!([tagcps(d, at)?, fx(d, at + 4)?, fx(d, at + 8)?, fx(d, at + 12)?]));
    }
    let mut insts = Vec::new();
    let ioff = aoff + acount * asize;
    for k in 0..icount {
        let at = ioff + k * isize;
        let mut coords = Vec::new();
        for j in 0..acount {
            coords.push(fx(d, at + 4 + 4 * j)?);
        }
        let ps = if isize >= 6 + 4 * acount { be16(d, at + 4 + 4 * acount)? } else { 65535 };
        insts.push(json!([be16(d, at)?, ps, coords]));
    }
    Some(json!({"axes": axes, "insts": insts}))
}

pub fn read_style(os2: &[u8], head: &[u8], post: &[u8]) -> Option<Value> {
    Some(json!({
        "wc": be16(os2, 4)?, "wdc": be16(os2, 6)?, "fs": be16(os2, 62)?, "vend": tagcps(os2, 58)?,
        "mac": be16(head, 44)?, "rev": bi32(head, 4)?, "ia": bi32(post, 4)?,
    }))
}

/// The observation on an instanced font: name records of the rewritten ids, the order of all records,
/// the other records in compact form, the style fields.
pub fn read_instance_output(out: &[u8]) -> Option<Value> {
    let dir = read_sfnt_dir(out, 0)?;
    let name = table_bytes(out, &dir, "name")?;
    let recs = read_name_records(name)?;
    let st = read_style(table_bytes(out, &dir, "OS/2")?, table_bytes(out, &dir, "head")?, table_bytes(out, &dir, "post")?)?;
    let names: Vec<Value> =
        recs.iter().filter(|r| [1u16, 2, 3, 4, 6, 16, 17].contains(&r.3)).map(|r| json!([r.0, r.1, r.2, r.3, r.4])).collect();
    let ord: Vec<Value> = recs.iter().map(|r| json!([r.0, r.1, r.2, r.3])).collect();
    Some(json!({"names": names, "ord": ord, "kept": kept_compact(&recs), "wc": st["wc"], "wdc": st["wdc"], "fs": st["fs"],
                "mac": st["mac"], "ia": st["ia"]}))
}
