//! Encoders: abstract name / STAT / fvar descriptions -> table bytes; a minimal variable TrueType font
//! (glyf + gvar without tuple variations) carrying them.
use serde_json::Value;
use vh::fontgen::{triangle, GlyphSpec, TtFont, W};

fn u(v: &Value) -> u64 {
    v.as_u64().unwrap_or_else(|| panic!("not unsigned: {}", v))
}
fn i(v: &Value) -> i64 {
    v.as_i64().unwrap_or_else(|| panic!("not integer: {}", v))
}
fn bytes(v: &Value) -> Vec<u8> {
    v.as_array().unwrap().iter().map(|b| u(b) as u8).collect()
}
/// 16.16 with the sentinels of the specification: -2147483647 stands for the lowest value
fn fixed(v: &Value) -> i32 {
    let x = i(v);
    if x <= -2147483647 {
        i32::MIN
    } else {
        x as i32
    }
}
fn tag4(v: &Value) -> [u8; 4] {
    let b: Vec<u8> = v.as_array().unwrap().iter().map(|c| u(c) as u8).collect();
    [b[0], b[1], b[2], b[3]]
}

/// name table, format 0, from records [platform, encoding, language, nameId, bytes] in the given order.
pub fn name_table(recs: &Value) -> Vec<u8> {
    let recs = recs.as_array().unwrap();
    let mut w = W::new();
    let mut storage: Vec<u8> = Vec::new();
    w.u16(0).u16(recs.len() as u16).u16(6 + 12 * recs.len() as u16);
    for r in recs {
        let d = bytes(&r[4]);
        w.u16(u(&r[0]) as u16).u16(u(&r[1]) as u16).u16(u(&r[2]) as u16).u16(u(&r[3]) as u16);
        w.u16(d.len() as u16).u16(storage.len() as u16);
        storage.extend(d);
    }
    w.bytes(&storage);
    w.done()
}

/// STAT from {ver, fb, axes: [[tag, nameId, ordering]], tabs: [[f, a, fl, n, v, lo, hi, lk, [[axis, value]]]]}.
pub fn stat_table(s: &Value) -> Vec<u8> {
    let axes = s["axes"].as_array().unwrap();
    let tabs = s["tabs"].as_array().unwrap();
    let minor = if u(&s["ver"]) >= 1 { 1u16 } else { 0 };
    let header = if minor > 0 { 20usize } else { 18 };
    let mut blobs: Vec<Vec<u8>> = Vec::new();
    for t in tabs {
        let mut b = W::new();
        let f = u(&t[0]) as u16;
        b.u16(f);
        match f {
            1 => {
                b.u16(u(&t[1]) as u16).u16(u(&t[2]) as u16).u16(u(&t[3]) as u16).i32(fixed(&t[4]));
            }
            2 => {
                b.u16(u(&t[1]) as u16).u16(u(&t[2]) as u16).u16(u(&t[3]) as u16);
                b.i32(fixed(&t[4])).i32(fixed(&t[5])).i32(fixed(&t[6]));
            }
            3 => {
                b.u16(u(&t[1]) as u16).u16(u(&t[2]) as u16).u16(u(&t[3]) as u16).i32(fixed(&t[4])).i32(fixed(&t[7]));
            }
            4 => {
                let av = t[8].as_array().unwrap();
                b.u16(av.len() as u16).u16(u(&t[2]) as u16).u16(u(&t[3]) as u16);
                for e in av {
                    b.u16(u(&e[0]) as u16).i32(fixed(&e[1]));
                }
            }
            _ => {
                // an unknown format: same shape as format 1
                b.u16(u(&t[1]) as u16).u16(u(&t[2]) as u16).u16(u(&t[3]) as u16).i32(fixed(&t[4]));
            }
        }
        blobs.push(b.done());
    }
    let axes_off = header;
    let offs_off = axes_off + 8 * axes.len();
    let mut w = W::new();
    w.u16(1).u16(minor).u16(8).u16(axes.len() as u16).u32(axes_off as u32);
    w.u16(tabs.len() as u16).u32(offs_off as u32);
    if minor > 0 {
        w.u16(u(&s["fb"]) as u16);
    }
    for a in axes {
        w.bytes(&tag4(&a[0])).u16(u(&a[1]) as u16).u16(u(&a[2]) as u16);
    }
    let mut o = 2 * tabs.len();
    for b in &blobs {
        w.u16(o as u16);
        o += b.len();
    }
    for b in &blobs {
        w.bytes(b);
    }
    w.done()
}

/// fvar from axes [[tag, min, default, max]] and instances [[subfamilyNameId, psNameId | 65535, [coords]]].
pub fn fvar_table(axes: &Value, insts: &Value) -> Vec<u8> {
    let axes = axes.as_array().unwrap();
    let insts = insts.as_array().unwrap();
    let with_ps = insts.iter().any(|n| u(&n[1]) != 65535);
    let isize = 4 + 4 * axes.len() + if with_ps { 2 } else { 0 };
    let mut w = W::new();
    w.u16(1).u16(0).u16(16).u16(2).u16(axes.len() as u16).u16(20).u16(insts.len() as u16).u16(isize as u16);
    for (k, a) in axes.iter().enumerate() {
        w.bytes(&tag4(&a[0])).i32(fixed(&a[1])).i32(fixed(&a[2])).i32(fixed(&a[3])).u16(0).u16(256 + k as u16);
    }
    for n in insts {
        w.u16(u(&n[0]) as u16).u16(0);
        for c in n[2].as_array().unwrap() {
            w.i32(fixed(c));
        }
        if with_ps {
            w.u16(u(&n[1]) as u16);
        }
    }
    w.done()
}

/// gvar 1.0 with no variation data for any glyph.
pub fn gvar_empty(naxes: usize, nglyphs: usize) -> Vec<u8> {
    let off = 20 + 2 * (nglyphs + 1);
    let mut w = W::new();
    w.u16(1).u16(0).u16(naxes as u16).u16(0).u32(off as u32).u16(nglyphs as u16).u16(0).u32(off as u32);
    for _ in 0..=nglyphs {
        w.u16(0);
    }
    w.done()
}

fn head_table(rev: i32, mac: u16) -> Vec<u8> {
    let mut w = W::new();
    w.u16(1).u16(0).i32(rev).u32(0).u32(0x5F0F3CF5).u16(0x000B).u16(1000).u64(0).u64(0);
    w.i16(0).i16(0).i16(1000).i16(1000).u16(mac).u16(8).i16(2).i16(0).i16(0);
    w.done()
}

fn os2_table(wc: u16, wdc: u16, fs: u16, vend: [u8; 4]) -> Vec<u8> {
    let mut w = W::new();
    w.u16(4).i16(500).u16(wc).u16(wdc).u16(0);
    for _ in 0..10 {
        w.i16(0);
    }
    w.i16(0);
    w.bytes(&[0; 10]);
    w.u32(0).u32(0).u32(0).u32(0);
    w.bytes(&vend);
    w.u16(fs).u16(0x20).u16(0xFFFF);
    w.i16(800).i16(-200).i16(0).u16(800).u16(200);
    w.u32(0).u32(0);
    w.i16(500).i16(700).u16(0).u16(32).u16(0);
    w.done()
}

fn post_table(ia: i32) -> Vec<u8> {
    let mut w = W::new();
    w.u32(0x00030000).i32(ia).i16(-100).i16(50).u32(0).u32(0).u32(0).u32(0).u32(0);
    w.done()
}

/// A variable TrueType font for an `inst` case {axes, stat, names, src, insts}.
pub fn build_var_font(a: &Value) -> Vec<u8> {
    let glyphs = vec![GlyphSpec::Empty, triangle(0)];
    let mut f = TtFont::new(glyphs);
    f.cmap = vec![(0x41, 1)];
    let naxes = a["axes"].as_array().unwrap().len();
    let src = &a["src"];
    let mut extra: Vec<(String, Vec<u8>)> = vec![
        ("head".into(), head_table(i(&src["rev"]) as i32, u(&src["mac"]) as u16)),
        ("OS/2".into(), os2_table(u(&src["wc"]) as u16, u(&src["wdc"]) as u16, u(&src["fs"]) as u16, tag4(&src["vend"]))),
        ("post".into(), post_table(i(&src["ia"]) as i32)),
        ("name".into(), name_table(&a["names"])),
        ("fvar".into(), fvar_table(&a["axes"], &a["insts"])),
        ("gvar".into(), gvar_empty(naxes, 2)),
    ];
    if u(&a["stat"]["has"]) == 1 {
        extra.push(("STAT".into(), stat_table(&a["stat"])));
    }
    f.extra_tables = extra;
    f.build()
}
