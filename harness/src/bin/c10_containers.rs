//! C10 harness: bare sfnt / TrueType collection / WOFF containers.
//!
//!   c10_containers replay <cases.ndjson> <mismatches.ndjson>
//!       CASE lines of MC_Sfnt: file bytes built by the TLA+ writer and, per member index and
//!       tag, what the TLA+ reader prescribes. Feeds the bytes to allsorts and compares.
//!   c10_containers record <seed> <max_fonts> <trace.ndjson>
//!       re-wraps repository fonts as sfnt / TTC (shared tables) / WOFF (real zlib, random
//!       per-table choices) with the harness's own writers, queries allsorts for every
//!       member and tag, records digests; judged by Trace_Sfnt.
use allsorts::binary::read::ReadScope;
use allsorts::font_data::FontData;
use allsorts::tables::{FontTableProvider, OpenTypeData, SfntVersion};
use flate2::write::ZlibEncoder;
use flate2::Compression;
use rand::rngs::StdRng;
use rand::seq::SliceRandom;
use rand::{Rng, SeedableRng};
use serde_json::{json, Value};
use std::io::{Read, Write};
use vh::fontgen::{be16, be32, read_sfnt_dir, W};
use vh::sup::{guarded, Outcome};
use vh::util::{read_ndjson, repo_fonts, NdWriter};

fn b4(v: u32) -> Vec<u8> {
    v.to_be_bytes().to_vec()
}

fn tag_of(v: &Value) -> u32 {
    let b: Vec<u8> = v.as_array().unwrap().iter().map(|x| x.as_u64().unwrap() as u8).collect();
    u32::from_be_bytes([b[0], b[1], b[2], b[3]])
}

fn kind_of(fd: &FontData<'_>) -> &'static str {
    match fd {
        FontData::OpenType(f) => match f.data {
            OpenTypeData::Single(_) => "sfnt",
            OpenTypeData::Collection(_) => "ttc",
        },
        FontData::Woff(_) => "woff",
        FontData::Woff2(_) => "woff2",
    }
}

/// Observation of a whole container in the vocabulary of MC_Sfnt!Expect.
fn observe(bytes: &[u8], n_members: usize, qtags: &[u32]) -> Value {
    let fd = match ReadScope::new(bytes).read::<FontData<'_>>() {
        Ok(fd) => fd,
        Err(_) => return json!({"load": false, "kind": "", "members": []}),
    };
    let mut members = Vec::new();
    for i in 0..n_members {
        match fd.table_provider(i) {
            Err(_) => members.push(json!({"i": i, "ok": false, "flavor": [], "tags": [], "data": [], "has": []})),
            Ok(p) => {
                let tags: Vec<Vec<u8>> = p.table_tags().unwrap_or_default().into_iter().map(b4).collect();
                let mut data = Vec::new();
                let mut has = Vec::new();
                for &t in qtags {
                    data.push(match p.table_data(t) {
                        Ok(Some(d)) => json!({"ok": true, "err": "", "v": ["some", d.to_vec()]}),
                        Ok(None) => json!({"ok": true, "err": "", "v": ["none"]}),
                        Err(_) => json!({"ok": false, "err": "Err", "v": []}),
                    });
                    has.push(p.has_table(t));
                }
                members.push(json!({"i": i, "ok": true, "flavor": b4(p.sfnt_version()), "tags": tags,
                                    "data": data, "has": has}));
            }
        }
    }
    json!({"load": true, "kind": kind_of(&fd), "members": members})
}

fn replay(cases: &str, out: &str) {
    let cases = read_ndjson(cases);
    let mut w = NdWriter::create(out);
    let mut n_queries = 0usize;
    let mut kinds = std::collections::BTreeMap::<String, usize>::new();
    for (ci, case) in cases.iter().enumerate() {
        let bytes: Vec<u8> = case["bytes"].as_array().unwrap().iter().map(|b| b.as_u64().unwrap() as u8).collect();
        let qtags: Vec<u32> = case["qtags"].as_array().unwrap().iter().map(tag_of).collect();
        let n_members = case["exp"]["members"].as_array().map(|m| m.len()).unwrap_or(0).max(1);
        let got = match guarded(|| observe(&bytes, n_members, &qtags)) {
            Outcome::Returned(v) => v,
            Outcome::Panicked(m) => json!({"panic": m}),
        };
        // when loading fails the specification lists no members
        let got = if got["load"] == json!(false) { json!({"load": false, "kind": "", "members": []}) } else { got };
        n_queries += n_members * (qtags.len() * 2 + 2);
        *kinds.entry(format!("{}/{}", case["kind"].as_str().unwrap(), case["damage"].as_str().unwrap())).or_default() += 1;
        if got != case["exp"] {
            w.write(&json!({"case": ci, "kind": case["kind"], "damage": case["damage"], "bytes": bytes,
                            "qtags": case["qtags"], "want": case["exp"], "got": got}));
        }
    }
    let mism = w.n;
    w.finish();
    println!("{}", json!({"cases": cases.len(), "queries": n_queries, "mismatches": mism, "kinds": kinds}));
}

// ---- recording --------------------------------------------------------------------------------

fn digest(d: &[u8]) -> Vec<u32> {
    let mut h: u64 = 0xcbf29ce484222325;
    for &b in d {
        h ^= b as u64;
        h = h.wrapping_mul(0x100000001b3);
    }
    let l = d.len() as u32;
    vec![l & 0xFFFF, l >> 16, (h & 0xFFFF) as u32, ((h >> 16) & 0xFFFF) as u32, ((h >> 32) & 0xFFFF) as u32,
         ((h >> 48) & 0xFFFF) as u32]
}

struct Member {
    flavor: u32,
    dir: Vec<(u32, usize)>, // tag, tid (0-based)
}

fn write_offset_table(w: &mut W, m: &Member, at: &[usize], tables: &[Vec<u8>]) {
    let n = m.dir.len() as u16;
    w.u32(m.flavor).u16(n).u16(0).u16(0).u16(0);
    for (tag, tid) in &m.dir {
        w.u32(*tag).u32(0).u32(at[*tid] as u32).u32(tables[*tid].len() as u32);
    }
}

/// Lay the table bodies (in `order`, each preceded by `gap` zero bytes then aligned or not) starting
/// at `start`; returns their offsets and the bytes.
fn lay_bodies(bodies: &[Vec<u8>], order: &[usize], start: usize, rng: &mut StdRng) -> (Vec<usize>, Vec<u8>) {
    let mut at = vec![0usize; bodies.len()];
    let mut out = Vec::new();
    for &t in order {
        let gap = match rng.gen_range(0..4) {
            0 => 0,
            1 => (4 - (start + out.len()) % 4) % 4,
            _ => rng.gen_range(0..6),
        };
        out.extend(std::iter::repeat(0u8).take(gap));
        at[t] = start + out.len();
        out.extend_from_slice(&bodies[t]);
    }
    (at, out)
}

fn build_ttc(tables: &[Vec<u8>], members: &[Member], rng: &mut StdRng) -> Vec<u8> {
    let mut order: Vec<usize> = (0..tables.len()).collect();
    order.shuffle(rng);
    let hdr = 12 + 4 * members.len();
    let dirs: usize = members.iter().map(|m| 12 + 16 * m.dir.len()).sum();
    let (at, bodies) = lay_bodies(tables, &order, hdr + dirs, rng);
    let mut w = W::new();
    w.tag("ttcf").u16(if rng.gen_bool(0.5) { 1 } else { 2 }).u16(0).u32(members.len() as u32);
    let mut p = hdr;
    for m in members {
        w.u32(p as u32);
        p += 12 + 16 * m.dir.len();
    }
    for m in members {
        write_offset_table(&mut w, m, &at, tables);
    }
    w.bytes(&bodies);
    w.done()
}

fn build_sfnt(tables: &[Vec<u8>], m: &Member, rng: &mut StdRng) -> Vec<u8> {
    let mut order: Vec<usize> = (0..tables.len()).collect();
    order.shuffle(rng);
    let (at, bodies) = lay_bodies(tables, &order, 12 + 16 * m.dir.len(), rng);
    let mut w = W::new();
    write_offset_table(&mut w, m, &at, tables);
    w.bytes(&bodies);
    w.done()
}

fn build_woff(tables: &[Vec<u8>], m: &Member, rng: &mut StdRng) -> (Vec<u8>, Vec<bool>) {
    // per-table: stored raw, or zlib at a random level (kept only if the stream length differs
    // from the table length, otherwise the entry would read as uncompressed)
    let mut stored: Vec<Vec<u8>> = Vec::new();
    let mut zipped = Vec::new();
    for t in tables {
        let mut z = false;
        let mut s = t.clone();
        if rng.gen_bool(0.7) {
            let level = rng.gen_range(0..=9);
            let mut e = ZlibEncoder::new(Vec::new(), Compression::new(level));
            e.write_all(t).unwrap();
            let c = e.finish().unwrap();
            if c.len() != t.len() {
                s = c;
                z = true;
            }
        }
        stored.push(s);
        zipped.push(z);
    }
    let mut order: Vec<usize> = (0..tables.len()).collect();
    order.shuffle(rng);
    let hdr = 44 + 20 * m.dir.len();
    let (at, bodies) = lay_bodies(&stored, &order, hdr, rng);
    let mut w = W::new();
    w.tag("wOFF").u32(m.flavor).u32((hdr + bodies.len()) as u32).u16(m.dir.len() as u16).u16(0);
    w.u32(0).u16(1).u16(0).u32(0).u32(0).u32(0).u32(0).u32(0);
    for (tag, tid) in &m.dir {
        w.u32(*tag).u32(at[*tid] as u32).u32(stored[*tid].len() as u32).u32(tables[*tid].len() as u32).u32(0);
    }
    w.bytes(&bodies);
    (w.done(), zipped)
}

/// Independent WOFF 1 reader: (flavor, [(tag, content)]).
fn read_woff_independent(d: &[u8]) -> Option<(u32, Vec<(u32, Vec<u8>)>)> {
    if d.get(0..4)? != b"wOFF" {
        return None;
    }
    let flavor = be32(d, 4)?;
    let n = be16(d, 12)? as usize;
    // WOFF 1.0: "reserved: must be set to zero" - a file that breaks it is not a WOFF file in the
    // sense of the property (W3C fixture header-reserved-001 is an invalid file that readers must reject)
    if be16(d, 14)? != 0 {
        return None;
    }
    let mut out = Vec::new();
    for i in 0..n {
        let r = 44 + 20 * i;
        let (tag, off, comp, orig) = (be32(d, r)?, be32(d, r + 4)? as usize, be32(d, r + 8)? as usize, be32(d, r + 12)? as usize);
        let raw = d.get(off..off + comp)?;
        let content = if comp != orig {
            let mut v = Vec::new();
            flate2::read::ZlibDecoder::new(raw).read_to_end(&mut v).ok()?;
            v
        } else {
            raw.to_vec()
        };
        out.push((tag, content));
    }
    Some((flavor, out))
}

struct Rec {
    w: NdWriter,
    i: u64,
}

impl Rec {
    fn ev(&mut self, case: &str, ev: &str, a: Value, o: Value) {
        self.i += 1;
        self.w.write(&json!({"i": self.i, "case": case, "ev": ev, "a": a, "o": o}));
    }
}

fn record_container(rec: &mut Rec, case: &str, kind: &str, bytes: &[u8], tables: &[Vec<u8>], members: &[Member], extra: Value) {
    let digests: Vec<Vec<u32>> = tables.iter().map(|t| digest(t)).collect();
    let ms: Vec<Value> = members
        .iter()
        .map(|m| json!({"flavor": b4(m.flavor),
                        "dir": m.dir.iter().map(|(t, id)| json!({"tag": b4(*t), "tid": id + 1})).collect::<Vec<_>>()}))
        .collect();
    rec.ev(case, "Container", json!({"kind": kind, "members": ms, "digests": digests, "extra": extra}), json!({}));
    let loaded = guarded(|| ReadScope::new(bytes).read::<FontData<'_>>().map(|fd| kind_of(&fd).to_string()).map_err(|e| format!("{:?}", e)));
    let lk = match &loaded {
        Outcome::Returned(Ok(k)) => json!({"ok": true, "kind": k}),
        Outcome::Returned(Err(_)) => json!({"ok": false, "kind": "Err"}),
        Outcome::Panicked(m) => json!({"ok": false, "kind": format!("Panic: {}", m)}),
    };
    rec.ev(case, "Load", json!({}), lk);
    let fd = match ReadScope::new(bytes).read::<FontData<'_>>() {
        Ok(fd) => fd,
        Err(_) => return,
    };
    let mut all_tags: Vec<u32> = members.iter().flat_map(|m| m.dir.iter().map(|d| d.0)).collect();
    all_tags.sort();
    all_tags.dedup();
    all_tags.push(u32::from_be_bytes(*b"zzZZ"));
    for i in 0..members.len() + 2 {
        let r = guarded(|| {
            let mut evs: Vec<(String, Value, Value)> = Vec::new();
            match fd.table_provider(i) {
                Err(_) => evs.push(("Provider".into(), json!({"member": i}), json!({"ok": false, "flavor": [], "tags": []}))),
                Ok(p) => {
                    let tags: Vec<Vec<u8>> = p.table_tags().unwrap_or_default().into_iter().map(b4).collect();
                    evs.push(("Provider".into(), json!({"member": i}), json!({"ok": true, "flavor": b4(p.sfnt_version()), "tags": tags})));
                    for &t in &all_tags {
                        let o = match p.table_data(t) {
                            Ok(Some(d)) => json!({"ok": true, "some": true, "digest": digest(&d), "has": p.has_table(t)}),
                            Ok(None) => json!({"ok": true, "some": false, "digest": [], "has": p.has_table(t)}),
                            Err(_) => json!({"ok": false, "some": false, "digest": [], "has": p.has_table(t)}),
                        };
                        evs.push(("Query".into(), json!({"member": i, "tag": b4(t)}), o));
                    }
                }
            }
            evs
        });
        match r {
            Outcome::Returned(evs) => {
                for (ev, a, o) in evs {
                    rec.ev(case, &ev, a, o);
                }
            }
            Outcome::Panicked(m) => rec.ev(case, "Provider", json!({"member": i}), json!({"ok": false, "flavor": [], "tags": [], "panic": m})),
        }
    }
}

fn record(seed: u64, max_fonts: usize, out: &str) {
    let mut rng = StdRng::seed_from_u64(seed);
    let mut rec = Rec { w: NdWriter::create(out), i: 0 };
    let mut fonts = repo_fonts();
    fonts.shuffle(&mut rng);
    let mut used = 0;
    for path in fonts {
        if used >= max_fonts {
            break;
        }
        let data = match std::fs::read(&path) {
            Ok(d) if d.len() > 12 => d,
            _ => continue,
        };
        let name = path.rsplit('/').next().unwrap().to_string();
        if path.ends_with(".woff") {
            if let Some((flavor, tabs)) = read_woff_independent(&data) {
                let tables: Vec<Vec<u8>> = tabs.iter().map(|t| t.1.clone()).collect();
                let m = Member { flavor, dir: tabs.iter().enumerate().map(|(k, t)| (t.0, k)).collect() };
                record_container(&mut rec, &format!("{}/asis", name), "woff", &data, &tables, &[m], json!({"source": "fixture"}));
                used += 1;
            }
            continue;
        }
        let dir = match read_sfnt_dir(&data, 0) {
            Some(d) if [0x00010000u32, 0x4F54544F, 0x74727565].contains(&d.version) => d,
            _ => continue,
        };
        let mut tables: Vec<Vec<u8>> = Vec::new();
        let mut tags: Vec<u32> = Vec::new();
        let mut okay = true;
        for r in &dir.records {
            match data.get(r.2 as usize..(r.2 as usize + r.3 as usize)) {
                Some(t) => {
                    tables.push(t.to_vec());
                    tags.push(r.0);
                }
                None => okay = false,
            }
        }
        if !okay || tables.is_empty() {
            continue;
        }
        used += 1;
        // the fixture as it is
        let full = Member { flavor: dir.version, dir: tags.iter().enumerate().map(|(k, t)| (*t, k)).collect() };
        record_container(&mut rec, &format!("{}/asis", name), "sfnt", &data, &tables, &[Member { flavor: full.flavor, dir: full.dir.clone() }], json!({"source": "fixture"}));
        // re-laid sfnt with shuffled directory
        let mut d2 = full.dir.clone();
        d2.shuffle(&mut rng);
        let m2 = Member { flavor: dir.version, dir: d2 };
        let b = build_sfnt(&tables, &m2, &mut rng);
        record_container(&mut rec, &format!("{}/sfnt", name), "sfnt", &b, &tables, &[m2], json!({}));
        // collection: 1-3 members, each a random subset sharing the same bodies
        let nm = rng.gen_range(1..=3);
        let mut members = Vec::new();
        for _ in 0..nm {
            let mut d: Vec<(u32, usize)> = full.dir.iter().cloned().filter(|_| rng.gen_bool(0.7)).collect();
            d.shuffle(&mut rng);
            members.push(Member { flavor: [0x00010000u32, 0x4F54544F, 0x74727565][rng.gen_range(0..3)], dir: d });
        }
        let b = build_ttc(&tables, &members, &mut rng);
        record_container(&mut rec, &format!("{}/ttc", name), "ttc", &b, &tables, &members, json!({}));
        // WOFF with random per-table compression
        let mut d3 = full.dir.clone();
        d3.shuffle(&mut rng);
        let m3 = Member { flavor: dir.version, dir: d3 };
        let (b, zipped) = build_woff(&tables, &m3, &mut rng);
        record_container(&mut rec, &format!("{}/woff", name), "woff", &b, &tables, &[m3], json!({"zipped": zipped}));
    }
    let n = rec.w.n;
    rec.w.finish();
    println!("{}", json!({"events": n, "fonts": used}));
}

fn main() {
    let args: Vec<String> = std::env::args().collect();
    match args.get(1).map(|s| s.as_str()) {
        Some("replay") => replay(&args[2], &args[3]),
        Some("record") => record(args[2].parse().expect("seed"), args[3].parse().expect("max fonts"), &args[4]),
        _ => {
            eprintln!("usage: c10_containers replay <cases> <out> | record <seed> <max_fonts> <out>");
            std::process::exit(2);
        }
    }
}
