//! C10 harness: bare sfnt / TrueType collection / WOFF containers.
//!
//!   c10_containers replay <cases.ndjson> <mismatches.ndjson>
//!       CASE lines of MC_Sfnt: file bytes built by the TLA+ writer and, per member index and
//!       tag, what the TLA+ reader prescribes. Feeds the bytes to allsorts and compares.
//!   c10_containers record <seed> <max_fonts> <trace.ndjson>
//!       re-wraps repository fonts as sfnt / TTC (shared tables) / WOFF (real zlib, random
//!       per-table choices) with the harness's own writers, queries allsorts for every
//!       member and tag, records digests; judged by Trace_Sfnt. Before the repository fonts come the
//!       synthesized size-class containers (`record_size_classes`): WOFF files whose tables have
//!       original and compressed sizes on both sides of the I/O boundaries of an inflating reader
//!       (1, 32 KiB, 64 KiB, 128 KiB +-1, several hundred KiB), incompressible / semi-compressible /
//!       highly compressible / window-periodic data, every zlib level, stored raw, hand-made
//!       stored-block streams; the same tables as bare sfnt and as a collection.
use allsorts::binary::read::ReadScope;
use allsorts::font_data::FontData;
use allsorts::tables::{FontTableProvider, OpenTypeData, SfntVersion};
use flate2::write::ZlibEncoder;
use flate2::Compression;
use rand::rngs::StdRng;
use rand::seq::SliceRandom;
use rand::{Rng, SeedableRng};
use serde_json::{json, Value};
use std::io::{Read, Write};
use vh::fontgen::{be16, be32, read_sfnt_dir, W};
use vh::sup::{guarded, Outcome};
use vh::util::{read_ndjson, repo_fonts, NdWriter};

fn b4(v: u32) -> Vec<u8> {
    v.to_be_bytes().to_vec()
}

fn tag_of(v: &Value) -> u32 {
    let b: Vec<u8> = v.as_array().unwrap().iter().map(|x| x.as_u64().unwrap() as u8).collect();
    u32::from_be_bytes([b[0], b[1], b[2], b[3]])
}

fn kind_of(fd: &FontData<'_>) -> &'static str {
    match fd {
        FontData::OpenType(f) => match f.data {
            OpenTypeData::Single(_) => "sfnt",
            OpenTypeData::Collection(_) => "ttc",
        },
        FontData::Woff(_) => "woff",
        FontData::Woff2(_) => "woff2",
    }
}

/// Observation of a whole container in the vocabulary of MC_Sfnt!Expect.
fn observe(bytes: &[u8], n_members: usize, qtags: &[u32]) -> Value {
    let fd = match ReadScope::new(bytes).read::<FontData<'_>>() {
        Ok(fd) => fd,
        Err(_) => return json!({"load": false, "kind": "", "members": []}),
    };
    let mut members = Vec::new();
    for i in 0..n_members {
        match fd.table_provider(i) {
            Err(_) => members.push(json!({"i": i, "ok": false, "flavor": [], "tags": [], "data": [], "has": []})),
            Ok(p) => {
                let tags: Vec<Vec<u8>> = p.table_tags().unwrap_or_default().into_iter().map(b4).collect();
                let mut data = Vec::new();
                let mut has = Vec::new();
                for &t in qtags {
                    data.push(match p.table_data(t) {
                        Ok(Some(d)) => json!({"ok": true, "err": "", "v": ["some", d.to_vec()]}),
                        Ok(None) => json!({"ok": true, "err": "", "v": ["none"]}),
                        Err(_) => json!({"ok": false, "err": "Err", "v": []}),
                    });
                    has.push(p.has_table(t));
                }
                members.push(json!({"i": i, "ok": true, "flavor": b4(p.sfnt_version()), "tags": tags,
                                    "data": data, "has": has}));
            }
        }
    }
    json!({"load": true, "kind": kind_of(&fd), "members": members})
}

fn replay(cases: &str, out: &str) {
    let cases = read_ndjson(cases);
    let mut w = NdWriter::create(out);
    let mut n_queries = 0usize;
    let mut kinds = std::collections::BTreeMap::<String, usize>::new();
    for (ci, case) in cases.iter().enumerate() {
        let bytes: Vec<u8> = case["bytes"].as_array().unwrap().iter().map(|b| b.as_u64().unwrap() as u8).collect();
        let qtags: Vec<u32> = case["qtags"].as_array().unwrap().iter().map(tag_of).collect();
        let n_members = case["exp"]["members"].as_array().map(|m| m.len()).unwrap_or(0).max(1);
        let got = match guarded(|| observe(&bytes, n_members, &qtags)) {
            Outcome::Returned(v) => v,
            Outcome::Panicked(m) => json!({"panic": m}),
        };
        // when loading fails the specification lists no members
        let got = if got["load"] == json!(false) { json!({"load": false, "kind": "", "members": []}) } else { got };
        n_queries += n_members * (qtags.len() * 2 + 2);
        *kinds.entry(format!("{}/{}", case["kind"].as_str().unwrap(), case["damage"].as_str().unwrap())).or_default() += 1;
        if got != case["exp"] {
            w.write(&json!({"case": ci, "kind": case["kind"], "damage": case["damage"], "bytes": bytes,
                            "qtags": case["qtags"], "want": case["exp"], "got": got}));
        }
    }
    let mism = w.n;
    w.finish();
    println!("{}", json!({"cases": cases.len(), "queries": n_queries, "mismatches": mism, "kinds": kinds}));
}

// ---- recording --------------------------------------------------------------------------------

fn digest(d: &[u8]) -> Vec<u32> {
    let mut h: u64 = 0xcbf29ce484222325;
    for &b in d {
        h ^= b as u64;
        h = h.wrapping_mul(0x100000001b3);
    }
    let l = d.len() as u32;
    vec![l & 0xFFFF, l >> 16, (h & 0xFFFF) as u32, ((h >> 16) & 0xFFFF) as u32, ((h >> 32) & 0xFFFF) as u32,
         ((h >> 48) & 0xFFFF) as u32]
}

struct Member {
    flavor: u32,
    dir: Vec<(u32, usize)>, // tag, tid (0-based)
}

fn write_offset_table(w: &mut W, m: &Member, at: &[usize], tables: &[Vec<u8>]) {
    let n = m.dir.len() as u16;
    w.u32(m.flavor).u16(n).u16(0).u16(0).u16(0);
    for (tag, tid) in &m.dir {
        w.u32(*tag).u32(0).u32(at[*tid] as u32).u32(tables[*tid].len() as u32);
    }
}

/// Lay the table bodies (in `order`, each preceded by `gap` zero bytes then aligned or not) starting
/// at `start`; returns their offsets and the bytes.
fn lay_bodies(bodies: &[Vec<u8>], order: &[usize], start: usize, rng: &mut StdRng) -> (Vec<usize>, Vec<u8>) {
    let mut at = vec![0usize; bodies.len()];
    let mut out = Vec::new();
    for &t in order {
        let gap = match rng.gen_range(0..4) {
            0 => 0,
            1 => (4 - (start + out.len()) % 4) % 4,
            _ => rng.gen_range(0..6),
        };
        out.extend(std::iter::repeat(0u8).take(gap));
        at[t] = start + out.len();
        out.extend_from_slice(&bodies[t]);
    }
    (at, out)
}

fn build_ttc(tables: &[Vec<u8>], members: &[Member], rng: &mut StdRng) -> Vec<u8> {
    let mut order: Vec<usize> = (0..tables.len()).collect();
    order.shuffle(rng);
    let hdr = 12 + 4 * members.len();
    let dirs: usize = members.iter().map(|m| 12 + 16 * m.dir.len()).sum();
    let (at, bodies) = lay_bodies(tables, &order, hdr + dirs, rng);
    let mut w = W::new();
    w.tag("ttcf").u16(if rng.gen_bool(0.5) { 1 } else { 2 }).u16(0).u32(members.len() as u32);
    let mut p = hdr;
    for m in members {
        w.u32(p as u32);
        p += 12 + 16 * m.dir.len();
    }
    for m in members {
        write_offset_table(&mut w, m, &at, tables);
    }
    w.bytes(&bodies);
    w.done()
}

fn build_sfnt(tables: &[Vec<u8>], m: &Member, rng: &mut StdRng) -> Vec<u8> {
    let mut order: Vec<usize> = (0..tables.len()).collect();
    order.shuffle(rng);
    let (at, bodies) = lay_bodies(tables, &order, 12 + 16 * m.dir.len(), rng);
    let mut w = W::new();
    write_offset_table(&mut w, m, &at, tables);
    w.bytes(&bodies);
    w.done()
}

fn zlib(data: &[u8], level: u32) -> Vec<u8> {
    let mut e = ZlibEncoder::new(Vec::new(), Compression::new(level));
    e.write_all(data).unwrap();
    e.finish().unwrap()
}

fn build_woff(tables: &[Vec<u8>], m: &Member, rng: &mut StdRng) -> (Vec<u8>, Vec<bool>) {
    // per-table: stored raw, or zlib at a random level (kept only if the stream length differs
    // from the table length, otherwise the entry would read as uncompressed)
    let mut stored: Vec<Vec<u8>> = Vec::new();
    let mut zipped = Vec::new();
    for t in tables {
        let mut z = false;
        let mut s = t.clone();
        if rng.gen_bool(0.7) {
            let c = zlib(t, rng.gen_range(0..=9));
            if c.len() != t.len() {
                s = c;
                z = true;
            }
        }
        stored.push(s);
        zipped.push(z);
    }
    (build_woff_stored(tables, &stored, m, rng), zipped)
}

/// WOFF file around given stored forms (`stored[t]` is `tables[t]` itself or a zlib stream of it).
fn build_woff_stored(tables: &[Vec<u8>], stored: &[Vec<u8>], m: &Member, rng: &mut StdRng) -> Vec<u8> {
    let mut order: Vec<usize> = (0..tables.len()).collect();
    order.shuffle(rng);
    let hdr = 44 + 20 * m.dir.len();
    let (at, bodies) = lay_bodies(stored, &order, hdr, rng);
    let mut w = W::new();
    w.tag("wOFF").u32(m.flavor).u32((hdr + bodies.len()) as u32).u16(m.dir.len() as u16).u16(0);
    w.u32(0).u16(1).u16(0).u32(0).u32(0).u32(0).u32(0).u32(0);
    for (tag, tid) in &m.dir {
        w.u32(*tag).u32(at[*tid] as u32).u32(stored[*tid].len() as u32).u32(tables[*tid].len() as u32).u32(0);
    }
    w.bytes(&bodies);
    w.done()
}

/// Independent WOFF 1 reader: (flavor, [(tag, content)]).
fn read_woff_independent(d: &[u8]) -> Option<(u32, Vec<(u32, Vec<u8>)>)> {
    if d.get(0..4)? != b"wOFF" {
        return None;
    }
    let flavor = be32(d, 4)?;
    let n = be16(d, 12)? as usize;
    // WOFF 1.0: "reserved: must be set to zero" - a file that breaks it is not a WOFF file in the
    // sense of the property (W3C fixture header-reserved-001 is an invalid file that readers must reject)
    if be16(d, 14)? != 0 {
        return None;
    }
    let mut out = Vec::new();
    for i in 0..n {
        let r = 44 + 20 * i;
        let (tag, off, comp, orig) = (be32(d, r)?, be32(d, r + 4)? as usize, be32(d, r + 8)? as usize, be32(d, r + 12)? as usize);
        let raw = d.get(off..off + comp)?;
        let content = if comp != orig {
            let mut v = Vec::new();
            flate2::read::ZlibDecoder::new(raw).read_to_end(&mut v).ok()?;
            v
        } else {
            raw.to_vec()
        };
        out.push((tag, content));
    }
    Some((flavor, out))
}

struct Rec {
    w: NdWriter,
    i: u64,
}

impl Rec {
    fn ev(&mut self, case: &str, ev: &str, a: Value, o: Value) {
        self.i += 1;
        self.w.write(&json!({"i": self.i, "case": case, "ev": ev, "a": a, "o": o}));
    }
}

fn record_container(rec: &mut Rec, case: &str, kind: &str, bytes: &[u8], tables: &[Vec<u8>], members: &[Member], extra: Value) {
    let digests: Vec<Vec<u32>> = tables.iter().map(|t| digest(t)).collect();
    let ms: Vec<Value> = members
        .iter()
        .map(|m| json!({"flavor": b4(m.flavor),
                        "dir": m.dir.iter().map(|(t, id)| json!({"tag": b4(*t), "tid": id + 1})).collect::<Vec<_>>()}))
        .collect();
    rec.ev(case, "Container", json!({"kind": kind, "members": ms, "digests": digests, "extra": extra}), json!({}));
    let loaded = guarded(|| ReadScope::new(bytes).read::<FontData<'_>>().map(|fd| kind_of(&fd).to_string()).map_err(|e| format!("{:?}", e)));
    let lk = match &loaded {
        Outcome::Returned(Ok(k)) => json!({"ok": true, "kind": k}),
        Outcome::Returned(Err(_)) => json!({"ok": false, "kind": "Err"}),
        Outcome::Panicked(m) => json!({"ok": false, "kind": format!("Panic: {}", m)}),
    };
    rec.ev(case, "Load", json!({}), lk);
    // (a panic while loading is already on record in the Load event)
    let fd = match guarded(|| ReadScope::new(bytes).read::<FontData<'_>>()) {
        Outcome::Returned(Ok(fd)) => fd,
        _ => return,
    };
    let mut all_tags: Vec<u32> = members.iter().flat_map(|m| m.dir.iter().map(|d| d.0)).collect();
    all_tags.sort();
    all_tags.dedup();
    all_tags.push(u32::from_be_bytes(*b"zzZZ"));
    for i in 0..members.len() + 2 {
        let r = guarded(|| {
            let mut evs: Vec<(String, Value, Value)> = Vec::new();
            match fd.table_provider(i) {
                Err(_) => evs.push(("Provider".into(), json!({"member": i}), json!({"ok": false, "flavor": [], "tags": []}))),
                Ok(p) => {
                    let tags: Vec<Vec<u8>> = p.table_tags().unwrap_or_default().into_iter().map(b4).collect();
                    evs.push(("Provider".into(), json!({"member": i}), json!({"ok": true, "flavor": b4(p.sfnt_version()), "tags": tags})));
                    for &t in &all_tags {
                        let o = match p.table_data(t) {
                            Ok(Some(d)) => json!({"ok": true, "some": true, "digest": digest(&d), "has": p.has_table(t)}),
                            Ok(None) => json!({"ok": true, "some": false, "digest": [], "has": p.has_table(t)}),
                            Err(_) => json!({"ok": false, "some": false, "digest": [], "has": p.has_table(t)}),
                        };
                        evs.push(("Query".into(), json!({"member": i, "tag": b4(t)}), o));
                    }
                }
            }
            evs
        });
        match r {
            Outcome::Returned(evs) => {
                for (ev, a, o) in evs {
                    rec.ev(case, &ev, a, o);
                }
            }
            Outcome::Panicked(m) => rec.ev(case, "Provider", json!({"member": i}), json!({"ok": false, "flavor": [], "tags": [], "panic": m})),
        }
    }
}

// ---- size classes: tables on both sides of the I/O boundaries of an inflating reader -------------

fn adler32(d: &[u8]) -> u32 {
    let (mut a, mut b) = (1u32, 0u32);
    for &x in d {
        a = (a + x as u32) % 65521;
        b = (b + a) % 65521;
    }
    (b << 16) | a
}

/// A zlib stream made of stored deflate blocks of at most `block` bytes, written by hand (no encoder
/// involved): its length is 2 + 5 * blocks + data + 4 exactly.
fn own_stored(data: &[u8], block: usize) -> Vec<u8> {
    let mut out = vec![0x78, 0x01];
    let chunks: Vec<&[u8]> = if data.is_empty() { vec![&data[0..0]] } else { data.chunks(block.min(65535)).collect() };
    for (k, c) in chunks.iter().enumerate() {
        out.push(if k + 1 == chunks.len() { 1 } else { 0 });
        let n = c.len() as u16;
        out.extend_from_slice(&n.to_le_bytes());
        out.extend_from_slice(&(!n).to_le_bytes());
        out.extend_from_slice(c);
    }
    out.extend_from_slice(&adler32(data).to_be_bytes());
    out
}

/// Data length whose `own_stored` stream with blocks of `block` bytes is exactly `target` bytes long.
fn blocks_n(target: usize, block: usize) -> usize {
    for nb in 1..target {
        let n = target - 6 - 5 * nb;
        if (n + block - 1) / block == nb {
            return n;
        }
    }
    unreachable!()
}

fn data_rand(rng: &mut StdRng, n: usize) -> Vec<u8> {
    let mut v = vec![0u8; n];
    rng.fill(&mut v[..]);
    v
}

/// Semi-compressible data: a stream of words drawn from a small random dictionary (about 2:1).
fn data_text(rng: &mut StdRng, n: usize) -> Vec<u8> {
    let words: Vec<Vec<u8>> = (0..600).map(|_| { let l = rng.gen_range(2..9); data_rand(rng, l) }).collect();
    let mut v = Vec::with_capacity(n + 8);
    while v.len() < n {
        v.extend_from_slice(&words[rng.gen_range(0..words.len())]);
        if rng.gen_bool(0.2) {
            v.push(rng.gen());
        }
    }
    v.truncate(n);
    v
}

/// A random block of `p` bytes repeated up to `n` bytes (matches at distance `p`: 32768 is the largest
/// distance a deflate stream can express, 32769 is just outside the window).
fn data_period(rng: &mut StdRng, p: usize, n: usize) -> Vec<u8> {
    let blockv = data_rand(rng, p);
    (0..n).map(|k| blockv[k % p]).collect()
}

struct SynTable {
    data: Vec<u8>,
    stored: Vec<u8>,
    kind: String, // what the data is
    how: String,  // "raw" | "zlib-<level>" | "blocks-<size>"
}

fn syn(kind: &str, data: Vec<u8>, how: &str) -> SynTable {
    let stored = if how == "raw" {
        data.clone()
    } else if let Some(l) = how.strip_prefix("zlib-") {
        zlib(&data, l.parse().unwrap())
    } else if let Some(b) = how.strip_prefix("blocks-") {
        own_stored(&data, b.parse().unwrap())
    } else {
        unreachable!()
    };
    // a stream exactly as long as the table would read as an uncompressed entry: store such a table raw
    if stored.len() == data.len() && how != "raw" {
        return SynTable { stored: data.clone(), data, kind: kind.to_string(), how: "raw".to_string() };
    }
    SynTable { data, stored, kind: kind.to_string(), how: how.to_string() }
}

/// Binary search for a length n with |zlib(make(n))| <= target < |zlib(make(n + 1))| (the invariant
/// of the search holds at both ends whether or not the compressed size is monotone in n).
fn search_boundary(make: &dyn Fn(usize) -> Vec<u8>, level: u32, target: usize, mut hi: usize) -> usize {
    let mut lo = 0usize;
    assert!(zlib(&make(lo), level).len() <= target);
    while zlib(&make(hi), level).len() <= target {
        hi *= 2;
    }
    while hi - lo > 1 {
        let mid = (lo + hi) / 2;
        if zlib(&make(mid), level).len() <= target {
            lo = mid;
        } else {
            hi = mid;
        }
    }
    lo
}

fn size_class(n: usize) -> String {
    const EXACT: [usize; 13] = [0, 1, 32767, 32768, 32769, 65535, 65536, 65537, 131071, 131072, 131073, 262144, 262145];
    if EXACT.contains(&n) {
        return format!("={}", n);
    }
    for (k, &e) in EXACT.iter().enumerate() {
        if n < e {
            return format!("={}..{}", EXACT[k - 1] + 1, e - 1);
        }
    }
    ">=262146".to_string()
}

type Classes = std::collections::BTreeMap<String, usize>;

fn count_classes(classes: &mut Classes, wrap: &str, t: &SynTable) {
    let mut add = |c: String| *classes.entry(c).or_default() += 1;
    let (orig, comp) = (t.data.len(), t.stored.len());
    add(format!("{}:orig{}", wrap, size_class(orig)));
    add(format!("{}:data:{}", wrap, t.kind));
    if wrap != "woff" {
        return;
    }
    add(format!("woff:how:{}", t.how));
    if t.how == "raw" {
        return;
    }
    add(format!("woff:comp{}", size_class(comp)));
    add(format!("woff:{}", if comp < orig { "comp<orig" } else { "comp>orig" }));
    for b in [32768usize, 65536] {
        let side = if comp <= b { "<=" } else { ">" };
        add(format!("woff:how:{}:comp{}{}", t.how, side, b));
        if comp < orig {
            add(format!("woff:comp<orig:comp{}{}", side, b));
        }
        add(format!("woff:data:{}:comp{}{}", t.kind, side, b));
    }
}

fn syn_tag(family: usize, k: usize) -> u32 {
    u32::from_be_bytes([b'a' + family as u8, b'0' + (k / 100) as u8, b'0' + (k / 10 % 10) as u8, b'0' + (k % 10) as u8])
}

fn record_syn_woff(rec: &mut Rec, classes: &mut Classes, family: usize, name: &str, ts: &[SynTable], rng: &mut StdRng) {
    let tables: Vec<Vec<u8>> = ts.iter().map(|t| t.data.clone()).collect();
    let stored: Vec<Vec<u8>> = ts.iter().map(|t| t.stored.clone()).collect();
    let mut dir: Vec<(u32, usize)> = (0..ts.len()).map(|k| (syn_tag(family, k), k)).collect();
    dir.shuffle(rng);
    let m = Member { flavor: [0x00010000u32, 0x4F54544F, 0x74727565][family % 3], dir };
    let b = build_woff_stored(&tables, &stored, &m, rng);
    let info: Vec<Value> = ts
        .iter()
        .enumerate()
        .map(|(k, t)| json!({"tag": b4(syn_tag(family, k)), "data": t.kind, "how": t.how, "orig": t.data.len(), "comp": t.stored.len()}))
        .collect();
    for t in ts {
        count_classes(classes, "woff", t);
    }
    record_container(rec, &format!("syn-{}/woff", name), "woff", &b, &tables, &[m], json!({"source": "synthesized", "tables": info}));
}

/// Synthesized containers whose tables sit on both sides of the boundaries an inflating reader has
/// (its input buffer, its output buffer, the deflate window, the stored-block limit).  Everything here
/// is decided by the harness (sizes, data, levels); the counters returned describe these inputs only.
fn record_size_classes(rec: &mut Rec, seed: u64) -> Classes {
    let mut rng = StdRng::seed_from_u64(seed ^ 0x5157_C1A5);
    let mut classes = Classes::new();
    let rbuf = data_rand(&mut rng, 300_000);
    let tbuf = data_text(&mut rng, 1_400_000);

    // family 0 "exact": incompressible head + run of zeros, real deflate, compressed size searched to land on
    // the boundary and one past it (valid WOFF: the stream is shorter than the table)
    let mut ts = Vec::new();
    for (k, &target) in [32767usize, 32768, 65535, 65536, 131071, 131072, 262144].iter().enumerate() {
        let level = 1 + (k as u32 * 4 + (seed % 9) as u32) % 9;
        let make = |n: usize| -> Vec<u8> {
            let mut v = rbuf[..n].to_vec();
            v.extend(std::iter::repeat(0u8).take(9000));
            v
        };
        let n = search_boundary(&make, level, target, target);
        ts.push(syn("rand+zeros", make(n), &format!("zlib-{}", level)));
        ts.push(syn("rand+zeros", make(n + 1), &format!("zlib-{}", level)));
    }
    record_syn_woff(rec, &mut classes, 0, "exact", &ts, &mut rng);

    // family 1 "blocks": hand-made stored-block streams, compressed size exact by construction
    let mut ts = Vec::new();
    for target in [32767usize, 32768, 32769, 65535, 65536, 65537] {
        ts.push(syn("rand", rbuf[..target - 11].to_vec(), "blocks-65535"));
    }
    ts.push(syn("rand", rbuf[..blocks_n(131072, 65535)].to_vec(), "blocks-65535"));
    ts.push(syn("rand", rbuf[..blocks_n(131073, 65535)].to_vec(), "blocks-65535"));
    ts.push(syn("rand", rbuf[..blocks_n(262144, 32768)].to_vec(), "blocks-32768"));
    ts.push(syn("rand", rbuf[..blocks_n(262145, 4096)].to_vec(), "blocks-4096"));
    ts.push(syn("rand", rbuf[..65535].to_vec(), "blocks-65535")); // one full block
    ts.push(syn("rand", rbuf[..65536].to_vec(), "blocks-65535")); // full block + one byte
    ts.push(syn("text", tbuf[..7000].to_vec(), "blocks-1")); // 7000 one-byte blocks, 42006 bytes of stream
    ts.push(syn("text", tbuf[..98304].to_vec(), "blocks-32768"));
    ts.push(syn("empty", Vec::new(), "blocks-1")); // 11 bytes for nothing
    ts.push(syn("rand", rbuf[..1].to_vec(), "blocks-1"));
    record_syn_woff(rec, &mut classes, 1, "blocks", &ts, &mut rng);

    // family 2 "levels": every zlib level, semi-compressible data, stream just below / above 32 KiB
    // (level 0 = the encoder's own stored blocks), and above 64 KiB for three levels
    let mut ts = Vec::new();
    for level in 0..=9u32 {
        let make = |n: usize| tbuf[..n].to_vec();
        let n = search_boundary(&make, level, 32768, 100_000);
        ts.push(syn("text", make(n), &format!("zlib-{}", level)));
        ts.push(syn("text", make(n + 1), &format!("zlib-{}", level)));
        if level % 4 == 1 {
            let n = search_boundary(&make, level, 65536, 200_000);
            ts.push(syn("text", make(n), &format!("zlib-{}", level)));
            ts.push(syn("text", make(n + 1), &format!("zlib-{}", level)));
        }
    }
    record_syn_woff(rec, &mut classes, 2, "levels", &ts, &mut rng);

    // family 3 "orig": original sizes around the boundaries, highly compressible (tiny streams) and raw
    let mut ts = Vec::new();
    for (k, &n) in [1usize, 2, 3, 32767, 32768, 32769, 65535, 65536, 65537, 131072, 262144, 262145].iter().enumerate() {
        let level = (k as u32 + (seed % 10) as u32) % 10;
        let level = if level == 0 { 6 } else { level };
        ts.push(syn("period7", data_period(&mut rng, 7, n), &format!("zlib-{}", level)));
        ts.push(syn("zeros", vec![0u8; n], &format!("zlib-{}", 10 - level)));
        ts.push(syn("rand", rbuf[..n].to_vec(), "raw"));
    }
    ts.push(syn("empty", Vec::new(), "raw"));
    ts.push(syn("empty", Vec::new(), "zlib-6")); // 8 bytes of stream, no data
    // a table that is itself a zlib stream, stored raw: must come back verbatim, not inflated
    ts.push(syn("zlib-stream", zlib(&tbuf[..5000], 6), "raw"));
    record_syn_woff(rec, &mut classes, 3, "orig", &ts, &mut rng);

    // family 4 "big": several hundred KiB on either side
    let mut ts = Vec::new();
    ts.push(syn("text", tbuf[..700_000].to_vec(), "zlib-1"));
    ts.push(syn("text", tbuf[..1_400_000].to_vec(), "zlib-9"));
    ts.push(syn("text", tbuf[100_000..500_000].to_vec(), "zlib-6"));
    let mut v = rbuf[..280_000].to_vec();
    v.extend(std::iter::repeat(0u8).take(150_000));
    v.extend_from_slice(&rbuf[..20_000]);
    ts.push(syn("rand+zeros", v, "zlib-6"));
    ts.push(syn("zeros", vec![0u8; 1_000_000], "zlib-9"));
    ts.push(syn("period32768", data_period(&mut rng, 32768, 400_000), "zlib-9"));
    ts.push(syn("period32768", data_period(&mut rng, 32768, 400_001), "zlib-2"));
    ts.push(syn("period32769", data_period(&mut rng, 32769, 200_000), "zlib-9"));
    ts.push(syn("period258", data_period(&mut rng, 258, 300_000), "zlib-5"));
    ts.push(syn("rand", rbuf[..300_000].to_vec(), "zlib-3")); // incompressible: the stream is longer than the table
    ts.push(syn("rand", rbuf[..270_000].to_vec(), "zlib-0"));
    ts.push(syn("rand", rbuf[..300_000].to_vec(), "raw"));
    ts.push(syn("text", tbuf[..300_000].to_vec(), "raw"));
    let big: Vec<Vec<u8>> = ts.iter().map(|t| t.data.clone()).collect();
    record_syn_woff(rec, &mut classes, 4, "big", &ts, &mut rng);

    // the big tables as a bare sfnt and as a collection sharing them (offsets beyond 64 KiB / 1 MiB)
    for t in &ts {
        count_classes(&mut classes, "sfnt", t);
        count_classes(&mut classes, "ttc", t);
    }
    let mut dir: Vec<(u32, usize)> = (0..big.len()).map(|k| (syn_tag(5, k), k)).collect();
    dir.shuffle(&mut rng);
    let m = Member { flavor: 0x00010000, dir: dir.clone() };
    let b = build_sfnt(&big, &m, &mut rng);
    record_container(rec, "syn-big/sfnt", "sfnt", &b, &big, &[m], json!({"source": "synthesized"}));
    let members: Vec<Member> = (0..3)
        .map(|j| {
            let mut d: Vec<(u32, usize)> = dir.iter().cloned().filter(|(_, k)| k % 3 != j).collect();
            d.shuffle(&mut rng);
            Member { flavor: [0x4F54544Fu32, 0x00010000, 0x74727565][j], dir: d }
        })
        .collect();
    let b = build_ttc(&big, &members, &mut rng);
    record_container(rec, "syn-big/ttc", "ttc", &b, &big, &members, json!({"source": "synthesized"}));
    classes
}

fn record(seed: u64, max_fonts: usize, out: &str) {
    let mut rng = StdRng::seed_from_u64(seed);
    let mut rec = Rec { w: NdWriter::create(out), i: 0 };
    let classes = record_size_classes(&mut rec, seed);
    let syn_events = rec.w.n;
    let mut fonts = repo_fonts();
    fonts.shuffle(&mut rng);
    let mut used = 0;
    for path in fonts {
        if used >= max_fonts {
            break;
        }
        let data = match std::fs::read(&path) {
            Ok(d) if d.len() > 12 => d,
            _ => continue,
        };
        let name = path.rsplit('/').next().unwrap().to_string();
        if path.ends_with(".woff") {
            if let Some((flavor, tabs)) = read_woff_independent(&data) {
                let tables: Vec<Vec<u8>> = tabs.iter().map(|t| t.1.clone()).collect();
                let m = Member { flavor, dir: tabs.iter().enumerate().map(|(k, t)| (t.0, k)).collect() };
                record_container(&mut rec, &format!("{}/asis", name), "woff", &data, &tables, &[m], json!({"source": "fixture"}));
                used += 1;
            }
            continue;
        }
        let dir = match read_sfnt_dir(&data, 0) {
            Some(d) if [0x00010000u32, 0x4F54544F, 0x74727565].contains(&d.version) => d,
            _ => continue,
        };
        let mut tables: Vec<Vec<u8>> = Vec::new();
        let mut tags: Vec<u32> = Vec::new();
        let mut okay = true;
        for r in &dir.records {
            match data.get(r.2 as usize..(r.2 as usize + r.3 as usize)) {
                Some(t) => {
                    tables.push(t.to_vec());
                    tags.push(r.0);
                }
                None => okay = false,
            }
        }
        if !okay || tables.is_empty() {
            continue;
        }
        used += 1;
        // the fixture as it is
        let full = Member { flavor: dir.version, dir: tags.iter().enumerate().map(|(k, t)| (*t, k)).collect() };
        record_container(&mut rec, &format!("{}/asis", name), "sfnt", &data, &tables, &[Member { flavor: full.flavor, dir: full.dir.clone() }], json!({"source": "fixture"}));
        // re-laid sfnt with shuffled directory
        let mut d2 = full.dir.clone();
        d2.shuffle(&mut rng);
        let m2 = Member { flavor: dir.version, dir: d2 };
        let b = build_sfnt(&tables, &m2, &mut rng);
        record_container(&mut rec, &format!("{}/sfnt", name), "sfnt", &b, &tables, &[m2], json!({}));
        // collection: 1-3 members, each a random subset sharing the same bodies
        let nm = rng.gen_range(1..=3);
        let mut members = Vec::new();
        for _ in 0..nm {
            let mut d: Vec<(u32, usize)> = full.dir.iter().cloned().filter(|_| rng.gen_bool(0.7)).collect();
            d.shuffle(&mut rng);
            members.push(Member { flavor: [0x00010000u32, 0x4F54544F, 0x74727565][rng.gen_range(0..3)], dir: d });
        }
        let b = build_ttc(&tables, &members, &mut rng);
        record_container(&mut rec, &format!("{}/ttc", name), "ttc", &b, &tables, &members, json!({}));
        // WOFF with random per-table compression
        let mut d3 = full.dir.clone();
        d3.shuffle(&mut rng);
        let m3 = Member { flavor: dir.version, dir: d3 };
        let (b, zipped) = build_woff(&tables, &m3, &mut rng);
        record_container(&mut rec, &format!("{}/woff", name), "woff", &b, &tables, &[m3], json!({"zipped": zipped}));
    }
    let n = rec.w.n;
    rec.w.finish();
    println!("{}", json!({"events": n, "fonts": used, "synthesized_events": syn_events, "size_classes": classes}));
}

fn main() {
    let args: Vec<String> = std::env::args().collect();
    match args.get(1).map(|s| s.as_str()) {
        Some("replay") => replay(&args[2], &args[3]),
        Some("record") => record(args[2].parse().expect("seed"), args[3].parse().expect("max fonts"), &args[4]),
        _ => {
            eprintln!("usage: c10_containers replay <cases> <out> | record <seed> <max_fonts> <out>");
            std::process::exit(2);
        }
    }
}
