//! C10 harness: bare sfnt / TrueType collection / WOFF containers.
//!
//!   c10_containers replay <cases.ndjson> <mismatches.ndjson>
//!       CASE lines of MC_Sfnt: file bytes built by the TLA+ writer and, per member index and
//!       tag, what the TLA+ reader prescribes. Feeds the bytes to allsorts and compares.
//!   c10_containers record <seed> <max_fonts> <trace.ndjson>
//!       re-wraps repository fonts as sfnt / TTC (shared tables) / WOFF (real zlib, random
//!       per-table choices) with the harness's own writers, queries allsorts for every
//!       member and tag, records digests; judged by Trace_Sfnt. Before the repository fonts come the
//!       synthesized size-class containers (`record_size_classes`): WOFF files whose tables have
//!       original and compressed sizes on both sides of the I/O boundaries of an inflating reader
//!       (1, 32 KiB, 64 KiB, 128 KiB +-1, several hundred KiB), incompressible / semi-compressible /
//!       highly compressible / window-periodic data, every zlib level, stored raw, hand-made
//!       stored-block streams; the same tables as bare sfnt and as a collection.
use allsorts::binary::read::ReadScope;
use allsorts::font_data::FontData;
use allsorts::error::ParseError;
use allsorts::tables::{FontTableProvider, OpenTypeData, OpenTypeFont, SfntVersion};
use allsorts::woff::WoffFont;
use flate2::write::ZlibEncoder;
use flate2::Compression;
use rand::rngs::StdRng;
use rand::seq::SliceRandom;
use rand::{Rng, SeedableRng};
use serde_json::{json, Value};
use std::io::{BufRead, BufReader, Read, Write};
use vh::fontgen::{be16, be32, read_sfnt_dir, W};
use vh::sup::{guarded, Outcome};
use vh::util::{repo_fonts, NdWriter};

fn b4(v: u32) -> Vec<u8> {
    v.to_be_bytes().to_vec()
}

fn tag_of(v: &Value) -> u32 {
    let b: Vec<u8> = v.as_array().unwrap().iter().map(|x| x.as_u64().unwrap() as u8).collect();
    u32::from_be_bytes([b[0], b[1], b[2], b[3]])
}

fn kind_of(fd: &FontData<'_>) -> &'static str {
    match fd {
        FontData::OpenType(f) => match f.data {
            OpenTypeData::Single(_) => "sfnt",
            OpenTypeData::Collection(_) => "ttc",
        },
        FontData::Woff(_) => "woff",
        FontData::Woff2(_) => "woff2",
    }
}

/// MC_Sfnt!FarIdx as usize values: member indices far beyond every collection (the names are the specification's).
const FAR_IDX: [usize; 8] = [1 << 16, 1 << 31, 1 << 32, (1 << 32) + 1, 1 << 62, (1 << 62) + 1, 1 << 63, usize::MAX];

/// Observation of a whole container in the vocabulary of MC_Sfnt!Expect.
fn observe(bytes: &[u8], n_members: usize, qtags: &[u32]) -> Value {
    let fd = match ReadScope::new(bytes).read::<FontData<'_>>() {
        Ok(fd) => fd,
        Err(_) => return json!({"load": false, "kind": "", "members": [], "far": []}),
    };
    let mut members = Vec::new();
    for i in 0..n_members {
        match fd.table_provider(i) {
            Err(_) => members.push(json!({"i": i, "ok": false, "flavor": [], "tags": [], "data": [], "has": []})),
            Ok(p) => {
                let tags: Vec<Vec<u8>> = p.table_tags().unwrap_or_default().into_iter().map(b4).collect();
                let mut data = Vec::new();
                let mut has = Vec::new();
                for &t in qtags {
                    data.push(match p.table_data(t) {
                        Ok(Some(d)) => json!({"ok": true, "err": "", "v": ["some", d.to_vec()]}),
                        Ok(None) => json!({"ok": true, "err": "", "v": ["none"]}),
                        Err(_) => json!({"ok": false, "err": "Err", "v": []}),
                    });
                    has.push(p.has_table(t));
                }
                members.push(json!({"i": i, "ok": true, "flavor": b4(p.sfnt_version()), "tags": tags,
                                    "data": data, "has": has}));
            }
        }
    }
    let far: Vec<bool> = FAR_IDX.iter().map(|&i| fd.table_provider(i).is_ok()).collect();
    json!({"load": true, "kind": kind_of(&fd), "members": members, "far": far})
}

/// What one provider answers, in the vocabulary of MC_Sfnt!MemberObs. `data` decides how the table bytes are asked for.
fn member_obs<P: FontTableProvider + SfntVersion>(i: usize, p: &P, qtags: &[u32], data: &dyn Fn(u32) -> Value) -> Value {
    let tags: Vec<Vec<u8>> = p.table_tags().unwrap_or_default().into_iter().map(b4).collect();
    let mut d = Vec::new();
    let mut has = Vec::new();
    for &t in qtags {
        d.push(data(t));
        has.push(p.has_table(t));
    }
    json!({"i": i, "ok": true, "flavor": b4(p.sfnt_version()), "tags": tags, "data": d, "has": has})
}

fn some(d: &[u8]) -> Value {
    json!({"ok": true, "err": "", "v": ["some", d.to_vec()]})
}
fn none() -> Value {
    json!({"ok": true, "err": "", "v": ["none"]})
}
fn err() -> Value {
    json!({"ok": false, "err": "Err", "v": []})
}
fn no_member(i: usize) -> Value {
    json!({"i": i, "ok": false, "flavor": [], "tags": [], "data": [], "has": []})
}

/// The same observation without FontData / DynamicFontTableProvider: OpenTypeFont::read + OpenTypeFont::table_provider
/// (OffsetTableFontProvider) and WoffFont::read (WoffFont is its own provider); tables through the default method
/// read_table_data (absence = ParseError::MissingTable of that tag).
fn observe_direct(bytes: &[u8], n_members: usize, qtags: &[u32]) -> Value {
    let via_rtd = |p: &dyn FontTableProvider, t: u32| match p.read_table_data(t) {
        Ok(d) => some(&d),
        Err(ParseError::MissingTable(m)) if m == t => none(),
        Err(_) => err(),
    };
    if bytes.len() >= 4 && &bytes[0..4] == b"wOFF" {
        let w = match ReadScope::new(bytes).read::<WoffFont<'_>>() {
            Ok(w) => w,
            Err(_) => return json!({"load": false, "kind": "", "members": [], "far": []}),
        };
        let members: Vec<Value> = (0..n_members).map(|i| member_obs(i, &w, qtags, &|t| via_rtd(&w, t))).collect();
        // WoffFont is its own provider: there is no index to consult
        return json!({"load": true, "kind": "woff", "members": members, "far": vec![true; FAR_IDX.len()]});
    }
    let f = match ReadScope::new(bytes).read::<OpenTypeFont<'_>>() {
        Ok(f) => f,
        Err(_) => return json!({"load": false, "kind": "", "members": [], "far": []}),
    };
    let kind = match f.data {
        OpenTypeData::Single(_) => "sfnt",
        OpenTypeData::Collection(_) => "ttc",
    };
    let members: Vec<Value> = (0..n_members)
        .map(|i| match f.table_provider(i) {
            Err(_) => no_member(i),
            Ok(p) => member_obs(i, &p, qtags, &|t| via_rtd(&p, t)),
        })
        .collect();
    let far: Vec<bool> = FAR_IDX.iter().map(|&i| f.table_provider(i).is_ok()).collect();
    json!({"load": true, "kind": kind, "members": members, "far": far})
}

/// The anchors' own grain: OpenTypeFont::offset_table(i) -> OffsetTable::find_table_record / read_table on the file
/// scope, WoffFont::find_table_directory_entry -> TableDirectoryEntry::read_table. Tags and flavour from the fields.
fn observe_records(bytes: &[u8], n_members: usize, qtags: &[u32]) -> Value {
    if bytes.len() >= 4 && &bytes[0..4] == b"wOFF" {
        let w = match ReadScope::new(bytes).read::<WoffFont<'_>>() {
            Ok(w) => w,
            Err(_) => return json!({"load": false, "kind": "", "members": [], "far": []}),
        };
        let tags: Vec<Vec<u8>> = w.table_directory.iter().map(|e| b4(e.tag)).collect();
        let mut data = Vec::new();
        let mut has = Vec::new();
        for &t in qtags {
            let e = w.find_table_directory_entry(t);
            has.push(e.is_some());
            data.push(match e {
                None => none(),
                Some(e) => match e.read_table(&w.scope) {
                    Ok(b) => some(&b.into_data()),
                    Err(_) => err(),
                },
            });
        }
        let members: Vec<Value> = (0..n_members)
            .map(|i| json!({"i": i, "ok": true, "flavor": b4(w.flavor()), "tags": tags, "data": data, "has": has}))
            .collect();
        return json!({"load": true, "kind": "woff", "members": members, "far": vec![true; FAR_IDX.len()]});
    }
    let f = match ReadScope::new(bytes).read::<OpenTypeFont<'_>>() {
        Ok(f) => f,
        Err(_) => return json!({"load": false, "kind": "", "members": [], "far": []}),
    };
    let kind = match f.data {
        OpenTypeData::Single(_) => "sfnt",
        OpenTypeData::Collection(_) => "ttc",
    };
    let mut members = Vec::new();
    for i in 0..n_members {
        let ot = match f.offset_table(i) {
            Ok(ot) => ot,
            Err(_) => {
                members.push(no_member(i));
                continue;
            }
        };
        let tags: Vec<Vec<u8>> = ot.table_records.iter().map(|r| b4(r.table_tag)).collect();
        let mut data = Vec::new();
        let mut has = Vec::new();
        for &t in qtags {
            has.push(ot.find_table_record(t).is_some());
            data.push(match ot.read_table(&f.scope, t) {
                Ok(Some(sc)) => some(sc.data()),
                Ok(None) => none(),
                Err(_) => err(),
            });
        }
        members.push(json!({"i": i, "ok": true, "flavor": b4(ot.sfnt_version), "tags": tags, "data": data, "has": has}));
    }
    let far: Vec<bool> = FAR_IDX.iter().map(|&i| f.offset_table(i).is_ok()).collect();
    json!({"load": true, "kind": kind, "members": members, "far": far})
}

fn replay(cases: &str, out: &str) {
    // streamed: the thorough tier's CASE file has several hundred MB
    let input = BufReader::new(std::fs::File::open(cases).expect("cases file"));
    let mut n_cases = 0usize;
    let mut w = NdWriter::create(out);
    let mut n_queries = 0usize;
    let mut kinds = std::collections::BTreeMap::<String, usize>::new();
    let mut variants = std::collections::BTreeMap::<String, usize>::new();
    type Route = fn(&[u8], usize, &[u32]) -> Value;
    let routes: [(&str, Route); 3] = [("fontdata", observe), ("direct", observe_direct), ("records", observe_records)];
    for (ci, line) in input.lines().enumerate() {
        let line = line.expect("read cases");
        if line.trim().is_empty() {
            continue;
        }
        let case: Value = serde_json::from_str(&line).expect("case json");
        n_cases += 1;
        let bytes: Vec<u8> = case["bytes"].as_array().unwrap().iter().map(|b| b.as_u64().unwrap() as u8).collect();
        let qtags: Vec<u32> = case["qtags"].as_array().unwrap().iter().map(tag_of).collect();
        let n_members = case["exp"]["members"].as_array().map(|m| m.len()).unwrap_or(0).max(1);
        *kinds.entry(format!("{}/{}", case["kind"].as_str().unwrap(), case["damage"].as_str().unwrap())).or_default() += 1;
        // the family of layout / form, as named by MC_Sfnt!Variant (an input of the replay, not an answer)
        let variant = case["variant"].as_str().unwrap_or("").to_string();
        for part in variant.split('/') {
            *variants.entry(format!("{}:{}", case["kind"].as_str().unwrap(), part)).or_default() += 1;
        }
        for (route, f) in routes.iter() {
            let got = match guarded(|| f(&bytes, n_members, &qtags)) {
                Outcome::Returned(v) => v,
                Outcome::Panicked(m) => json!({"panic": m}),
            };
            // when loading fails the specification lists no members
            let got = if got["load"] == json!(false) { json!({"load": false, "kind": "", "members": [], "far": []}) } else { got };
            n_queries += n_members * (qtags.len() * 2 + 2);
            if got != case["exp"] {
                w.write(&json!({"case": ci, "route": route, "kind": case["kind"], "damage": case["damage"], "variant": variant,
                                "bytes": bytes, "qtags": case["qtags"], "want": case["exp"], "got": got}));
            }
        }
    }
    let mism = w.n;
    w.finish();
    println!("{}", json!({"cases": n_cases, "queries": n_queries, "mismatches": mism, "kinds": kinds, "variants": variants}));
}

// ---- recording --------------------------------------------------------------------------------

fn digest(d: &[u8]) -> Vec<u32> {
    let mut h: u64 = 0xcbf29ce484222325;
    for &b in d {
        h ^= b as u64;
        h = h.wrapping_mul(0x100000001b3);
    }
    let l = d.len() as u32;
    vec![l & 0xFFFF, l >> 16, (h & 0xFFFF) as u32, ((h >> 16) & 0xFFFF) as u32, ((h >> 32) & 0xFFFF) as u32,
         ((h >> 48) & 0xFFFF) as u32]
}

struct Member {
    flavor: u32,
    dir: Vec<(u32, usize)>, // tag, tid (0-based)
}

fn table_checksum(d: &[u8]) -> u32 {
    let mut sum = 0u32;
    for c in d.chunks(4) {
        let mut w = [0u8; 4];
        w[..c.len()].copy_from_slice(c);
        sum = sum.wrapping_add(u32::from_be_bytes(w));
    }
    sum
}

/// `real`: searchRange / entrySelector / rangeShift and the checksums as a font tool writes them; otherwise zeros
/// (nothing the property observes depends on them).
fn write_offset_table(w: &mut W, m: &Member, at: &[usize], tables: &[Vec<u8>], real: bool) {
    let n = m.dir.len() as u16;
    if real && n > 0 {
        let e = 15 - n.leading_zeros() as u16;
        w.u32(m.flavor).u16(n).u16(16 << e).u16(e).u16(16 * n - (16 << e));
    } else {
        w.u32(m.flavor).u16(n).u16(0).u16(0).u16(0);
    }
    for (tag, tid) in &m.dir {
        w.u32(*tag).u32(if real { table_checksum(&tables[*tid]) } else { 0 }).u32(at[*tid] as u32).u32(tables[*tid].len() as u32);
    }
}

fn pick_gap(pos: usize, rng: &mut StdRng) -> usize {
    match rng.gen_range(0..4) {
        0 => 0,
        1 => (4 - pos % 4) % 4,
        _ => rng.gen_range(0..6),
    }
}

/// Lay the table bodies (in `order`, each preceded by `gap` zero bytes then aligned or not) starting
/// at `start`; returns their offsets and the bytes.
fn lay_bodies(bodies: &[Vec<u8>], order: &[usize], start: usize, rng: &mut StdRng) -> (Vec<usize>, Vec<u8>) {
    let mut at = vec![0usize; bodies.len()];
    let mut out = Vec::new();
    for &t in order {
        let gap = pick_gap(start + out.len(), rng);
        out.extend(std::iter::repeat(0u8).take(gap));
        at[t] = start + out.len();
        out.extend_from_slice(&bodies[t]);
    }
    (at, out)
}

/// Physical layout of a collection (the vocabulary of Sfnt!WriteTtcPlan / MC_Sfnt!MkPlan).
#[derive(Clone, Copy)]
struct TtcOpts {
    lay: &'static str,  // after | before | split | tail | revdirs | inter | random
    hdr: &'static str,  // v1 | v2null | v2dsig
    share: bool,        // members with the same flavour and directory share one offset table
    real: bool,
}

const TTC_LAYOUTS: [&str; 7] = ["after", "before", "split", "tail", "revdirs", "inter", "random"];
const TTC_HEADERS: [&str; 3] = ["v1", "v2null", "v2dsig"];

fn random_ttc_opts(rng: &mut StdRng) -> TtcOpts {
    TtcOpts { lay: TTC_LAYOUTS[rng.gen_range(0..TTC_LAYOUTS.len())], hdr: TTC_HEADERS[rng.gen_range(0..3)],
              share: rng.gen_bool(0.5), real: rng.gen_bool(0.5) }
}

#[derive(Clone, Copy)]
enum Item {
    D(usize),
    B(usize),
}

fn build_ttc(tables: &[Vec<u8>], members: &[Member], o: TtcOpts, rng: &mut StdRng) -> Vec<u8> {
    let mut order: Vec<usize> = (0..tables.len()).collect();
    order.shuffle(rng);
    let dir_of: Vec<usize> = (0..members.len())
        .map(|m| if o.share { (0..=m).find(|&j| members[j].flavor == members[m].flavor && members[j].dir == members[m].dir).unwrap() } else { m })
        .collect();
    let ds: Vec<Item> = (0..members.len()).filter(|&m| dir_of[m] == m).map(Item::D).collect();
    let bs: Vec<Item> = order.iter().map(|&t| Item::B(t)).collect();
    let cut = |k: usize| k.min(bs.len());
    let plan: Vec<Item> = match o.lay {
        "after" => ds.iter().chain(bs.iter()).cloned().collect(),
        "before" => bs.iter().chain(ds.iter()).cloned().collect(),
        "split" => bs[..cut(1)].iter().chain(ds.iter()).chain(bs[cut(1)..].iter()).cloned().collect(),
        "tail" => {
            let k = bs.len().saturating_sub(1);
            bs[..k].iter().chain(ds.iter()).chain(bs[k..].iter()).cloned().collect()
        }
        "revdirs" => ds.iter().rev().chain(bs.iter()).cloned().collect(),
        "inter" => {
            // offset table, some bodies, offset table, some bodies ...
            let per = (bs.len() + ds.len().max(1) - 1) / ds.len().max(1);
            let mut v = Vec::new();
            let mut k = 0;
            for d in &ds {
                v.push(*d);
                v.extend_from_slice(&bs[cut(k)..cut(k + per)]);
                k += per;
            }
            v.extend_from_slice(&bs[cut(k)..]);
            v
        }
        "random" => {
            let mut v: Vec<Item> = ds.iter().chain(bs.iter()).cloned().collect();
            v.shuffle(rng);
            v
        }
        _ => unreachable!(),
    };
    let hdr = 12 + 4 * members.len() + if o.hdr == "v1" { 0 } else { 12 };
    // positions
    let mut pos = hdr;
    let mut start = vec![0usize; members.len()];
    let mut at = vec![0usize; tables.len()];
    let mut gaps = vec![0usize; tables.len()];
    for it in &plan {
        match *it {
            Item::D(m) => {
                start[m] = pos;
                pos += 12 + 16 * members[m].dir.len();
            }
            Item::B(t) => {
                gaps[t] = pick_gap(pos, rng);
                at[t] = pos + gaps[t];
                pos += gaps[t] + tables[t].len();
            }
        }
    }
    let pad = (4 - pos % 4) % 4;
    let dsig: [u8; 8] = [0, 0, 0, 1, 0, 0, 0, 0];
    let mut w = W::new();
    w.tag("ttcf").u16(if o.hdr == "v1" { 1 } else { 2 }).u16(0).u32(members.len() as u32);
    for m in 0..members.len() {
        w.u32(start[dir_of[m]] as u32);
    }
    match o.hdr {
        "v1" => {}
        "v2null" => {
            w.u32(0).u32(0).u32(0);
        }
        _ => {
            w.tag("DSIG").u32(dsig.len() as u32).u32((pos + pad) as u32);
        }
    }
    for it in &plan {
        match *it {
            Item::D(m) => write_offset_table(&mut w, &members[m], &at, tables, o.real),
            Item::B(t) => {
                w.bytes(&vec![0u8; gaps[t]]);
                w.bytes(&tables[t]);
            }
        }
    }
    if o.hdr == "v2dsig" {
        w.bytes(&vec![0u8; pad]);
        w.bytes(&dsig);
    }
    w.done()
}

fn build_sfnt(tables: &[Vec<u8>], m: &Member, real: bool, rng: &mut StdRng) -> Vec<u8> {
    let mut order: Vec<usize> = (0..tables.len()).collect();
    order.shuffle(rng);
    let (at, bodies) = lay_bodies(tables, &order, 12 + 16 * m.dir.len(), rng);
    let mut w = W::new();
    write_offset_table(&mut w, m, &at, tables, real);
    w.bytes(&bodies);
    w.done()
}

fn zlib(data: &[u8], level: u32) -> Vec<u8> {
    let mut e = ZlibEncoder::new(Vec::new(), Compression::new(level));
    e.write_all(data).unwrap();
    e.finish().unwrap()
}

fn build_woff(tables: &[Vec<u8>], m: &Member, ext: u8, rng: &mut StdRng) -> (Vec<u8>, Vec<bool>) {
    // per-table: stored raw, or zlib at a random level (kept only if the stream length differs
    // from the table length, otherwise the entry would read as uncompressed)
    let mut stored: Vec<Vec<u8>> = Vec::new();
    let mut zipped = Vec::new();
    for t in tables {
        let mut z = false;
        let mut s = t.clone();
        if rng.gen_bool(0.7) {
            let c = zlib(t, rng.gen_range(0..=9));
            if c.len() != t.len() {
                s = c;
                z = true;
            }
        }
        stored.push(s);
        zipped.push(z);
    }
    (build_woff_stored(tables, &stored, m, ext, rng), zipped)
}

/// WOFF file around given stored forms (`stored[t]` is `tables[t]` itself or a zlib stream of it).
/// ext: 0 = tables only; 1 = an extended-metadata block (zlib) after the tables; 2 = metadata and a private block;
/// 3 = a private block and no metadata.
/// With ext > 0 totalSfntSize and a font version are filled in as well.
fn build_woff_stored(tables: &[Vec<u8>], stored: &[Vec<u8>], m: &Member, ext: u8, rng: &mut StdRng) -> Vec<u8> {
    let mut order: Vec<usize> = (0..tables.len()).collect();
    order.shuffle(rng);
    let hdr = 44 + 20 * m.dir.len();
    let (at, mut bodies) = lay_bodies(stored, &order, hdr, rng);
    let xml = b"<?xml version=\"1.0\" encoding=\"UTF-8\"?><metadata version=\"1.0\"><uniqueid id=\"verif.c10\"/></metadata>";
    let (mut meta_at, mut meta_len, mut meta_orig, mut priv_at, mut priv_len) = (0usize, 0usize, 0usize, 0usize, 0usize);
    if ext == 1 || ext == 2 {
        while (hdr + bodies.len()) % 4 != 0 {
            bodies.push(0);
        }
        let z = zlib(xml, 6);
        meta_at = hdr + bodies.len();
        meta_len = z.len();
        meta_orig = xml.len();
        bodies.extend_from_slice(&z);
    }
    if ext >= 2 {
        while (hdr + bodies.len()) % 4 != 0 {
            bodies.push(0);
        }
        priv_at = hdr + bodies.len();
        priv_len = 37;
        bodies.extend((0..37u8).map(|k| k.wrapping_mul(37)));
    }
    let sfnt_size: usize = 12 + 16 * m.dir.len() + m.dir.iter().map(|(_, t)| (tables[*t].len() + 3) & !3).sum::<usize>();
    let mut w = W::new();
    w.tag("wOFF").u32(m.flavor).u32((hdr + bodies.len()) as u32).u16(m.dir.len() as u16).u16(0);
    if ext >= 1 {
        w.u32(sfnt_size as u32).u16(2).u16(7);
    } else {
        w.u32(0).u16(1).u16(0);
    }
    w.u32(meta_at as u32).u32(meta_len as u32).u32(meta_orig as u32).u32(priv_at as u32).u32(priv_len as u32);
    for (tag, tid) in &m.dir {
        w.u32(*tag).u32(at[*tid] as u32).u32(stored[*tid].len() as u32).u32(tables[*tid].len() as u32)
            .u32(if ext >= 1 { table_checksum(&tables[*tid]) } else { 0 });
    }
    w.bytes(&bodies);
    w.done()
}

/// Independent WOFF 1 reader: (flavor, [(tag, content)]).
fn read_woff_independent(d: &[u8]) -> Option<(u32, Vec<(u32, Vec<u8>)>)> {
    if d.get(0..4)? != b"wOFF" {
        return None;
    }
    let flavor = be32(d, 4)?;
    let n = be16(d, 12)? as usize;
    // WOFF 1.0: "reserved: must be set to zero" - a file that breaks it is not a WOFF file in the
    // sense of the property (W3C fixture header-reserved-001 is an invalid file that readers must reject)
    if be16(d, 14)? != 0 {
        return None;
    }
    let mut out = Vec::new();
    for i in 0..n {
        let r = 44 + 20 * i;
        let (tag, off, comp, orig) = (be32(d, r)?, be32(d, r + 4)? as usize, be32(d, r + 8)? as usize, be32(d, r + 12)? as usize);
        let raw = d.get(off..off + comp)?;
        let content = if comp != orig {
            let mut v = Vec::new();
            flate2::read::ZlibDecoder::new(raw).read_to_end(&mut v).ok()?;
            v
        } else {
            raw.to_vec()
        };
        out.push((tag, content));
    }
    Some((flavor, out))
}

struct Rec {
    w: NdWriter,
    i: u64,
}

impl Rec {
    fn ev(&mut self, case: &str, ev: &str, a: Value, o: Value) {
        self.i += 1;
        self.w.write(&json!({"i": self.i, "case": case, "ev": ev, "a": a, "o": o}));
    }
}

fn record_container(rec: &mut Rec, case: &str, kind: &str, bytes: &[u8], tables: &[Vec<u8>], members: &[Member], extra: Value) {
    let digests: Vec<Vec<u32>> = tables.iter().map(|t| digest(t)).collect();
    let ms: Vec<Value> = members
        .iter()
        .map(|m| json!({"flavor": b4(m.flavor),
                        "dir": m.dir.iter().map(|(t, id)| json!({"tag": b4(*t), "tid": id + 1})).collect::<Vec<_>>()}))
        .collect();
    rec.ev(case, "Container", json!({"kind": kind, "members": ms, "digests": digests, "extra": extra}), json!({}));
    let loaded = guarded(|| ReadScope::new(bytes).read::<FontData<'_>>().map(|fd| kind_of(&fd).to_string()).map_err(|e| format!("{:?}", e)));
    let lk = match &loaded {
        Outcome::Returned(Ok(k)) => json!({"ok": true, "kind": k}),
        Outcome::Returned(Err(_)) => json!({"ok": false, "kind": "Err"}),
        Outcome::Panicked(m) => json!({"ok": false, "kind": format!("Panic: {}", m)}),
    };
    rec.ev(case, "Load", json!({}), lk);
    // (a panic while loading is already on record in the Load event)
    let fd = match guarded(|| ReadScope::new(bytes).read::<FontData<'_>>()) {
        Outcome::Returned(Ok(fd)) => fd,
        _ => return,
    };
    let mut all_tags: Vec<u32> = members.iter().flat_map(|m| m.dir.iter().map(|d| d.0)).collect();
    all_tags.sort();
    all_tags.dedup();
    all_tags.push(u32::from_be_bytes(*b"zzZZ"));
    for i in 0..members.len() + 2 {
        let r = guarded(|| {
            let mut evs: Vec<(String, Value, Value)> = Vec::new();
            match fd.table_provider(i) {
                Err(_) => evs.push(("Provider".into(), json!({"member": i}), json!({"ok": false, "flavor": [], "tags": []}))),
                Ok(p) => {
                    let tags: Vec<Vec<u8>> = p.table_tags().unwrap_or_default().into_iter().map(b4).collect();
                    evs.push(("Provider".into(), json!({"member": i}), json!({"ok": true, "flavor": b4(p.sfnt_version()), "tags": tags})));
                    for &t in &all_tags {
                        let o = match p.table_data(t) {
                            Ok(Some(d)) => json!({"ok": true, "some": true, "digest": digest(&d), "has": p.has_table(t)}),
                            Ok(None) => json!({"ok": true, "some": false, "digest": [], "has": p.has_table(t)}),
                            Err(_) => json!({"ok": false, "some": false, "digest": [], "has": p.has_table(t)}),
                        };
                        evs.push(("Query".into(), json!({"member": i, "tag": b4(t)}), o));
                    }
                }
            }
            evs
        });
        match r {
            Outcome::Returned(evs) => {
                for (ev, a, o) in evs {
                    rec.ev(case, &ev, a, o);
                }
            }
            Outcome::Panicked(m) => rec.ev(case, "Provider", json!({"member": i}), json!({"ok": false, "flavor": [], "tags": [], "panic": m})),
        }
    }
}

// ---- size classes: tables on both sides of the I/O boundaries of an inflating reader -------------

fn adler32(d: &[u8]) -> u32 {
    let (mut a, mut b) = (1u32, 0u32);
    for &x in d {
        a = (a + x as u32) % 65521;
        b = (b + a) % 65521;
    }
    (b << 16) | a
}

/// A zlib stream made of stored deflate blocks of at most `block` bytes, written by hand (no encoder
/// involved): its length is 2 + 5 * blocks + data + 4 exactly.
fn own_stored(data: &[u8], block: usize) -> Vec<u8> {
    let mut out = vec![0x78, 0x01];
    let chunks: Vec<&[u8]> = if data.is_empty() { vec![&data[0..0]] } else { data.chunks(block.min(65535)).collect() };
    for (k, c) in chunks.iter().enumerate() {
        out.push(if k + 1 == chunks.len() { 1 } else { 0 });
        let n = c.len() as u16;
        out.extend_from_slice(&n.to_le_bytes());
        out.extend_from_slice(&(!n).to_le_bytes());
        out.extend_from_slice(c);
    }
    out.extend_from_slice(&adler32(data).to_be_bytes());
    out
}

/// Data length whose `own_stored` stream with blocks of `block` bytes is exactly `target` bytes long.
fn blocks_n(target: usize, block: usize) -> usize {
    for nb in 1..target {
        let n = target - 6 - 5 * nb;
        if (n + block - 1) / block == nb {
            return n;
        }
    }
    unreachable!()
}

fn data_rand(rng: &mut StdRng, n: usize) -> Vec<u8> {
    let mut v = vec![0u8; n];
    rng.fill(&mut v[..]);
    v
}

/// Semi-compressible data: a stream of words drawn from a small random dictionary (about 2:1).
fn data_text(rng: &mut StdRng, n: usize) -> Vec<u8> {
    let words: Vec<Vec<u8>> = (0..600).map(|_| { let l = rng.gen_range(2..9); data_rand(rng, l) }).collect();
    let mut v = Vec::with_capacity(n + 8);
    while v.len() < n {
        v.extend_from_slice(&words[rng.gen_range(0..words.len())]);
        if rng.gen_bool(0.2) {
            v.push(rng.gen());
        }
    }
    v.truncate(n);
    v
}

/// A random block of `p` bytes repeated up to `n` bytes (matches at distance `p`: 32768 is the largest
/// distance a deflate stream can express, 32769 is just outside the window).
fn data_period(rng: &mut StdRng, p: usize, n: usize) -> Vec<u8> {
    let blockv = data_rand(rng, p);
    (0..n).map(|k| blockv[k % p]).collect()
}

struct SynTable {
    data: Vec<u8>,
    stored: Vec<u8>,
    kind: String, // what the data is
    how: String,  // "raw" | "zlib-<level>" | "blocks-<size>"
}

fn syn(kind: &str, data: Vec<u8>, how: &str) -> SynTable {
    let stored = if how == "raw" {
        data.clone()
    } else if let Some(l) = how.strip_prefix("zlib-") {
        zlib(&data, l.parse().unwrap())
    } else if let Some(b) = how.strip_prefix("blocks-") {
        own_stored(&data, b.parse().unwrap())
    } else {
        unreachable!()
    };
    // a stream exactly as long as the table would read as an uncompressed entry: store such a table raw
    if stored.len() == data.len() && how != "raw" {
        return SynTable { stored: data.clone(), data, kind: kind.to_string(), how: "raw".to_string() };
    }
    SynTable { data, stored, kind: kind.to_string(), how: how.to_string() }
}

/// Binary search for a length n with |zlib(make(n))| <= target < |zlib(make(n + 1))| (the invariant
/// of the search holds at both ends whether or not the compressed size is monotone in n).
fn search_boundary(make: &dyn Fn(usize) -> Vec<u8>, level: u32, target: usize, mut hi: usize) -> usize {
    let mut lo = 0usize;
    assert!(zlib(&make(lo), level).len() <= target);
    while zlib(&make(hi), level).len() <= target {
        hi *= 2;
    }
    while hi - lo > 1 {
        let mid = (lo + hi) / 2;
        if zlib(&make(mid), level).len() <= target {
            lo = mid;
        } else {
            hi = mid;
        }
    }
    lo
}

fn size_class(n: usize) -> String {
    const EXACT: [usize; 13] = [0, 1, 32767, 32768, 32769, 65535, 65536, 65537, 131071, 131072, 131073, 262144, 262145];
    if EXACT.contains(&n) {
        return format!("={}", n);
    }
    for (k, &e) in EXACT.iter().enumerate() {
        if n < e {
            return format!("={}..{}", EXACT[k - 1] + 1, e - 1);
        }
    }
    ">=262146".to_string()
}

type Classes = std::collections::BTreeMap<String, usize>;

fn count_classes(classes: &mut Classes, wrap: &str, t: &SynTable) {
    let mut add = |c: String| *classes.entry(c).or_default() += 1;
    let (orig, comp) = (t.data.len(), t.stored.len());
    add(format!("{}:orig{}", wrap, size_class(orig)));
    add(format!("{}:data:{}", wrap, t.kind));
    if wrap != "woff" {
        return;
    }
    add(format!("woff:how:{}", t.how));
    if t.how == "raw" {
        return;
    }
    add(format!("woff:comp{}", size_class(comp)));
    add(format!("woff:{}", if comp < orig { "comp<orig" } else { "comp>orig" }));
    for b in [32768usize, 65536] {
        let side = if comp <= b { "<=" } else { ">" };
        add(format!("woff:how:{}:comp{}{}", t.how, side, b));
        if comp < orig {
            add(format!("woff:comp<orig:comp{}{}", side, b));
        }
        add(format!("woff:data:{}:comp{}{}", t.kind, side, b));
    }
}

fn syn_tag(family: usize, k: usize) -> u32 {
    u32::from_be_bytes([b'a' + family as u8, b'0' + (k / 100) as u8, b'0' + (k / 10 % 10) as u8, b'0' + (k % 10) as u8])
}

fn record_syn_woff(rec: &mut Rec, classes: &mut Classes, family: usize, name: &str, ts: &[SynTable], rng: &mut StdRng) {
    let tables: Vec<Vec<u8>> = ts.iter().map(|t| t.data.clone()).collect();
    let stored: Vec<Vec<u8>> = ts.iter().map(|t| t.stored.clone()).collect();
    let mut dir: Vec<(u32, usize)> = (0..ts.len()).map(|k| (syn_tag(family, k), k)).collect();
    dir.shuffle(rng);
    let m = Member { flavor: [0x00010000u32, 0x4F54544F, 0x74727565][family % 3], dir };
    let ext = (family % 3) as u8; // families 0, 3: tables only; 1, 4: + metadata; 2: + metadata and private block
    *classes.entry(format!("woff:ext:{}", ext)).or_default() += 1;
    let b = build_woff_stored(&tables, &stored, &m, ext, rng);
    let info: Vec<Value> = ts
        .iter()
        .enumerate()
        .map(|(k, t)| json!({"tag": b4(syn_tag(family, k)), "data": t.kind, "how": t.how, "orig": t.data.len(), "comp": t.stored.len()}))
        .collect();
    for t in ts {
        count_classes(classes, "woff", t);
    }
    record_container(rec, &format!("syn-{}/woff", name), "woff", &b, &tables, &[m], json!({"source": "synthesized", "tables": info}));
}

/// Layout classes of a collection the harness is about to build (its own choices, nothing allsorts said).
fn count_ttc_opts(classes: &mut Classes, o: &TtcOpts, members: &[Member]) {
    let mut add = |c: String| *classes.entry(c).or_default() += 1;
    add(format!("ttc:lay:{}", o.lay));
    add(format!("ttc:hdr:{}", o.hdr));
    add(format!("ttc:lay:{}:hdr:{}", o.lay, o.hdr));
    add(format!("ttc:fields:{}", if o.real { "real" } else { "zero" }));
    let twins = (0..members.len()).any(|m| (0..m).any(|j| members[j].flavor == members[m].flavor && members[j].dir == members[m].dir));
    if o.share && twins {
        add("ttc:shared-offset-table".to_string());
    }
    let mut fl: Vec<u32> = members.iter().map(|m| m.flavor).collect();
    fl.sort();
    fl.dedup();
    if fl.len() > 1 {
        add("ttc:mixed-flavours".to_string());
    }
    add(format!("ttc:members:{}", members.len()));
}

/// Synthesized containers whose tables sit on both sides of the boundaries an inflating reader has
/// (its input buffer, its output buffer, the deflate window, the stored-block limit).  Everything here
/// is decided by the harness (sizes, data, levels); the counters returned describe these inputs only.
fn record_size_classes(rec: &mut Rec, seed: u64) -> Classes {
    let mut rng = StdRng::seed_from_u64(seed ^ 0x5157_C1A5);
    let mut classes = Classes::new();
    let rbuf = data_rand(&mut rng, 300_000);
    let tbuf = data_text(&mut rng, 1_400_000);

    // family 0 "exact": incompressible head + run of zeros, real deflate, compressed size searched to land on
    // the boundary and one past it (valid WOFF: the stream is shorter than the table)
    let mut ts = Vec::new();
    for (k, &target) in [32767usize, 32768, 65535, 65536, 131071, 131072, 262144].iter().enumerate() {
        let level = 1 + (k as u32 * 4 + (seed % 9) as u32) % 9;
        let make = |n: usize| -> Vec<u8> {
            let mut v = rbuf[..n].to_vec();
            v.extend(std::iter::repeat(0u8).take(9000));
            v
        };
        let n = search_boundary(&make, level, target, target);
        ts.push(syn("rand+zeros", make(n), &format!("zlib-{}", level)));
        ts.push(syn("rand+zeros", make(n + 1), &format!("zlib-{}", level)));
    }
    record_syn_woff(rec, &mut classes, 0, "exact", &ts, &mut rng);

    // family 1 "blocks": hand-made stored-block streams, compressed size exact by construction
    let mut ts = Vec::new();
    for target in [32767usize, 32768, 32769, 65535, 65536, 65537] {
        ts.push(syn("rand", rbuf[..target - 11].to_vec(), "blocks-65535"));
    }
    ts.push(syn("rand", rbuf[..blocks_n(131072, 65535)].to_vec(), "blocks-65535"));
    ts.push(syn("rand", rbuf[..blocks_n(131073, 65535)].to_vec(), "blocks-65535"));
    ts.push(syn("rand", rbuf[..blocks_n(262144, 32768)].to_vec(), "blocks-32768"));
    ts.push(syn("rand", rbuf[..blocks_n(262145, 4096)].to_vec(), "blocks-4096"));
    ts.push(syn("rand", rbuf[..65535].to_vec(), "blocks-65535")); // one full block
    ts.push(syn("rand", rbuf[..65536].to_vec(), "blocks-65535")); // full block + one byte
    ts.push(syn("text", tbuf[..7000].to_vec(), "blocks-1")); // 7000 one-byte blocks, 42006 bytes of stream
    ts.push(syn("text", tbuf[..98304].to_vec(), "blocks-32768"));
    ts.push(syn("empty", Vec::new(), "blocks-1")); // 11 bytes for nothing
    ts.push(syn("rand", rbuf[..1].to_vec(), "blocks-1"));
    record_syn_woff(rec, &mut classes, 1, "blocks", &ts, &mut rng);

    // family 2 "levels": every zlib level, semi-compressible data, stream just below / above 32 KiB
    // (level 0 = the encoder's own stored blocks), and above 64 KiB for three levels
    let mut ts = Vec::new();
    for level in 0..=9u32 {
        let make = |n: usize| tbuf[..n].to_vec();
        let n = search_boundary(&make, level, 32768, 100_000);
        ts.push(syn("text", make(n), &format!("zlib-{}", level)));
        ts.push(syn("text", make(n + 1), &format!("zlib-{}", level)));
        if level % 4 == 1 {
            let n = search_boundary(&make, level, 65536, 200_000);
            ts.push(syn("text", make(n), &format!("zlib-{}", level)));
            ts.push(syn("text", make(n + 1), &format!("zlib-{}", level)));
        }
    }
    record_syn_woff(rec, &mut classes, 2, "levels", &ts, &mut rng);

    // family 3 "orig": original sizes around the boundaries, highly compressible (tiny streams) and raw
    let mut ts = Vec::new();
    for (k, &n) in [1usize, 2, 3, 32767, 32768, 32769, 65535, 65536, 65537, 131072, 262144, 262145].iter().enumerate() {
        let level = (k as u32 + (seed % 10) as u32) % 10;
        let level = if level == 0 { 6 } else { level };
        ts.push(syn("period7", data_period(&mut rng, 7, n), &format!("zlib-{}", level)));
        ts.push(syn("zeros", vec![0u8; n], &format!("zlib-{}", 10 - level)));
        ts.push(syn("rand", rbuf[..n].to_vec(), "raw"));
    }
    ts.push(syn("empty", Vec::new(), "raw"));
    ts.push(syn("empty", Vec::new(), "zlib-6")); // 8 bytes of stream, no data
    // a table that is itself a zlib stream, stored raw: must come back verbatim, not inflated
    ts.push(syn("zlib-stream", zlib(&tbuf[..5000], 6), "raw"));
    record_syn_woff(rec, &mut classes, 3, "orig", &ts, &mut rng);

    // family 4 "big": several hundred KiB on either side
    let mut ts = Vec::new();
    ts.push(syn("text", tbuf[..700_000].to_vec(), "zlib-1"));
    ts.push(syn("text", tbuf[..1_400_000].to_vec(), "zlib-9"));
    ts.push(syn("text", tbuf[100_000..500_000].to_vec(), "zlib-6"));
    let mut v = rbuf[..280_000].to_vec();
    v.extend(std::iter::repeat(0u8).take(150_000));
    v.extend_from_slice(&rbuf[..20_000]);
    ts.push(syn("rand+zeros", v, "zlib-6"));
    ts.push(syn("zeros", vec![0u8; 1_000_000], "zlib-9"));
    ts.push(syn("period32768", data_period(&mut rng, 32768, 400_000), "zlib-9"));
    ts.push(syn("period32768", data_period(&mut rng, 32768, 400_001), "zlib-2"));
    ts.push(syn("period32769", data_period(&mut rng, 32769, 200_000), "zlib-9"));
    ts.push(syn("period258", data_period(&mut rng, 258, 300_000), "zlib-5"));
    ts.push(syn("rand", rbuf[..300_000].to_vec(), "zlib-3")); // incompressible: the stream is longer than the table
    ts.push(syn("rand", rbuf[..270_000].to_vec(), "zlib-0"));
    ts.push(syn("rand", rbuf[..300_000].to_vec(), "raw"));
    ts.push(syn("text", tbuf[..300_000].to_vec(), "raw"));
    let big: Vec<Vec<u8>> = ts.iter().map(|t| t.data.clone()).collect();
    record_syn_woff(rec, &mut classes, 4, "big", &ts, &mut rng);

    // the big tables as a bare sfnt and as a collection sharing them (offsets beyond 64 KiB / 1 MiB)
    for t in &ts {
        count_classes(&mut classes, "sfnt", t);
        count_classes(&mut classes, "ttc", t);
    }
    let mut dir: Vec<(u32, usize)> = (0..big.len()).map(|k| (syn_tag(5, k), k)).collect();
    dir.shuffle(&mut rng);
    let m = Member { flavor: 0x00010000, dir: dir.clone() };
    let b = build_sfnt(&big, &m, true, &mut rng);
    record_container(rec, "syn-big/sfnt", "sfnt", &b, &big, &[m], json!({"source": "synthesized"}));
    // four members: three different selections of the tables and a twin of the first (may share its offset table);
    // every physical layout once, header forms and directory-field styles in rotation
    let mk_members = |rng: &mut StdRng| -> Vec<Member> {
        let mut ms: Vec<Member> = (0..3)
            .map(|j| {
                let mut d: Vec<(u32, usize)> = dir.iter().cloned().filter(|(_, k)| k % 3 != j).collect();
                d.shuffle(rng);
                Member { flavor: [0x4F54544Fu32, 0x00010000, 0x74727565][j], dir: d }
            })
            .collect();
        ms.push(Member { flavor: ms[0].flavor, dir: ms[0].dir.clone() });
        ms
    };
    for (k, lay) in TTC_LAYOUTS.iter().enumerate() {
        let o = TtcOpts { lay, hdr: TTC_HEADERS[k % 3], share: k % 2 == 0, real: k % 4 < 2 };
        let members = mk_members(&mut rng);
        count_ttc_opts(&mut classes, &o, &members);
        let b = build_ttc(&big, &members, o, &mut rng);
        record_container(rec, &format!("syn-big-{}-{}/ttc", o.lay, o.hdr), "ttc", &b, &big, &members,
                         json!({"source": "synthesized", "lay": o.lay, "hdr": o.hdr, "share": o.share, "real": o.real}));
    }
    // small tables (lengths 0, 1, 3, 4, 5, 21, 70 001): every layout x every header form, 1-4 members, mixed flavours
    let small: Vec<Vec<u8>> = [0usize, 1, 3, 4, 5, 21, 70_001].iter().map(|&n| rbuf[n..2 * n].to_vec()).collect();
    let mut k = 0usize;
    for lay in TTC_LAYOUTS.iter() {
        for hdr in TTC_HEADERS.iter() {
            k += 1;
            let o = TtcOpts { lay, hdr, share: k % 2 == 1, real: k % 3 == 0 };
            let nm = 1 + k % 4;
            let mut members: Vec<Member> = Vec::new();
            for j in 0..nm {
                if j == 2 {
                    members.push(Member { flavor: members[0].flavor, dir: members[0].dir.clone() }); // a twin of member 0
                    continue;
                }
                let mut d: Vec<(u32, usize)> = (0..small.len()).filter(|t| (t + j + k) % 4 != 0).map(|t| (syn_tag(6, t), t)).collect();
                d.shuffle(&mut rng);
                members.push(Member { flavor: [0x00010000u32, 0x4F54544F, 0x74727565][(j + k) % 3], dir: d });
            }
            count_ttc_opts(&mut classes, &o, &members);
            let b = build_ttc(&small, &members, o, &mut rng);
            record_container(rec, &format!("syn-lay-{}-{}/ttc", lay, hdr), "ttc", &b, &small, &members,
                             json!({"source": "synthesized", "lay": lay, "hdr": hdr, "share": o.share, "real": o.real}));
        }
    }
    classes
}

fn record(seed: u64, max_fonts: usize, out: &str) {
    let mut rng = StdRng::seed_from_u64(seed);
    let mut rec = Rec { w: NdWriter::create(out), i: 0 };
    let mut classes = record_size_classes(&mut rec, seed);
    let syn_events = rec.w.n;
    let mut fonts = repo_fonts();
    fonts.shuffle(&mut rng);
    let mut used = 0;
    for path in fonts {
        if used >= max_fonts {
            break;
        }
        let data = match std::fs::read(&path) {
            Ok(d) if d.len() > 12 => d,
            _ => continue,
        };
        let name = path.rsplit('/').next().unwrap().to_string();
        if path.ends_with(".woff") {
            if let Some((flavor, tabs)) = read_woff_independent(&data) {
                let tables: Vec<Vec<u8>> = tabs.iter().map(|t| t.1.clone()).collect();
                let m = Member { flavor, dir: tabs.iter().enumerate().map(|(k, t)| (t.0, k)).collect() };
                record_container(&mut rec, &format!("{}/asis", name), "woff", &data, &tables, &[m], json!({"source": "fixture"}));
                used += 1;
            }
            continue;
        }
        let dir = match read_sfnt_dir(&data, 0) {
            Some(d) if [0x00010000u32, 0x4F54544F, 0x74727565].contains(&d.version) => d,
            _ => continue,
        };
        let mut tables: Vec<Vec<u8>> = Vec::new();
        let mut tags: Vec<u32> = Vec::new();
        let mut okay = true;
        for r in &dir.records {
            match data.get(r.2 as usize..(r.2 as usize + r.3 as usize)) {
                Some(t) => {
                    tables.push(t.to_vec());
                    tags.push(r.0);
                }
                None => okay = false,
            }
        }
        if !okay || tables.is_empty() {
            continue;
        }
        used += 1;
        // the fixture as it is
        let full = Member { flavor: dir.version, dir: tags.iter().enumerate().map(|(k, t)| (*t, k)).collect() };
        record_container(&mut rec, &format!("{}/asis", name), "sfnt", &data, &tables, &[Member { flavor: full.flavor, dir: full.dir.clone() }], json!({"source": "fixture"}));
        // re-laid sfnt with shuffled directory
        let mut d2 = full.dir.clone();
        d2.shuffle(&mut rng);
        let m2 = Member { flavor: dir.version, dir: d2 };
        let real = rng.gen_bool(0.5);
        let b = build_sfnt(&tables, &m2, real, &mut rng);
        record_container(&mut rec, &format!("{}/sfnt", name), "sfnt", &b, &tables, &[m2], json!({"real": real}));
        // collection: 1-4 members, each a random subset sharing the same bodies; sometimes a twin of an earlier member
        let nm = rng.gen_range(1..=4);
        let mut members: Vec<Member> = Vec::new();
        for j in 0..nm {
            if j > 0 && rng.gen_bool(0.25) {
                let k = rng.gen_range(0..j);
                members.push(Member { flavor: members[k].flavor, dir: members[k].dir.clone() });
                continue;
            }
            let mut d: Vec<(u32, usize)> = full.dir.iter().cloned().filter(|_| rng.gen_bool(0.7)).collect();
            d.shuffle(&mut rng);
            members.push(Member { flavor: [0x00010000u32, 0x4F54544F, 0x74727565][rng.gen_range(0..3)], dir: d });
        }
        let o = random_ttc_opts(&mut rng);
        count_ttc_opts(&mut classes, &o, &members);
        let b = build_ttc(&tables, &members, o, &mut rng);
        record_container(&mut rec, &format!("{}/ttc", name), "ttc", &b, &tables, &members,
                         json!({"lay": o.lay, "hdr": o.hdr, "share": o.share, "real": o.real}));
        // WOFF with random per-table compression
        let mut d3 = full.dir.clone();
        d3.shuffle(&mut rng);
        let m3 = Member { flavor: dir.version, dir: d3 };
        let ext = rng.gen_range(0..4u8);
        *classes.entry(format!("woff:ext:{}", ext)).or_default() += 1;
        let (b, zipped) = build_woff(&tables, &m3, ext, &mut rng);
        record_container(&mut rec, &format!("{}/woff", name), "woff", &b, &tables, &[m3], json!({"zipped": zipped, "ext": ext}));
    }
    let n = rec.w.n;
    rec.w.finish();
    println!("{}", json!({"events": n, "fonts": used, "synthesized_events": syn_events, "size_classes": classes}));
}

fn main() {
    let args: Vec<String> = std::env::args().collect();
    match args.get(1).map(|s| s.as_str()) {
        Some("replay") => replay(&args[2], &args[3]),
        Some("record") => record(args[2].parse().expect("seed"), args[3].parse().expect("max fonts"), &args[4]),
        _ => {
            eprintln!("usage: c10_containers replay <cases> <out> | record <seed> <max_fonts> <out>");
            std::process::exit(2);
        }
    }
}
