//! C03 harness: results depend only on the arguments, not on earlier calls.
//!
//!   c03_purity replay <cases.ndjson> <trace.ndjson>
//!       CASE lines of MC_FontCache (a history `path` reaching a cache state + the fan of all
//!       calls): for every font, every fan call is executed after the history on one Font object
//!       and on a freshly loaded one (carrying the same image-filter configuration); the two
//!       results are compared by value. Events are judged by Trace_FontCache.
//!   c03_purity record <seed> <histories> <len> <trace.ndjson>
//!       random long histories over a richer concrete universe, every call compared with fresh.
//!   c03_purity repeat <seed> <out.ndjson>
//!       pure operations (subset, instance, whole_font, WOFF/WOFF2 decoding) run twice in this
//!       process; digests recorded per run (the driver also runs this in a second process).
use allsorts::binary::read::ReadScope;
use allsorts::bitmap::BitDepth;
use allsorts::font::{Font, GlyphTableFlags, MatchingPresentation};
use allsorts::font_data::FontData;
use allsorts::gsub::{FeatureMask, Features};
use allsorts::tables::variable_fonts::fvar::Tuple;
use allsorts::tables::{F2Dot14, FontTableProvider};
use allsorts::unicode::VariationSelector;
use rand::rngs::StdRng;
use rand::seq::SliceRandom;
use rand::{Rng, SeedableRng};
use serde_json::{json, Value};
use vh::fontgen::*;
use vh::sup::{guarded, Outcome};
use vh::util::{read_ndjson, repo_root, NdWriter};

// ---- fonts ------------------------------------------------------------------------------------

/// GSUB 1.1 with one feature `liga` (lookup 0: gid 1 -> 2) and a FeatureVariations record that
/// substitutes lookup 1 (gid 1 -> 3) when axis 0 is in [0.5, 1.0].
fn gsub_with_feature_variations() -> Vec<u8> {
    let mut w = W::new();
    w.u16(1).u16(1).u16(14).u16(0).u16(0).u32(0);
    // ScriptList
    let script_list = w.len();
    w.u16(1).tag("DFLT").u16(8);
    w.u16(4).u16(0); // Script: defaultLangSys at 4, no other lang sys
    w.u16(0).u16(0xFFFF).u16(1).u16(0); // LangSys: one feature, index 0
    let feature_list = w.len();
    w.u16(1).tag("liga").u16(8);
    w.u16(0).u16(1).u16(0); // Feature: lookup 0
    let lookup_list = w.len();
    w.u16(2).u16(6).u16(6 + 22);
    for subst in [2u16, 3u16] {
        // Lookup: type 1, flag 0, 1 subtable at 8
        w.u16(1).u16(0).u16(1).u16(8);
        // SingleSubst format 2: coverage at 8 from subtable start
        w.u16(2).u16(8).u16(1).u16(subst);
        // Coverage format 1: glyph 1
        w.u16(1).u16(1).u16(1);
    }
    let fv = w.len();
    w.u16(1).u16(0).u32(1);
    w.u32(16).u32(16 + 14); // condition set, substitution (from FeatureVariations start)
    // ConditionSet
    w.u16(1).u32(6);
    w.u16(1).u16(0).i16(0x2000).i16(0x4000); // axis 0 in [0.5, 1.0]
    // FeatureTableSubstitution
    w.u16(1).u16(0).u16(1);
    w.u16(0).u32(12); // feature index 0 -> alternate feature at 12
    w.u16(0).u16(1).u16(1); // Feature: lookup 1
    w.set_u16(4, script_list as u16);
    w.set_u16(6, feature_list as u16);
    w.set_u16(8, lookup_list as u16);
    w.set_u32(10, fv as u32);
    w.done()
}

fn fvar_one_axis() -> Vec<u8> {
    let mut w = W::new();
    w.u16(1).u16(0).u16(16).u16(2).u16(1).u16(20).u16(0).u16(8);
    w.tag("wght").i32(100 << 16).i32(100 << 16).i32(900 << 16).u16(0).u16(256);
    w.done()
}

fn synth_fv_font() -> Vec<u8> {
    let mut f = TtFont::new(vec![GlyphSpec::Empty, triangle(0), triangle(10), triangle(20), triangle(30), triangle(40)]);
    f.cmap = vec![(0x41, 1), (0x42, 2), (0x43, 3), (0x25CC, 4), (0x1F600, 5)];
    f.extra_tables.push(("GSUB".into(), gsub_with_feature_variations()));
    f.extra_tables.push(("fvar".into(), fvar_one_axis()));
    f.build()
}

struct FontCfg {
    name: String,
    data: Vec<u8>,
    scripts: [u32; 2],
    lang: u32,
    words: Vec<String>,
}

fn tagv(s: &str) -> u32 {
    tag_u32(s)
}

fn fonts() -> Vec<FontCfg> {
    let root = repo_root();
    let rd = |p: &str| std::fs::read(format!("{}/{}", root, p)).unwrap_or_default();
    let mut v = vec![FontCfg {
        name: "synth-fv".into(),
        data: synth_fv_font(),
        scripts: [tagv("latn"), tagv("grek")],
        lang: tagv("dflt"),
        words: vec!["A\u{25CC}".into(), "ABA".into(), "AA".into()],
    }];
    for (name, path, scripts, lang, words) in [
        ("sbix-dupe", "tests/fonts/sbix/sbix-dupe.ttf", ["latn", "DFLT"], "dflt", vec!["A\u{25CC}", "abc"]),
        ("svg-gzipped", "tests/fonts/svg/gzipped.ttf", ["latn", "DFLT"], "dflt", vec!["A\u{25CC}", "abc"]),
        ("lohit-hi", "tests/fonts/devanagari/lohit_hi.ttf", ["deva", "dev2"], "HIN ", vec!["\u{093F}\u{0915}", "\u{0915}\u{094D}\u{0937}\u{093F}", "\u{25CC}\u{093E}"]),
        ("noto-naskh", "tests/fonts/noto/NotoNaskhArabic-Regular.ttf", ["arab", "latn"], "URD ", vec!["\u{0644}\u{0627}\u{0645}", "\u{25CC}\u{064E}", "\u{0628}\u{064E}\u{0651}"]),
        ("inter-vf", "tests/fonts/variable/Inter[slnt,wght].abc.ttf", ["latn", "DFLT"], "dflt", vec!["abc", "a\u{25CC}c"]),
        ("opensans", "tests/fonts/opentype/OpenSans-Regular.ttf", ["latn", "cyrl"], "dflt", vec!["AVATAR", "fi\u{25CC}\u{0301}"]),
    ] {
        let data = rd(path);
        if data.len() > 100 {
            v.push(FontCfg {
                name: name.into(),
                data,
                scripts: [tagv(scripts[0]), tagv(scripts[1])],
                lang: tagv(lang),
                words: words.into_iter().map(String::from).collect(),
            });
        }
    }
    v
}

// ---- concrete calls ---------------------------------------------------------------------------

#[derive(Clone, Debug)]
enum Call {
    LookupGlyph { ch: char, required: bool, vs: Option<u8> },
    MapGlyphs { text: String, script: u32, required: bool },
    Shape { text: String, script: u32, lang: Option<u32>, mask: u64, custom: bool, tuple: Option<Vec<f32>>, kern: bool },
    Image { g: u16, ppem: u16 },
    HasImages,
    SetFilter { bits: u8, name: String },
    HAdvance { g: u16 },
    VAdvance { g: u16 },
    GlyphNames { g: Vec<u16> },
}

fn vs_of(v: Option<u8>) -> Option<VariationSelector> {
    match v {
        Some(15) => Some(VariationSelector::VS15),
        Some(16) => Some(VariationSelector::VS16),
        Some(1) => Some(VariationSelector::VS01),
        _ => None,
    }
}

fn pres(required: bool) -> MatchingPresentation {
    if required {
        MatchingPresentation::Required
    } else {
        MatchingPresentation::NotRequired
    }
}

/// Execute one call; the result is rendered as a string (Debug of the returned value).
fn exec<T: FontTableProvider>(font: &mut Font<T>, c: &Call) -> String {
    match c {
        Call::LookupGlyph { ch, required, vs } => format!("{:?}", font.lookup_glyph_index(*ch, pres(*required), vs_of(*vs))),
        Call::MapGlyphs { text, script, required } => format!("{:?}", font.map_glyphs(text, *script, pres(*required))),
        Call::Shape { text, script, lang, mask, custom, tuple, kern } => {
            let glyphs = font.map_glyphs(text, *script, MatchingPresentation::NotRequired);
            let feats = if *custom {
                Features::Custom(vec![allsorts::gsub::FeatureInfo { feature_tag: allsorts::tag::LIGA, alternate: None }])
            } else {
                Features::Mask(FeatureMask::from_bits_truncate(*mask))
            };
            let f2: Option<Vec<F2Dot14>> = tuple.as_ref().map(|t| t.iter().map(|v| F2Dot14::from(*v)).collect());
            let tup = f2.as_ref().map(|v| unsafe { Tuple::from_raw_parts(v.as_ptr(), v.len()) });
            match font.shape(glyphs, *script, *lang, &feats, tup, *kern) {
                Ok(infos) => format!("Ok {:?}", infos),
                Err((e, infos)) => format!("Err {:?} {:?}", e, infos),
            }
        }
        Call::Image { g, ppem } => match font.lookup_glyph_image(*g, *ppem, BitDepth::ThirtyTwo) {
            Ok(Some(b)) => format!("Some {:?} {:?} {:?}", b.ppem_x, b.ppem_y, b.metrics),
            Ok(None) => "None".into(),
            Err(e) => format!("Err {:?}", e),
        },
        Call::HasImages => format!("{}", font.has_embedded_images()),
        Call::SetFilter { bits, .. } => {
            font.set_embedded_image_filter(GlyphTableFlags::from_bits_truncate(*bits));
            "unit".into()
        }
        Call::HAdvance { g } => format!("{:?}", font.horizontal_advance(*g)),
        Call::VAdvance { g } => format!("{:?}", font.vertical_advance(*g)),
        Call::GlyphNames { g } => format!("{:?}", font.glyph_names(g)),
    }
}

fn with_font<R>(data: &[u8], f: impl FnOnce(&mut Font<allsorts::font_data::DynamicFontTableProvider<'_>>) -> R) -> Option<R> {
    let fd = ReadScope::new(data).read::<FontData<'_>>().ok()?;
    let prov = fd.table_provider(0).ok()?;
    let mut font = Font::new(prov).ok()?;
    Some(f(&mut font))
}

/// Run `history` then `probe` on one Font; and `probe` on a fresh Font carrying the history's last
/// image-filter setting. Returns (result after history, result on fresh), panics rendered as text.
fn run_both(data: &[u8], history: &[Call], probe: &Call) -> (String, String) {
    let after = match guarded(|| with_font(data, |font| {
        for c in history {
            let _ = exec(font, c);
        }
        exec(font, probe)
    })) {
        Outcome::Returned(Some(s)) => s,
        Outcome::Returned(None) => "LOADFAIL".into(),
        Outcome::Panicked(m) => format!("PANIC {}", vh::sup::panic_key(&m)),
    };
    let last_filter = history.iter().rev().find(|c| matches!(c, Call::SetFilter { .. }));
    let fresh = match guarded(|| with_font(data, |font| {
        if let Some(f) = last_filter {
            let _ = exec(font, f);
        }
        exec(font, probe)
    })) {
        Outcome::Returned(Some(s)) => s,
        Outcome::Returned(None) => "LOADFAIL".into(),
        Outcome::Panicked(m) => format!("PANIC {}", vh::sup::panic_key(&m)),
    };
    (after, fresh)
}

const FILTER_DEFAULT: u8 = (1 << 2) | (1 << 3) | (1 << 4);

/// Abstract call (TLC's vocabulary) -> concrete call for a font.
fn concretise(c: &Value, cfg: &FontCfg) -> Call {
    let s = |k: &str| c[k].as_str().unwrap_or("");
    let chr = |x: &str| match x {
        "A" => 'A',
        "DC" => '\u{25CC}',
        _ => '\u{1F600}',
    };
    let vsn = |x: &str| match x {
        "VS15" => Some(15u8),
        "VS16" => Some(16u8),
        _ => None,
    };
    match s("op") {
        "LookupGlyph" => Call::LookupGlyph { ch: chr(s("ch")), required: s("pres") == "Req", vs: vsn(s("vs")) },
        "MapGlyphs" => {
            let mut text = String::new();
            for t in c["text"].as_array().unwrap() {
                text.push(chr(t["ch"].as_str().unwrap()));
                match t["vs"].as_str().unwrap() {
                    "VS15" => text.push('\u{FE0E}'),
                    "VS16" => text.push('\u{FE0F}'),
                    _ => {}
                }
            }
            Call::MapGlyphs { text, script: cfg.scripts[0], required: s("pres") == "Req" }
        }
        "Shape" => Call::Shape {
            text: cfg.words[0].clone(),
            script: if s("script") == "s1" { cfg.scripts[0] } else { cfg.scripts[1] },
            lang: Some(cfg.lang),
            // m1 and m2 must stay different after gsub_apply_default intersects them with the
            // features the font supports (the cache key uses the intersected mask)
            mask: if s("mask") == "m1" { FeatureMask::default().bits() } else { (FeatureMask::CCMP | FeatureMask::RLIG).bits() },
            custom: false,
            tuple: match s("tuple") {
                "tA" => Some(vec![0.0]),
                "tB" => Some(vec![1.0]),
                _ => None,
            },
            kern: c["kern"].as_bool().unwrap_or(true),
        },
        "Image" => Call::Image { g: c["g"].as_u64().unwrap_or(1) as u16, ppem: 100 },
        "HasImages" => Call::HasImages,
        "SetFilter" => match s("f") {
            "default" => Call::SetFilter { bits: FILTER_DEFAULT, name: "default".into() },
            "empty" => Call::SetFilter { bits: 0, name: "empty".into() },
            _ => Call::SetFilter { bits: 1 << 5, name: "bw".into() },
        },
        "HAdvance" => Call::HAdvance { g: c["g"].as_u64().unwrap_or(1) as u16 },
        "VAdvance" => Call::VAdvance { g: c["g"].as_u64().unwrap_or(1) as u16 },
        _ => Call::GlyphNames { g: vec![c["g"].as_u64().unwrap_or(1) as u16, 0, 2] },
    }
}

fn replay(cases: &str, out: &str) {
    let cases = read_ndjson(cases);
    let fonts = fonts();
    let mut w = NdWriter::create(out);
    let mut i = 0u64;
    let mut n_probes = 0usize;
    let mut n_differs = 0usize;
    for cfg in &fonts {
        for (ci, case) in cases.iter().enumerate() {
            let case_id = format!("{}/g{}", cfg.name, ci);
            let path: Vec<Value> = case["path"].as_array().unwrap().clone();
            let history: Vec<Call> = path.iter().map(|c| concretise(c, cfg)).collect();
            i += 1;
            w.write(&json!({"i": i, "case": case_id, "ev": "Init", "a": {"font": cfg.name}, "o": {}}));
            for c in &path {
                i += 1;
                w.write(&json!({"i": i, "case": case_id, "ev": "Call", "a": {"call": c, "probe": false}, "o": {"differs": false}}));
            }
            for f in case["fan"].as_array().unwrap() {
                let probe = concretise(&f["call"], cfg);
                let (after, fresh) = run_both(&cfg.data, &history, &probe);
                n_probes += 1;
                let differs = after != fresh;
                if differs {
                    n_differs += 1;
                }
                i += 1;
                let mut o = json!({"differs": differs});
                if differs {
                    o["after"] = json!(after.chars().take(300).collect::<String>());
                    o["fresh"] = json!(fresh.chars().take(300).collect::<String>());
                }
                w.write(&json!({"i": i, "case": case_id, "ev": "Call", "a": {"call": f["call"], "probe": true,
                                "predicted": f["impure"], "font": cfg.name}, "o": o}));
            }
        }
    }
    let n = w.n;
    w.finish();
    println!("{}", json!({"cases": cases.len(), "fonts": fonts.len(), "probes": n_probes, "differs": n_differs, "events": n}));
}

// ---- random long histories --------------------------------------------------------------------

fn abstract_of(c: &Call, cfg: &FontCfg) -> Value {
    let chn = |ch: char| match ch {
        '\u{25CC}' => "DC",
        c if (c as u32) >= 0x1F000 || c == '\u{2764}' => "EM",
        _ => "A",
    };
    let vsn = |v: Option<u8>| match v {
        Some(15) => "VS15",
        Some(16) => "VS16",
        Some(1) => "VS01",
        _ => "none",
    };
    match c {
        Call::LookupGlyph { ch, required, vs } => json!({"op": "LookupGlyph", "ch": chn(*ch), "pres": if *required { "Req" } else { "NotReq" }, "vs": vsn(*vs)}),
        Call::MapGlyphs { text, script, required } => {
            // (ch, vs) pairs as map_glyphs sees them after its own look-ahead for selectors
            let chars: Vec<char> = text.chars().collect();
            let mut seq = Vec::new();
            let mut k = 0;
            while k < chars.len() {
                let ch = chars[k];
                if ch == '\u{FE0E}' || ch == '\u{FE0F}' || ch == '\u{FE00}' {
                    k += 1;
                    continue;
                }
                let vs = match chars.get(k + 1) {
                    Some('\u{FE0E}') => "VS15",
                    Some('\u{FE0F}') => "VS16",
                    Some('\u{FE00}') => "VS01",
                    _ => "none",
                };
                seq.push(json!({"ch": chn(ch), "vs": vs}));
                k += 1;
            }
            json!({"op": "MapGlyphs", "text": seq, "script": format!("{:08x}", script), "pres": if *required { "Req" } else { "NotReq" }})
        }
        Call::Shape { text, script, lang, mask, custom, tuple, kern } => {
            // the lookups cache is keyed by the mask AFTER intersection with the features the
            // font supports for (script, lang): that intersection is the identity the model needs
            let eff = effective_mask(cfg, *script, *lang, *mask);
            json!({"op": "Shape", "text": text, "script": format!("{:08x}", script), "lang": format!("{:?}", lang),
                   "mask": if *custom { "custom".to_string() } else { format!("{:x}", eff) },
                   "tuple": match tuple { None => "none".to_string(), Some(t) => format!("{:?}", t) }, "kern": kern})
        }
        Call::Image { g, .. } => json!({"op": "Image", "g": g}),
        Call::HasImages => json!({"op": "HasImages"}),
        Call::SetFilter { name, .. } => json!({"op": "SetFilter", "f": name}),
        Call::HAdvance { g } => json!({"op": "HAdvance", "g": g}),
        Call::VAdvance { g } => json!({"op": "VAdvance", "g": g}),
        Call::GlyphNames { g } => json!({"op": "GlyphNames", "g": g}),
    }
}

/// mask & supported features of (script, lang), asked of a scratch Font bit by bit through the
/// public `features_supported`.
fn effective_mask(cfg: &FontCfg, script: u32, lang: Option<u32>, mask: u64) -> u64 {
    let r = guarded(|| {
        with_font(&cfg.data, |font| {
            let cache = match font.gsub_cache() {
                Ok(Some(c)) => c,
                _ => return mask,
            };
            let mut eff = 0u64;
            for b in 0..64 {
                let bit = 1u64 << b;
                if mask & bit != 0 {
                    let fm = FeatureMask::from_bits_truncate(bit);
                    if fm.bits() == bit && allsorts::gsub::features_supported(&cache, script, lang, fm).unwrap_or(false) {
                        eff |= bit;
                    }
                }
            }
            eff
        })
    });
    match r {
        Outcome::Returned(Some(e)) => e,
        _ => mask,
    }
}

fn random_call(rng: &mut StdRng, cfg: &FontCfg) -> Call {
    let chars = ['A', 'B', 'a', '\u{25CC}', '\u{25CC}', '\u{1F600}', '\u{2764}', '\u{0915}', '\u{0644}'];
    let vss = [None, None, Some(15u8), Some(16u8), Some(1u8)];
    match rng.gen_range(0..20) {
        0..=3 => Call::LookupGlyph { ch: *chars.choose(rng).unwrap(), required: rng.gen_bool(0.5), vs: *vss.choose(rng).unwrap() },
        4..=6 => {
            let mut t = cfg.words.choose(rng).unwrap().clone();
            if rng.gen_bool(0.3) {
                t.push('\u{25CC}');
                if rng.gen_bool(0.5) {
                    t.push('\u{FE0F}');
                }
            }
            Call::MapGlyphs { text: t, script: cfg.scripts[rng.gen_range(0..2)], required: rng.gen_bool(0.4) }
        }
        7..=13 => Call::Shape {
            text: cfg.words.choose(rng).unwrap().clone(),
            script: cfg.scripts[rng.gen_range(0..2)],
            lang: if rng.gen_bool(0.7) { Some(cfg.lang) } else { None },
            mask: [FeatureMask::default().bits(), (FeatureMask::LIGA | FeatureMask::CCMP).bits(), FeatureMask::all().bits(), 0][rng.gen_range(0..4)],
            custom: rng.gen_bool(0.15),
            tuple: match rng.gen_range(0..4) {
                0 => None,
                1 => Some(vec![0.0]),
                2 => Some(vec![1.0]),
                _ => Some(vec![[-1.0f32, 0.25, 0.5, 0.75][rng.gen_range(0..4)]]),
            },
            kern: rng.gen_bool(0.5),
        },
        14 => Call::Image { g: rng.gen_range(0..6), ppem: [16, 100, 300][rng.gen_range(0..3)] },
        15 => Call::HasImages,
        16 => match rng.gen_range(0..3) {
            0 => Call::SetFilter { bits: FILTER_DEFAULT, name: "default".into() },
            1 => Call::SetFilter { bits: 0, name: "empty".into() },
            _ => Call::SetFilter { bits: 1 << 5, name: "bw".into() },
        },
        17 => Call::HAdvance { g: rng.gen_range(0..8) },
        18 => Call::VAdvance { g: rng.gen_range(0..8) },
        _ => Call::GlyphNames { g: vec![rng.gen_range(0..8), 0] },
    }
}

fn record(seed: u64, histories: usize, len: usize, out: &str) {
    let mut rng = StdRng::seed_from_u64(seed);
    let fonts = fonts();
    let mut w = NdWriter::create(out);
    let mut i = 0u64;
    let mut n_differs = 0usize;
    for h in 0..histories {
        let cfg = &fonts[h % fonts.len()];
        let case_id = format!("{}/r{}-{}", cfg.name, seed, h);
        i += 1;
        w.write(&json!({"i": i, "case": case_id, "ev": "Init", "a": {"font": cfg.name}, "o": {}}));
        let mut history: Vec<Call> = Vec::new();
        for _ in 0..len {
            let c = random_call(&mut rng, cfg);
            let (after, fresh) = run_both(&cfg.data, &history, &c);
            let differs = after != fresh;
            if differs {
                n_differs += 1;
            }
            let mut o = json!({"differs": differs});
            if differs {
                o["after"] = json!(after.chars().take(300).collect::<String>());
                o["fresh"] = json!(fresh.chars().take(300).collect::<String>());
            }
            i += 1;
            w.write(&json!({"i": i, "case": case_id, "ev": "Call", "a": {"call": abstract_of(&c, cfg), "probe": false, "font": cfg.name}, "o": o}));
            history.push(c);
        }
    }
    let n = w.n;
    w.finish();
    println!("{}", json!({"histories": histories, "events": n, "differs": n_differs}));
}

// ---- pure operations repeated -----------------------------------------------------------------

fn fnv(d: &[u8]) -> String {
    let mut h: u64 = 0xcbf29ce484222325;
    for &b in d {
        h ^= b as u64;
        h = h.wrapping_mul(0x100000001b3);
    }
    format!("{:016x}:{}", h, d.len())
}

fn repeat(seed: u64, out: &str) {
    let mut rng = StdRng::seed_from_u64(seed);
    let mut w = NdWriter::create(out);
    let mut files = vh::util::repo_fonts();
    files.retain(|p| !p.contains("/aots/"));
    files.shuffle(&mut rng);
    let mut n = 0;
    for path in files.iter().take(40) {
        let data = match std::fs::read(path) {
            Ok(d) if d.len() > 100 => d,
            _ => continue,
        };
        let name = path.rsplit('/').next().unwrap();
        let ids: Vec<u16> = {
            let mut v = vec![0u16];
            for k in 1..30u16 {
                v.push(k * 3 % 97 + 1);
            }
            v.sort();
            v.dedup();
            v
        };
        for run in 0..2 {
            let r = guarded(|| -> Option<Vec<(String, String)>> {
                let fd = ReadScope::new(&data).read::<FontData<'_>>().ok()?;
                let prov = fd.table_provider(0).ok()?;
                let mut outs = Vec::new();
                // decoding: every table's bytes
                let mut tags = prov.table_tags().unwrap_or_default();
                tags.sort();
                let mut all = Vec::new();
                for t in &tags {
                    if let Ok(Some(d)) = prov.table_data(*t) {
                        all.extend_from_slice(&t.to_be_bytes());
                        all.extend_from_slice(&d);
                    }
                }
                outs.push(("decode".to_string(), fnv(&all)));
                let n = prov.table_data(allsorts::tag::MAXP).ok().flatten().and_then(|d| be16(&d, 4)).unwrap_or(0);
                let ids: Vec<u16> = ids.iter().cloned().filter(|g| *g < n).collect();
                if let Ok(b) = allsorts::subset::subset(&prov, &ids) {
                    outs.push(("subset".to_string(), fnv(&b)));
                }
                if let Ok(b) = allsorts::subset::whole_font(&prov, &tags) {
                    outs.push(("whole_font".to_string(), fnv(&b)));
                }
                if prov.has_table(allsorts::tag::FVAR) {
                    if let Some(fv) = prov.table_data(allsorts::tag::FVAR).ok().flatten() {
                        if let Ok(f) = ReadScope::new(&fv).read::<allsorts::tables::variable_fonts::fvar::FvarTable<'_>>() {
                            let t: Vec<allsorts::tables::Fixed> = f.axes().map(|a| a.max_value).collect();
                            if let Ok((b, _)) = allsorts::variations::instance(&prov, &t) {
                                outs.push(("instance".to_string(), fnv(&b)));
                            }
                        }
                    }
                }
                Some(outs)
            });
            if let Outcome::Returned(Some(outs)) = r {
                for (op, d) in outs {
                    n += 1;
                    w.write(&json!({"font": name, "op": op, "run": run, "pid": std::process::id(), "digest": d}));
                }
            }
        }
    }
    w.finish();
    println!("{}", json!({"records": n}));
}

fn main() {
    let args: Vec<String> = std::env::args().collect();
    match args.get(1).map(|s| s.as_str()) {
        Some("replay") => replay(&args[2], &args[3]),
        Some("record") => record(args[2].parse().unwrap(), args[3].parse().unwrap(), args[4].parse().unwrap(), &args[5]),
        Some("repeat") => repeat(args[2].parse().unwrap(), &args[3]),
        _ => {
            eprintln!("usage: c03_purity replay|record|repeat ...");
            std::process::exit(2);
        }
    }
}
