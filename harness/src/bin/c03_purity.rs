//! C03 harness: results depend only on the arguments, not on earlier calls.
//!
//!   c03_purity replay <cases.ndjson> <trace.ndjson>
//!       CASE lines of MC_FontCache (a history `path` reaching a cache state + the fan of all
//!       calls): for every font, every fan call is executed after the history on one Font object
//!       and on a freshly loaded one (carrying the same image-filter configuration); the two
//!       results are compared by value. Events are judged by Trace_FontCache.
//!   c03_purity record <seed> <histories> <len> <fill> <trace.ndjson>
//!       random long histories over a richer concrete universe, every call compared with fresh.
//!       Fonts come in three families, named by the CASE: `intact` (repository fonts and synthesized
//!       ones), `dmg` (the same fonts served through a table provider that truncates one or several
//!       lazily loaded tables or fails to deliver them, so that their load fails while Font::new
//!       succeeds) and `collide` (a font whose GSUB and/or GPOS is built from the layout the CASE
//!       carries: > 64 KiB, Coverage/ClassDef tables at positions congruent mod 2^16 and 2^8).
//!       Round 2: `img` (fonts carrying two to four embedded-image tables - SVG, CBDT/CBLC, sbix, EBDT/EBLC, see
//!       c03_purity/imgenc.rs - under sequences of image filters and image queries), `fill` (one long history that
//!       fills a keyed cache far beyond any plausible capacity: (script, language, mask) keys on a synthesized GSUB
//!       with a `frac` feature, languages under the Indic / Arabic shapers of repository fonts, hundreds of lookups
//!       with a Coverage each) and `scopes` (the subject is a pair of ReadCaches read through scopes derived by
//!       offset / offset_length / read_scope / nested windows).  `record` also runs long incremental histories of
//!       ever new keys with one Font living through all of them.  Facts used for vacuity guards (`input_facts`,
//!       `*_selfcheck`) are computed from the calls and from the built bytes only; `*_fresh_results` depend on
//!       what allsorts answers and are judged by the driver after the violations.
//!   c03_purity repeat <seed> <out.ndjson>
//!       pure operations (subset, instance, whole_font, WOFF/WOFF2 decoding) run twice in this
//!       process; digests recorded per run (the driver also runs this in a second process).
use allsorts::binary::read::{ReadCache, ReadScope};
use allsorts::layout::{ClassDef, Coverage};
use allsorts::bitmap::BitDepth;
use allsorts::error::ParseError;
use allsorts::font::{Font, GlyphTableFlags, MatchingPresentation};
use allsorts::font_data::{DynamicFontTableProvider, FontData};
use allsorts::gsub::{FeatureMask, Features};
use allsorts::tables::variable_fonts::fvar::Tuple;
use allsorts::tables::{F2Dot14, FontTableProvider};
use allsorts::unicode::VariationSelector;
use rand::rngs::StdRng;
use rand::seq::SliceRandom;
use rand::{Rng, SeedableRng};
use serde_json::{json, Value};
use std::borrow::Cow;
use std::collections::BTreeMap;
use std::rc::Rc;
use vh::fontgen::*;
use vh::sup::{guarded, Outcome};
use vh::util::{read_ndjson, repo_root, NdWriter};

#[path = "c03_purity/imgenc.rs"]
mod imgenc;
#[path = "c03_purity/vargen.rs"]
mod vargen;
#[path = "c03_purity/pairgen.rs"]
mod pairgen;

// ---- fonts ------------------------------------------------------------------------------------

/// GSUB 1.1 with one feature `liga` (lookup 0: gid 1 -> 2) and a FeatureVariations record that
/// substitutes lookup 1 (gid 1 -> 3) when axis 0 is in [0.5, 1.0].
fn gsub_with_feature_variations() -> Vec<u8> {
    let mut w = W::new();
    w.u16(1).u16(1).u16(14).u16(0).u16(0).u32(0);
    // ScriptList
    let script_list = w.len();
    w.u16(1).tag("DFLT").u16(8);
    w.u16(4).u16(0); // Script: defaultLangSys at 4, no other lang sys
    w.u16(0).u16(0xFFFF).u16(1).u16(0); // LangSys: one feature, index 0
    let feature_list = w.len();
    w.u16(1).tag("liga").u16(8);
    w.u16(0).u16(1).u16(0); // Feature: lookup 0
    let lookup_list = w.len();
    w.u16(2).u16(6).u16(6 + 22);
    for subst in [2u16, 3u16] {
        // Lookup: type 1, flag 0, 1 subtable at 8
        w.u16(1).u16(0).u16(1).u16(8);
        // SingleSubst format 2: coverage at 8 from subtable start
        w.u16(2).u16(8).u16(1).u16(subst);
        // Coverage format 1: glyph 1
        w.u16(1).u16(1).u16(1);
    }
    let fv = w.len();
    w.u16(1).u16(0).u32(1);
    w.u32(16).u32(16 + 14); // condition set, substitution (from FeatureVariations start)
    // ConditionSet
    w.u16(1).u32(6);
    w.u16(1).u16(0).i16(0x2000).i16(0x4000); // axis 0 in [0.5, 1.0]
    // FeatureTableSubstitution
    w.u16(1).u16(0).u16(1);
    w.u16(0).u32(12); // feature index 0 -> alternate feature at 12
    w.u16(0).u16(1).u16(1); // Feature: lookup 1
    w.set_u16(4, script_list as u16);
    w.set_u16(6, feature_list as u16);
    w.set_u16(8, lookup_list as u16);
    w.set_u32(10, fv as u32);
    w.done()
}

fn fvar_one_axis() -> Vec<u8> {
    let mut w = W::new();
    w.u16(1).u16(0).u16(16).u16(2).u16(1).u16(20).u16(0).u16(8);
    w.tag("wght").i32(100 << 16).i32(100 << 16).i32(900 << 16).u16(0).u16(256);
    w.done()
}

fn synth_fv_font() -> Vec<u8> {
    let mut f = TtFont::new(vec![GlyphSpec::Empty, triangle(0), triangle(10), triangle(20), triangle(30), triangle(40)]);
    f.cmap = vec![(0x41, 1), (0x42, 2), (0x43, 3), (0x25CC, 4), (0x1F600, 5)];
    f.extra_tables.push(("GSUB".into(), gsub_with_feature_variations()));
    f.extra_tables.push(("fvar".into(), fvar_one_axis()));
    f.build()
}

/// A small font that carries every lazily loaded table kind (GSUB with FeatureVariations, GPOS, GDEF,
/// kern, morx, vhea, vmtx, sbix); `with_gsub = false` leaves GSUB out so that shaping goes through morx.
fn synth_all_font(with_gsub: bool) -> Vec<u8> {
    let mut f = TtFont::new(vec![GlyphSpec::Empty, triangle(0), triangle(10), triangle(20), triangle(30), triangle(40)]);
    f.cmap = vec![(0x41, 1), (0x42, 2), (0x43, 3), (0x25CC, 4), (0x1F600, 5)];
    if with_gsub {
        f.extra_tables.push(("GSUB".into(), gsub_with_feature_variations()));
    }
    f.extra_tables.push(("fvar".into(), fvar_one_axis()));
    // GPOS: feature kern -> SinglePos (glyph 1 advances 100 further)
    let gpos_spec = vec![LSpec {
        tbl: "GPOS".into(),
        idx: 0,
        feat: "kern".into(),
        typ: "single".into(),
        ext: false,
        sub: 256,
        l2: false,
        objs: vec![Obj { kind: "cov".into(), pos: 264, content: "A".into() }],
        nested: vec![],
    }];
    f.extra_tables.push(("GPOS".into(), build_layout("GPOS", &gpos_spec)));
    let mut gdef = W::new();
    gdef.u16(1).u16(0).u16(0).u16(0).u16(0).u16(0);
    f.extra_tables.push(("GDEF".into(), gdef.done()));
    let mut kern = W::new();
    kern.u16(0).u16(1); // version 0, one sub-table
    kern.u16(0).u16(20).u16(1); // sub-table version, length, coverage: horizontal, format 0
    kern.u16(1).u16(6).u16(0).u16(0); // nPairs, searchRange, entrySelector, rangeShift
    kern.u16(1).u16(2).i16(-30);
    f.extra_tables.push(("kern".into(), kern.done()));
    let mut morx = W::new();
    morx.u16(2).u16(0).u32(0); // version 2, no chains
    f.extra_tables.push(("morx".into(), morx.done()));
    f.extra_tables.push(("vhea".into(), hhea(6, 800, -200, 1000)));
    let vm: Vec<(u16, i16)> = (0..6).map(|i| (900 + 7 * i as u16, 3 * i as i16)).collect();
    f.extra_tables.push(("vmtx".into(), hmtx(&vm, &[])));
    let mut sbix = W::new();
    sbix.u16(1).u16(1).u32(0); // version, flags, no strikes
    f.extra_tables.push(("sbix".into(), sbix.done()));
    f.build()
}

// ---- damaged tables: a wrapping table provider --------------------------------------------------

#[derive(Clone, Debug, PartialEq)]
enum Mode {
    /// the table is cut off after n bytes
    Trunc(usize),
    /// the table is cut off in the middle
    Half,
    /// the provider fails to deliver the table (as a container that cannot decompress it would)
    Fail,
}

#[derive(Clone, Debug, Default)]
struct Damage {
    items: Vec<(u32, Mode)>,
}

struct Wrap<'a> {
    inner: DynamicFontTableProvider<'a>,
    dmg: &'a Damage,
}

impl<'a> FontTableProvider for Wrap<'a> {
    fn table_data(&self, tag: u32) -> Result<Option<Cow<'_, [u8]>>, ParseError> {
        match self.dmg.items.iter().find(|(t, _)| *t == tag) {
            None => self.inner.table_data(tag),
            Some((_, Mode::Fail)) => Err(ParseError::BadEof),
            Some((_, Mode::Trunc(n))) => Ok(self.inner.table_data(tag)?.map(|d| Cow::Owned(d[..(*n).min(d.len())].to_vec()))),
            Some((_, Mode::Half)) => Ok(self.inner.table_data(tag)?.map(|d| Cow::Owned(d[..d.len() / 2].to_vec()))),
        }
    }

    fn has_table(&self, tag: u32) -> bool {
        self.inner.has_table(tag)
    }

    fn table_tags(&self) -> Option<Vec<u32>> {
        self.inner.table_tags()
    }
}

const KINDS: [&str; 8] = ["gsub", "gpos", "gdef", "morx", "kern", "vhea", "vmtx", "images"];

/// The tables of `data` (read with the harness's own sfnt reader) that make up a lazily loaded kind.
fn kind_tags(kind: &str, data: &[u8]) -> Vec<u32> {
    let cands: &[&str] = match kind {
        "gsub" => &["GSUB"],
        "gpos" => &["GPOS"],
        "gdef" => &["GDEF"],
        "morx" => &["morx"],
        "kern" => &["kern"],
        "vhea" => &["vhea"],
        "vmtx" => &["vmtx"],
        _ => &["SVG ", "sbix", "CBLC", "CBDT"],
    };
    let dir = match read_sfnt_dir(data, 0) {
        Some(d) => d,
        None => return vec![],
    };
    cands.iter().filter(|t| table_bytes(data, &dir, t).is_some()).map(|t| tag_u32(t)).collect()
}

fn mode_name(m: &Mode) -> String {
    match m {
        Mode::Trunc(n) => format!("trunc{}", n),
        Mode::Half => "half".into(),
        Mode::Fail => "fail".into(),
    }
}

/// Does the load of every damaged kind fail on a fresh font, as the model assumes?  (vmtx has no
/// accessor and its load only fails when the provider fails; that holds by construction.)
fn damage_takes_effect(cfg: &FontCfg, kinds: &[String]) -> bool {
    let r = guarded(|| {
        with_font(&cfg.data, &cfg.damage, |font| {
            kinds.iter().all(|k| match k.as_str() {
                "gsub" => font.gsub_cache().is_err(),
                "gpos" => font.gpos_cache().is_err(),
                "gdef" => font.gdef_table().is_err(),
                "morx" => font.morx_table().is_err(),
                "kern" => font.kern_table().is_err(),
                "vhea" => font.vhea_table().is_err(),
                "vmtx" => cfg.damage.items.iter().all(|(_, m)| *m == Mode::Fail),
                _ => font.lookup_glyph_image(1, 100, BitDepth::ThirtyTwo).is_err(),
            })
        })
    });
    matches!(r, Outcome::Returned(Some(true)))
}

/// Concrete fonts for the abstract font "tables `kinds` are damaged": every base font that has all of
/// them, under every damage mode; variants whose loads do not fail are dropped (and counted).
fn damaged_variants(bases: &[FontCfg], kinds: &[String], modes: &[Mode], dropped: &mut usize) -> Vec<FontCfg> {
    let mut v = Vec::new();
    for b in bases {
        let tags: Vec<Vec<u32>> = kinds.iter().map(|k| kind_tags(k, &b.data)).collect();
        if tags.iter().any(|t| t.is_empty()) {
            continue;
        }
        for m in modes {
            let mut c = b.clone();
            c.name = format!("{}~{}:{}", b.name, kinds.join("+"), mode_name(m));
            c.fam = "dmg";
            c.damage = Damage { items: tags.iter().flatten().map(|t| (*t, m.clone())).collect() };
            c.desc = json!({"fam": "dmg", "damaged": kinds, "lookups": [], "imgs": 7, "sub": ""});
            if *m == Mode::Half || damage_takes_effect(&c, kinds) {
                v.push(c);
            } else {
                *dropped += 1;
            }
        }
    }
    v
}

// ---- colliding cache keys: layout tables built from the layout the model dictates ---------------

#[derive(Clone, Debug)]
struct Obj {
    kind: String,
    pos: usize,
    content: String,
}

#[derive(Clone, Debug)]
struct LSpec {
    tbl: String,
    idx: usize,
    feat: String,
    typ: String,
    ext: bool,
    sub: usize,
    /// the feature also belongs to the second language system (TRK) of the table
    l2: bool,
    objs: Vec<Obj>,
    nested: Vec<usize>,
}

fn lspecs(lookups: &Value) -> Vec<LSpec> {
    lookups
        .as_array()
        .map(|a| {
            a.iter()
                .map(|l| LSpec {
                    tbl: l["tbl"].as_str().unwrap().into(),
                    idx: l["idx"].as_u64().unwrap() as usize,
                    feat: l["feat"].as_str().unwrap().into(),
                    typ: l["typ"].as_str().unwrap().into(),
                    ext: l["ext"].as_bool().unwrap(),
                    sub: l["sub"].as_u64().unwrap() as usize,
                    l2: l["l2"].as_bool().unwrap_or(false),
                    objs: l["objs"].as_array().unwrap().iter().map(|o| Obj {
                        kind: o["kind"].as_str().unwrap().into(),
                        pos: o["pos"].as_u64().unwrap() as usize,
                        content: o["content"].as_str().unwrap().into(),
                    }).collect(),
                    nested: l["nested"].as_array().map(|n| n.iter().map(|x| x.as_u64().unwrap() as usize).collect()).unwrap_or_default(),
                })
                .collect()
        })
        .unwrap_or_default()
}

/// glyph of a character in the collide and fill fonts: 'A'..'Z' 1..26, U+25CC 27, '0'..'9' 28..37, '/' 38,
/// ' ' 39, 'a'..'z' 40..65; a single substitution adds COLLIDE_DELTA, so the fonts have LAYOUT_GLYPHS glyphs
fn gid(c: char) -> u16 {
    match c {
        'A'..='Z' => (c as u32 - 'A' as u32 + 1) as u16,
        '\u{25CC}' => 27,
        '0'..='9' => (c as u32 - '0' as u32 + 28) as u16,
        '/' => 38,
        ' ' => 39,
        'a'..='z' => (c as u32 - 'a' as u32 + 40) as u16,
        _ => panic!("no glyph for {:?}", c),
    }
}
fn layout_cmap() -> Vec<(u32, u16)> {
    let mut v: Vec<(u32, u16)> = ('A'..='Z').chain('a'..='z').chain('0'..='9').chain("/ \u{25CC}".chars()).map(|c| (c as u32, gid(c))).collect();
    v.sort();
    v
}
const LAYOUT_GLYPHS: usize = 110;
const COLLIDE_TEXT: &str = "ABCIXEXFXG";
const COLLIDE_DELTA: u16 = 32;
/// texts shaped on the fill fonts: two fractions, the letters of the keyed features / every letter
const KEYS_TEXT: &str = "1/2 ABCDEFGHIJKLM 12/21";
const LETTERS_TEXT: &str = "ABCDEFGHIJKLMNOPQRSTUVWXYZabcdefghijklmnopqrstuvwxyz";

struct Img {
    buf: Vec<u8>,
    used: Vec<bool>,
}

impl Img {
    fn put(&mut self, at: usize, bytes: &[u8]) {
        if self.buf.len() < at + bytes.len() {
            self.buf.resize(at + bytes.len(), 0);
            self.used.resize(at + bytes.len(), false);
        }
        for (k, b) in bytes.iter().enumerate() {
            assert!(!self.used[at + k], "layout overlaps at byte {}", at + k);
            self.used[at + k] = true;
            self.buf[at + k] = *b;
        }
    }
}

fn coverage_bytes(content: &str) -> Vec<u8> {
    let mut g: Vec<u16> = content.chars().map(gid).collect();
    g.sort();
    let mut w = W::new();
    w.u16(1).u16(g.len() as u16);
    for x in g {
        w.u16(x);
    }
    w.done()
}

fn classdef_bytes(content: &str) -> Vec<u8> {
    let mut g: Vec<u16> = content.chars().map(gid).collect();
    g.sort();
    let mut w = W::new();
    w.u16(2).u16(g.len() as u16);
    for x in g {
        w.u16(x).u16(x).u16(1);
    }
    w.done()
}

/// A GSUB or GPOS table (version 1.0; scripts DFLT and latn sharing one Script table: a default language
/// system with every feature and a language system TRK with the features marked `l2`) holding the
/// lookups of `specs` that belong to `tbl`, every sub-table and every Coverage/ClassDef object at the
/// absolute position the layout names.  `single`: SingleSubst format 1 (glyph + 32) / SinglePos format 1
/// (advance + 100).  `class`: ContextSubst format 2 (glyphs of class 1 get lookup nested[0]) / PairPos
/// format 2 (a covered glyph followed by a glyph of class 1 advances 100 further).
fn build_layout(tbl: &str, specs: &[LSpec]) -> Vec<u8> {
    let specs: Vec<&LSpec> = specs.iter().filter(|s| s.tbl == tbl).collect();
    let gsub = tbl == "GSUB";
    let mut feats: Vec<String> = specs.iter().map(|s| s.feat.clone()).filter(|f| f != "none").collect();
    feats.sort();
    feats.dedup();
    let mut img = Img { buf: vec![], used: vec![] };
    // script list
    let script_list = 10usize;
    let mut w = W::new();
    w.u16(2).tag("DFLT").u16(14).tag("latn").u16(14);
    let l2: Vec<usize> = (0..feats.len()).filter(|i| specs.iter().any(|s| s.feat == feats[*i] && s.l2)).collect();
    w.u16(10).u16(1).tag("TRK ").u16((10 + 6 + 2 * feats.len()) as u16); // Script: default LangSys at 10, one more
    w.u16(0).u16(0xFFFF).u16(feats.len() as u16);
    for i in 0..feats.len() {
        w.u16(i as u16);
    }
    w.u16(0).u16(0xFFFF).u16(l2.len() as u16);
    for i in &l2 {
        w.u16(*i as u16);
    }
    let sl = w.done();
    img.put(script_list, &sl);
    // feature list
    let feature_list = script_list + sl.len();
    let mut w = W::new();
    w.u16(feats.len() as u16);
    let mut off = 2 + 6 * feats.len();
    let mut tables = Vec::new();
    for f in &feats {
        let idxs: Vec<usize> = specs.iter().filter(|s| &s.feat == f).map(|s| s.idx).collect();
        w.tag(f).u16(off as u16);
        let mut t = W::new();
        t.u16(0).u16(idxs.len() as u16);
        for i in &idxs {
            t.u16(*i as u16);
        }
        off += t.len();
        tables.push(t.done());
    }
    for t in tables {
        w.bytes(&t);
    }
    let fl = w.done();
    img.put(feature_list, &fl);
    // lookup list: indices that the layout does not name share the first lookup
    let lookup_list = feature_list + fl.len();
    let count = specs.iter().map(|s| s.idx).max().unwrap_or(0) + 1;
    let mut at = lookup_list + 2 + 2 * count;
    let mut lookup_pos = BTreeMap::new();
    for s in &specs {
        lookup_pos.insert(s.idx, at);
        at += if s.ext { 16 } else { 8 };
    }
    let header_end = at;
    let first = *lookup_pos.values().next().unwrap();
    let mut w = W::new();
    w.u16(count as u16);
    for i in 0..count {
        w.u16((*lookup_pos.get(&i).unwrap_or(&first) - lookup_list) as u16);
    }
    img.put(lookup_list, &w.done());
    let mut hdr = W::new();
    hdr.u16(1).u16(0).u16(script_list as u16).u16(feature_list as u16).u16(lookup_list as u16);
    img.put(0, &hdr.done());
    for s in &specs {
        assert!(s.sub >= header_end, "sub-table of lookup {} at {} lies inside the header (ends {})", s.idx, s.sub, header_end);
        let lp = lookup_pos[&s.idx];
        let base_type: u16 = match (gsub, s.typ.as_str()) {
            (true, "single") => 1,
            (true, _) => 5,
            (false, "single") => 1,
            (false, _) => 2,
        };
        let mut w = W::new();
        if s.ext {
            w.u16(if gsub { 7 } else { 9 }).u16(0).u16(1).u16(8);
            w.u16(1).u16(base_type).u32((s.sub - (lp + 8)) as u32);
        } else {
            assert!(s.sub - lp < 65536, "lookup {} needs an extension", s.idx);
            w.u16(base_type).u16(0).u16(1).u16((s.sub - lp) as u16);
        }
        img.put(lp, &w.done());
        let cov = s.objs.iter().find(|o| o.kind == "cov").expect("coverage");
        let mut w = W::new();
        if s.typ == "single" {
            if gsub {
                w.u16(1).u16((cov.pos - s.sub) as u16).u16(COLLIDE_DELTA);
            } else {
                w.u16(1).u16((cov.pos - s.sub) as u16).u16(4).i16(100);
            }
        } else {
            let cls = s.objs.iter().find(|o| o.kind == "cls").expect("classdef");
            if gsub {
                w.u16(2).u16((cov.pos - s.sub) as u16).u16((cls.pos - s.sub) as u16).u16(2).u16(0).u16(12);
                w.u16(1).u16(4); // SubClassSet: one rule
                w.u16(1).u16(1).u16(0).u16(s.nested[0] as u16); // one glyph; at 0 apply nested[0]
            } else {
                w.u16(2).u16((cov.pos - s.sub) as u16).u16(4).u16(0);
                w.u16((cls.pos - s.sub) as u16).u16((cls.pos - s.sub) as u16).u16(1).u16(2);
                w.i16(0).i16(100);
            }
            img.put(cls.pos, &classdef_bytes(&cls.content));
        }
        img.put(s.sub, &w.done());
        img.put(cov.pos, &coverage_bytes(&cov.content));
    }
    img.buf
}

/// Walk the bytes of a built layout table with plain offset arithmetic and return, per lookup of the
/// layout, the absolute positions of its Coverage and ClassDef (None when the bytes disagree).
fn walk_layout(tbl: &str, data: &[u8], specs: &[LSpec]) -> Option<usize> {
    let gsub = tbl == "GSUB";
    let ll = be16(data, 8)? as usize;
    let mut n = 0;
    for s in specs.iter().filter(|s| s.tbl == tbl) {
        let lk = ll + be16(data, ll + 2 + 2 * s.idx)? as usize;
        let ty = be16(data, lk)?;
        let mut st = lk + be16(data, lk + 6)? as usize;
        if ty == if gsub { 7 } else { 9 } {
            st += be32(data, st + 4)? as usize;
        }
        if st != s.sub {
            return None;
        }
        for o in &s.objs {
            let p = if o.kind == "cov" {
                st + be16(data, st + 2)? as usize
            } else if gsub {
                st + be16(data, st + 4)? as usize
            } else {
                st + be16(data, st + 10)? as usize
            };
            let want = if o.kind == "cov" { coverage_bytes(&o.content) } else { classdef_bytes(&o.content) };
            if p != o.pos || data.get(p..p + want.len())? != &want[..] {
                return None;
            }
            n += 1;
        }
    }
    Some(n)
}

fn collide_font(name: &str, desc: &Value) -> FontCfg {
    let specs = lspecs(&desc["lookups"]);
    let mut f = TtFont::new((0..LAYOUT_GLYPHS).map(|i| if i == 0 { GlyphSpec::Empty } else { triangle(i as i16) }).collect());
    f.cmap = layout_cmap();
    let mut feats: Vec<String> = specs.iter().map(|s| s.feat.clone()).filter(|x| x != "none").collect();
    feats.sort();
    feats.dedup();
    for tbl in ["GSUB", "GPOS"] {
        if specs.iter().any(|s| s.tbl == tbl) {
            f.extra_tables.push((tbl.into(), build_layout(tbl, &specs)));
        }
    }
    let fam = match desc["fam"].as_str() {
        Some("fill") => "fill",
        _ => "collide",
    };
    let words: Vec<String> = match desc["sub"].as_str() {
        Some("keys") => vec![KEYS_TEXT.into(), "3/4".into(), "ABC".into()],
        Some("lookups") => vec![LETTERS_TEXT.into(), "AaBbZz".into()],
        _ => vec![COLLIDE_TEXT.into(), "XEXFXGABCI".into(), "AEI".into()],
    };
    FontCfg {
        name: name.into(),
        data: f.build(),
        scripts: [tagv("latn"), tagv("grek")],
        lang: tagv("dflt"),
        words,
        fam,
        damage: Damage::default(),
        desc: desc.clone(),
        l2feats: feats.iter().filter(|f| specs.iter().any(|s| &s.feat == *f && s.l2)).cloned().collect(),
        feats,
    }
}

/// Facts about a collide font measured on its bytes: objects found where the layout says, pairs of
/// objects of one cache (same table, same kind, different content) whose keys would coincide under a
/// narrowed key, and how many different results shaping with each single feature (and none) gives.
fn collide_selfcheck(cfg: &FontCfg) -> Value {
    let specs = lspecs(&cfg.desc["lookups"]);
    let dir = read_sfnt_dir(&cfg.data, 0).expect("sfnt");
    let mut found = 0usize;
    let mut expected = 0usize;
    let mut big = 0usize;
    for tbl in ["GSUB", "GPOS"] {
        if let Some(t) = table_bytes(&cfg.data, &dir, tbl) {
            expected += specs.iter().filter(|s| s.tbl == tbl).map(|s| s.objs.len()).sum::<usize>();
            found += walk_layout(tbl, t, &specs).unwrap_or(0);
            if t.len() > 65536 {
                big += 1;
            }
        }
    }
    let (mut u16p, mut u8p, mut relp, mut idxp) = (0, 0, 0, 0);
    for (i, a) in specs.iter().enumerate() {
        for b in specs.iter().skip(i + 1) {
            if a.tbl != b.tbl {
                continue;
            }
            if a.idx % 256 == b.idx % 256 {
                idxp += 1;
            }
            for oa in &a.objs {
                for ob in &b.objs {
                    if oa.kind == ob.kind && oa.content != ob.content {
                        if oa.pos % 65536 == ob.pos % 65536 {
                            u16p += 1;
                        }
                        if oa.pos % 256 == ob.pos % 256 {
                            u8p += 1;
                        }
                        if oa.pos - a.sub == ob.pos - b.sub {
                            relp += 1;
                        }
                    }
                }
            }
        }
    }
    let mut outs = std::collections::BTreeSet::new();
    let mut sets: Vec<Vec<String>> = vec![vec![]];
    sets.extend(cfg.feats.iter().map(|f| vec![f.clone()]));
    for fs in &sets {
        let c = Call::Shape {
            text: COLLIDE_TEXT.into(),
            script: cfg.scripts[0],
            lang: None,
            mask: 0,
            custom: true,
            ctags: fs.iter().map(|f| tag_u32(f)).collect(),
            tuple: None,
            kern: false,
        };
        let (_, fresh) = run_both(cfg, &[], &c);
        outs.insert(fresh);
    }
    // the second language system has its own features only
    let shape_l = |lang: Option<u32>, f: &[&str], custom: bool| {
        let c = Call::Shape {
            text: COLLIDE_TEXT.into(),
            script: cfg.scripts[0],
            lang,
            mask: f.iter().fold(0u64, |m, t| m | FeatureMask::from_tag(tag_u32(t)).bits()),
            custom,
            ctags: f.iter().map(|t| tag_u32(t)).collect(),
            tuple: None,
            kern: false,
        };
        run_both(cfg, &[], &c).1
    };
    let trk = Some(tagv("TRK "));
    let l2_ok = [true, false].iter().all(|cu| {
        shape_l(trk, &["liga"], *cu) == shape_l(None, &[], *cu)
            && shape_l(trk, &["dlig"], *cu) == shape_l(None, &["dlig"], *cu)
            && shape_l(trk, &["dlig"], *cu) != shape_l(None, &[], *cu)
            && shape_l(None, &["liga"], *cu) != shape_l(None, &[], *cu)
    });
    json!({"font": cfg.name, "second_language_system_effective": l2_ok, "objects_expected": expected, "objects_found_at_position": found, "tables_over_64k": big,
           "alias_pairs_u16": u16p, "alias_pairs_u8": u8p, "alias_pairs_rel": relp, "alias_pairs_lookup_index_u8": idxp,
           "feature_sets": sets.len(), "distinct_results": outs.len()})
}

#[derive(Clone)]
struct FontCfg {
    name: String,
    data: Vec<u8>,
    scripts: [u32; 2],
    lang: u32,
    words: Vec<String>,
    /// "intact" | "dmg" | "collide"
    fam: &'static str,
    damage: Damage,
    /// the abstract font descriptor of FontCache.tla
    desc: Value,
    /// collide fonts: the features of the layout, and those of its second language system (TRK)
    feats: Vec<String>,
    l2feats: Vec<String>,
}

fn tagv(s: &str) -> u32 {
    tag_u32(s)
}

fn plain_desc() -> Value {
    json!({"fam": "intact", "damaged": [], "lookups": [], "imgs": 15, "sub": ""})
}

// ---- fonts with several embedded-image tables ------------------------------------------------------

/// A font that carries the image tables of the bit set `imgs` (1 SVG, 2 CBDT, 4 sbix, 8 EBDT), every one
/// of them with an image of the glyphs 1..=5.
fn img_font(imgs: u8) -> FontCfg {
    let mut f = TtFont::new(vec![GlyphSpec::Empty, triangle(0), triangle(10), triangle(20), triangle(30), triangle(40)]);
    f.cmap = vec![(0x41, 1), (0x42, 2), (0x43, 3), (0x25CC, 4), (0x1F600, 5)];
    for (tag, bytes) in imgenc::tables(imgs, 6) {
        f.extra_tables.push((tag, bytes));
    }
    let kinds: Vec<&str> = [(imgenc::SVG, "svg"), (imgenc::CBDT, "cbdt"), (imgenc::SBIX, "sbix"), (imgenc::EBDT, "ebdt")]
        .iter().filter(|(b, _)| imgs & b != 0).map(|(_, n)| *n).collect();
    FontCfg {
        name: format!("img-{}", kinds.join("+")),
        data: f.build(),
        scripts: [tagv("latn"), tagv("grek")],
        lang: tagv("dflt"),
        words: vec!["A\u{1F600}".into(), "A\u{25CC}".into()],
        fam: "img",
        damage: Damage::default(),
        desc: json!({"fam": "img", "damaged": [], "lookups": [], "imgs": imgs, "sub": ""}),
        feats: vec![],
        l2feats: vec![],
    }
}

/// Independent look at an img font (own sfnt reader, plain byte search): every table of the bit set is
/// there and holds the payload of glyph 1, no other image table is there.
fn img_selfcheck(cfg: &FontCfg) -> Value {
    let imgs = cfg.desc["imgs"].as_u64().unwrap_or(0) as u8;
    let dir = read_sfnt_dir(&cfg.data, 0).expect("sfnt");
    let mut ok = 0;
    let mut stray = 0;
    for (bit, loc, dat) in [(imgenc::SVG, "SVG ", "SVG "), (imgenc::CBDT, "CBLC", "CBDT"), (imgenc::SBIX, "sbix", "sbix"), (imgenc::EBDT, "EBLC", "EBDT")] {
        let l = table_bytes(&cfg.data, &dir, loc);
        let d = table_bytes(&cfg.data, &dir, dat);
        if imgs & bit != 0 {
            if l.is_some() && d.map(|t| imgenc::holds_payload(bit, t, 1)).unwrap_or(false) {
                ok += 1;
            }
        } else if l.is_some() || d.is_some() {
            stray += 1;
        }
    }
    json!({"font": cfg.name, "imgs": imgs, "tables_expected": imgs.count_ones(), "tables_found_with_payload": ok, "stray_tables": stray})
}

// ---- bitmap fonts with several strikes (`strike` family) --------------------------------------------

fn strikes_of(desc: &Value) -> Vec<imgenc::Strike> {
    desc["strikes"].as_array().map(|a| a.iter().map(|s| imgenc::Strike {
        ppem: s["ppem"].as_u64().unwrap() as u8, depth: s["depth"].as_u64().unwrap() as u8,
        first: s["first"].as_u64().unwrap() as u16, last: s["last"].as_u64().unwrap() as u16 }).collect()).unwrap_or_default()
}

/// A font whose one bitmap table (imgs = 8: EBLC/EBDT, 2: CBLC/CBDT) has the strikes of the descriptor.
fn strike_font(desc: &Value) -> FontCfg {
    let imgs = desc["imgs"].as_u64().unwrap_or(8) as u8;
    let strikes = strikes_of(desc);
    let mut f = TtFont::new((0..8).map(|i| if i == 0 { GlyphSpec::Empty } else { triangle(i as i16 * 10) }).collect());
    f.cmap = vec![(0x41, 1), (0x42, 2), (0x43, 3), (0x25CC, 4), (0x1F600, 5), (0x44, 6)];
    let (loc, dat) = imgenc::strike_tables(if imgs == imgenc::CBDT { 3 } else { 2 }, &strikes);
    let (lt, dt) = if imgs == imgenc::CBDT { ("CBLC", "CBDT") } else { ("EBLC", "EBDT") };
    f.extra_tables.push((lt.into(), loc));
    f.extra_tables.push((dt.into(), dat));
    FontCfg {
        name: format!("strike-{}", dt.to_lowercase()),
        data: f.build(),
        scripts: [tagv("latn"), tagv("grek")],
        lang: tagv("dflt"),
        words: vec!["A\u{1F600}".into()],
        fam: "strike",
        damage: Damage::default(),
        desc: desc.clone(),
        feats: vec![],
        l2feats: vec![],
    }
}

/// Independent look at a strike font (own sfnt reader, plain offset arithmetic): the location table declares the
/// strikes of the descriptor in order, the data table holds the pixels of every (strike, glyph).
fn strike_selfcheck(cfg: &FontCfg) -> Value {
    let imgs = cfg.desc["imgs"].as_u64().unwrap_or(8) as u8;
    let strikes = strikes_of(&cfg.desc);
    let dir = read_sfnt_dir(&cfg.data, 0).expect("sfnt");
    let (lt, dt) = if imgs == imgenc::CBDT { ("CBLC", "CBDT") } else { ("EBLC", "EBDT") };
    let declared = table_bytes(&cfg.data, &dir, lt).and_then(imgenc::read_strikes);
    let dat = table_bytes(&cfg.data, &dir, dt).unwrap_or(&[]);
    let mut pixels = 0usize;
    let mut wanted = 0usize;
    for (k, s) in strikes.iter().enumerate() {
        for g in s.first..=s.last {
            wanted += 1;
            let px = imgenc::strike_pixels(k, g, s.depth);
            if dat.windows(px.len()).any(|w| w == &px[..]) {
                pixels += 1;
            }
        }
    }
    let depths: std::collections::BTreeSet<u8> = strikes.iter().map(|s| s.depth).collect();
    // glyphs every strike of which is deeper than the shallowest strike of the font (a lower limit finds nothing)
    let min_depth = depths.iter().next().copied().unwrap_or(0);
    let deep_only = (1..8u16).filter(|g| { let d: Vec<u8> = strikes.iter().filter(|s| s.first <= *g && *g <= s.last).map(|s| s.depth).collect(); !d.is_empty() && d.iter().all(|x| *x > min_depth) }).count();
    json!({"font": cfg.name, "strikes": strikes.len(), "declared_as_dictated": declared.as_ref() == Some(&strikes), "bitmaps_expected": wanted, "bitmaps_found": pixels,
           "distinct_bit_depths": depths.len(), "glyphs_only_in_deeper_strikes": deep_only})
}

// ---- PairPos lookups with overlapping sub-tables (`pairs` family) ------------------------------------

const PAIR_WORDS: [&str; 12] = ["AB", "AC", "AD", "EF", "BD", "CA", "DA", "CD", "ABAC", "EFAD", "DACA", "XY"];

fn pairs_font(desc: &Value) -> FontCfg {
    let lookups = pairgen::plookups(&desc["lookups"]);
    let mut f = TtFont::new((0..LAYOUT_GLYPHS).map(|i| if i == 0 { GlyphSpec::Empty } else { triangle(i as i16) }).collect());
    f.cmap = layout_cmap();
    f.extra_tables.push(("GPOS".into(), pairgen::build_gpos(&lookups, &gid)));
    let mut feats: Vec<String> = lookups.iter().map(|l| l.feat.clone()).collect();
    feats.sort();
    feats.dedup();
    FontCfg {
        name: "pairs".into(),
        data: f.build(),
        scripts: [tagv("latn"), tagv("grek")],
        lang: tagv("dflt"),
        words: PAIR_WORDS.iter().map(|w| w.to_string()).collect(),
        fam: "pairs",
        damage: Damage::default(),
        desc: desc.clone(),
        feats,
        l2feats: vec![],
    }
}

/// Facts about the pairs font measured on its bytes (own reader) and on the layout: the sub-tables lie where and as
/// the layout says; the model's `objs` of each lookup are the Coverages / ClassDefs of its sub-tables; how many pairs
/// of letters are handled by more than one sub-table of a lookup (overlap), and how many by a later one only.
fn pairs_selfcheck(cfg: &FontCfg) -> Value {
    let lookups = pairgen::plookups(&cfg.desc["lookups"]);
    let dir = read_sfnt_dir(&cfg.data, 0).expect("sfnt");
    let confirmed = table_bytes(&cfg.data, &dir, "GPOS").and_then(|t| pairgen::walk(t, &lookups, &gid));
    let specs = lspecs(&cfg.desc["lookups"]);
    let objs_ok = lookups.iter().all(|l| {
        let want: Vec<(String, usize)> = l.subs.iter().flat_map(|s| if s.fmt == 1 { vec![("cov".to_string(), s.at + 32)] }
            else { vec![("cov".to_string(), s.at + 32), ("cls".to_string(), s.at + 64), ("cls".to_string(), s.at + 96)] }).collect();
        specs.iter().find(|x| x.tbl == "GPOS" && x.idx == l.idx).map(|x| x.objs.iter().map(|o| (o.kind.clone(), o.pos)).collect::<Vec<_>>() == want).unwrap_or(false)
    });
    let (mut overlap, mut later_only) = (0usize, 0usize);
    for l in &lookups {
        for a in 'A'..='Z' {
            for b in 'A'..='Z' {
                let h = pairgen::handlers(l, a, b);
                if h.len() > 1 { overlap += 1 }
                if h.first().map(|j| *j > 0).unwrap_or(false) { later_only += 1 }
            }
        }
    }
    json!({"font": cfg.name, "lookups": lookups.len(), "sub_tables": lookups.iter().map(|l| l.subs.len()).sum::<usize>(), "layout_confirmed": confirmed.is_some(),
           "facts_confirmed": confirmed.unwrap_or(0), "objs_match_sub_tables": objs_ok, "pairs_handled_by_several_sub_tables": overlap,
           "pairs_handled_by_a_later_sub_table_only": later_only})
}

/// What allsorts answers on a FRESH pairs font (diagnostic, judged by the driver only after the violations): the
/// kerning of a two-letter text is minus the value of the first sub-table that handles it, per lookup, summed.
fn pairs_fresh_results(cfg: &FontCfg) -> Value {
    let lookups = pairgen::plookups(&cfg.desc["lookups"]);
    let mut checked = 0usize;
    let mut agree = 0usize;
    let mut sample = Vec::new();
    for a in ['A', 'B', 'C', 'D', 'E', 'X'] {
        for b in ['A', 'B', 'C', 'D', 'F', 'Y'] {
            for kern in [true, false] {
                let c = Call::Shape { text: format!("{}{}", a, b), script: tagv("latn"), lang: None, mask: 0, custom: false, ctags: vec![], tuple: None, kern };
                let fresh = run_both(cfg, &[], &c).1;
                let want: i32 = lookups.iter().filter(|l| l.feat == "dist" || (kern && l.feat == "kern")).map(|l| {
                    match pairgen::handlers(l, a, b).first() {
                        Some(j) => { let s = &l.subs[*j]; if s.fmt == 1 || s.cls2.contains(&b) { -(s.val as i32) } else { 0 } }
                        None => 0,
                    }
                }).sum();
                let got: Vec<i32> = fresh.split("kerning: ").skip(1).filter_map(|t| t.split(|c: char| c != '-' && !c.is_ascii_digit()).next().and_then(|n| n.parse().ok())).collect();
                checked += 1;
                if got == vec![want, 0] {
                    agree += 1;
                } else if sample.len() < 3 {
                    sample.push(json!({"text": format!("{}{}", a, b), "kern": kern, "want_first": want, "got": got}));
                }
            }
        }
    }
    json!({"font": cfg.name, "two_letter_texts": checked, "kerning_as_first_handling_sub_table": agree, "disagreements": sample})
}

/// The layout of the pairs font as MC_FontCache writes it, shifted by `shift` bytes (random histories).
fn pairs_desc(shift: usize, swap: bool) -> Value {
    let cs = |s: &str| -> Vec<String> { s.chars().map(|c| c.to_string()).collect() };
    let p1 = |at: usize, cov: &str, pairs: &[&str], val: i64| json!({"fmt": 1, "at": at + shift, "cov": cs(cov), "covstr": cov,
        "pairs": pairs.iter().map(|p| cs(p)).collect::<Vec<_>>(), "cls2": [], "cls2str": "", "val": val});
    let p2 = |at: usize, cov: &str, c2: &str, val: i64| json!({"fmt": 2, "at": at + shift, "cov": cs(cov), "covstr": cov, "pairs": [], "cls2": cs(c2), "cls2str": c2, "val": val});
    let lookup = |idx: usize, feat: &str, subs: Vec<Value>| {
        let mut objs = Vec::new();
        for s in &subs {
            let at = s["at"].as_u64().unwrap() as usize;
            objs.push(json!({"kind": "cov", "pos": at + 32, "rel": 32, "content": s["covstr"]}));
            if s["fmt"] == 2 {
                objs.push(json!({"kind": "cls", "pos": at + 64, "rel": 64, "content": s["covstr"]}));
                objs.push(json!({"kind": "cls", "pos": at + 96, "rel": 96, "content": s["cls2str"]}));
            }
        }
        json!({"tbl": "GPOS", "idx": idx, "feat": feat, "typ": "pairs", "ext": false, "sub": subs[0]["at"], "l2": false, "objs": objs, "nested": [], "subs": subs})
    };
    // `swap`: the class table comes last in kern (the exception pairs of both format 1 sub-tables precede it)
    let kern = if swap { vec![p1(2560, "AB", &["AC", "BD"], 100), p1(2720, "AE", &["AD", "EF"], 10), p2(2880, "ABE", "BCF", 30)] }
               else { vec![p1(2560, "AB", &["AC", "BD"], 100), p2(2720, "AB", "BC", 30), p1(2880, "AE", &["AD", "EF"], 10)] };
    json!({"fam": "pairs", "damaged": [], "imgs": 0, "sub": "",
           "lookups": [lookup(0, "kern", kern), lookup(1, "dist", vec![p2(3584, "C", "AD", 7), p1(3744, "CD", &["CA", "DA"], 3)])]})
}

// ---- the variable font of the `var` family ---------------------------------------------------------

const VAR_WORDS: [&str; 4] = ["1/2 AVWXB 12/21", "CDE AV 2/1", "\u{0628}\u{0644}\u{0627} \u{0644}\u{0628}\u{0628}", "\u{0628}\u{0628}"];

fn var_font(desc: &Value) -> FontCfg {
    let specs = vargen::vspecs(&desc["lookups"]);
    let mut f = TtFont::new((0..vargen::VAR_GLYPHS).map(|i| if i == 0 { GlyphSpec::Empty } else { triangle(i as i16) }).collect());
    let mut cmap = layout_cmap();
    // beh lam alef share the glyphs of p q r (the layout's Coverage contents name them so)
    cmap.extend([(0x0628u32, gid('p')), (0x0644, gid('q')), (0x0627, gid('r'))]);
    cmap.sort();
    f.cmap = cmap;
    f.extra_tables.push(("fvar".into(), vargen::fvar()));
    f.extra_tables.push(("GDEF".into(), vargen::gdef(&specs)));
    for tbl in ["GSUB", "GPOS"] {
        f.extra_tables.push((tbl.into(), vargen::build_layout(tbl, &specs, &gid)));
    }
    let mut feats: Vec<String> = specs.iter().map(|s| s.feat.clone()).collect();
    feats.sort();
    feats.dedup();
    let data = f.build();
    // damaged kinds: the table is cut off after 3 bytes (its load fails, Font::new succeeds)
    let kinds: Vec<String> = desc["damaged"].as_array().map(|a| a.iter().map(|k| k.as_str().unwrap().to_string()).collect()).unwrap_or_default();
    let damage = Damage { items: kinds.iter().flat_map(|k| kind_tags(k, &data)).map(|t| (t, Mode::Trunc(3))).collect() };
    FontCfg {
        name: match desc["sub"].as_str() { Some("") | None => "var".into(), Some(s) => format!("var-{}", s) },
        data,
        scripts: [tagv("latn"), tagv("cyrl")],
        lang: tagv("dflt"),
        words: VAR_WORDS.iter().map(|w| w.to_string()).collect(),
        fam: "var",
        damage,
        desc: desc.clone(),
        feats,
        l2feats: vec![],
    }
}

/// Facts about the var font measured on its bytes and on the layout (own reader, own arithmetic): the lookups,
/// Coverages and the script -> feature -> lookup structure are what the layout dictates; the adjustments the item
/// variation store yields differ between the tuples of the model.
fn var_selfcheck(cfg: &FontCfg) -> Value {
    let specs = vargen::vspecs(&cfg.desc["lookups"]);
    let dir = read_sfnt_dir(&cfg.data, 0).expect("sfnt");
    let mut confirmed = 0usize;
    let mut ok = true;
    for tbl in ["GSUB", "GPOS"] {
        match table_bytes(&cfg.data, &dir, tbl).and_then(|t| vargen::walk(tbl, t, &specs, &gid)) {
            Some(n) => confirmed += n,
            None => ok = false,
        }
    }
    let vectors: std::collections::BTreeSet<Vec<i32>> = vargen::TUPLES.iter().map(|(_, t)| vargen::expected_deltas(&specs, t)).collect();
    let failing_rvrn_scripts: Vec<&str> = vargen::SCRIPTS.iter().filter(|(id, _)| specs.iter().any(|s| s.tbl == "GSUB" && s.feat == "rvrn" && vargen::is_broken(s) && s.scr.iter().any(|x| x == id))).map(|(id, _)| *id).collect();
    let substituting_rvrn_scripts: Vec<&str> = vargen::SCRIPTS.iter().filter(|(id, _)| {
        let mine: Vec<&vargen::VSpec> = specs.iter().filter(|s| s.tbl == "GSUB" && s.feat == "rvrn" && s.scr.iter().any(|x| x == id)).collect();
        !mine.is_empty() && mine.iter().all(|s| !vargen::is_broken(s))
    }).map(|(id, _)| *id).collect();
    // the tuples of the model that satisfy the condition of the FeatureVariations record, by the harness's arithmetic
    let fvt_expected: Vec<&str> = vargen::TUPLES.iter().filter(|(_, t)| vargen::fv_holds(t)).map(|(n, _)| *n).collect();
    let fvt_ok = match cfg.desc.get("fvt") {
        Some(v) => vargen::has_fv("GSUB", &specs) && v.as_array().map(|a| a.iter().map(|x| x.as_str().unwrap_or("")).collect::<Vec<_>>() == fvt_expected).unwrap_or(false),
        None => !vargen::has_fv("GSUB", &specs) && !vargen::has_fv("GPOS", &specs),
    };
    json!({"font": cfg.name, "layout_confirmed": ok, "facts_confirmed": confirmed, "delta_rows": vargen::rows(&specs).len(),
           "feature_variations": vargen::has_fv("GSUB", &specs), "fvt_matches_condition": fvt_ok, "damaged": cfg.desc["damaged"],
           "distinct_adjustment_vectors_over_tuples": vectors.len(), "tuples": vargen::TUPLES.len(),
           "scripts_whose_rvrn_fails": failing_rvrn_scripts, "scripts_whose_rvrn_substitutes": substituting_rvrn_scripts,
           "has_fvar": table_bytes(&cfg.data, &dir, "fvar").is_some(), "has_gdef": table_bytes(&cfg.data, &dir, "GDEF").is_some()})
}

fn var_tuple(id: &str) -> Option<Vec<f32>> {
    vargen::TUPLES.iter().find(|(n, _)| *n == id).map(|(_, t)| t.to_vec())
}

/// What allsorts answers on a FRESH var font (diagnostic, judged by the driver only after the violations): positioning
/// differs between tuples exactly as the adjustments computed from the layout do; a run whose rvrn fails reports an
/// error, a run whose rvrn substitutes differs from the run without a tuple; the fraction forms appear under a tuple.
fn var_fresh_results(cfg: &FontCfg) -> Value {
    let specs = vargen::vspecs(&cfg.desc["lookups"]);
    let shape = |text: &str, script: &str, tuple: Option<Vec<f32>>, mask: u64| {
        let c = Call::Shape { text: text.into(), script: tagv(script), lang: None, mask, custom: false, ctags: vec![], tuple, kern: true };
        run_both(cfg, &[], &c).1
    };
    let mut by_vec: BTreeMap<Vec<i32>, std::collections::BTreeSet<String>> = BTreeMap::new();
    for (_, t) in vargen::TUPLES.iter() {
        by_vec.entry(vargen::expected_deltas(&specs, t)).or_default().insert(shape("AVWX", "latn", Some(t.to_vec()), 0));
    }
    let all: std::collections::BTreeSet<&String> = by_vec.values().flatten().collect();
    let m = (FeatureMask::FRAC | FeatureMask::LIGA).bits();
    let frac_plain = shape("1/2", "latn", None, m);
    let frac_var = shape("1/2", "latn", Some(vec![1.0, 0.0]), m);
    let nofrac_var = shape("1/2", "latn", Some(vec![1.0, 0.0]), FeatureMask::LIGA.bits());
    let gdef_damaged = cfg.desc["damaged"].as_array().map(|a| a.iter().any(|k| k == "gdef")).unwrap_or(false);
    let fv = vargen::has_fv("GSUB", &specs);
    json!({"font": cfg.name, "adjustment_vectors": by_vec.len(), "distinct_positionings": all.len(),
           // without a GDEF there are no deltas: one positioning whatever the tuple
           "expected_distinct_positionings": if gdef_damaged { 1 } else { by_vec.len() },
           "feature_variations_effective": !fv || (shape("AVWX", "latn", Some(vec![1.0, 0.0]), FeatureMask::LIGA.bits()).contains("glyph_index: 92")
               && !shape("AVWX", "latn", Some(vec![0.5, 0.0]), FeatureMask::LIGA.bits()).contains("glyph_index: 92")),
           "one_positioning_per_vector": gdef_damaged || by_vec.values().all(|v| v.len() == 1),
           "failing_rvrn_reports_error": is_error_result(&shape("AB", "cyrl", Some(vec![1.0, 0.0]), m)) && is_error_result(&shape("AB", "grek", Some(vec![0.0, 0.0]), m))
               && (gdef_damaged || !is_error_result(&shape("AB", "cyrl", None, m))),
           "failing_main_stage_reports_error": is_error_result(&shape("AB", "grek", None, FeatureMask::CALT.bits())),
           "rvrn_and_frac_effective": frac_plain != frac_var && frac_var != nofrac_var,
           "arabic_forms_depend_on_rvrn": shape("\u{0628}\u{0628}", "arab", None, 0) != shape("\u{0628}\u{0628}", "arab", Some(vec![0.0, 0.0]), 0)})
}

fn fonts() -> Vec<FontCfg> {
    let root = repo_root();
    let rd = |p: &str| std::fs::read(format!("{}/{}", root, p)).unwrap_or_default();
    let synth = |name: &str, data: Vec<u8>| FontCfg {
        name: name.into(),
        data,
        scripts: [tagv("latn"), tagv("grek")],
        lang: tagv("dflt"),
        words: vec!["A\u{25CC}".into(), "ABA".into(), "AA".into()],
        fam: "intact",
        damage: Damage::default(),
        desc: plain_desc(),
        feats: vec![],
        l2feats: vec![],
    };
    let mut v = vec![synth("synth-fv", synth_fv_font()), synth("synth-all", synth_all_font(true)), synth("synth-morx", synth_all_font(false))];
    for (name, path, scripts, lang, words) in [
        ("sbix-dupe", "tests/fonts/sbix/sbix-dupe.ttf", ["latn", "DFLT"], "dflt", vec!["A\u{25CC}", "abc"]),
        ("svg-gzipped", "tests/fonts/svg/gzipped.ttf", ["latn", "DFLT"], "dflt", vec!["A\u{25CC}", "abc"]),
        ("lohit-hi", "tests/fonts/devanagari/lohit_hi.ttf", ["deva", "dev2"], "HIN ", vec!["\u{093F}\u{0915}", "\u{0915}\u{094D}\u{0937}\u{093F}", "\u{25CC}\u{093E}"]),
        ("noto-naskh", "tests/fonts/noto/NotoNaskhArabic-Regular.ttf", ["arab", "latn"], "URD ", vec!["\u{0644}\u{0627}\u{0645}", "\u{25CC}\u{064E}", "\u{0628}\u{064E}\u{0651}"]),
        ("inter-vf", "tests/fonts/variable/Inter[slnt,wght].abc.ttf", ["latn", "DFLT"], "dflt", vec!["abc", "a\u{25CC}c"]),
        ("opensans", "tests/fonts/opentype/OpenSans-Regular.ttf", ["latn", "cyrl"], "dflt", vec!["AVATAR", "fi\u{25CC}\u{0301}"]),
    ] {
        let data = rd(path);
        if data.len() > 100 {
            v.push(FontCfg {
                name: name.into(),
                data,
                scripts: [tagv(scripts[0]), tagv(scripts[1])],
                lang: tagv(lang),
                words: words.into_iter().map(String::from).collect(),
                fam: "intact",
                damage: Damage::default(),
                desc: plain_desc(),
                feats: vec![],
                l2feats: vec![],
            });
        }
    }
    v
}

/// The fonts whose tables are damaged: synthesized ones that carry every kind, and repository fonts.
fn damage_bases(all: &[FontCfg]) -> Vec<FontCfg> {
    all.iter().filter(|c| ["synth-all", "synth-morx", "opensans", "lohit-hi", "sbix-dupe", "svg-gzipped"].contains(&c.name.as_str())).cloned().collect()
}

/// The keys font of MC_FontCache (one single substitution per feature, the second language system has every second one),
/// for the random fill histories.
fn keys_desc() -> Value {
    let feats = ["frac", "vert", "rvrn", "liga", "ccmp", "calt", "clig", "rlig", "locl", "smcp", "onum", "lnum", "tnum", "zero"];
    let content = ["12", "A", "B", "C", "D", "E", "F", "G", "H", "I", "J", "K", "L", "M"];
    let lookups: Vec<Value> = feats.iter().zip(content.iter()).enumerate().map(|(j, (f, c))| {
        let sub = 2560 + 32 * j;
        json!({"tbl": "GSUB", "idx": j, "feat": f, "typ": "single", "ext": false, "sub": sub, "l2": j % 2 == 1,
               "objs": [{"kind": "cov", "pos": sub + 8, "rel": 8, "content": c}], "nested": []})
    }).collect();
    json!({"fam": "fill", "damaged": [], "lookups": lookups, "imgs": 0, "sub": "keys"})
}

/// The layout of the var font as MC_FontCache defines it (VarLayout), for the random histories; `shift` moves the
/// sub-tables (the random histories use their own positions).
fn var_desc_shifted(shift: usize, kind: &str) -> Value {
    let all = ["s1", "s2", "s3", "s4", "s5"];
    let l = |tbl: &str, idx: usize, feat: &str, typ: &str, content: &str, scr: &[&str], regs: &[usize]| {
        let sub = 2560 + shift + 64 * idx;
        let objs = if ["missing", "badtype", "badcov"].contains(&typ) { json!([]) } else { json!([{"kind": "cov", "pos": sub + 32, "rel": 32, "content": content}]) };
        json!({"tbl": tbl, "idx": idx, "feat": feat, "typ": typ, "ext": false, "sub": sub, "l2": false, "objs": objs, "nested": [], "scr": scr, "regs": regs})
    };
    let lookups = vec![
        l("GSUB", 0, "rvrn", "single", "12B", &["s1", "s2"], &[]),
        l("GSUB", 1, "frac", "single", "^1^2", &["s1"], &[]),
        l("GSUB", 2, "liga", "single", "A", &["s1", "s2", "s3", "s5"], &[]),
        l("GSUB", 3, "rvrn", "single", "p", &["s4"], &[]),
        l("GSUB", 4, "init", "single", "^pq", &["s4"], &[]),
        l("GSUB", 5, "fina", "single", "^pqr", &["s4"], &[]),
        l("GSUB", 6, "medi", "single", "^pq", &["s4"], &[]),
        l("GSUB", 7, "calt", "badtype", "", &["s3"], &[]),
        l("GSUB", 8, "locl", "single", "D", &["s1", "s2"], &[]),
        l("GSUB", 9, "rvrn", "badtype", "", &["s3"], &[]),
        l("GSUB", 10, "locl", "badcov", "", &["s3"], &[]),
        l("GSUB", 20, "rvrn", "missing", "", &["s2"], &[]),
        l("GPOS", 0, "kern", "vsingle", "AV", &all, &[0]),
        l("GPOS", 1, "dist", "vplace", "WX", &all, &[1, 2, 3]),
        l("GPOS", 2, "kern", "single", "C", &all, &[]),
    ];
    match kind {
        "dmg" => json!({"fam": "var", "damaged": ["gdef"], "lookups": lookups, "imgs": 0, "sub": "dmg", "fv": false}),
        "fv" => {
            let mut lookups = lookups;
            lookups[2]["alt"] = json!("dflt");
            for (mut x, a) in [(l("GSUB", 11, "liga", "single", "V", &["s1", "s2", "s3", "s5"], &[]), "alt"), (l("GSUB", 13, "rvrn", "single", "X", &["s1"], &[]), "alt"),
                               (l("GSUB", 14, "rvrn", "single", "q", &["s4"], &[]), "alt"), (l("GPOS", 3, "kern", "vsingle", "W", &all, &[1]), "alt")] {
                x["alt"] = json!(a);
                lookups.push(x);
            }
            json!({"fam": "var", "damaged": [], "lookups": lookups, "imgs": 0, "sub": "fv", "fv": true, "fvt": ["tA"]})
        }
        _ => json!({"fam": "var", "damaged": [], "lookups": lookups, "imgs": 0, "sub": "", "fv": false}),
    }
}
fn var_desc() -> Value {
    var_desc_shifted(128, "")
}

fn var_tuple_id(tuple: &Option<Vec<f32>>) -> String {
    match tuple {
        None => "none".to_string(),
        Some(t) => vargen::TUPLES.iter().find(|(_, c)| c[..] == t[..]).map(|(n, _)| n.to_string()).unwrap_or(format!("{:?}", t)),
    }
}

fn is_l2(feat: &str) -> bool {
    ["dlig", "rlig", "smcp"].contains(&feat)
}

/// Layout of the collide fonts as MC_FontCache defines it, with the low sub-tables moved by `shift`
/// (even, < 128) and the far ones by `far` (a multiple of 65536): the random histories use their own.
fn collide_desc(tbls: &[&str], shift: usize, far: usize) -> Value {
    let mut lookups = Vec::new();
    for tbl in tbls {
        let gsub = *tbl == "GSUB";
        let single = |idx: usize, feat: &str, sub: usize, content: &str| {
            json!({"tbl": tbl, "idx": idx, "feat": feat, "typ": "single", "ext": sub >= 65536, "sub": sub,
                   "l2": is_l2(feat), "objs": [{"kind": "cov", "pos": sub + 8, "rel": 8, "content": content}], "nested": []})
        };
        let class = |idx: usize, feat: &str, sub: usize, content: &str| {
            json!({"tbl": tbl, "idx": idx, "feat": feat, "typ": "class", "ext": sub >= 65536, "sub": sub,
                   "l2": is_l2(feat), "objs": [{"kind": "cov", "pos": sub + 32, "rel": 32, "content": if gsub { "EFG" } else { "X" }},
                            {"kind": "cls", "pos": sub + 64, "rel": 64, "content": content}],
                   "nested": if gsub { vec![6] } else { vec![] }})
        };
        let p = 2560 + shift;
        let q = 3072 + shift;
        lookups.push(single(0, "liga", p, "A"));
        lookups.push(single(1, "dlig", p + far, "B"));
        lookups.push(single(2, "hlig", p + 256, "C"));
        lookups.push(class(3, "calt", q, "E"));
        lookups.push(class(4, "rlig", q + far, "F"));
        lookups.push(class(5, "clig", q + 256, "G"));
        lookups.push(single(6, "none", 3712 + shift, "EFG"));
        lookups.push(single(256, "smcp", 3856 + shift, "I"));
    }
    json!({"fam": "collide", "damaged": [], "lookups": lookups, "imgs": 0, "sub": ""})
}

// ---- concrete calls ---------------------------------------------------------------------------

#[derive(Clone, Debug)]
enum Call {
    LookupGlyph { ch: char, required: bool, vs: Option<u8> },
    MapGlyphs { text: String, script: u32, required: bool },
    /// `custom`: Features::Custom(ctags), otherwise Features::Mask(mask)
    Shape { text: String, script: u32, lang: Option<u32>, mask: u64, custom: bool, ctags: Vec<u32>, tuple: Option<Vec<f32>>, kern: bool },
    /// the public accessor of a lazily loaded table
    Table { kind: String },
    /// `depth`: max_bit_depth of lookup_glyph_image (1 2 4 8 32)
    Image { g: u16, ppem: u16, depth: u8 },
    HasImages,
    SetFilter { bits: u8, f: u8 },
    HAdvance { g: u16 },
    VAdvance { g: u16 },
    GlyphNames { g: Vec<u16> },
    /// scopes family: a Coverage / ClassDef read through a ReadCache from a scope derived by `route`
    ReadCached { route: String, kind: String, pos: usize, content: String },
}

/// GlyphTableFlags of a filter of the model (1 SVG, 2 CBDT, 4 sbix, 8 EBDT)
fn filter_bits(f: u8) -> u8 {
    (if f & imgenc::SVG != 0 { 1 << 2 } else { 0 })
        | (if f & imgenc::CBDT != 0 { 1 << 4 } else { 0 })
        | (if f & imgenc::SBIX != 0 { 1 << 3 } else { 0 })
        | (if f & imgenc::EBDT != 0 { 1 << 5 } else { 0 })
}
fn set_filter(f: u8) -> Call {
    Call::SetFilter { bits: filter_bits(f), f }
}

fn vs_of(v: Option<u8>) -> Option<VariationSelector> {
    match v {
        Some(15) => Some(VariationSelector::VS15),
        Some(16) => Some(VariationSelector::VS16),
        Some(1) => Some(VariationSelector::VS01),
        _ => None,
    }
}

fn pres(required: bool) -> MatchingPresentation {
    if required {
        MatchingPresentation::Required
    } else {
        MatchingPresentation::NotRequired
    }
}

/// Execute one call; the result is rendered as a string (Debug of the returned value).
fn exec<T: FontTableProvider>(font: &mut Font<T>, c: &Call) -> String {
    match c {
        Call::LookupGlyph { ch, required, vs } => format!("{:?}", font.lookup_glyph_index(*ch, pres(*required), vs_of(*vs))),
        Call::MapGlyphs { text, script, required } => format!("{:?}", font.map_glyphs(text, *script, pres(*required))),
        Call::Shape { text, script, lang, mask, custom, ctags, tuple, kern } => {
            let glyphs = font.map_glyphs(text, *script, MatchingPresentation::NotRequired);
            let feats = if *custom {
                Features::Custom(ctags.iter().map(|t| allsorts::gsub::FeatureInfo { feature_tag: *t, alternate: None }).collect())
            } else {
                Features::Mask(FeatureMask::from_bits_truncate(*mask))
            };
            let f2: Option<Vec<F2Dot14>> = tuple.as_ref().map(|t| t.iter().map(|v| F2Dot14::from(*v)).collect());
            let tup = f2.as_ref().map(|v| unsafe { Tuple::from_raw_parts(v.as_ptr(), v.len()) });
            match font.shape(glyphs, *script, *lang, &feats, tup, *kern) {
                Ok(infos) => format!("Ok {:?}", infos),
                Err((e, infos)) => format!("Err {:?} {:?}", e, infos),
            }
        }
        Call::Image { g, ppem, depth } => match font.lookup_glyph_image(*g, *ppem, match depth { 1 => BitDepth::One, 2 => BitDepth::Two, 4 => BitDepth::Four, 8 => BitDepth::Eight, _ => BitDepth::ThirtyTwo }) {
            Ok(Some(b)) => {
                let data = match &b.bitmap {
                    allsorts::bitmap::Bitmap::Embedded(e) => format!("embedded depth={} {}x{} {}", e.format as u8, e.width, e.height, fnv(&e.data)),
                    allsorts::bitmap::Bitmap::Encapsulated(e) => format!("encapsulated {}", fnv(&e.data)),
                };
                format!("Some {:?} {:?} {:?} {}", b.ppem_x, b.ppem_y, b.metrics, data)
            }
            Ok(None) => "None".into(),
            Err(e) => format!("Err {:?}", e),
        },
        Call::HasImages => format!("{}", font.has_embedded_images()),
        Call::SetFilter { bits, .. } => {
            font.set_embedded_image_filter(GlyphTableFlags::from_bits_truncate(*bits));
            "unit".into()
        }
        Call::HAdvance { g } => format!("{:?}", font.horizontal_advance(*g)),
        Call::VAdvance { g } => format!("{:?}", font.vertical_advance(*g)),
        Call::GlyphNames { g } => format!("{:?}", font.glyph_names(g)),
        Call::Table { kind } => {
            let r: Result<bool, ParseError> = match kind.as_str() {
                "gsub" => font.gsub_cache().map(|t| t.is_some()),
                "gpos" => font.gpos_cache().map(|t| t.is_some()),
                "gdef" => font.gdef_table().map(|t| t.is_some()),
                "morx" => font.morx_table().map(|t| t.is_some()),
                "kern" => font.kern_table().map(|t| t.is_some()),
                _ => font.vhea_table().map(|t| t.is_some()),
            };
            format!("{:?}", r)
        }
        Call::ReadCached { .. } => "n/a".into(),
    }
}

/// scopes family: the subject is a pair of ReadCaches over one buffer, not a Font
fn exec_scope<'a>(scope: ReadScope<'a>, cov: &mut ReadCache<Coverage>, cls: &mut ReadCache<ClassDef>, c: &Call) -> String {
    let (route, kind, pos, content) = match c {
        Call::ReadCached { route, kind, pos, content } => (route.as_str(), kind.as_str(), *pos, content),
        _ => return "n/a".into(),
    };
    let len = if kind == "cov" { coverage_bytes(content).len() } else { classdef_bytes(content).len() };
    let derived: Result<ReadScope<'a>, String> = match route {
        "offset" => Ok(scope.offset(pos)),
        "offset_length" => scope.offset_length(pos, len).map_err(|e| format!("{:?}", e)),
        "read_scope" => {
            let mut ctxt = scope.ctxt();
            match ctxt.read_slice(pos) {
                Ok(_) => ctxt.read_scope(len).map_err(|e| format!("{:?}", e)),
                Err(e) => Err(format!("{:?}", e)),
            }
        }
        _ => scope.offset_length(pos - 16, len + 32).and_then(|w| w.offset_length(16, len)).map_err(|e| format!("{:?}", e)),
    };
    let sc = match derived {
        Ok(sc) => sc,
        Err(e) => return format!("Err scope {}", e),
    };
    if kind == "cov" {
        match sc.read_cache::<Coverage>(cov) {
            Ok(c) => format!("Ok cov {:?}", (0..LAYOUT_GLYPHS as u16).map(|g| c.glyph_coverage_value(g)).collect::<Vec<_>>()),
            Err(e) => format!("Err {:?}", e),
        }
    } else {
        match sc.read_cache::<ClassDef>(cls) {
            Ok(c) => format!("Ok cls {:?}", (0..LAYOUT_GLYPHS as u16).map(|g| c.glyph_class_value(g)).collect::<Vec<_>>()),
            Err(e) => format!("Err {:?}", e),
        }
    }
}

fn run_both_scopes(cfg: &FontCfg, history: &[Call], probe: &Call) -> (String, String) {
    let data = &cfg.data[..];
    let run = |history: &[Call]| match guarded(|| {
        let scope = ReadScope::new(data);
        let mut cov = ReadCache::<Coverage>::new();
        let mut cls = ReadCache::<ClassDef>::new();
        for c in history {
            let _ = exec_scope(scope, &mut cov, &mut cls, c);
        }
        exec_scope(scope, &mut cov, &mut cls, probe)
    }) {
        Outcome::Returned(s) => s,
        Outcome::Panicked(m) => format!("PANIC {}", vh::sup::panic_key(&m)),
    };
    (run(history), run(&[]))
}

/// The buffer of the scopes family: every object at the position the calls name.
fn scopes_buffer(objs: &[(String, usize, String)]) -> Vec<u8> {
    let mut img = Img { buf: vec![], used: vec![] };
    let mut seen = std::collections::BTreeSet::new();
    for (kind, pos, content) in objs {
        if seen.insert(*pos) {
            img.put(*pos, &if kind == "cov" { coverage_bytes(content) } else { classdef_bytes(content) });
        }
    }
    let n = img.buf.len() + 64;
    img.buf.resize(n, 0);
    img.buf
}

fn with_font<R>(data: &[u8], dmg: &Damage, f: impl FnOnce(&mut Font<Wrap<'_>>) -> R) -> Option<R> {
    let fd = ReadScope::new(data).read::<FontData<'_>>().ok()?;
    let prov = fd.table_provider(0).ok()?;
    let mut font = Font::new(Wrap { inner: prov, dmg }).ok()?;
    Some(f(&mut font))
}

/// Run `history` then `probe` on one Font; and `probe` on a fresh Font carrying the history's last
/// image-filter setting. Returns (result after history, result on fresh), panics rendered as text.
/// A panic inside a call of the history ends the life of that Font object: the probe is then not
/// applicable and the first component is "HISTORY-PANIC ..." (the panic is C01's to report).
fn run_both(cfg: &FontCfg, history: &[Call], probe: &Call) -> (String, String) {
    if cfg.fam == "scopes" {
        return run_both_scopes(cfg, history, probe);
    }
    let data = &cfg.data[..];
    let after = match guarded(|| with_font(data, &cfg.damage, |font| {
        for c in history {
            if let Outcome::Panicked(m) = guarded(|| exec(font, c)) {
                return format!("HISTORY-PANIC {}", vh::sup::panic_key(&m));
            }
        }
        match guarded(|| exec(font, probe)) {
            Outcome::Returned(s) => s,
            Outcome::Panicked(m) => format!("PANIC {}", vh::sup::panic_key(&m)),
        }
    })) {
        Outcome::Returned(Some(s)) => s,
        Outcome::Returned(None) => "LOADFAIL".into(),
        Outcome::Panicked(m) => format!("PANIC {}", vh::sup::panic_key(&m)),
    };
    let last_filter = history.iter().rev().find(|c| matches!(c, Call::SetFilter { .. }));
    let fresh = match guarded(|| with_font(data, &cfg.damage, |font| {
        if let Some(f) = last_filter {
            let _ = exec(font, f);
        }
        exec(font, probe)
    })) {
        Outcome::Returned(Some(s)) => s,
        Outcome::Returned(None) => "LOADFAIL".into(),
        Outcome::Panicked(m) => format!("PANIC {}", vh::sup::panic_key(&m)),
    };
    (after, fresh)
}


/// three characters 0-9 A-Z that are different for different n < 46656
fn base36(n: u32) -> String {
    let d = |k: u32| std::char::from_digit(k % 36, 36).unwrap().to_ascii_uppercase();
    [d(n / 1296), d(n / 36), d(n)].iter().collect()
}

/// Script identity of the model -> tag: s1 / s2 are the font's two scripts, s<n> is a script nobody has heard of
/// (ScriptType::Default, falls back to the DFLT script of the font).
fn script_of(id: &str, cfg: &FontCfg) -> u32 {
    if cfg.fam == "var" {
        if let Some((_, t)) = vargen::SCRIPTS.iter().find(|(s, _)| *s == id) {
            return tagv(t);
        }
    }
    match id.strip_prefix('s').and_then(|n| n.parse::<u32>().ok()) {
        Some(1) | None => cfg.scripts[0],
        Some(2) => cfg.scripts[1],
        Some(n) => tag_u32(&format!("z{}", base36(n))),
    }
}

/// Language identity of the model -> tag: l0 no language, l1 the font's language, l2 l6 l10 .. the second language
/// system (TRK) of the synthesized layouts, any other l<n> a language nobody has heard of (default LangSys).
fn lang_of(id: &str, cfg: &FontCfg) -> Option<u32> {
    match id.strip_prefix('l').and_then(|n| n.parse::<u32>().ok()) {
        Some(0) => None,
        Some(1) | None => Some(cfg.lang),
        Some(n) if n % 4 == 2 => Some(tagv("TRK ")),
        Some(n) => Some(tag_u32(&format!("Q{}", base36(n)))),
    }
}

/// Abstract call (TLC's vocabulary) -> concrete call for a font.
fn concretise(c: &Value, cfg: &FontCfg) -> Call {
    let s = |k: &str| c[k].as_str().unwrap_or("");
    let chr = |x: &str| match x {
        "A" => 'A',
        "DC" => '\u{25CC}',
        _ => '\u{1F600}',
    };
    let vsn = |x: &str| match x {
        "VS15" => Some(15u8),
        "VS16" => Some(16u8),
        _ => None,
    };
    match s("op") {
        "LookupGlyph" => Call::LookupGlyph { ch: chr(s("ch")), required: s("pres") == "Req", vs: vsn(s("vs")) },
        "MapGlyphs" => {
            let mut text = String::new();
            for t in c["text"].as_array().unwrap() {
                text.push(chr(t["ch"].as_str().unwrap()));
                match t["vs"].as_str().unwrap() {
                    "VS15" => text.push('\u{FE0E}'),
                    "VS16" => text.push('\u{FE0F}'),
                    _ => {}
                }
            }
            Call::MapGlyphs { text, script: cfg.scripts[0], required: s("pres") == "Req" }
        }
        "Shape" => {
            // `mfeats` (when given): the features the caller names; `feats`: those of them that are in force
            let feats: Vec<u32> = c.get("mfeats").unwrap_or(&c["feats"]).as_array().map(|a| a.iter().map(|f| tag_u32(f.as_str().unwrap())).collect()).unwrap_or_default();
            // fonts whose layout the model knows: the mask / custom list is the set of features the call names
            let collide = cfg.fam == "collide" || cfg.fam == "var" || cfg.fam == "pairs" || (cfg.fam == "fill" && !cfg.feats.is_empty());
            Call::Shape {
            // var: the Arabic words under the Arabic script
            // pairs: the call carries its text
            text: if cfg.fam == "pairs" { s("text").to_string() } else if cfg.fam == "var" && s("script") == "s4" { cfg.words[2].clone() } else { cfg.words[0].clone() },
            script: script_of(s("script"), cfg),
            lang: lang_of(s("lang"), cfg),
            // m1 and m2 must stay different after gsub_apply_default intersects them with the
            // features the font supports (the cache key uses the intersected mask); on a collide font
            // the mask is the set of features the call names
            mask: if collide { feats.iter().fold(0u64, |m, t| m | FeatureMask::from_tag(*t).bits()) }
                  else if s("mask") == "m1" { FeatureMask::default().bits() } else { (FeatureMask::CCMP | FeatureMask::RLIG).bits() },
            custom: c["custom"].as_bool().unwrap_or(false),
            ctags: if collide { feats.clone() } else { vec![allsorts::tag::LIGA] },
            tuple: match s("tuple") {
                t if cfg.fam == "var" => var_tuple(t),
                "tA" => Some(vec![0.0]),
                "tB" => Some(vec![1.0]),
                _ => None,
            },
            kern: c["kern"].as_bool().unwrap_or(true),
        }},
        "Table" => Call::Table { kind: s("k").to_string() },
        "Image" => Call::Image { g: c["g"].as_u64().unwrap_or(1) as u16, ppem: c["ppem"].as_u64().unwrap_or(100) as u16, depth: c["depth"].as_u64().unwrap_or(32) as u8 },
        "HasImages" => Call::HasImages,
        "SetFilter" => set_filter(c["f"].as_u64().unwrap_or(0) as u8),
        "ReadCached" => Call::ReadCached {
            route: s("route").to_string(),
            kind: c["obj"]["kind"].as_str().unwrap_or("cov").to_string(),
            pos: c["obj"]["pos"].as_u64().unwrap_or(0) as usize,
            content: c["obj"]["content"].as_str().unwrap_or("").to_string(),
        },
        "HAdvance" => Call::HAdvance { g: c["g"].as_u64().unwrap_or(1) as u16 },
        "VAdvance" => Call::VAdvance { g: c["g"].as_u64().unwrap_or(1) as u16 },
        _ => Call::GlyphNames { g: vec![c["g"].as_u64().unwrap_or(1) as u16, 0, 2] },
    }
}

/// The concrete fonts an abstract font descriptor stands for.
struct Universe {
    intact: Vec<Rc<FontCfg>>,
    bases: Vec<FontCfg>,
    dmg: BTreeMap<String, Vec<Rc<FontCfg>>>,
    collide: BTreeMap<String, Vec<Rc<FontCfg>>>,
    dropped: usize,
    selfchecks: Vec<Value>,
    img: BTreeMap<u8, Vec<Rc<FontCfg>>>,
    img_selfchecks: Vec<Value>,
    img_fresh: Vec<Value>,
    fill: BTreeMap<String, Vec<Rc<FontCfg>>>,
    fill_selfchecks: Vec<Value>,
    fill_fresh: Vec<Value>,
    var: BTreeMap<String, Vec<Rc<FontCfg>>>,
    var_selfchecks: Vec<Value>,
    var_fresh: Vec<Value>,
    strike: BTreeMap<String, Vec<Rc<FontCfg>>>,
    strike_selfchecks: Vec<Value>,
    pairs: BTreeMap<String, Vec<Rc<FontCfg>>>,
    pairs_selfchecks: Vec<Value>,
    pairs_fresh: Vec<Value>,
}

/// Facts about a fill font measured on its bytes (own reader): every Coverage of the layout lies where the
/// layout says with the content it says; how many lookups and how many different Coverage contents there are.
fn fill_selfcheck(cfg: &FontCfg) -> Value {
    let specs = lspecs(&cfg.desc["lookups"]);
    let dir = read_sfnt_dir(&cfg.data, 0).expect("sfnt");
    let (mut found, mut expected) = (0usize, 0usize);
    for tbl in ["GSUB", "GPOS"] {
        if let Some(t) = table_bytes(&cfg.data, &dir, tbl) {
            expected += specs.iter().filter(|s| s.tbl == tbl).map(|s| s.objs.len()).sum::<usize>();
            found += walk_layout(tbl, t, &specs).unwrap_or(0);
        }
    }
    let contents: std::collections::BTreeSet<(String, String)> = specs.iter().flat_map(|s| s.objs.iter().map(move |o| (s.tbl.clone(), o.content.clone()))).collect();
    let positions: std::collections::BTreeSet<(String, usize)> = specs.iter().flat_map(|s| s.objs.iter().map(move |o| (s.tbl.clone(), o.pos))).collect();
    json!({"font": cfg.name, "sub": cfg.desc["sub"], "lookups": specs.len(), "objects_expected": expected, "objects_found_at_position": found,
           "distinct_coverage_contents": contents.len(), "distinct_coverage_positions": positions.len(), "features": cfg.feats.len()})
}

impl Universe {
    fn new() -> Universe {
        let intact = fonts();
        let bases = damage_bases(&intact);
        let intact = intact.into_iter().map(Rc::new).collect();
        Universe { intact, bases, dmg: BTreeMap::new(), collide: BTreeMap::new(), dropped: 0, selfchecks: vec![],
                   img: BTreeMap::new(), img_selfchecks: vec![], img_fresh: vec![], fill: BTreeMap::new(), fill_selfchecks: vec![], fill_fresh: vec![],
                   var: BTreeMap::new(), var_selfchecks: vec![], var_fresh: vec![],
                   strike: BTreeMap::new(), strike_selfchecks: vec![], pairs: BTreeMap::new(), pairs_selfchecks: vec![], pairs_fresh: vec![] }
    }

    fn of(&mut self, desc: &Value, modes: &[Mode]) -> Vec<Rc<FontCfg>> {
        match desc["fam"].as_str().unwrap_or("intact") {
            "dmg" => {
                let kinds: Vec<String> = desc["damaged"].as_array().unwrap().iter().map(|k| k.as_str().unwrap().to_string()).collect();
                let key = kinds.join("+");
                if !self.dmg.contains_key(&key) {
                    let v = damaged_variants(&self.bases, &kinds, modes, &mut self.dropped);
                    self.dmg.insert(key.clone(), v.into_iter().map(Rc::new).collect());
                }
                self.dmg[&key].clone()
            }
            "collide" => {
                let key = desc["lookups"].to_string();
                if !self.collide.contains_key(&key) {
                    let tbls: std::collections::BTreeSet<String> = lspecs(&desc["lookups"]).iter().map(|s| s.tbl.clone()).collect();
                    let name = format!("collide-{}-{}", tbls.into_iter().collect::<Vec<_>>().join("+").to_lowercase(), self.collide.len());
                    let cfg = collide_font(&name, desc);
                    self.selfchecks.push(collide_selfcheck(&cfg));
                    self.collide.insert(key.clone(), vec![Rc::new(cfg)]);
                }
                self.collide[&key].clone()
            }
            "img" => {
                let imgs = desc["imgs"].as_u64().unwrap_or(0) as u8;
                if !self.img.contains_key(&imgs) {
                    let cfg = img_font(imgs);
                    self.img_selfchecks.push(img_selfcheck(&cfg));
                    self.img_fresh.push(img_fresh_results(&cfg));
                    self.img.insert(imgs, vec![Rc::new(cfg)]);
                }
                self.img[&imgs].clone()
            }
            "var" => {
                let key = format!("{}{}{}", desc["lookups"], desc["damaged"], desc["sub"]);
                if !self.var.contains_key(&key) {
                    let cfg = var_font(desc);
                    self.var_selfchecks.push(var_selfcheck(&cfg));
                    self.var_fresh.push(var_fresh_results(&cfg));
                    self.var.insert(key.clone(), vec![Rc::new(cfg)]);
                }
                self.var[&key].clone()
            }
            "strike" => {
                let key = format!("{}{}", desc["imgs"], desc["strikes"]);
                if !self.strike.contains_key(&key) {
                    let cfg = strike_font(desc);
                    self.strike_selfchecks.push(strike_selfcheck(&cfg));
                    self.strike.insert(key.clone(), vec![Rc::new(cfg)]);
                }
                self.strike[&key].clone()
            }
            "pairs" => {
                let key = desc["lookups"].to_string();
                if !self.pairs.contains_key(&key) {
                    let cfg = pairs_font(desc);
                    self.pairs_selfchecks.push(pairs_selfcheck(&cfg));
                    self.pairs_fresh.push(pairs_fresh_results(&cfg));
                    self.pairs.insert(key.clone(), vec![Rc::new(cfg)]);
                }
                self.pairs[&key].clone()
            }
            "fill" => {
                let sub = desc["sub"].as_str().unwrap_or("").to_string();
                let key = format!("{}/{}", sub, desc["lookups"].as_array().map(|a| a.len()).unwrap_or(0));
                if !self.fill.contains_key(&key) {
                    let v: Vec<Rc<FontCfg>> = if sub == "complex" {
                        // fonts whose script has a shaper of its own (one get_lookups_cache_index per stage)
                        self.intact.iter().filter(|c| ["lohit-hi", "noto-naskh"].contains(&c.name.as_str())).map(|c| {
                            let mut f = (**c).clone();
                            f.name = format!("fill-complex-{}", c.name);
                            f.fam = "fill";
                            f.desc = desc.clone();
                            Rc::new(f)
                        }).collect()
                    } else {
                        let cfg = collide_font(&format!("fill-{}", sub), desc);
                        self.fill_selfchecks.push(fill_selfcheck(&cfg));
                        self.fill_fresh.push(fill_fresh_results(&cfg));
                        vec![Rc::new(cfg)]
                    };
                    self.fill.insert(key.clone(), v);
                }
                self.fill[&key].clone()
            }
            _ => self.intact.clone(),
        }
    }
}

/// What allsorts answers on FRESH fonts (diagnostic, judged by the driver only after the violations): on an img
/// font the image found under a filter is a function of the table the model selects - filters that select
/// different tables give different images, filters that select the same table the same image.
fn img_fresh_results(cfg: &FontCfg) -> Value {
    let imgs = cfg.desc["imgs"].as_u64().unwrap_or(0) as u8;
    let sel = |f: u8| [imgenc::SVG, imgenc::CBDT, imgenc::SBIX, imgenc::EBDT].iter().copied().find(|b| imgs & f & b != 0).unwrap_or(0);
    let mut by_sel: BTreeMap<u8, std::collections::BTreeSet<String>> = BTreeMap::new();
    for f in 0..16u8 {
        let (_, fresh) = run_both(cfg, &[set_filter(f)], &Call::Image { g: 1, ppem: 100, depth: 32 });
        by_sel.entry(sel(f)).or_default().insert(fresh);
    }
    let all: std::collections::BTreeSet<&String> = by_sel.values().flatten().collect();
    json!({"font": cfg.name, "selections": by_sel.len(), "distinct_images": all.len(),
           "one_image_per_selection": by_sel.values().all(|v| v.len() == 1),
           "none_under_empty_selection": by_sel.get(&0).map(|v| v.iter().all(|r| r == "None")).unwrap_or(true)})
}

/// What allsorts answers on FRESH fill fonts (diagnostic, judged by the driver only after the violations):
/// shaping with each single feature of the layout (as a mask on the keys font, as a custom list on the lookups
/// font) and with none gives pairwise different results - except `rvrn`, which a mask without a tuple ignores.
fn fill_fresh_results(cfg: &FontCfg) -> Value {
    let custom = cfg.desc["sub"] != "keys";
    let mut outs = std::collections::BTreeSet::new();
    let mut sets: Vec<Vec<String>> = vec![vec![]];
    sets.extend(cfg.feats.iter().filter(|f| custom || *f != "rvrn").map(|f| vec![f.clone()]));
    for fs in &sets {
        let c = Call::Shape {
            text: cfg.words[0].clone(),
            script: cfg.scripts[0],
            lang: None,
            mask: fs.iter().fold(0u64, |m, t| m | FeatureMask::from_tag(tag_u32(t)).bits()),
            custom,
            ctags: fs.iter().map(|f| tag_u32(f)).collect(),
            tuple: None,
            kern: false,
        };
        outs.insert(run_both(cfg, &[], &c).1);
    }
    json!({"font": cfg.name, "feature_sets": sets.len(), "distinct_results": outs.len()})
}

fn scopes_cfg(objs: &[(String, usize, String)]) -> FontCfg {
    FontCfg {
        name: "scopes".into(),
        data: scopes_buffer(objs),
        scripts: [tagv("latn"), tagv("grek")],
        lang: tagv("dflt"),
        words: vec![],
        fam: "scopes",
        damage: Damage::default(),
        desc: json!({"fam": "scopes", "damaged": [], "lookups": [], "imgs": 0, "sub": ""}),
        feats: vec![],
        l2feats: vec![],
    }
}

/// Facts about a history that depend on the calls only (never on what allsorts answered).
#[derive(Default)]
struct InputFacts {
    /// img: histories in which a filter was set after an image query had been made under another filter ...
    widen_after_query: usize,   // ... that the new one strictly contains
    narrow_after_query: usize,  // ... that strictly contains the new one
    other_after_query: usize,   // ... neither
    same_after_query: usize,    // the same filter again
    img_histories: usize,
    /// fill: per sub-family, the largest number of distinct keys before a probe
    fill_keys: BTreeMap<String, usize>,
    /// fill/keys: fraction-path probes on a key the font object has not seen, after >= 100 distinct keys
    frac_probes_new_key_after_100: usize,
    scopes_routes_in_paths: std::collections::BTreeSet<String>,
    scopes_histories: usize,
    /// var: histories ...
    var_histories: usize,
    /// ... in which a call whose rvrn stage fails (by the layout) precedes a tuple call whose rvrn substitutes
    var_failed_rvrn_then_substituting_rvrn: usize,
    /// ... in which a call whose main GSUB stage fails precedes another shaping call
    var_failed_main_stage_then_shape: usize,
    /// ... in which two calls with kerning carry different tuples whose adjustments (by the layout) differ
    var_two_tuples_with_different_adjustments: usize,
    /// strike: histories in which a lookup of a glyph under a bit depth limit below every strike that holds it precedes
    /// a lookup of the same glyph under a limit that admits one (by the descriptor's strikes, same filter in force)
    strike_histories: usize,
    strike_shallow_then_deeper_limit: usize,
    /// ... in which two lookups of one glyph name different sizes
    strike_two_sizes: usize,
    /// pairs: histories in which a pair that (by the layout) a later sub-table handles first precedes a pair that an
    /// earlier sub-table of the same lookup handles first and that the later one handles too
    pairs_histories: usize,
    pairs_later_sub_table_then_overlapping_pair: usize,
}

const FRAC_BIT: u64 = FeatureMask::FRAC.bits();
const RVRN_BIT: u64 = FeatureMask::RVRN.bits();

/// The (script, language, mask) keys a shaping call with Features::Mask creates in lookups_index on a font that
/// supports every feature of the mask (the synthesized keys font): RVRN is taken out, FRAC makes two keys.
fn mask_keys(c: &Call, l2mask: u64) -> Vec<(u32, Option<u32>, u64)> {
    match c {
        Call::Shape { script, lang, mask, custom: false, .. } => {
            // under the second language system (TRK) only its features are supported
            let m = mask & !RVRN_BIT & if *lang == Some(tag_u32("TRK ")) { l2mask } else { u64::MAX };
            if m & FRAC_BIT != 0 { vec![(*script, *lang, m), (*script, *lang, m & !FRAC_BIT)] } else { vec![(*script, *lang, m)] }
        }
        _ => vec![],
    }
}

impl InputFacts {
    fn history(&mut self, cfg: &FontCfg, history: &[Call], fan: &[Call]) {
        match cfg.fam {
            "img" => {
                self.img_histories += 1;
                let mut cur = 7u8;
                let mut queried = false;
                let (mut w, mut n, mut o, mut same) = (false, false, false, false);
                for c in history {
                    match c {
                        Call::SetFilter { f, .. } => {
                            if queried {
                                if *f == cur { same = true } else if f & cur == cur { w = true } else if f & cur == *f { n = true } else { o = true }
                            }
                            if *f != cur {
                                queried = false;
                            }
                            cur = *f;
                        }
                        _ => queried = true,
                    }
                }
                self.widen_after_query += w as usize;
                self.narrow_after_query += n as usize;
                self.other_after_query += o as usize;
                self.same_after_query += same as usize;
            }
            "fill" => {
                let sub = cfg.desc["sub"].as_str().unwrap_or("").to_string();
                let n = match sub.as_str() {
                    "keys" => {
                        let l2mask = cfg.l2feats.iter().fold(0u64, |m, f| m | FeatureMask::from_tag(tag_u32(f)).bits());
                        let keys: std::collections::BTreeSet<_> = history.iter().flat_map(|c| mask_keys(c, l2mask)).collect();
                        let pairs: std::collections::BTreeSet<_> = keys.iter().map(|(s, l, _)| (*s, *l)).collect();
                        let e = self.fill_keys.entry("keys:(script,language)".to_string()).or_default();
                        *e = (*e).max(pairs.len());
                        if keys.len() >= 100 {
                            self.frac_probes_new_key_after_100 += fan.iter().filter(|c| {
                                let k = mask_keys(c, l2mask);
                                k.len() == 2 && k.iter().all(|x| !keys.contains(x))
                            }).count();
                        }
                        keys.len()
                    }
                    "complex" => history.iter().filter_map(|c| match c { Call::Shape { script, lang, .. } => Some((*script, *lang)), _ => None })
                        .collect::<std::collections::BTreeSet<_>>().len(),
                    _ => history.iter().filter_map(|c| match c { Call::Shape { ctags, .. } => Some(ctags.clone()), _ => None })
                        .flatten().collect::<std::collections::BTreeSet<_>>().len(),
                };
                let e = self.fill_keys.entry(sub).or_default();
                *e = (*e).max(n);
            }
            "var" => {
                self.var_histories += 1;
                let specs = vargen::vspecs(&cfg.desc["lookups"]);
                let sid = |script: u32| vargen::SCRIPTS.iter().find(|(_, t)| tagv(t) == script).map(|(s, _)| *s).unwrap_or("");
                let rvrn_of = |script: u32| -> Vec<&vargen::VSpec> { let id = sid(script); specs.iter().filter(|s| s.tbl == "GSUB" && s.feat == "rvrn" && s.scr.iter().any(|x| x == id)).collect() };
                let fails_rvrn = |c: &Call| matches!(c, Call::Shape { script, custom: false, tuple: Some(_), .. } if rvrn_of(*script).iter().any(|s| vargen::is_broken(s)));
                let subst_rvrn = |c: &Call| matches!(c, Call::Shape { script, custom: false, tuple: Some(_), .. } if { let r = rvrn_of(*script); !r.is_empty() && r.iter().all(|s| !vargen::is_broken(s)) });
                let fails_main = |c: &Call| matches!(c, Call::Shape { script, custom: false, tuple: None, mask, .. } if { let id = sid(*script);
                    specs.iter().any(|s| s.tbl == "GSUB" && s.feat != "rvrn" && vargen::is_broken(s) && s.scr.iter().any(|x| x == id) && FeatureMask::from_tag(tag_u32(&s.feat)).bits() & *mask != 0) });
                let all: Vec<&Call> = history.iter().chain(fan.iter()).collect();
                let nh = history.len();
                // a later call of the history, or any probe of the fan
                let later = |k: usize, pred: &dyn Fn(&Call) -> bool| all.iter().enumerate().any(|(j, c)| (j > k || j >= nh) && j != k && pred(c));
                if (0..nh).any(|k| fails_rvrn(all[k]) && later(k, &subst_rvrn)) {
                    self.var_failed_rvrn_then_substituting_rvrn += 1;
                }
                if (0..nh).any(|k| fails_main(all[k]) && later(k, &|c| matches!(c, Call::Shape { .. }))) {
                    self.var_failed_main_stage_then_shape += 1;
                }
                let adj = |c: &Call| match c {
                    Call::Shape { tuple: Some(t), kern: true, .. } if t.len() == 2 => Some(vargen::expected_deltas(&specs, &[t[0], t[1]])),
                    _ => None,
                };
                if (0..nh).any(|k| adj(all[k]).map(|a| later(k, &|c| adj(c).map(|b| b != a).unwrap_or(false))).unwrap_or(false)) {
                    self.var_two_tuples_with_different_adjustments += 1;
                }
            }
            "strike" => {
                self.strike_histories += 1;
                let strikes = strikes_of(&cfg.desc);
                let imgs = cfg.desc["imgs"].as_u64().unwrap_or(0) as u8;
                let all: Vec<&Call> = history.iter().chain(fan.iter()).collect();
                let nh = history.len();
                // the filter in force at each call (fan calls: the history's last)
                let mut cur = 7u8;
                let mut filt = Vec::new();
                for (j, c) in all.iter().enumerate() {
                    if j < nh { if let Call::SetFilter { f, .. } = c { cur = *f; } }
                    filt.push(cur);
                }
                let admits = |g: u16, depth: u8| strikes.iter().any(|s| s.first <= g && g <= s.last && s.depth <= depth);
                let holds = |g: u16| strikes.iter().any(|s| s.first <= g && g <= s.last);
                let mut shallow = false;
                let mut sizes = false;
                for k in 0..nh {
                    if let Call::Image { g, ppem, depth } = all[k] {
                        for j in (k + 1)..all.len() {
                            if let Call::Image { g: g2, ppem: p2, depth: d2 } = all[j] {
                                let same_filter = filt[k] == filt[j] && (k..j.min(nh)).all(|x| !matches!(all[x], Call::SetFilter { .. }));
                                if g == g2 && same_filter && filt[k] & imgs != 0 && holds(*g) && !admits(*g, *depth) && admits(*g, *d2) { shallow = true }
                                if g == g2 && ppem != p2 { sizes = true }
                            }
                        }
                    }
                }
                self.strike_shallow_then_deeper_limit += shallow as usize;
                self.strike_two_sizes += sizes as usize;
            }
            "pairs" => {
                self.pairs_histories += 1;
                let lookups = pairgen::plookups(&cfg.desc["lookups"]);
                let all: Vec<&Call> = history.iter().chain(fan.iter()).collect();
                let nh = history.len();
                let pairs_of = |c: &Call| -> Vec<(char, char, bool)> { match c { Call::Shape { text, kern, .. } => { let v: Vec<char> = text.chars().collect(); v.windows(2).map(|w| (w[0], w[1], *kern)).collect() } _ => vec![] } };
                let mut hit = false;
                for l in &lookups {
                    for k in 0..nh {
                        for (a, b, kern) in pairs_of(all[k]) {
                            if l.feat == "kern" && !kern { continue }
                            let j1 = match pairgen::handlers(l, a, b).first() { Some(j) if *j > 0 => *j, _ => continue };
                            for j in (k + 1)..all.len() {
                                for (a2, b2, kern2) in pairs_of(all[j]) {
                                    if l.feat == "kern" && !kern2 { continue }
                                    let h = pairgen::handlers(l, a2, b2);
                                    if h.first().map(|x| *x < j1).unwrap_or(false) && h.contains(&j1) { hit = true }
                                }
                            }
                        }
                    }
                }
                self.pairs_later_sub_table_then_overlapping_pair += hit as usize;
            }
            "scopes" => {
                self.scopes_histories += 1;
                for c in history {
                    if let Call::ReadCached { route, .. } = c {
                        self.scopes_routes_in_paths.insert(route.clone());
                    }
                }
            }
            _ => {}
        }
    }

    fn json(&self) -> Value {
        json!({"img_histories": self.img_histories, "img_widen_after_query": self.widen_after_query, "img_narrow_after_query": self.narrow_after_query,
               "img_incomparable_after_query": self.other_after_query, "img_same_filter_after_query": self.same_after_query,
               "fill_distinct_keys_before_probe": self.fill_keys, "fill_frac_probes_on_new_key_after_100_keys": self.frac_probes_new_key_after_100,
               "scopes_histories": self.scopes_histories, "scopes_routes_in_paths": self.scopes_routes_in_paths,
               "var_histories": self.var_histories, "var_failed_rvrn_then_substituting_rvrn": self.var_failed_rvrn_then_substituting_rvrn,
               "var_failed_main_stage_then_shape": self.var_failed_main_stage_then_shape,
               "var_two_tuples_with_different_adjustments": self.var_two_tuples_with_different_adjustments,
               "strike_histories": self.strike_histories, "strike_shallow_then_deeper_limit": self.strike_shallow_then_deeper_limit,
               "strike_two_sizes": self.strike_two_sizes, "pairs_histories": self.pairs_histories,
               "pairs_later_sub_table_then_overlapping_pair": self.pairs_later_sub_table_then_overlapping_pair})
    }
}

/// The fresh font's answer in the model's vocabulary: strike family, lookup_glyph_image -> [ppem, bit depth] of the
/// bitmap returned ([] = none); pairs family, shaping -> the kerning of every glyph.
fn observation(cfg: &FontCfg, probe: &Call, fresh: &str) -> Option<Value> {
    let num_after = |t: &str, key: &str| -> Vec<i64> {
        t.split(key).skip(1).filter_map(|x| x.split(|c: char| c != '-' && !c.is_ascii_digit()).next().and_then(|n| n.parse().ok())).collect()
    };
    match (cfg.fam, probe) {
        ("strike", Call::Image { .. }) => {
            if fresh == "None" {
                Some(json!([]))
            } else if fresh.starts_with("Some") {
                let p = num_after(fresh, "Some Some(");
                let d = num_after(fresh, "depth=");
                Some(json!([p.first().copied().unwrap_or(-1), d.first().copied().unwrap_or(-1)]))
            } else {
                Some(json!([-1]))
            }
        }
        ("pairs", Call::Shape { .. }) if fresh.starts_with("Ok") => Some(json!(num_after(fresh, "kerning: "))),
        _ => None,
    }
}

fn is_error_result(s: &str) -> bool {
    s.starts_with("Err") || s.starts_with("PANIC")
}

fn replay(cases: &str, out: &str) {
    let cases = read_ndjson(cases);
    let mut uni = Universe::new();
    let mut w = NdWriter::create(out);
    let mut i = 0u64;
    let mut n_probes = 0usize;
    let mut n_differs = 0usize;
    // per family: histories executed (case x concrete font), probes, probes differing from fresh
    let mut fam_hist: BTreeMap<String, usize> = BTreeMap::new();
    let mut fam_probes: BTreeMap<String, usize> = BTreeMap::new();
    let mut fam_differs: BTreeMap<String, usize> = BTreeMap::new();
    let mut dmg_error_probes = 0usize; // probes on damaged fonts whose fresh answer reports the damage
    let mut n_cut = 0usize; // probes not applicable because a call of the history panicked
    let mut concrete = std::collections::BTreeSet::new();
    let mut facts = InputFacts::default();
    for (ci, case) in cases.iter().enumerate() {
        let desc = &case["font"];
        let fam = desc["fam"].as_str().unwrap_or("intact").to_string();
        let cfgs = if fam == "scopes" {
            // the buffer holds every object the calls of the case name
            let objs: Vec<(String, usize, String)> = case["fan"].as_array().unwrap().iter().map(|f| &f["call"]).chain(case["path"].as_array().unwrap().iter())
                .filter(|c| c["op"] == "ReadCached")
                .map(|c| (c["obj"]["kind"].as_str().unwrap().to_string(), c["obj"]["pos"].as_u64().unwrap() as usize, c["obj"]["content"].as_str().unwrap().to_string()))
                .collect();
            vec![Rc::new(scopes_cfg(&objs))]
        } else {
            uni.of(desc, &[Mode::Trunc(3), Mode::Fail])
        };
        for cfg in &cfgs {
            concrete.insert(cfg.name.clone());
            let case_id = format!("{}/g{}", cfg.name, ci);
            let path: Vec<Value> = case["path"].as_array().unwrap().clone();
            let history: Vec<Call> = path.iter().map(|c| concretise(c, cfg)).collect();
            let fan_calls: Vec<Call> = case["fan"].as_array().unwrap().iter().map(|f| concretise(&f["call"], cfg)).collect();
            facts.history(cfg, &history, &fan_calls);
            *fam_hist.entry(fam.clone()).or_default() += 1;
            i += 1;
            w.write(&json!({"i": i, "case": case_id, "ev": "Init", "a": {"font": cfg.desc, "name": cfg.name}, "o": {}}));
            for c in &path {
                i += 1;
                w.write(&json!({"i": i, "case": case_id, "ev": "Call", "a": {"call": c, "probe": false}, "o": {"differs": false}}));
            }
            for f in case["fan"].as_array().unwrap() {
                let probe = concretise(&f["call"], cfg);
                let (after, fresh) = run_both(cfg, &history, &probe);
                if after.starts_with("HISTORY-PANIC") {
                    n_cut += 1;
                    continue;
                }
                n_probes += 1;
                *fam_probes.entry(fam.clone()).or_default() += 1;
                if fam == "dmg" && is_error_result(&fresh) {
                    dmg_error_probes += 1;
                }
                let differs = after != fresh;
                if differs {
                    n_differs += 1;
                    *fam_differs.entry(fam.clone()).or_default() += 1;
                }
                i += 1;
                let mut o = json!({"differs": differs});
                if differs {
                    o["after"] = json!(after.chars().take(300).collect::<String>());
                    o["fresh"] = json!(fresh.chars().take(300).collect::<String>());
                }
                // strike / pairs: what the FRESH font answered, in the model's vocabulary (the judge compares it with the
                // strike / the sub-tables the model selects: binding of the model's font semantics, not a purity verdict)
                if let Some(obs) = observation(cfg, &probe, &fresh) {
                    o["obs"] = obs;
                }
                w.write(&json!({"i": i, "case": case_id, "ev": "Call", "a": {"call": f["call"], "probe": true,
                                "predicted": f["impure"], "font": cfg.name}, "o": o}));
            }
        }
    }
    let n = w.n;
    w.finish();
    println!("{}", json!({"cases": cases.len(), "fonts": concrete.len(), "histories": fam_hist.values().sum::<usize>(),
        "probes": n_probes, "differs": n_differs, "events": n, "probes_cut_by_a_panic_in_the_history": n_cut,
        "histories_by_family": fam_hist, "probes_by_family": fam_probes, "differs_by_family": fam_differs,
        "damaged_variants": uni.dmg.values().map(|v| v.len()).sum::<usize>(), "damaged_variants_dropped": uni.dropped,
        "damaged_probes_reporting_the_error": dmg_error_probes, "collide_selfcheck": uni.selfchecks,
        "img_selfcheck": uni.img_selfchecks, "img_fresh_results": uni.img_fresh, "fill_selfcheck": uni.fill_selfchecks, "fill_fresh_results": uni.fill_fresh,
        "var_selfcheck": uni.var_selfchecks, "var_fresh_results": uni.var_fresh, "input_facts": facts.json(),
        "strike_selfcheck": uni.strike_selfchecks, "pairs_selfcheck": uni.pairs_selfchecks, "pairs_fresh_results": uni.pairs_fresh}));
}

// ---- random long histories --------------------------------------------------------------------

fn abstract_of(c: &Call, cfg: &FontCfg) -> Value {
    let chn = |ch: char| match ch {
        '\u{25CC}' => "DC",
        c if (c as u32) >= 0x1F000 || c == '\u{2764}' => "EM",
        _ => "A",
    };
    let vsn = |v: Option<u8>| match v {
        Some(15) => "VS15",
        Some(16) => "VS16",
        Some(1) => "VS01",
        _ => "none",
    };
    match c {
        Call::LookupGlyph { ch, required, vs } => json!({"op": "LookupGlyph", "ch": chn(*ch), "pres": if *required { "Req" } else { "NotReq" }, "vs": vsn(*vs)}),
        Call::MapGlyphs { text, script, required } => {
            // (ch, vs) pairs as map_glyphs sees them after its own look-ahead for selectors
            let chars: Vec<char> = text.chars().collect();
            let mut seq = Vec::new();
            let mut k = 0;
            while k < chars.len() {
                let ch = chars[k];
                if ch == '\u{FE0E}' || ch == '\u{FE0F}' || ch == '\u{FE00}' {
                    k += 1;
                    continue;
                }
                let vs = match chars.get(k + 1) {
                    Some('\u{FE0E}') => "VS15",
                    Some('\u{FE0F}') => "VS16",
                    Some('\u{FE00}') => "VS01",
                    _ => "none",
                };
                seq.push(json!({"ch": chn(ch), "vs": vs}));
                k += 1;
            }
            json!({"op": "MapGlyphs", "text": seq, "script": format!("{:08x}", script), "pres": if *required { "Req" } else { "NotReq" }})
        }
        Call::Shape { text, script, lang, mask, custom, ctags, tuple, kern } if cfg.fam == "var" => {
            // the script and tuple identities of the model; the features in force: the named ones (a mask never
            // names rvrn: it is taken out), the forms under the Arabic shaper, and the GPOS features every run gets
            let sid = vargen::SCRIPTS.iter().find(|(_, t)| tagv(t) == *script).map(|(s, _)| s.to_string()).unwrap_or(format!("{:08x}", script));
            // (gsub_apply_default takes RVRN out of the mask before anything is keyed by it)
            let eff = effective_mask(cfg, *script, *lang, *mask) & !RVRN_BIT;
            let named: Vec<String> = cfg.feats.iter().filter(|f| {
                let t = tag_u32(f);
                if *custom { ctags.contains(&t) } else { *f != "rvrn" && FeatureMask::from_tag(t).bits() & *mask != 0 }
            }).cloned().collect();
            let mut feats: Vec<String> = if sid == "s4" && !*custom { vec!["fina".into(), "init".into(), "medi".into()] } else { named };
            feats.push("dist".into());
            if *kern {
                feats.push("kern".into());
            }
            let frac = !*custom && sid != "s4" && eff & FRAC_BIT != 0;
            let m = |x: u64| if *custom { format!("custom{:?}", ctags) } else { format!("{:x}", x) };
            let tid = var_tuple_id(tuple);
            json!({"op": "Shape", "text": text, "script": sid, "lang": format!("{:?}", lang),
                   "mask": m(eff), "mask0": m(eff & !FRAC_BIT), "frac": frac, "tuple": tid, "kern": kern, "custom": custom, "feats": feats})
        }
        Call::Shape { text, script, lang, mask, kern, .. } if cfg.fam == "pairs" => {
            // the text glyph by glyph; the GPOS features every run gets (dist, and kern when kerning is asked for)
            let glyphs: Vec<String> = text.chars().map(|c| c.to_string()).collect();
            json!({"op": "Shape", "text": text, "glyphs": glyphs, "script": format!("{:08x}", script), "lang": format!("{:?}", lang),
                   "mask": format!("{:x}", mask), "mask0": format!("{:x}", mask), "frac": false, "tuple": "none", "kern": kern, "custom": false,
                   "feats": if *kern { vec!["dist", "kern"] } else { vec!["dist"] }})
        }
        Call::Shape { text, script, lang, mask, custom, ctags, tuple, kern } => {
            // the lookups cache is keyed by the mask AFTER intersection with the features the
            // font supports for (script, lang): that intersection is the identity the model needs
            // (gsub_apply_default takes RVRN out of the mask before anything is keyed by it)
            let eff = effective_mask(cfg, *script, *lang, *mask) & !RVRN_BIT;
            // the features of the layout (collide fonts) that this call enables
            let feats: Vec<&String> = cfg.feats.iter().filter(|f| {
                let t = tag_u32(f);
                (*lang != Some(tagv("TRK ")) || cfg.l2feats.contains(f))
                    && if *custom { ctags.contains(&t) } else { FeatureMask::from_tag(t).bits() & *mask != 0 }
            }).collect();
            // the fraction path (two indices of cached_lookups held at once) is taken when the mask, intersected
            // with the features of the language system, has FRAC
            let frac = !*custom && eff & FRAC_BIT != 0;
            let m = |x: u64| if *custom { format!("custom{:?}", ctags) } else { format!("{:x}", x) };
            json!({"op": "Shape", "text": text, "script": format!("{:08x}", script), "lang": format!("{:?}", lang),
                   "mask": m(eff), "mask0": m(eff & !FRAC_BIT), "frac": frac,
                   "tuple": match tuple { None => "none".to_string(), Some(t) => format!("{:?}", t) }, "kern": kern,
                   "custom": custom, "feats": feats})
        }
        Call::Table { kind } => json!({"op": "Table", "k": kind}),
        Call::Image { g, ppem, depth } if cfg.fam == "strike" => json!({"op": "Image", "g": g, "ppem": ppem, "depth": depth}),
        Call::Image { g, .. } => json!({"op": "Image", "g": g}),
        Call::HasImages => json!({"op": "HasImages"}),
        Call::SetFilter { f, .. } => json!({"op": "SetFilter", "f": f}),
        Call::HAdvance { g } => json!({"op": "HAdvance", "g": g}),
        Call::VAdvance { g } => json!({"op": "VAdvance", "g": g}),
        Call::GlyphNames { g } => json!({"op": "GlyphNames", "g": g}),
        Call::ReadCached { route, kind, pos, content } => json!({"op": "ReadCached", "route": route,
            "obj": {"kind": kind, "pos": pos, "rel": pos, "content": content}}),
    }
}

/// mask & supported features of (script, lang), asked of a scratch Font bit by bit through the
/// public `features_supported`.
fn effective_mask(cfg: &FontCfg, script: u32, lang: Option<u32>, mask: u64) -> u64 {
    let r = guarded(|| {
        with_font(&cfg.data, &cfg.damage, |font| {
            let cache = match font.gsub_cache() {
                Ok(Some(c)) => c,
                _ => return mask,
            };
            let mut eff = 0u64;
            for b in 0..64 {
                let bit = 1u64 << b;
                if mask & bit != 0 {
                    let fm = FeatureMask::from_bits_truncate(bit);
                    if fm.bits() == bit && allsorts::gsub::features_supported(&cache, script, lang, fm).unwrap_or(false) {
                        eff |= bit;
                    }
                }
            }
            eff
        })
    });
    match r {
        Outcome::Returned(Some(e)) => e,
        _ => mask,
    }
}

fn random_call(rng: &mut StdRng, cfg: &FontCfg) -> Call {
    let chars = ['A', 'B', 'a', '\u{25CC}', '\u{25CC}', '\u{1F600}', '\u{2764}', '\u{0915}', '\u{0644}'];
    let vss = [None, None, Some(15u8), Some(16u8), Some(1u8)];
    // on a font with a damaged table ask for the tables more often; on a collide font shape more often
    if cfg.fam == "scopes" {
        // words: "kind:pos:content" of every object of the buffer
        let o: Vec<&str> = cfg.words.choose(rng).unwrap().split(':').collect();
        return Call::ReadCached {
            route: ["offset", "offset_length", "read_scope", "nested"][rng.gen_range(0..4)].to_string(),
            kind: o[0].to_string(),
            pos: o[1].parse().unwrap(),
            content: o[2].to_string(),
        };
    }
    if cfg.fam == "var" {
        let roll = rng.gen_range(0..14);
        if roll == 0 {
            return Call::Table { kind: ["gdef", "gsub", "gpos"][rng.gen_range(0..3)].to_string() };
        }
        if roll == 1 {
            return Call::MapGlyphs { text: cfg.words[rng.gen_range(0..4)].clone(), script: tagv("latn"), required: false };
        }
        let script = ["latn", "latn", "latn", "cyrl", "cyrl", "grek", "arab", "arab", "zUNK", "hebr"][rng.gen_range(0..10)];
        let tuple = match rng.gen_range(0..9) {
            0 | 1 => None,
            2..=6 => Some(vargen::TUPLES[rng.gen_range(0..vargen::TUPLES.len())].1.to_vec()),
            _ => Some(vec![rng.gen_range(-4..5) as f32 / 4.0, rng.gen_range(-4..5) as f32 / 4.0]),
        };
        let custom = rng.gen_bool(0.15);
        let mut ctags: Vec<u32> = ["liga", "locl", "frac", "rvrn", "calt"].iter().filter(|_| rng.gen_bool(0.4)).map(|t| tag_u32(t)).collect();
        ctags.sort();
        let mask = match rng.gen_range(0..7) {
            0 => (FeatureMask::FRAC | FeatureMask::LIGA | FeatureMask::CALT).bits(),
            1 => (FeatureMask::LIGA | FeatureMask::LOCL).bits(),
            2 => FeatureMask::default().bits(),
            3 => FeatureMask::default().bits() | FRAC_BIT,
            4 => FeatureMask::all().bits(),
            5 => 0,
            _ => (FeatureMask::FRAC | FeatureMask::LIGA).bits(),
        };
        return Call::Shape {
            text: cfg.words[if script == "arab" { 2 + rng.gen_range(0..2) } else { rng.gen_range(0..2) }].clone(),
            script: tagv(script),
            lang: if rng.gen_bool(0.3) { Some(cfg.lang) } else { None },
            mask, custom, ctags, tuple,
            kern: rng.gen_bool(0.7),
        };
    }
    if cfg.fam == "strike" {
        return match rng.gen_range(0..12) {
            0 => set_filter([15, 15, 8, 7, 2, 0][rng.gen_range(0..6)]),
            1 => Call::HasImages,
            _ => Call::Image { g: rng.gen_range(0..7), ppem: [8, 10, 12, 16, 20, 24, 30, 32, 100, 300][rng.gen_range(0..10)], depth: [1, 1, 2, 4, 8, 32, 32][rng.gen_range(0..7)] },
        };
    }
    if cfg.fam == "pairs" {
        if rng.gen_range(0..12) == 0 {
            return Call::Table { kind: "gpos".to_string() };
        }
        // a word of the family or two to five random letters of the layout
        let text = if rng.gen_bool(0.5) { cfg.words.choose(rng).unwrap().clone() }
                   else { (0..rng.gen_range(2..6)).map(|_| ['A', 'B', 'C', 'D', 'E', 'F', 'X'][rng.gen_range(0..7)]).collect() };
        return Call::Shape { text, script: cfg.scripts[0], lang: None, mask: 0, custom: false, ctags: vec![], tuple: None, kern: rng.gen_bool(0.8) };
    }
    if cfg.fam == "img" {
        return match rng.gen_range(0..10) {
            0..=3 => set_filter(rng.gen_range(0..16)),
            4 | 5 => Call::Image { g: rng.gen_range(0..6), ppem: [16, 100, 300][rng.gen_range(0..3)], depth: 32 },
            6 | 7 => Call::HasImages,
            8 => Call::LookupGlyph { ch: '\u{1F600}', required: true, vs: [None, Some(16u8), Some(15u8)][rng.gen_range(0..3)] },
            _ => Call::MapGlyphs { text: "A\u{1F600}\u{25CC}\u{FE0F}".into(), script: cfg.scripts[0], required: true },
        };
    }
    let roll = match cfg.fam {
        "dmg" => [0, 4, 7, 8, 9, 14, 15, 16, 18, 20, 20, 20, 20, 21][rng.gen_range(0..14)],
        "collide" => [0, 4, 7, 7, 7, 7, 7, 7, 7, 17, 20, 21][rng.gen_range(0..12)],
        _ => rng.gen_range(0..22),
    };
    match roll {
        0..=3 => Call::LookupGlyph { ch: *chars.choose(rng).unwrap(), required: rng.gen_bool(0.5), vs: *vss.choose(rng).unwrap() },
        4..=6 => {
            let mut t = cfg.words.choose(rng).unwrap().clone();
            if rng.gen_bool(0.3) {
                t.push('\u{25CC}');
                if rng.gen_bool(0.5) {
                    t.push('\u{FE0F}');
                }
            }
            Call::MapGlyphs { text: t, script: cfg.scripts[rng.gen_range(0..2)], required: rng.gen_bool(0.4) }
        }
        7..=13 if cfg.fam == "collide" => {
            // a random subset of the layout's features, mostly small, as a mask or as a custom list
            let mut fs: Vec<u32> = Vec::new();
            let k = [1, 1, 1, 2, 2, 3, 7][rng.gen_range(0..7)];
            for _ in 0..k {
                fs.push(tag_u32(cfg.feats.choose(rng).unwrap()));
            }
            fs.sort();
            fs.dedup();
            Call::Shape {
                text: cfg.words.choose(rng).unwrap().clone(),
                script: cfg.scripts[rng.gen_range(0..2)],
                lang: [Some(cfg.lang), None, Some(tagv("TRK ")), Some(tagv("TRK "))][rng.gen_range(0..4)],
                mask: fs.iter().fold(0u64, |m, t| m | FeatureMask::from_tag(*t).bits()),
                custom: rng.gen_bool(0.5),
                ctags: fs,
                tuple: None,
                kern: rng.gen_bool(0.5),
            }
        }
        7..=13 => Call::Shape {
            text: cfg.words.choose(rng).unwrap().clone(),
            script: cfg.scripts[rng.gen_range(0..2)],
            lang: if rng.gen_bool(0.7) { Some(cfg.lang) } else { None },
            mask: [FeatureMask::default().bits(), (FeatureMask::LIGA | FeatureMask::CCMP).bits(), FeatureMask::all().bits(), 0][rng.gen_range(0..4)],
            custom: rng.gen_bool(0.15),
            ctags: vec![allsorts::tag::LIGA],
            tuple: match rng.gen_range(0..4) {
                0 => None,
                1 => Some(vec![0.0]),
                2 => Some(vec![1.0]),
                _ => Some(vec![[-1.0f32, 0.25, 0.5, 0.75][rng.gen_range(0..4)]]),
            },
            kern: rng.gen_bool(0.5),
        },
        14 => Call::Image { g: rng.gen_range(0..6), ppem: [16, 100, 300][rng.gen_range(0..3)], depth: 32 },
        15 => Call::HasImages,
        16 => match rng.gen_range(0..4) {
            0 => set_filter(7),
            1 => set_filter(0),
            2 => set_filter(imgenc::EBDT),
            _ => set_filter(rng.gen_range(0..16)),
        },
        17 => Call::HAdvance { g: rng.gen_range(0..8) },
        18 => Call::VAdvance { g: rng.gen_range(0..8) },
        19 => Call::GlyphNames { g: vec![rng.gen_range(0..8), 0] },
        _ => Call::Table { kind: KINDS[rng.gen_range(0..6)].to_string() },
    }
}

/// One Font lives through all `calls`; every call is also made on a fresh font that carries the last image
/// filter.  Returns (result on the long-lived font, result on the fresh font) per call; a panic ends the life of
/// the Font (the call is reported, the rest of the history is dropped).
fn run_incremental(cfg: &FontCfg, calls: &[Call]) -> Vec<(String, String)> {
    let data = &cfg.data[..];
    let fresh_of = |last_filter: Option<&Call>, probe: &Call| match guarded(|| with_font(data, &cfg.damage, |font| {
        if let Some(f) = last_filter {
            let _ = exec(font, f);
        }
        exec(font, probe)
    })) {
        Outcome::Returned(Some(s)) => s,
        Outcome::Returned(None) => "LOADFAIL".into(),
        Outcome::Panicked(m) => format!("PANIC {}", vh::sup::panic_key(&m)),
    };
    let mut out = Vec::new();
    let _ = guarded(|| with_font(data, &cfg.damage, |font| {
        let mut last_filter: Option<&Call> = None;
        for c in calls {
            let fresh = fresh_of(last_filter, c);
            match guarded(|| exec(font, c)) {
                Outcome::Returned(s) => out.push((s, fresh)),
                Outcome::Panicked(m) => {
                    out.push((format!("PANIC {}", vh::sup::panic_key(&m)), fresh));
                    break;
                }
            }
            if matches!(c, Call::SetFilter { .. }) {
                last_filter = Some(c);
            }
        }
    }));
    out
}

/// A shaping call with arguments drawn so that (script, language, feature mask) hardly ever repeats: scripts and
/// languages nobody has heard of next to the font's own, masks with and without FRAC / RVRN / VRT2_OR_VERT, texts
/// with fractions.
fn random_key_call(rng: &mut StdRng, cfg: &FontCfg) -> Call {
    let script = match rng.gen_range(0..6) {
        0 | 1 => cfg.scripts[0],
        2 => cfg.scripts[1],
        3 => tagv("DFLT"),
        _ => tag_u32(&format!("z{:03}", rng.gen_range(3..40))),
    };
    let lang = match rng.gen_range(0..5) {
        0 => None,
        1 => Some(cfg.lang),
        2 if !cfg.l2feats.is_empty() => Some(tagv("TRK ")),
        _ => Some(tag_u32(&format!("Q{:03}", rng.gen_range(3..60)))),
    };
    let special = (FeatureMask::FRAC | FeatureMask::RVRN | FeatureMask::VRT2_OR_VERT).bits();
    let mask = match rng.gen_range(0..6) {
        0 => FeatureMask::default().bits(),
        1 => FeatureMask::default().bits() | FRAC_BIT,
        2 => FeatureMask::all().bits(),
        3 => (rng.gen::<u64>() & FeatureMask::all().bits()) | FRAC_BIT,
        4 => rng.gen::<u64>() & FeatureMask::all().bits() & !special,
        _ => (rng.gen::<u64>() & special) | FeatureMask::LIGA.bits(),
    };
    let mut text = cfg.words.choose(rng).unwrap().clone();
    if rng.gen_bool(0.6) {
        text.push_str([" 1/2", "3/4 ", " 12/345x"][rng.gen_range(0..3)]);
    }
    Call::Shape { text, script, lang, mask, custom: false, ctags: vec![], tuple: if rng.gen_bool(0.1) { Some(vec![0.0]) } else { None }, kern: rng.gen_bool(0.5) }
}

/// Random histories, a fifth each on intact fonts, on fonts with damaged tables (one or two kinds; truncated to
/// 3 bytes, cut in the middle, or not delivered), on collide fonts whose layout is shifted by a seed-dependent
/// amount and whose far sub-tables lie 1..3 x 65536 further, on fonts with two to four image tables (random
/// filters and image queries), and on a ReadCache read through scopes derived by every route.  Then one long
/// history of `fill` shaping calls with ever new (script, language, mask) keys per font that has a GSUB.
fn record(seed: u64, histories: usize, len: usize, fill: usize, out: &str) {
    let mut rng = StdRng::seed_from_u64(seed);
    let mut uni = Universe::new();
    let intact = uni.intact.clone();
    let modes = [Mode::Trunc(3), Mode::Half, Mode::Fail];
    let mut dmg: Vec<Rc<FontCfg>> = Vec::new();
    for k in KINDS {
        dmg.extend(uni.of(&json!({"fam": "dmg", "damaged": [k], "lookups": [], "imgs": 7, "sub": ""}), &modes));
    }
    for ks in [["gsub", "gpos"], ["gdef", "kern"], ["vhea", "vmtx"], ["gsub", "morx"]] {
        dmg.extend(uni.of(&json!({"fam": "dmg", "damaged": ks, "lookups": [], "imgs": 7, "sub": ""}), &modes));
    }
    dmg.shuffle(&mut rng);
    let mut collide: Vec<Rc<FontCfg>> = Vec::new();
    for tbls in [vec!["GSUB"], vec!["GPOS"], vec!["GSUB", "GPOS"]] {
        let shift = 2 * rng.gen_range(0..60usize);
        let far = 65536 * rng.gen_range(1..4usize);
        collide.extend(uni.of(&collide_desc(&tbls, shift, far), &modes));
    }
    let mut img: Vec<Rc<FontCfg>> = Vec::new();
    for m in 1..16u8 {
        if m.count_ones() >= 2 {
            img.extend(uni.of(&json!({"fam": "img", "damaged": [], "lookups": [], "imgs": m, "sub": ""}), &modes));
        }
    }
    img.shuffle(&mut rng);
    // scopes: four objects, two of them congruent mod 2^16, at seed-dependent positions
    let p0 = 32 + 2 * rng.gen_range(0..64usize);
    let objs: Vec<(String, usize, String)> = vec![("cov".into(), p0, "A".into()), ("cov".into(), p0 + 256, "BC".into()),
        ("cov".into(), p0 + 65536 * rng.gen_range(1..3usize), "D".into()), ("cls".into(), p0 + 128, "EF".into()), ("cls".into(), p0 + 384, "G".into())];
    let mut sc = scopes_cfg(&objs);
    sc.words = objs.iter().map(|(k, p, c)| format!("{}:{}:{}", k, p, c)).collect();
    let scopes = vec![Rc::new(sc)];
    let mut var: Vec<Rc<FontCfg>> = Vec::new();
    for kind in ["", "fv", "dmg"] {
        var.extend(uni.of(&var_desc_shifted(64 * rng.gen_range(0..4usize), kind), &modes));
    }
    // strike: random strikes (3 to 6; sizes, bit depths and glyph ranges drawn from the seed), as EBLC and as CBLC
    let mut strike: Vec<Rc<FontCfg>> = Vec::new();
    for kind in [imgenc::EBDT, imgenc::CBDT] {
        // the bit depths in a random order, one after the other: neighbouring strikes never have the same depth
        let mut depths = [1, 2, 4, 8, 32];
        depths.shuffle(&mut rng);
        let strikes: Vec<Value> = (0..rng.gen_range(3..7usize)).map(|k| {
            let first = rng.gen_range(1..6u16);
            let (ppem, depth, last) = ([8, 12, 16, 24, 32][rng.gen_range(0..5)], depths[k % 5], rng.gen_range(first..7u16));
            json!({"ppem": ppem, "depth": depth, "first": first, "last": last})
        }).collect();
        strike.extend(uni.of(&json!({"fam": "strike", "damaged": [], "lookups": [], "imgs": kind, "sub": "", "strikes": strikes}), &modes));
    }
    let mut pairs: Vec<Rc<FontCfg>> = Vec::new();
    for swap in [false, true] {
        pairs.extend(uni.of(&pairs_desc(2 * rng.gen_range(0..80usize), swap), &modes));
    }
    let mut w = NdWriter::create(out);
    let mut i = 0u64;
    let mut n_differs = 0usize;
    let mut fam_hist: BTreeMap<String, usize> = BTreeMap::new();
    let mut fam_differs: BTreeMap<String, usize> = BTreeMap::new();
    let mut dmg_error_calls = 0usize;
    let mut n_panics = 0usize;
    let mut facts = InputFacts::default();
    for h in 0..histories {
        let pool = [&intact, &dmg, &collide, &img, &scopes, &var, &strike, &pairs][h % 8];
        let cfg = &pool[(h / 8) % pool.len()];
        let case_id = format!("{}/r{}-{}", cfg.name, seed, h);
        *fam_hist.entry(cfg.fam.to_string()).or_default() += 1;
        i += 1;
        // var: the calls are drawn first - the descriptor names the tuples of THIS history that satisfy the condition of
        // the FeatureVariations record (harness arithmetic on the inputs)
        let pre: Option<Vec<Call>> = if cfg.fam == "var" { Some((0..len).map(|_| random_call(&mut rng, cfg)).collect()) } else { None };
        let mut desc = cfg.desc.clone();
        if let (Some(calls), true) = (&pre, desc.get("fvt").is_some()) {
            let ids: std::collections::BTreeSet<String> = calls.iter().filter_map(|c| match c {
                Call::Shape { tuple: Some(t), .. } if t.len() == 2 && vargen::fv_holds(&[t[0], t[1]]) => Some(var_tuple_id(&Some(t.clone()))),
                _ => None,
            }).collect();
            desc["fvt"] = json!(ids);
        }
        w.write(&json!({"i": i, "case": case_id, "ev": "Init", "a": {"font": desc, "name": cfg.name}, "o": {}}));
        let mut history: Vec<Call> = Vec::new();
        for k in 0..len {
            let c = match &pre { Some(v) => v[k].clone(), None => random_call(&mut rng, cfg) };
            let (after, fresh) = run_both(cfg, &history, &c);
            let differs = after != fresh;
            if differs {
                n_differs += 1;
                *fam_differs.entry(cfg.fam.to_string()).or_default() += 1;
            }
            if cfg.fam == "dmg" && is_error_result(&fresh) {
                dmg_error_calls += 1;
            }
            let mut o = json!({"differs": differs});
            if differs {
                o["after"] = json!(after.chars().take(300).collect::<String>());
                o["fresh"] = json!(fresh.chars().take(300).collect::<String>());
            }
            i += 1;
            // a call that panicked ends the life of a Font object: it is judged (as a probe) but does not become
            // part of the history the later calls are compared after
            let panicked = after.starts_with("PANIC");
            if panicked {
                n_panics += 1;
            }
            w.write(&json!({"i": i, "case": case_id, "ev": "Call", "a": {"call": abstract_of(&c, cfg), "probe": panicked, "font": cfg.name}, "o": o}));
            if !panicked {
                history.push(c);
            }
        }
        facts.history(cfg, &history, &[]);
    }
    // long histories of ever new keys, one Font per history
    let mut fill_fonts: Vec<Rc<FontCfg>> = intact.iter().filter(|c| ["opensans", "inter-vf", "noto-naskh", "lohit-hi", "synth-fv"].contains(&c.name.as_str())).cloned().collect();
    if fill > 0 {
        fill_fonts.extend(uni.of(&keys_desc(), &modes));
    }
    let mut fill_args: BTreeMap<String, usize> = BTreeMap::new();
    let mut fill_frac_calls = 0usize;
    for (h, cfg) in fill_fonts.iter().enumerate() {
        if fill == 0 {
            break;
        }
        let case_id = format!("{}/f{}-{}", cfg.name, seed, h);
        *fam_hist.entry("fill-random".to_string()).or_default() += 1;
        i += 1;
        w.write(&json!({"i": i, "case": case_id, "ev": "Init", "a": {"font": cfg.desc, "name": cfg.name}, "o": {}}));
        let calls: Vec<Call> = (0..fill).map(|_| random_key_call(&mut rng, cfg)).collect();
        let distinct: std::collections::BTreeSet<_> = calls.iter().filter_map(|c| match c { Call::Shape { script, lang, mask, .. } => Some((*script, *lang, *mask)), _ => None }).collect();
        fill_args.insert(cfg.name.clone(), distinct.len());
        fill_frac_calls += calls.iter().filter(|c| matches!(c, Call::Shape { mask, text, .. } if mask & FRAC_BIT != 0 && text.contains('/'))).count();
        let results = run_incremental(cfg, &calls);
        for (c, (after, fresh)) in calls.iter().zip(results.iter()) {
            let differs = after != fresh;
            if differs {
                n_differs += 1;
                *fam_differs.entry("fill-random".to_string()).or_default() += 1;
            }
            let mut o = json!({"differs": differs});
            if differs {
                o["after"] = json!(after.chars().take(300).collect::<String>());
                o["fresh"] = json!(fresh.chars().take(300).collect::<String>());
            }
            let panicked = after.starts_with("PANIC");
            if panicked {
                n_panics += 1;
            }
            i += 1;
            w.write(&json!({"i": i, "case": case_id, "ev": "Call", "a": {"call": abstract_of(c, cfg), "probe": panicked, "font": cfg.name}, "o": o}));
        }
    }
    let n = w.n;
    w.finish();
    println!("{}", json!({"histories": histories + if fill > 0 { fill_fonts.len() } else { 0 }, "events": n, "differs": n_differs, "histories_by_family": fam_hist,
        "input_facts": facts.json(), "fill_random_distinct_arguments": fill_args, "fill_random_fraction_calls": fill_frac_calls,
        "img_selfcheck": uni.img_selfchecks, "img_fresh_results": uni.img_fresh,
        "differs_by_family": fam_differs, "damaged_fonts": dmg.len(), "damaged_variants_dropped": uni.dropped,
        "damaged_calls_reporting_the_error": dmg_error_calls, "calls_that_panicked": n_panics, "collide_selfcheck": uni.selfchecks,
        "var_selfcheck": uni.var_selfchecks, "var_fresh_results": uni.var_fresh,
        "strike_selfcheck": uni.strike_selfchecks, "pairs_selfcheck": uni.pairs_selfchecks, "pairs_fresh_results": uni.pairs_fresh}));
}

// ---- pure operations repeated -----------------------------------------------------------------

fn fnv(d: &[u8]) -> String {
    let mut h: u64 = 0xcbf29ce484222325;
    for &b in d {
        h ^= b as u64;
        h = h.wrapping_mul(0x100000001b3);
    }
    format!("{:016x}:{}", h, d.len())
}

fn repeat(seed: u64, out: &str) {
    let mut rng = StdRng::seed_from_u64(seed);
    let mut w = NdWriter::create(out);
    let mut files = vh::util::repo_fonts();
    files.retain(|p| !p.contains("/aots/"));
    files.shuffle(&mut rng);
    let mut n = 0;
    for path in files.iter().take(40) {
        let data = match std::fs::read(path) {
            Ok(d) if d.len() > 100 => d,
            _ => continue,
        };
        let name = path.rsplit('/').next().unwrap();
        let ids: Vec<u16> = {
            let mut v = vec![0u16];
            for k in 1..30u16 {
                v.push(k * 3 % 97 + 1);
            }
            v.sort();
            v.dedup();
            v
        };
        for run in 0..2 {
            let r = guarded(|| -> Option<Vec<(String, String)>> {
                let fd = ReadScope::new(&data).read::<FontData<'_>>().ok()?;
                let prov = fd.table_provider(0).ok()?;
                let mut outs = Vec::new();
                // decoding: every table's bytes
                let mut tags = prov.table_tags().unwrap_or_default();
                tags.sort();
                let mut all = Vec::new();
                for t in &tags {
                    if let Ok(Some(d)) = prov.table_data(*t) {
                        all.extend_from_slice(&t.to_be_bytes());
                        all.extend_from_slice(&d);
                    }
                }
                outs.push(("decode".to_string(), fnv(&all)));
                let n = prov.table_data(allsorts::tag::MAXP).ok().flatten().and_then(|d| be16(&d, 4)).unwrap_or(0);
                let ids: Vec<u16> = ids.iter().cloned().filter(|g| *g < n).collect();
                if let Ok(b) = allsorts::subset::subset(&prov, &ids) {
                    outs.push(("subset".to_string(), fnv(&b)));
                }
                if let Ok(b) = allsorts::subset::whole_font(&prov, &tags) {
                    outs.push(("whole_font".to_string(), fnv(&b)));
                }
                if prov.has_table(allsorts::tag::FVAR) {
                    if let Some(fv) = prov.table_data(allsorts::tag::FVAR).ok().flatten() {
                        if let Ok(f) = ReadScope::new(&fv).read::<allsorts::tables::variable_fonts::fvar::FvarTable<'_>>() {
                            let t: Vec<allsorts::tables::Fixed> = f.axes().map(|a| a.max_value).collect();
                            if let Ok((b, _)) = allsorts::variations::instance(&prov, &t) {
                                outs.push(("instance".to_string(), fnv(&b)));
                            }
                        }
                    }
                }
                Some(outs)
            });
            if let Outcome::Returned(Some(outs)) = r {
                for (op, d) in outs {
                    n += 1;
                    w.write(&json!({"font": name, "op": op, "run": run, "pid": std::process::id(), "digest": d}));
                }
            }
        }
    }
    w.finish();
    println!("{}", json!({"records": n}));
}

fn main() {
    let args: Vec<String> = std::env::args().collect();
    match args.get(1).map(|s| s.as_str()) {
        Some("replay") => replay(&args[2], &args[3]),
        Some("record") => record(args[2].parse().unwrap(), args[3].parse().unwrap(), args[4].parse().unwrap(), args[5].parse().unwrap(), &args[6]),
        Some("repeat") => repeat(args[2].parse().unwrap(), &args[3]),
        // diagnostic: what a fresh var font answers to one shaping call (script tag, tuple id or "none", mask bits, text)
        Some("vardump") => {
            let cfg = var_font(&var_desc());
            let c = Call::Shape { text: args[5].clone(), script: tagv(&args[2]), lang: None, mask: u64::from_str_radix(&args[4], 16).unwrap(), custom: false, ctags: vec![],
                                  tuple: var_tuple(&args[3]), kern: true };
            println!("{}", run_both(&cfg, &[], &c).1);
        }
        _ => {
            eprintln!("usage: c03_purity replay|record|repeat ...");
            std::process::exit(2);
        }
    }
}
