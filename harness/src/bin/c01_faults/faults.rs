//! Concrete faults: value classes, application to a buffer, description for the trace.
use super::fields::{Field, RecInfo};
use serde_json::{json, Value};

pub const VCS: [&str; 42] = [
    "zero", "one", "max", "max-1", "hi7f", "hi80", "inc", "dec", "dbl", "filelen", "tablelen", "self", "parent",
    "eqprev", "eqnext", "prev+1", "next-1", "prev-1", "next+1", "uwrap-prev", "uwrap-next", "swrap-prev", "swrap-next",
    "half", "der-1", "der-half",
    "bit0", "bit1", "bit2", "bit3", "bit4", "bit5", "bit6", "bit7", "bit8", "bit9", "bit10", "bit11", "bit12", "bit13", "bit14", "bit15",
];
/// FaultModel!DerClasses: the new value is a function of the value the other fields of the font imply for the field
pub const DER_CLASSES: [&str; 2] = ["der-1", "der-half"];
/// FaultModel!PrevClasses / NextClasses: the new value is a function of the previous / next element of the array
pub const PREV_CLASSES: [&str; 5] = ["eqprev", "prev+1", "prev-1", "uwrap-prev", "swrap-prev"];
pub const NEXT_CLASSES: [&str; 5] = ["eqnext", "next-1", "next+1", "uwrap-next", "swrap-next"];

/// FaultModel!RefClasses / RefRoles / HasRef
pub fn is_ref_class(vc: &str) -> bool {
    vc == "self" || vc == "parent"
}
pub fn is_prev_class(vc: &str) -> bool {
    PREV_CLASSES.contains(&vc)
}
pub fn is_next_class(vc: &str) -> bool {
    NEXT_CLASSES.contains(&vc)
}
/// FaultModel!RelClasses
pub fn is_rel_class(vc: &str) -> bool {
    is_prev_class(vc) || is_next_class(vc)
}
pub fn is_der_class(vc: &str) -> bool {
    DER_CLASSES.contains(&vc)
}
/// FaultModel!BitClasses / BitNo: "bitK" toggles bit K (from the least significant bit of the field)
pub fn bit_no(vc: &str) -> Option<u32> {
    vc.strip_prefix("bit").and_then(|k| k.parse::<u32>().ok()).filter(|k| *k < 16)
}
pub fn is_bit_class(vc: &str) -> bool {
    bit_no(vc).is_some()
}
/// FaultModel!HasBit
pub fn has_bit(vc: &str, w: u8) -> bool {
    bit_no(vc).map_or(true, |k| k < 8 * w as u32)
}
/// FaultModel!ClassApplies
pub fn class_applies(vc: &str, role: &str) -> bool {
    (!is_ref_class(vc) || role == "offset" || role == "index")
        && (!is_rel_class(vc) || role != "version")
        && (!is_der_class(vc) || role == "count" || role == "length" || role == "offset")
        && (!is_bit_class(vc) || role == "version")
}
/// FaultModel!HasDer
pub fn has_der(vc: &str, dv: i64) -> bool {
    !is_der_class(vc) || dv >= 1
}
/// FaultModel!HasRel on the positions the walk recorded (the bytes are read when the fault is applied)
pub fn has_sib(vc: &str, po: i64, no: i64) -> bool {
    (!is_prev_class(vc) || po >= 0) && (!is_next_class(vc) || no >= 0)
}
/// FaultModel!Sibling: the bytes of a sibling element as they stand in `buf`
pub fn sibling(buf: &[u8], p: i64, w: u8) -> Option<u64> {
    if p < 0 {
        None
    } else {
        rd(buf, p as usize, w)
    }
}
pub fn has_ref(vc: &str, sv: i64, pv: i64) -> bool {
    (vc != "self" || sv >= 0) && (vc != "parent" || pv >= 0)
}

/// The value a class names for a field of `w` bytes that held `old` (FaultModel!NewValue); `sv` /
/// `pv` = the references of the field (>= 0 when the class is "self" / "parent"); `pb` / `nb` = the
/// previous / next element of the array (there when the class is a relational one on that side);
/// `dv` = the value the other fields imply for this one (>= 1 when the class is a derived one).
#[allow(clippy::too_many_arguments)]
pub fn new_value(vc: &str, old: u64, w: u8, flen: u64, tlen: u64, sv: i64, pv: i64, dv: i64, pb: Option<u64>, nb: Option<u64>) -> u64 {
    let bits = 8 * w as u32;
    let mask: u64 = if bits >= 64 { u64::MAX } else { (1u64 << bits) - 1 };
    let hi80 = (mask >> 1) + 1;
    let (p, n) = (pb.unwrap_or(0), nb.unwrap_or(0));
    let v = match vc {
        "zero" => 0,
        "one" => 1,
        "max" => mask,
        "max-1" => mask - 1,
        "hi7f" => mask >> 1,
        "hi80" => (mask >> 1) + 1,
        "inc" => old.wrapping_add(1),
        "dec" => old.wrapping_sub(1),
        "dbl" => old.wrapping_mul(2),
        "half" => old / 2,
        "der-1" => (dv.max(1) - 1) as u64,
        "der-half" => (dv.max(0) / 2) as u64,
        "filelen" => flen,
        "tablelen" => tlen,
        "self" => sv.max(0) as u64,
        "parent" => pv.max(0) as u64,
        "eqprev" => p,
        "eqnext" => n,
        "prev+1" => p.wrapping_add(1),
        "next-1" => n.wrapping_sub(1),
        "prev-1" => p.wrapping_sub(1),
        "next+1" => n.wrapping_add(1),
        "uwrap-prev" => p.wrapping_neg(),
        "uwrap-next" => n.wrapping_neg(),
        "swrap-prev" => hi80.wrapping_sub(p),
        "swrap-next" => hi80.wrapping_sub(n),
        other => match bit_no(other) {
            Some(k) => old ^ (1u64 << k),
            None => panic!("value class {}", other),
        },
    };
    v & mask
}

pub fn rd(buf: &[u8], off: usize, w: u8) -> Option<u64> {
    let s = buf.get(off..off.checked_add(w as usize)?)?;
    Some(s.iter().fold(0u64, |a, &b| (a << 8) | b as u64))
}

pub fn wr(buf: &mut [u8], off: usize, w: u8, v: u64) {
    for k in 0..w as usize {
        buf[off + k] = (v >> (8 * (w as usize - 1 - k))) as u8;
    }
}

#[derive(Clone, Debug, PartialEq)]
pub enum CF {
    /// field index, value class index
    Ov(usize, usize),
    /// new file length; field index it was derived from; inside the field?
    Tr(usize, usize, bool),
    Rm(usize),
    /// record index; half (true) or minus one
    Sh(usize, bool),
    Sw(usize, usize),
}

/// What one applied fault did: trace description and byte patches (for replay).
pub struct Applied {
    pub desc: Value,
    pub patches: Vec<(usize, Vec<u8>)>,
    pub trunc: Option<usize>,
    /// table (or container) the fault aims at, "*" = everything
    pub target: String,
    pub changed: bool,
}

fn hex64(v: u64, w: u8) -> String {
    format!("{:0width$x}", v, width = 2 * w as usize)
}

/// Apply one fault to `buf` (FaultModel!Apply). A fault whose target is no longer inside the
/// (already truncated) buffer does nothing.
pub fn apply(buf: &mut Vec<u8>, f: &CF, fields: &[Field], recs: &[RecInfo]) -> Applied {
    let flen = buf.len() as u64;
    match f {
        CF::Ov(fi, vi) => {
            let fd = &fields[*fi];
            let vc = VCS[*vi];
            let target = if fd.level == "dir" && ["sfnt", "ttcf", "wOFF", "wOF2"].contains(&fd.tbl.as_str()) { "*".to_string() } else { fd.tbl.clone() };
            let (pb, nb) = (sibling(buf, fd.prevo, fd.w), sibling(buf, fd.nexto, fd.w));
            let has_rel = (!is_prev_class(vc) || pb.is_some()) && (!is_next_class(vc) || nb.is_some());
            match rd(buf, fd.off, fd.w).filter(|_| has_ref(vc, fd.selfv, fd.parentv) && has_der(vc, fd.dv) && has_bit(vc, fd.w) && has_rel) {
                Some(old) => {
                    let new = new_value(vc, old, fd.w, flen, fd.tlen as u64, fd.selfv, fd.parentv, fd.dv, pb, nb);
                    wr(buf, fd.off, fd.w, new);
                    Applied {
                        desc: json!(["Overwrite", fd.role, vc, fd.level, fd.tbl, fd.name, fd.off, fd.w, hex64(old, fd.w), hex64(new, fd.w)]),
                        patches: vec![(fd.off, buf[fd.off..fd.off + fd.w as usize].to_vec())],
                        trunc: None,
                        target,
                        changed: new != old,
                    }
                }
                None => Applied { desc: json!(["Overwrite", fd.role, vc, fd.level, fd.tbl, fd.name, fd.off, fd.w, "", ""]), patches: vec![], trunc: None, target, changed: false },
            }
        }
        CF::Tr(at, fi, inside) => {
            let fd = &fields[*fi];
            let changed = *at < buf.len();
            buf.truncate(*at);
            Applied {
                desc: json!(["Truncate", fd.role, "", fd.level, fd.tbl, format!("{}:{}", if *inside { "inside" } else { "at" }, fd.name), at, fd.w, "", ""]),
                patches: vec![],
                trunc: Some(*at),
                target: "*".to_string(),
                changed,
            }
        }
        CF::Rm(ri) => {
            let r = &recs[*ri];
            let n = recs.iter().filter(|x| x.dir_start == r.dir_start).count();
            let last = r.dir_start + n * r.rec_size;
            let mut patches = Vec::new();
            let mut changed = false;
            if r.rec_off + r.rec_size <= buf.len() && r.count_field + 2 <= buf.len() && last <= buf.len() {
                let mut moved = buf[r.rec_off + r.rec_size..last].to_vec();
                moved.extend(std::iter::repeat(0u8).take(r.rec_size));
                buf[r.rec_off..last].copy_from_slice(&moved);
                patches.push((r.rec_off, moved));
                let cnt = rd(buf, r.count_field, 2).unwrap();
                if cnt != 0 {
                    wr(buf, r.count_field, 2, cnt - 1);
                }
                patches.push((r.count_field, buf[r.count_field..r.count_field + 2].to_vec()));
                changed = true;
            }
            Applied { desc: json!(["RemoveTable", "", "", "dir", r.tag, format!("rec[{}]", r.index), r.rec_off, r.rec_size, "", ""]), patches, trunc: None, target: "*".to_string(), changed }
        }
        CF::Sh(ri, half) => {
            let r = &recs[*ri];
            let mut patches = Vec::new();
            let (mut o, mut nw) = (String::new(), String::new());
            let mut changed = false;
            if let Some(old) = rd(buf, r.len_field, 4) {
                let new = if *half { old / 2 } else { old.saturating_sub(1) };
                wr(buf, r.len_field, 4, new);
                patches.push((r.len_field, buf[r.len_field..r.len_field + 4].to_vec()));
                o = hex64(old, 4);
                nw = hex64(new, 4);
                changed = new != old;
            }
            Applied { desc: json!(["ShrinkLength", "length", "", "dir", r.tag, if *half { "half" } else { "minus1" }, r.len_field, 4, o, nw]), patches, trunc: None, target: r.tag.clone(), changed }
        }
        CF::Sw(a, b) => {
            let (ra, rb) = (&recs[*a], &recs[*b]);
            let mut patches = Vec::new();
            let mut changed = false;
            if ra.off_field + 8 <= buf.len() && rb.off_field + 8 <= buf.len() {
                let xa = buf[ra.off_field..ra.off_field + 8].to_vec();
                let xb = buf[rb.off_field..rb.off_field + 8].to_vec();
                buf[ra.off_field..ra.off_field + 8].copy_from_slice(&xb);
                buf[rb.off_field..rb.off_field + 8].copy_from_slice(&xa);
                changed = xa != xb;
                patches.push((ra.off_field, xb));
                patches.push((rb.off_field, xa));
            }
            Applied { desc: json!(["SwapTables", "offset", "", "dir", format!("{}+{}", ra.tag, rb.tag), format!("rec[{}]<->rec[{}]", ra.index, rb.index), ra.off_field, 8, "", ""]), patches, trunc: None, target: "*".to_string(), changed }
        }
    }
}

/// Faults given as in a FILE case of MC_FaultModel (offsets instead of field indices).
pub fn apply_model_fault(buf: &mut Vec<u8>, f: &Value) {
    let u = |k: &str| f[k].as_u64().unwrap_or(0) as usize;
    match f["k"].as_str().unwrap() {
        "Overwrite" => {
            let (off, w) = (u("off"), u("w") as u8);
            let (sv, pv, dv) = (f["sv"].as_i64().unwrap_or(-1), f["pv"].as_i64().unwrap_or(-1), f["dv"].as_i64().unwrap_or(-1));
            let vc = f["vc"].as_str().unwrap();
            let (pb, nb) = (sibling(buf, f["po"].as_i64().unwrap_or(-1), w), sibling(buf, f["no"].as_i64().unwrap_or(-1), w));
            let has_rel = (!is_prev_class(vc) || pb.is_some()) && (!is_next_class(vc) || nb.is_some());
            if let Some(old) = rd(buf, off, w).filter(|_| has_ref(vc, sv, pv) && has_der(vc, dv) && has_bit(vc, w) && has_rel) {
                let flen = buf.len() as u64;
                wr(buf, off, w, new_value(vc, old, w, flen, u("tlen") as u64, sv, pv, dv, pb, nb));
            }
        }
        "Truncate" => buf.truncate(u("at")),
        "RemoveTable" => {
            let (rec, size, cnt, idx, n) = (u("rec"), u("size"), u("cnt"), u("idx"), u("n"));
            let last = rec + (n - idx) * size;
            if rec + size <= buf.len() && cnt + 2 <= buf.len() && last <= buf.len() {
                let mut moved = buf[rec + size..last].to_vec();
                moved.extend(std::iter::repeat(0u8).take(size));
                buf[rec..last].copy_from_slice(&moved);
                let c = rd(buf, cnt, 2).unwrap();
                if c != 0 {
                    wr(buf, cnt, 2, c - 1);
                }
            }
        }
        "ShrinkLength" => {
            let off = u("off");
            if let Some(old) = rd(buf, off, 4) {
                let new = if f["mode"].as_str() == Some("half") { old / 2 } else { old.saturating_sub(1) };
                wr(buf, off, 4, new);
            }
        }
        "SwapTables" => {
            let (a, b) = (u("a"), u("b"));
            if a + 8 <= buf.len() && b + 8 <= buf.len() {
                let xa = buf[a..a + 8].to_vec();
                let xb = buf[b..b + 8].to_vec();
                buf[a..a + 8].copy_from_slice(&xb);
                buf[b..b + 8].copy_from_slice(&xa);
            }
        }
        other => panic!("fault kind {}", other),
    }
}
