//! Supervision for C01: panic capture with site (file, line, innermost allsorts function),
//! allocation budget (a request that would take the live heap over the budget is refused, which
//! allsorts either turns into an error or which aborts the process: an OOM outcome), RLIMIT_AS as a
//! safety net, thread CPU clock for the time budget.
use std::alloc::{GlobalAlloc, Layout, System};
use std::cell::RefCell;
use std::collections::HashMap;
use std::panic::{self, AssertUnwindSafe};
use std::sync::atomic::{AtomicUsize, Ordering};
use std::sync::{Mutex, Once};

// ---- allocation budget ---------------------------------------------------------------------------

pub struct Budgeted;
static LIVE: AtomicUsize = AtomicUsize::new(0);
static PEAK: AtomicUsize = AtomicUsize::new(0);
static LIMIT: AtomicUsize = AtomicUsize::new(usize::MAX);
static REFUSED: AtomicUsize = AtomicUsize::new(0);

unsafe impl GlobalAlloc for Budgeted {
    unsafe fn alloc(&self, l: Layout) -> *mut u8 {
        let live = LIVE.load(Ordering::Relaxed);
        if live.saturating_add(l.size()) > LIMIT.load(Ordering::Relaxed) {
            REFUSED.store(l.size(), Ordering::Relaxed);
            return std::ptr::null_mut();
        }
        let p = System.alloc(l);
        if !p.is_null() {
            let now = LIVE.fetch_add(l.size(), Ordering::Relaxed) + l.size();
            PEAK.fetch_max(now, Ordering::Relaxed);
        }
        p
    }
    unsafe fn dealloc(&self, p: *mut u8, l: Layout) {
        LIVE.fetch_sub(l.size(), Ordering::Relaxed);
        System.dealloc(p, l)
    }
    unsafe fn alloc_zeroed(&self, l: Layout) -> *mut u8 {
        let live = LIVE.load(Ordering::Relaxed);
        if live.saturating_add(l.size()) > LIMIT.load(Ordering::Relaxed) {
            REFUSED.store(l.size(), Ordering::Relaxed);
            return std::ptr::null_mut();
        }
        let p = System.alloc_zeroed(l);
        if !p.is_null() {
            let now = LIVE.fetch_add(l.size(), Ordering::Relaxed) + l.size();
            PEAK.fetch_max(now, Ordering::Relaxed);
        }
        p
    }
    unsafe fn realloc(&self, p: *mut u8, l: Layout, new: usize) -> *mut u8 {
        if new > l.size() {
            let live = LIVE.load(Ordering::Relaxed);
            if live.saturating_add(new - l.size()) > LIMIT.load(Ordering::Relaxed) {
                REFUSED.store(new, Ordering::Relaxed);
                return std::ptr::null_mut();
            }
        }
        let q = System.realloc(p, l, new);
        if !q.is_null() {
            if new >= l.size() {
                let now = LIVE.fetch_add(new - l.size(), Ordering::Relaxed) + (new - l.size());
                PEAK.fetch_max(now, Ordering::Relaxed);
            } else {
                LIVE.fetch_sub(l.size() - new, Ordering::Relaxed);
            }
        }
        q
    }
}

/// Live-heap budget in bytes for everything allocated from now on (on top of what is live now).
pub fn set_heap_budget(extra: usize) {
    LIMIT.store(LIVE.load(Ordering::Relaxed).saturating_add(extra), Ordering::Relaxed);
}
pub fn clear_heap_budget() {
    LIMIT.store(usize::MAX, Ordering::Relaxed);
}
pub fn reset_peak() {
    PEAK.store(LIVE.load(Ordering::Relaxed), Ordering::Relaxed);
}
pub fn peak_above_live() -> usize {
    PEAK.load(Ordering::Relaxed).saturating_sub(LIVE.load(Ordering::Relaxed))
}
pub fn take_refused() -> usize {
    REFUSED.swap(0, Ordering::Relaxed)
}

pub fn set_rlimit_as(bytes: u64) {
    let lim = libc::rlimit { rlim_cur: bytes, rlim_max: bytes };
    unsafe {
        libc::setrlimit(libc::RLIMIT_AS, &lim);
    }
    // no core files from aborting children
    let z = libc::rlimit { rlim_cur: 0, rlim_max: 0 };
    unsafe {
        libc::setrlimit(libc::RLIMIT_CORE, &z);
    }
}

// ---- panics are data --------------------------------------------------------------------------------

thread_local! {
    static LAST_PANIC: RefCell<Option<String>> = RefCell::new(None);
    static DEPTH: std::cell::Cell<u32> = std::cell::Cell::new(0);
}
static INSTALL: Once = Once::new();
static FN_CACHE: Mutex<Option<HashMap<String, String>>> = Mutex::new(None);

/// (file, function) of the innermost allsorts frame at or above the panic location.
/// For a location inside allsorts the answer is cached per location; a location inside core / std
/// (an assertion of `clamp`, an `unwrap`) is attributed to its allsorts caller, looked up every time.
fn site_of(loc: &str) -> (String, String) {
    let root = std::env::var("VERIF_REPO").unwrap_or_else(|_| "/repo".to_string());
    let in_allsorts = loc.starts_with(&root);
    if in_allsorts && std::env::var("C01_DEBUG_BT").is_err() {
        let g = FN_CACHE.lock().unwrap();
        if let Some(m) = g.as_ref() {
            if let Some(f) = m.get(loc) {
                return (file_of(loc), f.clone());
            }
        }
    }
    clear_heap_budget_for_hook();
    let bt = std::backtrace::Backtrace::force_capture().to_string();
    // frames: (function, "file:line")
    let mut frames: Vec<(String, String)> = Vec::new();
    for line in bt.lines() {
        let t = line.trim_start();
        if let Some(rest) = t.strip_prefix("at ") {
            let pos = rest.rsplitn(2, ':').nth(1).unwrap_or(rest).to_string(); // drop the column
            if let Some(l) = frames.last_mut() {
                if l.1.is_empty() {
                    l.1 = pos;
                }
            }
        } else if let Some(k) = t.find(": ") {
            if t[..k].chars().all(|c| c.is_ascii_digit()) {
                frames.push((t[k + 2..].to_string(), String::new()));
            }
        }
    }
    if std::env::var("C01_DEBUG_BT").is_ok() {
        eprintln!("BT for {}:\n{}", loc, bt);
    }
    let in_repo = |f: &&(String, String)| f.1.starts_with(&root) && !f.1.contains("verif_hooks.rs");
    let start = match frames.iter().position(|f| f.1 == loc) {
        Some(k) => k,
        None if in_allsorts => {
            // the panicking frame carries no line information (a generic instantiation without it): it is the
            // frame right after the panic machinery, and the panic location says which file it is in
            const MACHINERY: [&str; 12] = ["site_of", "{closure", "<alloc::boxed::Box", "std::panicking", "std::sys::backtrace", "__rustc", "core::panicking", "core::result::unwrap_failed", "core::option::", "core::slice::index", "core::str::", "core::cell::panic"];
            let k = frames.iter().position(|f| !(MACHINERY.iter().any(|m| f.0.starts_with(m)) && !f.1.starts_with(&root))).unwrap_or(0);
            if let Some(f) = frames.get(k) {
                let name = tidy_fn(&f.0);
                if f.1.is_empty() && !name.is_empty() {
                    let mut g = FN_CACHE.lock().unwrap();
                    g.get_or_insert_with(HashMap::new).insert(loc.to_string(), name.clone());
                    return (file_of(loc), name);
                }
            }
            k
        }
        None => 0,
    };
    let first = frames[start..].iter().find(in_repo);
    // a closure has no name of its own: the enclosing named function is the next allsorts frame
    let named = frames[start..].iter().filter(in_repo).map(|f| tidy_fn(&f.0)).find(|n| !n.is_empty());
    let (file, func) = match first {
        Some(f) => (file_of(&f.1), named.unwrap_or_default()),
        None => (file_of(loc), String::new()),
    };
    if in_allsorts {
        let mut g = FN_CACHE.lock().unwrap();
        g.get_or_insert_with(HashMap::new).insert(loc.to_string(), func.clone());
    }
    (file, func)
}

/// Site (file|function) of the innermost allsorts frame in a backtrace printed on stderr (the
/// standard library prints one when an allocation fails).
pub fn site_from_text(text: &str) -> Option<String> {
    let root = std::env::var("VERIF_REPO").unwrap_or_else(|_| "/repo".to_string());
    let mut last_fn = String::new();
    let mut first_file: Option<String> = None;
    for line in text.lines() {
        let t = line.trim_start();
        if let Some(rest) = t.strip_prefix("at ") {
            if rest.starts_with(&root) && !rest.contains("verif_hooks.rs") {
                let pos = rest.rsplitn(2, ':').nth(1).unwrap_or(rest);
                if first_file.is_none() {
                    first_file = Some(file_of(pos));
                }
                let f = tidy_fn(&last_fn);
                if !f.is_empty() {
                    return Some(format!("{}|{}", first_file.unwrap(), f));
                }
            }
        } else if let Some(k) = t.find(": ") {
            if t[..k].chars().all(|c| c.is_ascii_digit()) {
                last_fn = t[k + 2..].to_string();
            }
        }
    }
    first_file.map(|f| format!("{}|", f))
}

/// "/repo/src/tables/cmap.rs:520" -> "tables/cmap.rs"
fn file_of(loc: &str) -> String {
    let file = loc.rsplit_once(':').map(|(f, _)| f).unwrap_or(loc);
    file.rsplit_once("/src/").map(|(_, f)| f).unwrap_or(file).to_string()
}

fn clear_heap_budget_for_hook() {
    // symbolisation loads debug info: it must not be charged to the call under test
    LIMIT.store(usize::MAX, Ordering::Relaxed);
}

/// `<allsorts::tables::cmap::CmapSubtable>::map_glyph::{closure#0}` -> `CmapSubtable::map_glyph`
fn tidy_fn(s: &str) -> String {
    let mut t = s.to_string();
    // drop generic arguments and hashes
    let mut out = String::new();
    let mut depth = 0i32;
    for ch in t.drain(..) {
        match ch {
            '<' => depth += 1,
            '>' => depth -= 1,
            _ if depth > 0 => {}
            c => out.push(c),
        }
    }
    // impl methods are printed as `<path::Type>::method` or `<Type as Trait>::method`: keep what was inside
    if out.is_empty() || out.starts_with("::") {
        out = s.replace(['<', '>'], "");
        if let Some(k) = out.find(" as ") {
            let tail = out[k..].find("::").map(|j| out[k + j..].to_string()).unwrap_or_default();
            out = format!("{}{}", &out[..k], tail);
        }
    }
    let parts: Vec<&str> = out
        .split("::")
        .filter(|p| !p.is_empty() && !p.starts_with("{closure") && !p.starts_with("{{closure") && !(p.starts_with('h') && p.len() == 17 && p[1..].chars().all(|c| c.is_ascii_hexdigit())))
        .collect();
    let n = parts.len();
    let keep = if n >= 2 { parts[n - 2..].join("::") } else { parts.join("::") };
    keep.chars().filter(|c| c.is_ascii_alphanumeric() || *c == ':' || *c == '_').collect()
}

pub fn install_hook() {
    INSTALL.call_once(|| {
        panic::set_hook(Box::new(|info| {
            let limit = LIMIT.load(Ordering::Relaxed);
            LIMIT.store(usize::MAX, Ordering::Relaxed);
            let msg = if let Some(s) = info.payload().downcast_ref::<&str>() {
                (*s).to_string()
            } else if let Some(s) = info.payload().downcast_ref::<String>() {
                s.clone()
            } else {
                "<non-string panic>".to_string()
            };
            let loc = info.location().map(|l| format!("{}:{}", l.file(), l.line())).unwrap_or_default();
            let (file, f) = if loc.is_empty() { (String::new(), String::new()) } else { site_of(&loc) };
            if DEPTH.with(|d| d.get()) == 0 {
                // a panic of the harness itself is not data
                eprintln!("harness panic: {} @ {}", msg, loc);
            }
            LAST_PANIC.with(|p| *p.borrow_mut() = Some(format!("{} @ {} [{}|{}]", msg, loc, file, f)));
            LIMIT.store(limit, Ordering::Relaxed);
        }));
    });
}

pub enum Caught<T> {
    Returned(T),
    Panicked(String),
}

/// Run `f`; a panic comes back as `message @ file:line [function]`.
pub fn guarded<T>(f: impl FnOnce() -> T) -> Caught<T> {
    install_hook();
    LAST_PANIC.with(|p| *p.borrow_mut() = None);
    DEPTH.with(|d| d.set(d.get() + 1));
    let r = panic::catch_unwind(AssertUnwindSafe(f));
    DEPTH.with(|d| d.set(d.get() - 1));
    match r {
        Ok(v) => Caught::Returned(v),
        Err(_) => Caught::Panicked(LAST_PANIC.with(|p| p.borrow_mut().take()).unwrap_or_else(|| "<unknown panic>".to_string())),
    }
}

/// Stable key part of a panic: `file|function|message class` (digits collapsed, no line number;
/// the value inside an `unwrap` / `expect` message and the numbers of a slice error are dropped).
pub fn panic_site(msg: &str) -> String {
    let (m, rest) = match msg.rsplit_once(" @ ") {
        Some((m, l)) => (m, l),
        None => (msg, ""),
    };
    let (loc, site) = match rest.rsplit_once(" [") {
        Some((l, f)) => (l, f.trim_end_matches(']')),
        None => (rest, ""),
    };
    let (file, func) = match site.split_once('|') {
        Some((a, b)) => (a.to_string(), b.to_string()),
        None => (file_of(loc), site.to_string()),
    };
    let m = if let Some(k) = m.find("on an `Err` value") {
        &m[..k + "on an `Err` value".len()]
    } else if m.starts_with("range start index") || m.starts_with("range end index") || m.starts_with("slice index starts at") {
        "slice range out of bounds"
    } else if let Some(k) = m.find("is not a char boundary") {
        // the rest of the message quotes the character and the string (data of the input): not part of the class
        &m[..k + "is not a char boundary".len()]
    } else {
        m
    };
    let mut class = String::new();
    let mut last_digit = false;
    for ch in m.chars() {
        if ch.is_ascii_digit() {
            if !last_digit {
                class.push('N');
            }
            last_digit = true;
        } else {
            last_digit = false;
            if ch.is_ascii_alphanumeric() || "_:<>=!-.".contains(ch) {
                class.push(ch);
            } else if !class.ends_with('_') {
                class.push('_');
            }
        }
    }
    let class: String = class.trim_matches('_').chars().take(56).collect();
    format!("{}|{}|{}", file, func, class)
}

pub fn thread_cpu_ns() -> u64 {
    let mut ts = libc::timespec { tv_sec: 0, tv_nsec: 0 };
    unsafe { libc::clock_gettime(libc::CLOCK_THREAD_CPUTIME_ID, &mut ts) };
    ts.tv_sec as u64 * 1_000_000_000 + ts.tv_nsec as u64
}
