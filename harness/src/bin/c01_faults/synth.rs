//! Synthesized "champion" inputs of the C01 check: small well-formed fonts written by the harness that carry the
//! table kinds and sub-formats the repository fonts cover thinly or not at all - EBLC / EBDT and CBLC / CBDT in
//! every index format (1-5) and image format (1, 2, 5, 6, 7, 8, 9, 17, 18, 19), sbix, SVG (plain and gzip), kern
//! formats 0 and 2, morx (contextual, ligature, non-contextual with every lookup format, rearrangement,
//! insertion), cmap formats 0 / 2 / 4 / 6 / 10 / 12 / 13 / 14, post versions 1 / 2 / 2.5 / 4, fvar + avar + gvar +
//! cvar + HVAR + VVAR + MVAR + STAT (axis value formats 1-4), CFF2 with FDSelect formats 3 and 4, CID-keyed CFF
//! with FDSelect format 0 - so that the faults on their count / size / offset / index fields are enumerated at
//! all.  Nothing here calls allsorts; the layouts are written from the OpenType / Apple documents.
//! A font is a function of its name (the workers rebuild it).
use super::cffw;
use std::io::Write;
use vh::fontgen::{self, build_sfnt, triangle, TtFont, W};

pub const NAMES: [&str; 20] = [
    "synth/eblc", "synth/cblc", "synth/sbix+post1", "synth/svg+post25", "synth/kern+post4", "synth/morx", "synth/cmap+post2", "synth/var",
    "synth/cff2-fds3", "synth/cff2-fds0", "synth/cff-cid", "synth/eblc-aligned",
    // round 4: charstrings whose operators take as many operands as the interpreter's stack holds (CFF2 513, CFF 48);
    // variable fonts whose name strings are long and made of letters outside ASCII (every UTF-8 width, every platform
    // `NameTable::string_for_id` decodes, each of the name ids 25 / 16 / 1 as the source of the PostScript name prefix)
    "synth/cff2-stack", "synth/cff-stack", "synth/cff2-stack+1", "synth/cff-stack+1", "synth/cff2-real+1", "synth/var-name25", "synth/var-name16", "synth/var-name1",
];

/// inputs that are in the run for what their *content* makes the entry points do, not for the fields of their (ordinary)
/// variation / CFF2 tables: they are not made champions of those table kinds
pub fn content_only(name: &str) -> bool {
    matches!(name, "synth/cff2-stack" | "synth/cff-stack" | "synth/cff2-stack+1" | "synth/cff-stack+1" | "synth/cff2-real+1" | "synth/var-name25" | "synth/var-name16" | "synth/var-name1")
}

/// table kinds a synthesized input stands for in the quick tier (every structural field x every class)
pub fn focus(name: &str) -> &'static [&'static str] {
    match name {
        "synth/eblc" | "synth/eblc-aligned" => &["EBLC", "EBDT"],
        "synth/cblc" => &["CBLC", "CBDT"],
        "synth/sbix+post1" => &["sbix", "post"],
        "synth/svg+post25" => &["SVG ", "post"],
        "synth/kern+post4" => &["kern", "post"],
        "synth/morx" => &["morx"],
        "synth/cmap+post2" => &["cmap", "post"],
        "synth/var" => &["fvar", "avar", "gvar", "cvar", "HVAR", "VVAR", "MVAR", "STAT"],
        "synth/cff2-fds3" | "synth/cff2-fds0" => &["CFF2"],
        "synth/cff-cid" => &["CFF "],
        "synth/var-name25" => &["name"],
        _ => &[],
    }
}

pub fn build(name: &str) -> Option<Vec<u8>> {
    Some(match name {
        "synth/eblc" => with_tables(14, eblc_tables(false)),
        "synth/eblc-aligned" => with_tables(6, eblc_tables(true)),
        "synth/cblc" => with_tables(14, cblc_tables()),
        "synth/sbix+post1" => with_tables(6, vec![("sbix".into(), sbix(6)), ("post".into(), post(1, 6))]),
        "synth/svg+post25" => with_tables(6, vec![("SVG ".into(), svg()), ("post".into(), post(25, 6))]),
        "synth/kern+post4" => with_tables(8, vec![("kern".into(), kern()), ("post".into(), post(4, 8))]),
        "synth/morx" => with_tables(12, vec![("morx".into(), morx(12))]),
        "synth/cmap+post2" => with_tables(10, vec![("cmap".into(), cmap_all()), ("post".into(), post(2, 10))]),
        "synth/var" => var_font(names_for_var(), false),
        "synth/var-name25" => var_font(long_names(25), true),
        "synth/var-name16" => var_font(long_names(16), true),
        "synth/var-name1" => var_font(long_names(1), true),
        "synth/cff2-fds3" => cff_font(2, 3, 0),
        "synth/cff2-fds0" => cff_font(2, 0, 0),
        "synth/cff-cid" => cff_font(1, 0, 0),
        "synth/cff2-stack" => cff_font(2, 3, 1),
        "synth/cff-stack" => cff_font(1, 3, 1),
        "synth/cff2-stack+1" => cff_font(2, 3, 2),
        "synth/cff-stack+1" => cff_font(1, 3, 2),
        "synth/cff2-real+1" => cff_font(2, 3, 3),
        _ => return None,
    })
}

fn base(n: usize) -> TtFont {
    let mut f = TtFont::new((0..n).map(|i| triangle(3 * i as i16)).collect());
    f.cmap = (1..n.min(27)).map(|g| (0x40 + g as u32, g as u16)).collect();
    f
}

fn with_tables(n: usize, extra: Vec<(String, Vec<u8>)>) -> Vec<u8> {
    let mut f = base(n);
    f.extra_tables = extra;
    f.build()
}

// ---- EBLC / EBDT, CBLC / CBDT ----------------------------------------------------------------------------------------

struct Sub {
    first: u16,
    last: u16,
    ifmt: u16,
    imf: u16,
    /// (glyph id, record bytes) in glyph order
    recs: Vec<(u16, Vec<u8>)>,
    /// big metrics of the sub-table (index formats 2 and 5)
    bm: [u8; 8],
}
struct Strike {
    ppem: u8,
    bd: u8,
    subs: Vec<Sub>,
}

fn row_bytes(w: u8, bd: u8) -> usize {
    (w as usize * bd as usize + 7) / 8
}
fn pixels(n: usize, salt: u8) -> Vec<u8> {
    (0..n).map(|k| (k as u8).wrapping_mul(37).wrapping_add(salt) | 1).collect()
}
fn small(h: u8, w: u8) -> Vec<u8> {
    vec![h, w, 1, h, w + 1]
}
fn big(h: u8, w: u8) -> [u8; 8] {
    [h, w, 1, h, w + 1, 0xff, 1, h + 1]
}
/// image data of a glyph record in image format `imf` (own metrics where the format has them)
fn image(imf: u16, h: u8, w: u8, bd: u8, salt: u8, comps: &[(u16, i8, i8)]) -> Vec<u8> {
    let byte_al = h as usize * row_bytes(w, bd);
    let bit_al = (h as usize * w as usize * bd as usize + 7) / 8;
    let png: Vec<u8> = [0x89u8, b'P', b'N', b'G', 13, 10, 26, 10].iter().copied().chain(pixels(9 + salt as usize % 4, salt)).collect();
    let mut r = Vec::new();
    match imf {
        1 => {
            r.extend(small(h, w));
            r.extend(pixels(byte_al, salt));
        }
        2 => {
            r.extend(small(h, w));
            r.extend(pixels(bit_al, salt));
        }
        5 => r.extend(pixels(bit_al, salt)),
        6 => {
            r.extend(big(h, w));
            r.extend(pixels(byte_al, salt));
        }
        7 => {
            r.extend(big(h, w));
            r.extend(pixels(bit_al, salt));
        }
        8 | 9 => {
            if imf == 8 {
                r.extend(small(h, w));
                r.push(0);
            } else {
                r.extend(big(h, w));
            }
            r.extend((comps.len() as u16).to_be_bytes());
            for (g, x, y) in comps {
                r.extend(g.to_be_bytes());
                r.push(*x as u8);
                r.push(*y as u8);
            }
        }
        17 | 18 | 19 => {
            if imf == 17 {
                r.extend(small(h, w));
            } else if imf == 18 {
                r.extend(big(h, w));
            }
            r.extend((png.len() as u32).to_be_bytes());
            r.extend(png);
        }
        _ => panic!("image format {}", imf),
    }
    r
}

fn encode_bitmaps(ver: u16, strikes: &[Strike]) -> (Vec<u8>, Vec<u8>) {
    let mut dat = W::new();
    dat.u16(ver).u16(0);
    let mut arrays: Vec<Vec<u8>> = Vec::new();
    for s in strikes {
        let mut bodies: Vec<Vec<u8>> = Vec::new();
        for sub in &s.subs {
            let ido = dat.len() as u32;
            let mut offs: Vec<u32> = vec![0];
            for (_, r) in &sub.recs {
                dat.bytes(r);
                offs.push(dat.len() as u32 - ido);
            }
            let mut w = W::new();
            w.u16(sub.ifmt).u16(sub.imf).u32(ido);
            match sub.ifmt {
                1 => {
                    assert_eq!(sub.recs.len(), (sub.last - sub.first + 1) as usize);
                    for o in &offs {
                        w.u32(*o);
                    }
                }
                2 => {
                    w.u32(sub.recs[0].1.len() as u32).bytes(&sub.bm);
                }
                3 => {
                    assert_eq!(sub.recs.len(), (sub.last - sub.first + 1) as usize);
                    for o in &offs {
                        w.u16(*o as u16);
                    }
                }
                4 => {
                    w.u32(sub.recs.len() as u32);
                    for (k, (g, _)) in sub.recs.iter().enumerate() {
                        w.u16(*g).u16(offs[k] as u16);
                    }
                    w.u16(0).u16(*offs.last().unwrap() as u16);
                }
                5 => {
                    w.u32(sub.recs[0].1.len() as u32).bytes(&sub.bm).u32(sub.recs.len() as u32);
                    for (g, _) in &sub.recs {
                        w.u16(*g);
                    }
                }
                _ => panic!("index format"),
            }
            w.pad4();
            bodies.push(w.done());
        }
        let mut a = W::new();
        let mut off = 8 * s.subs.len();
        for (sub, body) in s.subs.iter().zip(&bodies) {
            a.u16(sub.first).u16(sub.last).u32(off as u32);
            off += body.len();
        }
        for b in &bodies {
            a.bytes(b);
        }
        arrays.push(a.done());
    }
    let mut w = W::new();
    w.u16(ver).u16(0).u32(strikes.len() as u32);
    let mut at = 8 + 48 * strikes.len();
    for (s, a) in strikes.iter().zip(&arrays) {
        w.u32(at as u32).u32(a.len() as u32).u32(s.subs.len() as u32).u32(0);
        for _ in 0..2 {
            // ascender, descender, widthMax, caret slope numerator / denominator, caretOffset, minOriginSB, minAdvanceSB,
            // maxBeforeBL, minAfterBL, pad1, pad2
            w.i8(s.ppem as i8 - 2).i8(-2).u8(s.ppem).i8(1).i8(0).i8(0).i8(-1).i8(-2).i8(9).i8(-3).i8(0).i8(0);
        }
        let first = s.subs.iter().map(|x| x.first).min().unwrap();
        let last = s.subs.iter().map(|x| x.last).max().unwrap();
        w.u16(first).u16(last).u8(s.ppem).u8(s.ppem).u8(s.bd).i8(1);
        at += a.len();
    }
    for a in &arrays {
        w.bytes(a);
    }
    (w.done(), dat.done())
}

fn full(first: u16, last: u16, ifmt: u16, imf: u16, bd: u8, dims: &[(u8, u8)]) -> Sub {
    let recs = (first..=last).enumerate().map(|(k, g)| {
        let (h, w) = dims[k % dims.len()];
        (g, image(imf, h, w, bd, g as u8, &[(1, 0, 0), (2, 1, -1)]))
    }).collect();
    Sub { first, last, ifmt, imf, recs, bm: big(dims[0].0, dims[0].1) }
}
fn sparse(gids: &[u16], ifmt: u16, imf: u16, bd: u8, dim: (u8, u8)) -> Sub {
    let recs = gids.iter().map(|g| (*g, image(imf, dim.0, dim.1, bd, *g as u8, &[(1, 0, 0)]))).collect();
    Sub { first: gids[0], last: *gids.last().unwrap(), ifmt, imf, recs, bm: big(dim.0, dim.1) }
}

/// EBLC / EBDT.  `aligned`: a small variant in which every strike has rows that end on a byte boundary
/// (bit depth x width a multiple of 8) for each of the bit-aligned image formats 2, 5, 7.
fn eblc_tables(aligned: bool) -> Vec<(String, Vec<u8>)> {
    let strikes = if aligned {
        vec![
            Strike { ppem: 8, bd: 1, subs: vec![full(1, 2, 2, 5, 1, &[(8, 8)]), full(3, 4, 1, 2, 1, &[(4, 16)]), full(5, 5, 3, 7, 1, &[(3, 8)])] },
            Strike { ppem: 12, bd: 2, subs: vec![sparse(&[1, 3], 5, 5, 2, (4, 4)), full(4, 5, 1, 7, 2, &[(2, 8)])] },
            Strike { ppem: 16, bd: 4, subs: vec![full(1, 3, 3, 2, 4, &[(2, 2), (3, 4)])] },
            Strike { ppem: 20, bd: 8, subs: vec![full(1, 2, 2, 5, 8, &[(2, 3)]), full(3, 3, 1, 7, 8, &[(2, 2)])] },
        ]
    } else {
        vec![
            Strike {
                ppem: 8,
                bd: 1,
                subs: vec![
                    full(1, 2, 1, 1, 1, &[(8, 8), (6, 5)]),
                    full(3, 4, 2, 5, 1, &[(8, 8)]),
                    full(5, 6, 3, 2, 1, &[(4, 16), (3, 5)]),
                    sparse(&[7, 9], 4, 6, 1, (4, 5)),
                    sparse(&[10, 12], 5, 5, 1, (2, 16)),
                ],
            },
            Strike {
                ppem: 12,
                bd: 2,
                subs: vec![full(1, 2, 1, 7, 2, &[(4, 4), (3, 5)]), full(3, 4, 3, 8, 2, &[(4, 4)]), full(5, 6, 1, 9, 2, &[(5, 5)]), full(7, 8, 2, 5, 2, &[(3, 5)])],
            },
            Strike { ppem: 16, bd: 4, subs: vec![full(1, 3, 1, 2, 4, &[(2, 2), (3, 3)]), sparse(&[4, 6, 7], 4, 7, 4, (2, 4))] },
            Strike { ppem: 20, bd: 8, subs: vec![full(1, 2, 1, 6, 8, &[(2, 3)]), full(3, 5, 3, 1, 8, &[(1, 2)])] },
        ]
    };
    let (loc, dat) = encode_bitmaps(2, &strikes);
    vec![("EBLC".into(), loc), ("EBDT".into(), dat)]
}

fn cblc_tables() -> Vec<(String, Vec<u8>)> {
    let strikes = vec![
        Strike {
            ppem: 20,
            bd: 32,
            subs: vec![full(1, 2, 1, 17, 32, &[(20, 20)]), full(3, 4, 3, 18, 32, &[(20, 18)]), full(5, 6, 2, 19, 32, &[(20, 20)]), sparse(&[7, 9], 4, 17, 32, (10, 12)), sparse(&[10, 12], 5, 19, 32, (20, 16))],
        },
        Strike { ppem: 40, bd: 32, subs: vec![full(1, 3, 1, 18, 32, &[(40, 40)]), sparse(&[5, 6, 8], 4, 18, 32, (40, 30))] },
    ];
    // index formats 2 / 5 need records of one size: the PNG stand-ins of `image` differ in length by glyph id
    let strikes: Vec<Strike> = strikes
        .into_iter()
        .map(|mut s| {
            for sub in s.subs.iter_mut() {
                if sub.ifmt == 2 || sub.ifmt == 5 {
                    let first = sub.recs[0].1.clone();
                    for r in sub.recs.iter_mut() {
                        r.1 = first.clone();
                    }
                }
            }
            s
        })
        .collect();
    let (loc, dat) = encode_bitmaps(3, &strikes);
    vec![("CBLC".into(), loc), ("CBDT".into(), dat)]
}

// ---- sbix, SVG, post ---------------------------------------------------------------------------------------------------------

fn sbix(n: usize) -> Vec<u8> {
    let strike = |ppem: u16, which: usize| -> Vec<u8> {
        let mut recs: Vec<Vec<u8>> = Vec::new();
        for g in 0..n {
            let mut r = W::new();
            match (g + which) % 6 {
                0 => {}
                1 => {
                    r.i16(1).i16(-2).tag("png ").bytes(&pixels(12, g as u8));
                }
                2 => {
                    r.i16(0).i16(0).tag("dupe").u16(1);
                }
                3 => {
                    r.i16(-1).i16(3).tag("jpg ").bytes(&pixels(7, g as u8));
                }
                4 => {
                    r.i16(0).i16(0).tag("dupe").u16(2);
                }
                _ => {
                    r.i16(2).i16(2).tag("tiff").bytes(&pixels(5, g as u8));
                }
            }
            recs.push(r.done());
        }
        let mut w = W::new();
        w.u16(ppem).u16(72);
        let mut at = 4 + 4 * (n + 1);
        for r in &recs {
            w.u32(at as u32);
            at += r.len();
        }
        w.u32(at as u32);
        for r in &recs {
            w.bytes(r);
        }
        w.done()
    };
    let bodies = [strike(20, 0), strike(64, 1), strike(300, 3)];
    let mut w = W::new();
    w.u16(1).u16(1).u32(bodies.len() as u32);
    let mut at = 8 + 4 * bodies.len();
    for b in &bodies {
        w.u32(at as u32);
        at += b.len();
    }
    for b in &bodies {
        w.bytes(b);
    }
    w.done()
}

fn gzip(data: &[u8]) -> Vec<u8> {
    let mut e = flate2::write::GzEncoder::new(Vec::new(), flate2::Compression::default());
    e.write_all(data).expect("gzip");
    e.finish().expect("gzip")
}

fn svg() -> Vec<u8> {
    let doc = |ids: &[u16]| -> Vec<u8> {
        let mut s = String::from("<svg xmlns=\"http://www.w3.org/2000/svg\">");
        for g in ids {
            s += &format!("<g id=\"glyph{}\"><path d=\"M0 0L10 {}Z\"/></g>", g, g);
        }
        s += "</svg>";
        s.into_bytes()
    };
    let docs = [doc(&[1, 2]), gzip(&doc(&[3])), doc(&[5])];
    let recs = [(1u16, 2u16, 0usize), (3, 3, 1), (5, 5, 2)];
    let mut w = W::new();
    w.u16(0).u32(10).u32(0);
    let mut at = 2 + 12 * recs.len();
    let mut doc_at = Vec::new();
    for d in &docs {
        doc_at.push(at);
        at += d.len();
    }
    w.u16(recs.len() as u16);
    for (s, e, k) in recs {
        w.u16(s).u16(e).u32(doc_at[k] as u32).u32(docs[k].len() as u32);
    }
    for d in &docs {
        w.bytes(d);
    }
    w.done()
}

fn post(ver: u32, n: usize) -> Vec<u8> {
    let mut w = W::new();
    let version = match ver {
        1 => 0x00010000,
        2 => 0x00020000,
        25 => 0x00025000,
        4 => 0x00040000,
        _ => 0x00030000u32,
    };
    w.u32(version).u32(0).i16(-100).i16(50).u32(0).u32(0).u32(0).u32(0).u32(0);
    match ver {
        2 => {
            // standard names, custom names (258 ..), one of them used twice
            w.u16(n as u16);
            let idx: Vec<u16> = (0..n).map(|g| if g < 3 { g as u16 } else if g % 2 == 1 { 258 + (g as u16 / 2) % 3 } else { 30 + g as u16 }).collect();
            for x in &idx {
                w.u16(*x);
            }
            for s in ["alpha", "b", "gamma.alt"] {
                w.u8(s.len() as u8).bytes(s.as_bytes());
            }
        }
        25 => {
            w.u16(n as u16);
            for g in 0..n {
                w.i8(if g % 2 == 0 { 3 } else { -1 });
            }
        }
        4 => {
            for g in 0..n {
                w.u16(if g == 0 { 0xFFFF } else { 0x40 + g as u16 });
            }
        }
        _ => {}
    }
    w.done()
}

// ---- kern ---------------------------------------------------------------------------------------------------------------------

fn kern() -> Vec<u8> {
    let mut w = W::new();
    w.u16(0).u16(2);
    // format 0: pairs sorted by (left, right)
    let pairs: [(u16, u16, i16); 4] = [(1, 2, -30), (1, 3, 20), (2, 1, -5), (4, 5, 12)];
    w.u16(0).u16(14 + 6 * pairs.len() as u16).u16(0x0001);
    w.u16(pairs.len() as u16).u16(24).u16(2).u16(0);
    for (l, r, v) in pairs {
        w.u16(l).u16(r).i16(v);
    }
    // format 2 (last: allsorts reads the next sub-table right after a format 2 header): 2 x 3 classes
    let start = w.len();
    let row_width = 6u16;
    let (left_at, right_at, array_at) = (16u16, 16 + 4 + 2 * 3, 16 + 4 + 2 * 3 + 4 + 2 * 4);
    w.u16(0).u16(array_at + 4 * row_width).u16(0x0201);
    w.u16(row_width).u16(left_at).u16(right_at).u16(array_at);
    w.u16(0); // pad to 16
    assert_eq!(w.len() - start, 16);
    // left classes: glyphs 1..3, values pre-multiplied by the row width
    w.u16(1).u16(3).u16(0).u16(row_width).u16(0);
    // right classes: glyphs 2..5, values pre-multiplied by 2
    w.u16(2).u16(4).u16(0).u16(2).u16(4).u16(2);
    // allsorts takes rowWidth x (number of glyphs of the right class table) bytes for the array
    for v in [0i16, -10, 15, 7, 0, -3, 1, 2, 3, 4, 5, 6] {
        w.i16(v);
    }
    w.done()
}

// ---- morx ---------------------------------------------------------------------------------------------------------------------

fn bin_srch(w: &mut W, unit: u16, n: u16) {
    let mut es = 0u16;
    while (1u32 << (es + 1)) <= n as u32 {
        es += 1;
    }
    let sr = unit * (1 << es);
    w.u16(unit).u16(n).u16(sr).u16(es).u16(unit * n - sr);
}

/// AAT lookup table of `fmt` giving glyph g (first..first+values.len()) the value values[g - first]
fn aat_lookup(fmt: u16, n_glyphs: usize, first: u16, values: &[u16]) -> Vec<u8> {
    let mut w = W::new();
    w.u16(fmt);
    let last = first + values.len() as u16 - 1;
    match fmt {
        0 => {
            for g in 0..n_glyphs as u16 {
                w.u16(if g >= first && g <= last { values[(g - first) as usize] } else { 0 });
            }
        }
        2 => {
            // one segment per glyph pair + the end marker
            let segs: Vec<(u16, u16, u16)> = values.chunks(2).enumerate().map(|(k, c)| (first + 2 * k as u16, first + 2 * k as u16 + c.len() as u16 - 1, c[0])).collect();
            bin_srch(&mut w, 6, segs.len() as u16 + 1);
            for (f, l, v) in &segs {
                w.u16(*l).u16(*f).u16(*v);
            }
            w.u16(0xFFFF).u16(0xFFFF).u16(0);
        }
        4 => {
            let segs: Vec<(u16, u16)> = vec![(first, first + (values.len() as u16 - 1) / 2), (first + (values.len() as u16 - 1) / 2 + 1, last)];
            let segs: Vec<(u16, u16)> = segs.into_iter().filter(|(f, l)| l >= f).collect();
            bin_srch(&mut w, 6, segs.len() as u16 + 1);
            let mut at = 12 + 6 * (segs.len() + 1);
            for (f, l) in &segs {
                w.u16(*l).u16(*f).u16(at as u16);
                at += 2 * (l - f + 1) as usize;
            }
            w.u16(0xFFFF).u16(0xFFFF).u16(0);
            for v in values {
                w.u16(*v);
            }
        }
        6 => {
            bin_srch(&mut w, 4, values.len() as u16 + 1);
            for (k, v) in values.iter().enumerate() {
                w.u16(first + k as u16).u16(*v);
            }
            w.u16(0xFFFF).u16(0);
        }
        8 => {
            w.u16(first).u16(values.len() as u16);
            for v in values {
                w.u16(*v);
            }
        }
        10 => {
            w.u16(2).u16(first).u16(values.len() as u16);
            for v in values {
                w.u16(*v);
            }
        }
        _ => panic!("lookup format"),
    }
    w.pad4();
    w.done()
}

fn morx_subtable(ty: u32, flags: u32, body: Vec<u8>) -> Vec<u8> {
    let mut w = W::new();
    w.u32(12 + body.len() as u32).u32(ty).u32(flags).bytes(&body);
    w.done()
}

/// extended state table body: header (+ `extra` offsets), class table, state array (rows of nClasses u16), entries,
/// then the per-type tables in order; every offset counted from the start of the body
fn stx(n_classes: u32, class: Vec<u8>, states: &[Vec<u16>], entries: Vec<u8>, extras: Vec<Vec<u8>>) -> Vec<u8> {
    let hdr = 16 + 4 * extras.len();
    let mut state_bytes = W::new();
    for row in states {
        assert_eq!(row.len(), n_classes as usize);
        for v in row {
            state_bytes.u16(*v);
        }
    }
    let state_bytes = state_bytes.done();
    let mut ent = entries;
    while ent.len() % 4 != 0 {
        ent.push(0);
    }
    let class_at = hdr;
    let state_at = class_at + class.len();
    let entry_at = state_at + state_bytes.len();
    let mut at = entry_at + ent.len();
    let mut w = W::new();
    w.u32(n_classes).u32(class_at as u32).u32(state_at as u32).u32(entry_at as u32);
    for e in &extras {
        w.u32(at as u32);
        at += e.len();
    }
    w.bytes(&class).bytes(&state_bytes).bytes(&ent);
    for e in &extras {
        w.bytes(e);
    }
    w.done()
}

fn morx(n_glyphs: usize) -> Vec<u8> {
    // classes: 0 end of text, 1 out of bounds, 2 deleted, 3 end of line, 4 / 5 own
    let class = aat_lookup(2, n_glyphs, 1, &[4, 4, 5, 5]);
    let states = vec![vec![0u16, 0, 0, 0, 1, 0], vec![0, 0, 0, 0, 1, 2], vec![0, 0, 0, 0, 0, 2]];
    // contextual: entries (newState, flags, markIndex, currentIndex); two substitution tables (formats 6 and 8)
    let mut ce = W::new();
    ce.u16(0).u16(0).u16(0xFFFF).u16(0xFFFF);
    ce.u16(1).u16(0x8000).u16(0xFFFF).u16(0xFFFF);
    ce.u16(2).u16(0).u16(0).u16(1);
    let s0 = aat_lookup(6, n_glyphs, 1, &[5, 6]);
    let s1 = aat_lookup(8, n_glyphs, 3, &[7, 8]);
    let mut st = W::new();
    st.u32(8).u32(8 + s0.len() as u32).bytes(&s0).bytes(&s1);
    let contextual = stx(6, class.clone(), &states, ce.done(), vec![st.done()]);
    // ligature: entries (newState, flags, ligActionIndex); actions, components, ligatures
    let mut le = W::new();
    le.u16(0).u16(0).u16(0);
    le.u16(1).u16(0x8000).u16(0);
    le.u16(0).u16(0xA000).u16(0);
    let mut actions = W::new();
    actions.u32(0x0000_0001).u32(0x8000_0002);
    let mut comps = W::new();
    for v in [0u16, 0, 1, 1, 2, 0, 1, 2] {
        comps.u16(v);
    }
    let mut ligs = W::new();
    for v in [9u16, 10, 11, 9] {
        ligs.u16(v);
    }
    let class8 = aat_lookup(8, n_glyphs, 1, &[4, 5, 4, 5]);
    let ligature = stx(6, class8, &states, le.done(), vec![actions.done(), comps.done(), ligs.done()]);
    // rearrangement (type 0) and insertion (type 5): kept as bytes by allsorts
    let mut re = W::new();
    re.u16(0).u16(0);
    re.u16(1).u16(0x8001);
    let rearrangement = stx(6, class.clone(), &states, re.done(), vec![]);
    let mut ie = W::new();
    ie.u16(0).u16(0).u16(0xFFFF).u16(0xFFFF);
    ie.u16(1).u16(0x0821).u16(0).u16(0xFFFF);
    let mut ia = W::new();
    ia.u16(3).u16(4);
    let insertion = stx(6, class, &states, ie.done(), vec![ia.done()]);
    let mut subs: Vec<Vec<u8>> = vec![morx_subtable(1, 1, contextual), morx_subtable(2, 2, ligature)];
    for (k, fmt) in [0u16, 2, 4, 6, 8, 10].iter().enumerate() {
        subs.push(morx_subtable(4, 4 << k, aat_lookup(*fmt, n_glyphs, 2, &[3, 2, 5, 4, 7])));
    }
    subs.push(morx_subtable(0, 0x400, rearrangement));
    subs.push(morx_subtable(5, 0x800, insertion));
    let chain = |default_flags: u32, feats: &[(u16, u16, u32, u32)], subs: &[Vec<u8>]| -> Vec<u8> {
        let len = 16 + 12 * feats.len() + subs.iter().map(|s| s.len()).sum::<usize>();
        let mut w = W::new();
        w.u32(default_flags).u32(len as u32).u32(feats.len() as u32).u32(subs.len() as u32);
        for (t, s, e, d) in feats {
            w.u16(*t).u16(*s).u32(*e).u32(*d);
        }
        for s in subs {
            w.bytes(s);
        }
        w.done()
    };
    let c0 = chain(0xFFF, &[(1, 2, 0x3, 0xFFFF_FFFF), (3, 7, 0x4, 0xFFFF_FFFB), (0, 1, 0, 0)], &subs);
    let c1 = chain(1, &[(0, 1, 0, 0)], &[morx_subtable(4, 1, aat_lookup(6, n_glyphs, 4, &[1, 2]))]);
    let mut w = W::new();
    w.u16(2).u16(0).u32(2).bytes(&c0).bytes(&c1);
    w.done()
}

// ---- cmap ---------------------------------------------------------------------------------------------------------------------

fn cmap_all() -> Vec<u8> {
    let mut subs: Vec<(u16, u16, Vec<u8>)> = Vec::new();
    // format 0 (1/0)
    let mut w = W::new();
    w.u16(0).u16(262).u16(0);
    for c in 0..256u32 {
        w.u8(if (0x41..0x49).contains(&c) { (c - 0x40) as u8 } else { 0 });
    }
    subs.push((1, 0, w.done()));
    // format 2 (3/2): single bytes through sub-header 0, lead byte 0x81 through sub-header 1
    let mut w = W::new();
    let len = 6 + 512 + 2 * 8 + 2 * (8 + 4);
    w.u16(2).u16(len as u16).u16(0);
    for hi in 0..256u16 {
        w.u16(if hi == 0x81 { 8 } else { 0 });
    }
    // sub-header 0: codes 0x41..0x48; idRangeOffset counted from its own position
    w.u16(0x41).u16(8).i16(0).u16(2 + 8);
    w.u16(0x40).u16(4).i16(1).u16(2 + 16);
    for g in 1..=8u16 {
        w.u16(g);
    }
    for g in [2u16, 0, 4, 5] {
        w.u16(g);
    }
    subs.push((3, 2, w.done()));
    // format 4 (3/1): a delta segment, a glyphIdArray segment, the closing segment
    let mut w = W::new();
    let segs: [(u16, u16, i16, u16); 3] = [(0x41, 0x44, -0x40, 0), (0x61, 0x63, 0, 4), (0xFFFF, 0xFFFF, 1, 0)];
    let n = segs.len() as u16;
    w.u16(4).u16(16 + 8 * n + 2 * 3).u16(0).u16(2 * n).u16(4).u16(1).u16(2 * n - 4);
    for s in &segs {
        w.u16(s.1);
    }
    w.u16(0);
    for s in &segs {
        w.u16(s.0);
    }
    for s in &segs {
        w.i16(s.2);
    }
    for s in &segs {
        w.u16(s.3);
    }
    for g in [5u16, 0, 7] {
        w.u16(g);
    }
    subs.push((3, 1, w.done()));
    // format 6 (1/1... a second Macintosh record)
    let mut w = W::new();
    w.u16(6).u16(10 + 2 * 4).u16(0).u16(0x30).u16(4);
    for g in [1u16, 2, 0, 3] {
        w.u16(g);
    }
    subs.push((0, 3, w.done()));
    // format 10 (3/10 is taken by format 12 below: 0/6)
    let mut w = W::new();
    w.u16(10).u16(0).u32(20 + 2 * 3).u32(0).u32(0x1F600).u32(3);
    for g in [4u16, 5, 6] {
        w.u16(g);
    }
    subs.push((0, 6, w.done()));
    // format 12 (3/10)
    let groups: [(u32, u32, u32); 3] = [(0x41, 0x48, 1), (0x4E00, 0x4E00, 9), (0x1F600, 0x1F601, 4)];
    let mut w = W::new();
    w.u16(12).u16(0).u32(16 + 12 * groups.len() as u32).u32(0).u32(groups.len() as u32);
    for (s, e, g) in groups {
        w.u32(s).u32(e).u32(g);
    }
    subs.push((3, 10, w.done()));
    // format 13 (0/4... last-resort style)
    let mut w = W::new();
    w.u16(13).u16(0).u32(16 + 12 * 2).u32(0).u32(2);
    w.u32(0).u32(0xFFFF).u32(1).u32(0x10000).u32(0x10FFFF).u32(2);
    subs.push((0, 4, w.done()));
    // format 14 (0/5): two selectors, default and non-default UVS tables
    let mut w = W::new();
    let (d0, n0, d1) = (10 + 2 * 11, 10 + 2 * 11 + 4 + 2 * 4, 10 + 2 * 11 + 4 + 2 * 4 + 4 + 2 * 5);
    w.u16(14).u32((d1 + 4 + 4) as u32).u32(2);
    w.u24(0xFE00).u32(d0 as u32).u32(n0 as u32);
    w.u24(0xFE0F).u32(d1 as u32).u32(0);
    w.u32(2).u24(0x41).u8(1).u24(0x4E00).u8(0);
    w.u32(2).u24(0x43).u16(7).u24(0x44).u16(8);
    w.u32(1).u24(0x1F600).u8(1);
    subs.push((0, 5, w.done()));
    subs.sort_by_key(|s| (s.0, s.1));
    let mut w = W::new();
    w.u16(0).u16(subs.len() as u16);
    let mut at = 4 + 8 * subs.len();
    for (p, e, d) in &subs {
        w.u16(*p).u16(*e).u32(at as u32);
        at += d.len();
    }
    for (_, _, d) in &subs {
        w.bytes(d);
    }
    w.done()
}

// ---- variable TrueType font: fvar, avar, gvar, cvar, HVAR, VVAR, MVAR, STAT --------------------------------------------------------

fn f2(v: f64) -> i16 {
    (v * 16384.0).round() as i16
}

fn fvar() -> Vec<u8> {
    let mut w = W::new();
    w.u16(1).u16(0).u16(16).u16(2).u16(2).u16(20).u16(2).u16(4 + 8 + 2);
    w.tag("wght").i32(100 << 16).i32(400 << 16).i32(900 << 16).u16(0).u16(256);
    w.tag("wdth").i32(50 << 16).i32(100 << 16).i32(200 << 16).u16(1).u16(257);
    w.u16(258).u16(0).i32(400 << 16).i32(100 << 16).u16(6);
    w.u16(259).u16(0).i32(900 << 16).i32(200 << 16).u16(0xFFFF);
    w.done()
}

fn avar() -> Vec<u8> {
    let mut w = W::new();
    w.u16(1).u16(0).u16(0).u16(2);
    let maps: [&[(f64, f64)]; 2] = [&[(-1.0, -1.0), (-0.5, -0.7), (0.0, 0.0), (0.5, 0.3), (1.0, 1.0)], &[(-1.0, -1.0), (0.0, 0.0), (1.0, 1.0)]];
    for m in maps {
        w.u16(m.len() as u16);
        for (a, b) in m {
            w.i16(f2(*a)).i16(f2(*b));
        }
    }
    w.done()
}

/// packed point numbers (sorted); None = all points
fn packed_points(pts: Option<&[u16]>) -> Vec<u8> {
    let mut r = Vec::new();
    match pts {
        None => r.push(0),
        Some(p) => {
            r.push(p.len() as u8);
            r.push(p.len() as u8 - 1); // one run of byte deltas
            let mut prev = 0;
            for x in p {
                r.push((x - prev) as u8);
                prev = *x;
            }
        }
    }
    r
}

/// packed deltas: a run of zeroes when all are zero, words when one does not fit a byte, bytes otherwise
fn packed_deltas(d: &[i16]) -> Vec<u8> {
    let mut r = Vec::new();
    if d.iter().all(|x| *x == 0) {
        r.push(0x80 | (d.len() as u8 - 1));
    } else if d.iter().any(|x| *x < -128 || *x > 127) {
        r.push(0x40 | (d.len() as u8 - 1));
        for x in d {
            r.extend(x.to_be_bytes());
        }
    } else {
        r.push(d.len() as u8 - 1);
        for x in d {
            r.push(*x as i8 as u8);
        }
    }
    r
}

struct Tv {
    /// shared tuple index, or an embedded peak
    peak: Result<u16, Vec<i16>>,
    inter: Option<(Vec<i16>, Vec<i16>)>,
    /// private point numbers (None = uses the shared ones; Some(None) = all points)
    points: Option<Option<Vec<u16>>>,
    dx: Vec<i16>,
    dy: Option<Vec<i16>>,
}

/// tuple variation store body (after tupleVariationCount / dataOffset): (headers, serialized data)
fn tuple_store(tvs: &[Tv], shared: Option<Option<&[u16]>>) -> (Vec<u8>, Vec<u8>, u16) {
    let mut hdr = W::new();
    let mut data = Vec::new();
    if let Some(sp) = shared {
        data.extend(packed_points(sp));
    }
    for t in tvs {
        let mut d = Vec::new();
        if let Some(p) = &t.points {
            d.extend(packed_points(p.as_deref()));
        }
        d.extend(packed_deltas(&t.dx));
        if let Some(dy) = &t.dy {
            d.extend(packed_deltas(dy));
        }
        let mut idx = 0u16;
        if t.points.is_some() {
            idx |= 0x2000;
        }
        if t.inter.is_some() {
            idx |= 0x4000;
        }
        match &t.peak {
            Ok(i) => idx |= *i,
            Err(_) => idx |= 0x8000,
        }
        hdr.u16(d.len() as u16).u16(idx);
        if let Err(p) = &t.peak {
            for v in p {
                hdr.i16(*v);
            }
        }
        if let Some((a, b)) = &t.inter {
            for v in a.iter().chain(b.iter()) {
                hdr.i16(*v);
            }
        }
        data.extend(d);
    }
    let count = tvs.len() as u16 | if shared.is_some() { 0x8000 } else { 0 };
    (hdr.done(), data, count)
}

fn gvar(n_glyphs: usize) -> Vec<u8> {
    let shared: [[i16; 2]; 2] = [[f2(1.0), 0], [0, f2(1.0)]];
    let seven = |k: i16| -> Vec<i16> { (0..7).map(|i| k * (i - 3)).collect() };
    let mut glyphs: Vec<Vec<u8>> = Vec::new();
    for g in 0..n_glyphs {
        let tvs: Vec<Tv> = match g {
            1 => vec![
                Tv { peak: Ok(0), inter: None, points: Some(None), dx: seven(5), dy: Some(seven(-3)) },
                Tv { peak: Err(vec![f2(1.0), f2(1.0)]), inter: Some((vec![f2(0.25), f2(0.5)], vec![f2(1.0), f2(1.0)])), points: Some(Some(vec![0, 2, 5])), dx: vec![300, -200, 10], dy: Some(vec![0, 0, 0]) },
            ],
            2 => vec![Tv { peak: Ok(1), inter: None, points: None, dx: vec![4, -4], dy: Some(vec![9, 1]) }, Tv { peak: Err(vec![f2(-1.0), 0]), inter: None, points: None, dx: vec![0, 0], dy: Some(vec![-7, 7]) }],
            3 => vec![Tv { peak: Ok(0), inter: None, points: Some(None), dx: seven(1), dy: Some(seven(2)) }],
            _ => vec![],
        };
        if tvs.is_empty() {
            glyphs.push(Vec::new());
            continue;
        }
        let shared_pts: Option<Option<&[u16]>> = if g == 2 { Some(Some(&[1, 4])) } else { None };
        let (hdr, data, count) = tuple_store(&tvs, shared_pts);
        let mut w = W::new();
        w.u16(count).u16(4 + hdr.len() as u16).bytes(&hdr).bytes(&data);
        if w.len() % 2 == 1 {
            w.u8(0);
        }
        glyphs.push(w.done());
    }
    let mut w = W::new();
    let header = 20 + 2 * (n_glyphs + 1);
    let shared_at = header;
    let data_at = shared_at + 4 * shared.len();
    w.u16(1).u16(0).u16(2).u16(shared.len() as u16).u32(shared_at as u32).u16(n_glyphs as u16).u16(0).u32(data_at as u32);
    let mut at = 0usize;
    for g in &glyphs {
        w.u16((at / 2) as u16);
        at += g.len();
    }
    w.u16((at / 2) as u16);
    for t in shared {
        w.i16(t[0]).i16(t[1]);
    }
    for g in &glyphs {
        w.bytes(g);
    }
    w.done()
}

fn cvar() -> Vec<u8> {
    let tvs = vec![
        Tv { peak: Err(vec![f2(1.0), 0]), inter: None, points: Some(Some(vec![0, 2])), dx: vec![10, -5], dy: None },
        Tv { peak: Err(vec![0, f2(-1.0)]), inter: Some((vec![0, f2(-1.0)], vec![0, f2(-0.5)])), points: Some(None), dx: vec![1, 2, 3, 4], dy: None },
    ];
    let (hdr, data, count) = tuple_store(&tvs, None);
    let mut w = W::new();
    w.u16(1).u16(0).u16(count).u16(8 + hdr.len() as u16).bytes(&hdr).bytes(&data);
    w.done()
}

/// ItemVariationStore: 3 regions over 2 axes; data 0: 3 items x (1 word + 1 byte delta), data 1: 2 items x 2 byte deltas
fn ivs() -> Vec<u8> {
    let regions: [[(f64, f64, f64); 2]; 3] = [[(0.0, 1.0, 1.0), (0.0, 0.0, 0.0)], [(-1.0, -1.0, 0.0), (0.0, 0.0, 0.0)], [(0.0, 1.0, 1.0), (0.0, 1.0, 1.0)]];
    let mut rl = W::new();
    rl.u16(2).u16(regions.len() as u16);
    for r in regions {
        for (a, b, c) in r {
            rl.i16(f2(a)).i16(f2(b)).i16(f2(c));
        }
    }
    let rl = rl.done();
    let mut d0 = W::new();
    d0.u16(3).u16(1).u16(2).u16(0).u16(2);
    for (a, b) in [(300i16, -5i8), (-200, 7), (0, 0)] {
        d0.i16(a).i8(b);
    }
    let d0 = d0.done();
    let mut d1 = W::new();
    d1.u16(2).u16(0).u16(2).u16(1).u16(0);
    for (a, b) in [(3i8, 4i8), (-3, -4)] {
        d1.i8(a).i8(b);
    }
    let d1 = d1.done();
    let mut w = W::new();
    let hdr = 8 + 4 * 2;
    w.u16(1).u32(hdr as u32).u16(2).u32((hdr + rl.len()) as u32).u32((hdr + rl.len() + d0.len()) as u32);
    w.bytes(&rl).bytes(&d0).bytes(&d1);
    w.done()
}

/// DeltaSetIndexMap format 0 with `entry_size` bytes per entry and `inner_bits` bits of inner index
fn dsim(entries: &[(u16, u16)], entry_size: u8, inner_bits: u8) -> Vec<u8> {
    let mut w = W::new();
    w.u8(0).u8(((entry_size - 1) << 4) | (inner_bits - 1)).u16(entries.len() as u16);
    for (o, i) in entries {
        let v = ((*o as u32) << inner_bits) | *i as u32;
        for k in (0..entry_size).rev() {
            w.u8((v >> (8 * k)) as u8);
        }
    }
    if w.len() % 2 == 1 {
        w.u8(0);
    }
    w.done()
}

fn hvar(vvar: bool, n_glyphs: usize) -> Vec<u8> {
    let store = ivs();
    let adv: Vec<(u16, u16)> = (0..n_glyphs).map(|g| ((g % 2) as u16, (g % 2) as u16)).collect();
    let m0 = dsim(&adv, 1, 2);
    let m1 = dsim(&[(0, 0), (0, 2), (1, 1)], 2, 8);
    let m2 = dsim(&[(1, 0)], 1, 4);
    let m3 = dsim(&[(0, 1), (0, 1)], 3, 16);
    let n_off = if vvar { 5 } else { 4 };
    let hdr = 4 + 4 * n_off;
    let mut w = W::new();
    w.u16(1).u16(0);
    let mut at = hdr;
    w.u32(at as u32);
    at += store.len();
    let maps: Vec<&Vec<u8>> = if vvar { vec![&m0, &m1, &m2, &m3] } else { vec![&m0, &m1, &m2] };
    for m in &maps {
        w.u32(at as u32);
        at += m.len();
    }
    w.bytes(&store);
    for m in &maps {
        w.bytes(m);
    }
    w.done()
}

fn mvar() -> Vec<u8> {
    let store = ivs();
    let recs: [(&str, u16, u16); 3] = [("hasc", 0, 0), ("undo", 0, 1), ("xhgt", 1, 1)];
    let mut w = W::new();
    w.u16(1).u16(0).u16(0).u16(8).u16(recs.len() as u16).u16(12 + 8 * recs.len() as u16);
    for (t, o, i) in recs {
        w.tag(t).u16(o).u16(i);
    }
    w.bytes(&store);
    w.done()
}

fn stat() -> Vec<u8> {
    let mut vals: Vec<Vec<u8>> = Vec::new();
    let mut v = W::new();
    v.u16(1).u16(0).u16(0).u16(260).i32(400 << 16);
    vals.push(v.done());
    let mut v = W::new();
    v.u16(2).u16(0).u16(2).u16(261).i32(700 << 16).i32(600 << 16).i32(900 << 16);
    vals.push(v.done());
    let mut v = W::new();
    v.u16(3).u16(1).u16(0).u16(262).i32(100 << 16).i32(200 << 16);
    vals.push(v.done());
    let mut v = W::new();
    v.u16(4).u16(2).u16(0).u16(263).u16(0).i32(900 << 16).u16(1).i32(50 << 16);
    vals.push(v.done());
    let mut w = W::new();
    let axes_at = 20;
    let offs_at = axes_at + 8 * 2;
    w.u16(1).u16(2).u16(8).u16(2).u32(axes_at as u32).u16(vals.len() as u16).u32(offs_at as u32).u16(2);
    w.tag("wght").u16(256).u16(0).tag("wdth").u16(257).u16(1);
    let mut at = 2 * vals.len();
    for v in &vals {
        w.u16(at as u16);
        at += v.len();
    }
    for v in &vals {
        w.bytes(v);
    }
    w.done()
}

fn names_for_var() -> Vec<u8> {
    fontgen::name(&[(1, "Verif"), (2, "Regular"), (4, "Verif Regular"), (6, "Verif-Regular"), (256, "Weight"), (257, "Width"), (258, "Regular"), (259, "Black Wide"), (260, "Regular"), (261, "Bold"), (262, "Normal"), (263, "Black Condensed")])
}

/// a name table whose records sit on one platform: (platform, encoding, language) and (name id, string bytes in the
/// encoding of that platform)
fn name_table(plat: (u16, u16, u16), recs: &[(u16, Vec<u8>)]) -> Vec<u8> {
    let mut w = W::new();
    let mut storage: Vec<u8> = Vec::new();
    w.u16(0).u16(recs.len() as u16).u16(6 + 12 * recs.len() as u16);
    for (id, b) in recs {
        w.u16(plat.0).u16(plat.1).u16(plat.2).u16(*id).u16(b.len() as u16).u16(storage.len() as u16);
        storage.extend(b);
    }
    w.bytes(&storage);
    w.done()
}

fn utf16(s: &str) -> Vec<u8> {
    s.encode_utf16().flat_map(|u| u.to_be_bytes()).collect()
}

/// Name strings that are long (more bytes than a PostScript name may have: 63, and than the 127 of the older limit
/// once decoded) and made of letters and digits outside ASCII.  `src` = the name id the family name / PostScript name
/// prefix of an instance is taken from (25 = variations PostScript name prefix, else 16 = typographic family, else 1 =
/// family): the records above it are left out.  The three fonts differ in platform and in the width of the letters once
/// decoded to UTF-8, and their ASCII lead-in differs in length, so that between them every byte index from 1 up to the
/// length of the string is *inside* a character of one of them:
///   25: Windows BMP (3, 1, 0x409), two-byte letters (Latin-1, Greek, Cyrillic) - character boundaries at even indices
///   16: Unicode (0, 4, 0), surrogate pairs = four-byte letters after one ASCII letter - boundaries at 1 + 4 k
///    1: Macintosh Roman (1, 0, 0), the bytes DE / DF (the ligatures fi / fl: three bytes) after two ASCII letters -
///       boundaries at 2 + 3 k
/// The sub-family and axis value names carry letters outside ASCII too.
fn long_names(src: u16) -> Vec<u8> {
    let axis_names = ["Wéight", "Wïdth", "Régular", "Blåck Wïde", "Régular", "Bøld", "Nørmal", "Blåck Cøndensed"];
    match src {
        25 | 16 => {
            let two: String = "ЖßéΩжÑøλ".chars().cycle().take(44).collect();
            let four: String = std::iter::once('V').chain((0..26u32).map(|k| char::from_u32(0x1D400 + k).unwrap())).collect();
            let mut recs: Vec<(u16, String)> = vec![(1, "Vérif".into()), (2, "Régular".into()), (4, "Vérif Régular".into()), (6, "Verif-Regular".into())];
            if src == 25 {
                recs.push((16, "Vérif Ünïcøde".into()));
                recs.push((17, "Régular".into()));
                recs.push((25, two));
            } else {
                recs.push((16, four));
                recs.push((17, "Régular".into()));
            }
            for (k, a) in axis_names.iter().enumerate() {
                recs.push((256 + k as u16, a.to_string()));
            }
            let recs: Vec<(u16, Vec<u8>)> = recs.iter().map(|(id, s)| (*id, utf16(s))).collect();
            name_table(if src == 25 { (3, 1, 0x409) } else { (0, 4, 0) }, &recs)
        }
        _ => {
            let mut fam = b"Ve".to_vec();
            fam.extend((0..40).map(|k| if k % 2 == 0 { 0xDEu8 } else { 0xDF }));
            let mut recs: Vec<(u16, Vec<u8>)> = vec![(1, fam), (2, b"R\x8Egular".to_vec()), (4, b"V\x8Erif R\x8Egular".to_vec()), (6, b"Verif-Regular".to_vec())];
            // Macintosh Roman: 8E = e acute, 95 = i diaeresis, 8C = a ring, BF = o slash
            let axis: [&[u8]; 8] = [b"W\x8Eight", b"W\x95dth", b"R\x8Egular", b"Bl\x8Cck W\x95de", b"R\x8Egular", b"B\xBFld", b"N\xBFrmal", b"Bl\x8Cck C\xBFndensed"];
            for (k, a) in axis.iter().enumerate() {
                recs.push((256 + k as u16, a.to_vec()));
            }
            name_table((1, 0, 0), &recs)
        }
    }
}

/// `lean`: without cvt / cvar / VVAR / vhea / vmtx / MVAR (the fonts that are in the run for their name strings)
fn var_font(names: Vec<u8>, lean: bool) -> Vec<u8> {
    let n = 5;
    let mut f = base(n);
    let mut cvt = W::new();
    for v in [10i16, 20, 30, 40] {
        cvt.i16(v);
    }
    let mut vmtx = W::new();
    for g in 0..n {
        vmtx.u16(1000 + g as u16).i16(10);
    }
    f.extra_tables = vec![
        ("fvar".into(), fvar()),
        ("avar".into(), avar()),
        ("gvar".into(), gvar(n)),
        ("cvt ".into(), cvt.done()),
        ("cvar".into(), cvar()),
        ("HVAR".into(), hvar(false, n)),
        ("VVAR".into(), hvar(true, n)),
        ("vhea".into(), fontgen::hhea(n as u16, 500, -500, 1010)),
        ("vmtx".into(), vmtx.done()),
        ("MVAR".into(), mvar()),
        ("STAT".into(), stat()),
        ("name".into(), names),
    ];
    if lean {
        f.extra_tables.retain(|t| !["cvt ", "cvar", "VVAR", "vhea", "vmtx", "MVAR"].contains(&t.0.as_str()));
    }
    f.build()
}

// ---- CFF2 with several Font DICTs, CID-keyed CFF ---------------------------------------------------------------------------------------

/// Private DICT entries (CFF2, Font DICT 0: one region) that fill the fixed-size buffers of a DICT reader / instancer:
/// `stack` 1: BlueValues = blend of two values whose first is a real number of exactly 64 characters (the buffer a real
/// number is converted through holds 64) and StemSnapH = blend of 256 values with one delta each (513 operands, the most a
/// CFF2 DICT operator may have); `stack` 3: real numbers of 65 characters, and of 63 characters followed by the nibble that
/// stands for the two characters "E-" (an error is the expected answer of the instancer; the table itself still loads).
fn dict_fill(stack: u8) -> Vec<u8> {
    // real number "1." + zeros, `chars` characters long (+ optionally the nibble c = "E-" and a digit), end nibble f
    let real = |chars: usize, eminus: bool| -> Vec<u8> {
        let mut nib: Vec<u8> = vec![1, 0xA];
        nib.extend(std::iter::repeat(0).take(chars - 2));
        if eminus {
            nib.extend([0xC, 1]);
        }
        nib.push(0xF);
        if nib.len() % 2 == 1 {
            nib.push(0xF);
        }
        let mut v = vec![30u8];
        v.extend(nib.chunks(2).map(|c| (c[0] << 4) | c[1]));
        v
    };
    let int = |v: i32| cffw::dict_int(v);
    let mut d = Vec::new();
    match stack {
        1 => {
            d.extend(real(64, false));
            d.extend(int(10));
            d.extend(real(20, false));
            d.extend(int(1));
            d.extend(int(2));
            d.push(23);
            d.push(6);
            for _ in 0..512 {
                d.extend(int(1));
            }
            d.extend(int(256));
            d.push(23);
            d.extend([12, 12]);
        }
        3 => {
            d.extend(real(65, false));
            d.extend(int(10));
            d.extend(real(63, true));
            d.extend(int(1));
            d.extend(int(2));
            d.push(23);
            d.push(6);
        }
        _ => {}
    }
    d
}

/// Charstrings that fill the interpreter's operand stack: for every Type 2 operator of variable arity one glyph that hands
/// it the largest number of operands the stack holds (CFF2: 513, CFF: 48) in a form the operator accepts - the path
/// operators after a moveto, the stem operators and the hint mask with its implied vstem before it, blend (CFF2) with the
/// region count of either Font DICT -, hvcurveto again with the operands pushed by the glyph and the operator inside a
/// global subroutine (the subroutine number is then the topmost operand).  `over`: instead, glyphs with one operand more
/// than the stack holds - handed to rlineto, to hvcurveto, and to the hvcurveto of the subroutine (an error is the expected
/// answer; they are in fonts of their own because one such glyph makes every whole-font operation fail).  Operands are written in the three number formats in turn (one byte,
/// 28 + i16, 255 + 16.16).  Glyph k of the result is glyph 6 + k of the font: even glyphs belong to Font DICT 0 (one
/// region), odd ones to Font DICT 1 (two regions).
/// The forms in which the Type 2 operators of variable arity take their operands - (operator, m, rems, room): k operands
/// are accepted iff k % m is in rems; `room` = places of the stack taken by something else (the number of the subroutine
/// the operator sits in) - with the count that fills a stack of 48 (CFF) / 513 (CFF2): the harness' copy of
/// `FaultModel!OperatorForms` / `FillCount`, compared with TLC's FILL lines by `c01_faults replay`.
pub fn fill_table(cff2: bool) -> Vec<(u8, usize, Vec<usize>, usize, usize)> {
    let limit: usize = if cff2 { 513 } else { 48 };
    let mut forms: Vec<(u8, usize, Vec<usize>, usize)> = vec![
        (5, 2, vec![0], 0),
        (6, 1, vec![0], 0),
        (7, 1, vec![0], 0),
        (8, 6, vec![0], 0),
        (24, 6, vec![2], 0),
        (25, 2, vec![0], 0),
        (26, 4, vec![1], 0),
        (26, 4, vec![0], 0),
        (27, 4, vec![1], 0),
        (27, 4, vec![0], 0),
        (30, 4, vec![1], 0),
        (30, 4, vec![0], 0),
        (31, 4, vec![1], 0),
        (31, 4, vec![0], 0),
        (1, 2, vec![0], 0),
        (3, 2, vec![0], 0),
        (18, 2, vec![0], 0),
        (23, 2, vec![0], 0),
        (31, 4, vec![0, 1], 1),
    ];
    if cff2 {
        forms.push((16, 2, vec![1], 0));
        forms.push((16, 3, vec![1], 0));
    }
    forms
        .into_iter()
        .map(|(op, m, rems, room)| {
            let k = (1..=limit - room).rev().find(|k| rems.contains(&(k % m))).expect("some count fits");
            (op, m, rems, room, k)
        })
        .collect()
}

fn stack_glyphs(cff2: bool, over: bool) -> Vec<Vec<u8>> {
    let limit: usize = if cff2 { 513 } else { 48 };
    let nums = |k: usize| -> Vec<u8> {
        let mut v = Vec::new();
        for i in 0..k {
            match i % 3 {
                0 => v.push(140),
                1 => v.extend([28, 0, 2]),
                _ => v.extend([255, 0, 1, 0, 0]),
            }
        }
        v
    };
    let fin = |mut cs: Vec<u8>| -> Vec<u8> {
        if !cff2 {
            cs.push(14);
        }
        cs
    };
    let moveto = || -> Vec<u8> {
        let mut v = cffw::dict_int(10);
        v.extend(cffw::dict_int(20));
        v.push(21);
        v
    };
    let mut out: Vec<Vec<u8>> = Vec::new();
    if over {
        for op in [5u8, 31] {
            let mut cs = moveto();
            cs.extend(nums(limit + 1));
            cs.push(op);
            out.push(fin(cs));
        }
        let mut cs = moveto();
        cs.extend(nums(limit));
        cs.extend(cffw::dict_int(-105));
        cs.push(29);
        out.push(fin(cs));
        return out;
    }
    let forms = fill_table(cff2);
    for (op, _, _, _, k) in forms.iter().filter(|f| f.3 == 0 && ![1u8, 3, 18, 23, 16].contains(&f.0)) {
        let mut cs = moveto();
        cs.extend(nums(*k));
        cs.push(*op);
        out.push(fin(cs));
    }
    // stems: hstemhm with a full stack, then as many again as the implied vstem of the hint mask
    for (op, mask) in [(1u8, false), (3, false), (18, true), (23, true)] {
        let k = forms.iter().find(|f| f.0 == op).expect("stem form").4;
        let mut cs = nums(k);
        cs.push(op);
        let mut stems = k / 2;
        if mask {
            cs.extend(nums(k));
            stems += k / 2;
            cs.push(19);
            cs.extend(vec![0xAA; (stems + 7) / 8]);
        }
        cs.extend(moveto());
        cs.extend(nums(2));
        cs.push(5);
        out.push(fin(cs));
    }
    // hvcurveto inside global subroutine 2 (biased number -105): the operands come from the glyph
    {
        let k = forms.iter().find(|f| f.3 == 1).expect("subroutine form").4;
        let mut cs = moveto();
        cs.extend(nums(k));
        cs.extend(cffw::dict_int(-105));
        cs.push(29);
        out.push(fin(cs));
    }
    if cff2 {
        // blend of n values with k deltas each: n (k + 1) + 1 operands; two glyphs, one per Font DICT (k = 1, 2)
        for _ in 0..2 {
            let g = 6 + out.len();
            let k = if g % 2 == 0 { 1 } else { 2 };
            let total = forms.iter().find(|f| f.0 == 16 && f.1 == k + 1).expect("blend form").4;
            let n = (total - 1) / (k + 1);
            let mut cs = moveto();
            cs.extend(nums(n * (k + 1)));
            cs.extend(cffw::dict_int(n as i32));
            cs.push(16);
            cs.push(if n % 2 == 0 { 5 } else { 6 });
            out.push(cs);
        }
    }
    out
}

/// `kind` 2 = CFF2 (FDSelect format `fds_fmt`), 1 = CID-keyed CFF (FDSelect format `fds_fmt`)
/// `stack` 1 / 2: after the six ordinary glyphs come the glyphs of `stack_glyphs(.., over = stack == 2)` (global
/// subroutine 2 is the bare hvcurveto they call); 3: the ordinary glyphs only, over-long real numbers in the Private DICT
/// (`dict_fill`: the Private DICTs are instanced after all charstrings, so they sit in a font whose charstrings pass).
fn cff_font(kind: u8, fds_fmt: u8, stack: u8) -> Vec<u8> {
    let n = 6usize;
    let cff2 = kind == 2;
    let num = |v: i32| cffw::dict_int(v);
    // local subr: rlineto of its arguments; global subr the same
    let subr: Vec<u8> = if cff2 { vec![5] } else { vec![5, 11] };
    let mut glyphs: Vec<Vec<u8>> = Vec::new();
    for g in 0..n {
        let mut cs = Vec::new();
        if !cff2 && g == 0 {
            cs.extend(num(500)); // width
        }
        cs.extend(num(10 + g as i32));
        cs.extend(num(20));
        cs.push(21); // rmoveto
        cs.extend(num(100));
        cs.extend(num(0));
        cs.extend(num(-107)); // biased number of subr 0 (fewer than 1240 subrs)
        cs.push(if g % 2 == 0 { 10 } else { 29 }); // callsubr / callgsubr
        if cff2 && g >= 2 {
            // blend: one value with one delta per region of the item variation data in force
            cs.extend(num(30));
            cs.extend(num(5));
            if g % 2 == 1 {
                cs.extend(num(-5));
            }
            cs.extend(num(1));
            cs.push(16);
            cs.extend(num(40));
            cs.push(5);
        } else {
            cs.extend(num(0));
            cs.extend(num(80));
            cs.push(5);
        }
        if !cff2 {
            cs.push(14);
        }
        glyphs.push(cs);
    }
    let mut gsubrs = vec![subr.clone(), subr.clone()];
    if stack == 1 || stack == 2 {
        glyphs.extend(stack_glyphs(cff2, stack == 2));
        gsubrs.push(if cff2 { vec![31] } else { vec![31, 11] });
    }
    let n = glyphs.len();
    let fds = vec![
        cffw::FdSpec { lsubrs: Some(vec![subr.clone(), subr.clone()]), vsindex: if cff2 { Some(0) } else { None }, private_extra: if cff2 { dict_fill(stack) } else { vec![] } },
        cffw::FdSpec { lsubrs: Some(vec![subr.clone()]), vsindex: if cff2 { Some(1) } else { None }, private_extra: vec![] },
    ];
    let spec = cffw::CffSpec {
        cid: !cff2,
        glyphs,
        gsubrs,
        fds,
        fdselect: (0..n).map(|g| (g % 2) as u8).collect(),
        fdselect_fmt: fds_fmt,
        charset: cffw::CharsetSpec::IdentityRange,
    };
    let table = if cff2 {
        // two item variation data: one region, two regions (vsindex 0 / 1 of the two Font DICTs)
        let regions = vec![vec![[0i16, 16384, 16384]], vec![[-16384i16, -16384, 0]]];
        let vstore = cffw::build_vstore(1, &regions, &[vec![0], vec![0, 1]]);
        cffw::build_cff2(&spec, Some(&vstore))
    } else {
        cffw::build_cff(&spec)
    };
    let metrics: Vec<(u16, i16)> = (0..n).map(|g| (500 + g as u16, 10)).collect();
    let pairs: Vec<(u32, u16)> = (1..n).map(|g| (0x40 + g as u32, g as u16)).collect();
    let mut t: Vec<(String, Vec<u8>)> = vec![
        ("head".into(), fontgen::head(1000, false, (0, 0, 1000, 1000))),
        ("hhea".into(), fontgen::hhea(n as u16, 800, -200, 1000)),
        ("maxp".into(), fontgen::maxp_cff(n as u16)),
        ("OS/2".into(), fontgen::os2_v4(0x20, 0xFFFF)),
        ("hmtx".into(), fontgen::hmtx(&metrics, &[])),
        ("cmap".into(), fontgen::cmap_format12(&pairs)),
        ("name".into(), fontgen::name(&[(1, "Verif"), (2, "Regular"), (4, "Verif Regular"), (6, "Verif-Regular"), (256, "Weight")])),
        ("post".into(), fontgen::post_v3()),
        (if cff2 { "CFF2" } else { "CFF " }.into(), table),
    ];
    if cff2 {
        let mut fv = W::new();
        fv.u16(1).u16(0).u16(16).u16(2).u16(1).u16(20).u16(0).u16(8);
        fv.tag("wght").i32(100 << 16).i32(400 << 16).i32(900 << 16).u16(0).u16(256);
        t.push(("fvar".into(), fv.done()));
    }
    build_sfnt(0x4F54544F, &t)
}
