//! Independent writers for CFF and CFF2 tables (nothing from allsorts is used here).
//! Also used by the C15 harness.
//! (copy of c18_type2/cffw.rs for the synthesized inputs of the C01 check: another check's module is not imported)
#![allow(dead_code)]

/// Smallest offSize that can hold `v`.
pub fn off_size_for(v: usize) -> u8 {
    if v <= 0xFF {
        1
    } else if v <= 0xFFFF {
        2
    } else if v <= 0xFF_FFFF {
        3
    } else {
        4
    }
}

/// INDEX (TN5176 section 5). `count32`: CFF2 layout (u32 count). `force`: offSize to use instead of
/// the smallest one (must be big enough).
pub fn index(objs: &[Vec<u8>], count32: bool, force: Option<u8>) -> Vec<u8> {
    let mut out = Vec::new();
    if count32 {
        out.extend_from_slice(&(objs.len() as u32).to_be_bytes());
    } else {
        assert!(objs.len() <= 0xFFFF);
        out.extend_from_slice(&(objs.len() as u16).to_be_bytes());
    }
    if objs.is_empty() {
        return out;
    }
    let total: usize = objs.iter().map(|o| o.len()).sum();
    let os = force.unwrap_or_else(|| off_size_for(total + 1));
    assert!(os >= off_size_for(total + 1));
    out.push(os);
    let mut off = 1usize;
    let push = |out: &mut Vec<u8>, v: usize| {
        let b = (v as u32).to_be_bytes();
        out.extend_from_slice(&b[4 - os as usize..]);
    };
    for o in objs {
        push(&mut out, off);
        off += o.len();
    }
    push(&mut out, off);
    for o in objs {
        out.extend_from_slice(o);
    }
    out
}

pub fn index_len(objs: &[Vec<u8>], count32: bool) -> usize {
    index(objs, count32, None).len()
}

/// DICT integer operand, shortest form (TN5176 table 3).
pub fn dict_int(v: i32) -> Vec<u8> {
    if (-107..=107).contains(&v) {
        vec![(v + 139) as u8]
    } else if (108..=1131).contains(&v) {
        let w = v - 108;
        vec![(w / 256 + 247) as u8, (w % 256) as u8]
    } else if (-1131..=-108).contains(&v) {
        let w = -v - 108;
        vec![(w / 256 + 251) as u8, (w % 256) as u8]
    } else if (-32768..=32767).contains(&v) {
        let b = (v as i16).to_be_bytes();
        vec![28, b[0], b[1]]
    } else {
        dict_int5(v)
    }
}

/// DICT integer operand in the five byte form (used for offsets so that sizes are known early).
pub fn dict_int5(v: i32) -> Vec<u8> {
    let b = v.to_be_bytes();
    vec![29, b[0], b[1], b[2], b[3]]
}

pub fn dict_op(op: u16) -> Vec<u8> {
    if op >= 0x0C00 {
        vec![12, (op & 0xFF) as u8]
    } else {
        vec![op as u8]
    }
}

pub const OP_CHARSET: u16 = 15;
pub const OP_ENCODING: u16 = 16;
pub const OP_CHARSTRINGS: u16 = 17;
pub const OP_PRIVATE: u16 = 18;
pub const OP_SUBRS: u16 = 19;
pub const OP_VSINDEX: u16 = 22;
pub const OP_VSTORE: u16 = 24;
pub const OP_ROS: u16 = 0x0C1E;
pub const OP_FDARRAY: u16 = 0x0C24;
pub const OP_FDSELECT: u16 = 0x0C25;

#[derive(Clone, Debug, Default)]
pub struct FdSpec {
    pub lsubrs: Option<Vec<Vec<u8>>>,
    pub vsindex: Option<i32>,
    /// extra Private DICT entries, already encoded (operands + operator)
    pub private_extra: Vec<u8>,
}

#[derive(Clone, Debug)]
pub enum CharsetSpec {
    IsoAdobe,
    /// format 0: SID (or CID) of glyph 1, 2, ...
    Format0(Vec<u16>),
    /// format 2: one range covering glyphs 1.. with CID = gid
    IdentityRange,
    /// predefined charset named by its Top DICT "offset": 1 Expert, 2 ExpertSubset (0 is `IsoAdobe`)
    Predefined(u8),
    /// format 0 (every nLeft must be 0: one SID per glyph), 1 (nLeft u8) or 2 (nLeft u16): (first SID, nLeft)
    Ranges { fmt: u8, ranges: Vec<(u16, u16)> },
}

#[derive(Clone, Debug)]
pub struct CffSpec {
    pub cid: bool,
    pub glyphs: Vec<Vec<u8>>,
    pub gsubrs: Vec<Vec<u8>>,
    pub fds: Vec<FdSpec>,
    /// per glyph FD index (CID / multi-FD CFF2 only)
    pub fdselect: Vec<u8>,
    pub fdselect_fmt: u8,
    pub charset: CharsetSpec,
}

fn private_dict(fd: &FdSpec) -> Vec<u8> {
    // [extra] [vsindex] [Subrs = own length]; the local subr INDEX follows the DICT immediately
    let mut d = fd.private_extra.clone();
    if let Some(v) = fd.vsindex {
        d.extend(dict_int(v));
        d.extend(dict_op(OP_VSINDEX));
    }
    if fd.lsubrs.is_some() {
        let len = d.len() + 6;
        d.extend(dict_int5(len as i32));
        d.extend(dict_op(OP_SUBRS));
    }
    d
}

fn fdselect_bytes(sel: &[u8], fmt: u8) -> Vec<u8> {
    let mut o = Vec::new();
    if fmt == 0 {
        o.push(0);
        o.extend_from_slice(sel);
    } else if fmt == 4 {
        // CFF2 only: 32-bit glyph ids, 16-bit Font DICT indexes (added for the C01 copy of this file)
        o.push(4);
        let mut ranges: Vec<(u32, u16)> = Vec::new();
        for (g, fd) in sel.iter().enumerate() {
            if ranges.last().map(|r| r.1) != Some(*fd as u16) {
                ranges.push((g as u32, *fd as u16));
            }
        }
        o.extend_from_slice(&(ranges.len() as u32).to_be_bytes());
        for (first, fd) in ranges {
            o.extend_from_slice(&first.to_be_bytes());
            o.extend_from_slice(&fd.to_be_bytes());
        }
        o.extend_from_slice(&(sel.len() as u32).to_be_bytes());
    } else {
        o.push(3);
        let mut ranges: Vec<(u16, u8)> = Vec::new();
        for (g, fd) in sel.iter().enumerate() {
            if ranges.last().map(|r| r.1) != Some(*fd) {
                ranges.push((g as u16, *fd));
            }
        }
        o.extend_from_slice(&(ranges.len() as u16).to_be_bytes());
        for (first, fd) in ranges {
            o.extend_from_slice(&first.to_be_bytes());
            o.push(fd);
        }
        o.extend_from_slice(&(sel.len() as u16).to_be_bytes());
    }
    o
}

fn charset_bytes(cs: &CharsetSpec, nglyphs: usize) -> Vec<u8> {
    match cs {
        CharsetSpec::IsoAdobe => Vec::new(),
        CharsetSpec::Format0(ids) => {
            assert_eq!(ids.len() + 1, nglyphs);
            let mut o = vec![0u8];
            for s in ids {
                o.extend_from_slice(&s.to_be_bytes());
            }
            o
        }
        CharsetSpec::Predefined(_) => Vec::new(),
        CharsetSpec::Ranges { fmt, ranges } => {
            let covered: usize = ranges.iter().map(|r| r.1 as usize + 1).sum();
            assert_eq!(covered + 1, nglyphs, "charset ranges must cover every glyph but .notdef");
            let mut o = vec![*fmt];
            for (first, n_left) in ranges {
                o.extend_from_slice(&first.to_be_bytes());
                match fmt {
                    0 => assert_eq!(*n_left, 0, "format 0 lists one SID per glyph"),
                    1 => o.push(u8::try_from(*n_left).expect("format 1 nLeft is one byte")),
                    2 => o.extend_from_slice(&n_left.to_be_bytes()),
                    _ => panic!("charset format {}", fmt),
                }
            }
            o
        }
        CharsetSpec::IdentityRange => {
            if nglyphs <= 1 {
                vec![0u8]
            } else {
                let mut o = vec![2u8];
                o.extend_from_slice(&1u16.to_be_bytes());
                o.extend_from_slice(&((nglyphs - 2) as u16).to_be_bytes());
                o
            }
        }
    }
}

/// A complete CFF table (TN5176): header, Name INDEX, Top DICT INDEX, String INDEX, Global Subr
/// INDEX, CharStrings INDEX, charset, (FDSelect, FDArray,) Private DICT(s), Local Subr INDEX(es).
pub fn build_cff(s: &CffSpec) -> Vec<u8> {
    let name_idx = index(&[b"VerifFont".to_vec()], false, None);
    let strings: Vec<Vec<u8>> = if s.cid { vec![b"Adobe".to_vec(), b"Identity".to_vec()] } else { vec![] };
    let string_idx = index(&strings, false, None);
    let gsubr_idx = index(&s.gsubrs, false, None);
    let cs_idx = index(&s.glyphs, false, None);
    let charset = charset_bytes(&s.charset, s.glyphs.len());

    // Top DICT with placeholder offsets to learn its size
    let top = |charset_off: i32, cs_off: i32, priv_len: i32, priv_off: i32, fda_off: i32, fds_off: i32| -> Vec<u8> {
        let mut d = Vec::new();
        if s.cid {
            d.extend(dict_int(391));
            d.extend(dict_int(392));
            d.extend(dict_int(0));
            d.extend(dict_op(OP_ROS));
        }
        if let CharsetSpec::Predefined(k) = s.charset {
            d.extend(dict_int5(k as i32));
            d.extend(dict_op(OP_CHARSET));
        } else if !charset.is_empty() {
            d.extend(dict_int5(charset_off));
            d.extend(dict_op(OP_CHARSET));
        }
        d.extend(dict_int5(cs_off));
        d.extend(dict_op(OP_CHARSTRINGS));
        if s.cid {
            d.extend(dict_int5(fda_off));
            d.extend(dict_op(OP_FDARRAY));
            d.extend(dict_int5(fds_off));
            d.extend(dict_op(OP_FDSELECT));
        } else {
            d.extend(dict_int5(priv_len));
            d.extend(dict_int5(priv_off));
            d.extend(dict_op(OP_PRIVATE));
        }
        d
    };
    let top_len = top(0, 0, 0, 0, 0, 0).len();
    let top_idx_len = 2 + 1 + 2 * (off_size_for(top_len + 1) as usize) + top_len;

    let cs_off = 4 + name_idx.len() + top_idx_len + string_idx.len() + gsubr_idx.len();
    let charset_off = cs_off + cs_idx.len();
    let mut cur = charset_off + charset.len();

    let mut tail = Vec::new();
    let (mut priv_len, mut priv_off, mut fda_off, mut fds_off) = (0usize, 0usize, 0usize, 0usize);
    if s.cid {
        let fdsel = fdselect_bytes(&s.fdselect, s.fdselect_fmt);
        fds_off = cur;
        cur += fdsel.len();
        tail.extend(fdsel);
        fda_off = cur;
        let fd_dict_len = 11;
        let fda_len = 2 + 1 + (s.fds.len() + 1) * (off_size_for(fd_dict_len * s.fds.len() + 1) as usize) + fd_dict_len * s.fds.len();
        cur += fda_len;
        let mut fdicts = Vec::new();
        let mut blobs = Vec::new();
        for fd in &s.fds {
            let pd = private_dict(fd);
            let mut fdict = dict_int5(pd.len() as i32);
            fdict.extend(dict_int5(cur as i32));
            fdict.extend(dict_op(OP_PRIVATE));
            fdicts.push(fdict);
            cur += pd.len();
            blobs.extend(pd);
            if let Some(ls) = &fd.lsubrs {
                let li = index(ls, false, None);
                cur += li.len();
                blobs.extend(li);
            }
        }
        let fda = index(&fdicts, false, None);
        assert_eq!(fda.len(), fda_len);
        tail.extend(fda);
        tail.extend(blobs);
    } else {
        let fd = &s.fds[0];
        let pd = private_dict(fd);
        priv_off = cur;
        priv_len = pd.len();
        tail.extend(pd);
        if let Some(ls) = &fd.lsubrs {
            tail.extend(index(ls, false, None));
        }
    }

    let top_dict = top(charset_off as i32, cs_off as i32, priv_len as i32, priv_off as i32, fda_off as i32, fds_off as i32);
    assert_eq!(top_dict.len(), top_len);
    let top_idx = index(&[top_dict], false, None);
    assert_eq!(top_idx.len(), top_idx_len);

    let mut out = vec![1u8, 0, 4, 4];
    out.extend(name_idx);
    out.extend(top_idx);
    out.extend(string_idx);
    out.extend(gsubr_idx);
    assert_eq!(out.len(), cs_off);
    out.extend(cs_idx);
    out.extend(charset);
    out.extend(tail);
    out
}

/// ItemVariationStore with empty delta sets: what CFF2 `blend` needs are the region lists.
/// `regions`: all regions, each a list of (start, peak, end) per axis; `ivds`: per ItemVariationData
/// the region indexes.  Returned with the u16 length prefix CFF2 puts before it.
pub fn build_vstore(axis_count: u16, regions: &[Vec<[i16; 3]>], ivds: &[Vec<u16>]) -> Vec<u8> {
    let mut ivs = Vec::new();
    ivs.extend_from_slice(&1u16.to_be_bytes()); // format
    let header_len = 2 + 4 + 2 + 4 * ivds.len();
    ivs.extend_from_slice(&(header_len as u32).to_be_bytes()); // variationRegionListOffset
    ivs.extend_from_slice(&(ivds.len() as u16).to_be_bytes());
    let region_list_len = 4 + regions.len() * (axis_count as usize) * 6;
    let mut off = header_len + region_list_len;
    let mut ivd_blobs = Vec::new();
    for idxs in ivds {
        ivs.extend_from_slice(&(off as u32).to_be_bytes());
        let mut b = Vec::new();
        b.extend_from_slice(&0u16.to_be_bytes()); // itemCount
        b.extend_from_slice(&0u16.to_be_bytes()); // wordDeltaCount
        b.extend_from_slice(&(idxs.len() as u16).to_be_bytes());
        for i in idxs {
            b.extend_from_slice(&i.to_be_bytes());
        }
        off += b.len();
        ivd_blobs.extend(b);
    }
    ivs.extend_from_slice(&axis_count.to_be_bytes());
    ivs.extend_from_slice(&(regions.len() as u16).to_be_bytes());
    for r in regions {
        assert_eq!(r.len(), axis_count as usize);
        for ax in r {
            for v in ax {
                ivs.extend_from_slice(&v.to_be_bytes());
            }
        }
    }
    ivs.extend(ivd_blobs);
    let mut out = (ivs.len() as u16).to_be_bytes().to_vec();
    out.extend(ivs);
    out
}

/// A complete CFF2 table: header, Top DICT, Global Subr INDEX, CharStrings INDEX, FDSelect,
/// FDArray, Private DICT(s) + Local Subr INDEX(es), VariationStore.
pub fn build_cff2(s: &CffSpec, vstore: Option<&[u8]>) -> Vec<u8> {
    let multi = s.fds.len() > 1;
    let top = |cs_off: i32, fda_off: i32, fds_off: i32, vs_off: i32| -> Vec<u8> {
        let mut d = Vec::new();
        d.extend(dict_int5(cs_off));
        d.extend(dict_op(OP_CHARSTRINGS));
        d.extend(dict_int5(fda_off));
        d.extend(dict_op(OP_FDARRAY));
        if multi {
            d.extend(dict_int5(fds_off));
            d.extend(dict_op(OP_FDSELECT));
        }
        if vstore.is_some() {
            d.extend(dict_int5(vs_off));
            d.extend(dict_op(OP_VSTORE));
        }
        d
    };
    let top_len = top(0, 0, 0, 0).len();
    let gsubr_idx = index(&s.gsubrs, true, None);
    let cs_idx = index(&s.glyphs, true, None);
    let cs_off = 5 + top_len + gsubr_idx.len();
    let mut cur = cs_off + cs_idx.len();
    let mut tail = Vec::new();
    let mut fds_off = 0;
    if multi {
        let fdsel = fdselect_bytes(&s.fdselect, s.fdselect_fmt);
        fds_off = cur;
        cur += fdsel.len();
        tail.extend(fdsel);
    }
    let fda_off = cur;
    let fd_dict_len = 11;
    let fda_len = 4 + 1 + (s.fds.len() + 1) * (off_size_for(fd_dict_len * s.fds.len() + 1) as usize) + fd_dict_len * s.fds.len();
    cur += fda_len;
    let mut fdicts = Vec::new();
    let mut blobs = Vec::new();
    for fd in &s.fds {
        let pd = private_dict(fd);
        let mut fdict = dict_int5(pd.len() as i32);
        fdict.extend(dict_int5(cur as i32));
        fdict.extend(dict_op(OP_PRIVATE));
        fdicts.push(fdict);
        cur += pd.len();
        blobs.extend(pd);
        if let Some(ls) = &fd.lsubrs {
            let li = index(ls, true, None);
            cur += li.len();
            blobs.extend(li);
        }
    }
    let fda = index(&fdicts, true, None);
    assert_eq!(fda.len(), fda_len);
    tail.extend(fda);
    tail.extend(blobs);
    let vs_off = cur;
    if let Some(v) = vstore {
        tail.extend_from_slice(v);
    }
    let top_dict = top(cs_off as i32, fda_off as i32, fds_off as i32, vs_off as i32);
    assert_eq!(top_dict.len(), top_len);
    let mut out = vec![2u8, 0, 5];
    out.extend_from_slice(&(top_len as u16).to_be_bytes());
    out.extend(top_dict);
    out.extend(gsubr_idx);
    assert_eq!(out.len(), cs_off);
    out.extend(cs_idx);
    out.extend(tail);
    out
}

/// StandardEncoding code -> SID (TN5176 appendix B), written from the table in the specification.
pub fn standard_encoding_sid(code: u8) -> u16 {
    let c = code as u16;
    match c {
        32..=126 => c - 31,
        161..=175 => c - 161 + 96,
        177..=180 => c - 177 + 111,
        182..=189 => c - 182 + 115,
        191 => 123,
        193..=200 => c - 193 + 124,
        202..=203 => c - 202 + 132,
        205..=208 => c - 205 + 134,
        225 => 138,
        227 => 139,
        232..=235 => c - 232 + 140,
        241 => 144,
        245 => 145,
        248..=251 => c - 248 + 146,
        _ => 0,
    }
}
