//! Structural walk of a font buffer: which byte ranges are *fields* (count, offset, length,
//! version/format, index, value), at the container level (headers, directories) and inside the
//! tables (headers, first/last array entries, selected records).  Own small readers: nothing of
//! allsorts is used here.  Fields allsorts reads that the walk does not know are added from the
//! read hook by the caller (role `value`, name `hook`).
use serde_json::{json, Value};

pub const ROLES: [&str; 6] = ["count", "offset", "length", "version", "index", "value"];

#[derive(Clone, Debug)]
pub struct Field {
    pub off: usize,
    pub w: u8,
    pub role: &'static str,
    /// "dir" = container header / directory, "table" = inside a table
    pub level: &'static str,
    /// table the field belongs to (for a directory record: the table it describes); container
    /// name ("sfnt", "ttcf", "wOFF", "wOF2") for header fields
    pub tbl: String,
    pub name: String,
    /// start and length of the enclosing table (or of the file for header fields)
    pub tstart: usize,
    pub tlen: usize,
    /// reference classes (FaultModel!RefClasses): the value that makes the field refer to the
    /// structure that contains it / to that structure's parent; -1 = the field has no such reference.
    /// Offsets: in the field's own base.  Indices: glyph id, subroutine number (as encoded in the
    /// field: biased, in the operand's own number format), lookup index.
    pub selfv: i64,
    pub parentv: i64,
    /// relational classes (FaultModel!RelClasses): the field is an element of an array (of scalars, or the
    /// same member of consecutive records; or one of a tuple of like values such as minimum / default /
    /// maximum); position in the buffer of the previous / next element, of the same width; -1 = none
    pub prevo: i64,
    pub nexto: i64,
    /// derived classes (FaultModel!DerClasses): the value the OTHER fields of the font imply for this size /
    /// length / count field (computed without reading the field itself); -1 = the walk knows none
    pub dv: i64,
}

impl Field {
    pub fn json(&self) -> Value {
        json!([self.off, self.w, self.role, self.level, self.tbl, self.name, self.tstart, self.tlen, self.selfv, self.parentv, self.prevo, self.nexto, self.dv])
    }
    pub fn from_json(v: &Value) -> Field {
        let role = v[2].as_str().unwrap();
        let level = v[3].as_str().unwrap();
        Field {
            off: v[0].as_u64().unwrap() as usize,
            w: v[1].as_u64().unwrap() as u8,
            role: ROLES.iter().find(|r| **r == role).copied().unwrap_or("value"),
            level: if level == "dir" { "dir" } else { "table" },
            tbl: v[4].as_str().unwrap().to_string(),
            name: v[5].as_str().unwrap().to_string(),
            tstart: v[6].as_u64().unwrap() as usize,
            tlen: v[7].as_u64().unwrap() as usize,
            selfv: v.get(8).and_then(|x| x.as_i64()).unwrap_or(-1),
            parentv: v.get(9).and_then(|x| x.as_i64()).unwrap_or(-1),
            prevo: v.get(10).and_then(|x| x.as_i64()).unwrap_or(-1),
            nexto: v.get(11).and_then(|x| x.as_i64()).unwrap_or(-1),
            dv: v.get(12).and_then(|x| x.as_i64()).unwrap_or(-1),
        }
    }
}

/// One directory record (sfnt / WOFF): where its fields are, for RemoveTable / SwapTables / ShrinkLength.
#[derive(Clone, Debug)]
pub struct RecInfo {
    pub tag: String,
    pub rec_off: usize,
    pub rec_size: usize,
    pub off_field: usize,
    pub len_field: usize,
    /// offset of the u16 table count of the directory the record belongs to
    pub count_field: usize,
    /// index of the record in its directory and number of records there
    pub index: usize,
    pub dir_start: usize,
    pub data_off: usize,
    pub data_len: usize,
}

impl RecInfo {
    pub fn json(&self) -> Value {
        json!([self.tag, self.rec_off, self.rec_size, self.off_field, self.len_field, self.count_field, self.index, self.dir_start, self.data_off, self.data_len])
    }
    pub fn from_json(v: &Value) -> RecInfo {
        let u = |i: usize| v[i].as_u64().unwrap() as usize;
        RecInfo { tag: v[0].as_str().unwrap().to_string(), rec_off: u(1), rec_size: u(2), off_field: u(3), len_field: u(4), count_field: u(5), index: u(6), dir_start: u(7), data_off: u(8), data_len: u(9) }
    }
}

/// state of the charstring interpreter of the walk (`Walk::cs_exec`)
struct Cs {
    cff2: bool,
    gsubr_at: usize,
    gcount: usize,
    lsubr_at: usize,
    lcount: usize,
    /// (value, position of the literal, width of the field, number format: 1 = one byte, 2 = two bytes
    /// 247..254, 3 = i16 after 28, 4 = 16.16 after 255); width 0 = not a literal
    stack: Vec<(i64, usize, u8, u8)>,
    stems: usize,
    wp: bool,
    /// subroutines being executed: (global?, number)
    frames: Vec<(bool, usize)>,
    steps: usize,
    region_counts: Vec<usize>,
    vsindex: usize,
    emitted_top: usize,
    emitted_sub: usize,
    seen: std::collections::BTreeSet<usize>,
    seac: usize,
    done: bool,
    /// code of the glyph being walked in the standard encoding (-1 = none): "self" of a seac operand
    own_code: i64,
    /// largest number of operands on the stack when an operator was met
    max_args: usize,
}

/// the field value that encodes the charstring number `v` in the number format `fmt` (see `Cs::stack`)
fn encode_cs_number(v: i64, fmt: u8) -> Option<i64> {
    match fmt {
        1 if (-107..=107).contains(&v) => Some(v + 139),
        2 if (108..=1131).contains(&v) => Some(((247 + (v - 108) / 256) << 8) | ((v - 108) % 256)),
        2 if (-1131..=-108).contains(&v) => Some(((251 + (-v - 108) / 256) << 8) | ((-v - 108) % 256)),
        3 if (-32768..=32767).contains(&v) => Some((v as i16 as u16) as i64),
        4 if (-32768..=32767).contains(&v) => Some((((v as i32) << 16) as u32) as i64),
        _ => None,
    }
}

pub struct Walk<'a> {
    pub d: &'a [u8],
    pub out: Vec<Field>,
    pub recs: Vec<RecInfo>,
    tbl: String,
    tstart: usize,
    tlen: usize,
    level: &'static str,
    /// fields are not recorded (a structure is parsed only for what it says about others)
    mute: bool,
    /// index in `out` of the first field of the table being walked
    tmark: usize,
    /// content classes of the intact bytes as this walk's own readers see them (vacuity of the buffer-filling inputs):
    /// `<CFF|CFF2>.max_operands` = the largest number of operands a charstring operator of the glyphs the outlines group
    /// visits finds on the stack, `.dict_max_operands` = the same for the operators of a DICT, `.dict_real_chars` = the
    /// longest real number of a DICT in characters ("E-" counts two)
    pub content: std::collections::BTreeMap<String, usize>,
}

/// Glyph ids the `outlines` entry point group visits for a font that declares `n` glyphs
/// ({0, 1, n-1, n, 65535}, the first 64, a spread of 24 more).  The walk takes composite glyphs and
/// charstrings that call subroutines from the same list, so that a fault on one of them is executed.
pub fn outline_gids(n: u16) -> Vec<u16> {
    let mut v = vec![0u16, 1, n.wrapping_sub(1), n, 65535];
    v.extend((2..n.min(64)).chain(std::iter::once(n / 2)).filter(|g| *g < n));
    v.extend((64..n).step_by((n as usize / 24).max(1)).take(24));
    let mut seen = std::collections::BTreeSet::new();
    v.retain(|g| seen.insert(*g));
    v
}

fn tag_string(b: &[u8]) -> String {
    b.iter().map(|&c| if (0x20..0x7f).contains(&c) { c as char } else { '?' }).collect()
}

impl<'a> Walk<'a> {
    pub fn new(d: &'a [u8]) -> Walk<'a> {
        Walk { d, out: Vec::new(), recs: Vec::new(), tbl: String::new(), tstart: 0, tlen: d.len(), level: "dir", mute: false, tmark: 0, content: Default::default() }
    }
    fn note_max(&mut self, what: &str, v: usize) {
        let e = self.content.entry(format!("{}.{}", self.tbl.trim(), what)).or_default();
        *e = (*e).max(v);
    }
    fn enter(&mut self, tbl: &str, start: usize, len: usize, level: &'static str) {
        self.tbl = tbl.to_string();
        self.tstart = start;
        self.tlen = len.min(self.d.len().saturating_sub(start));
        self.level = level;
        if level == "table" {
            self.tmark = self.out.len();
        }
    }
    /// The fields recorded since `from` that are member `moff` (width `w`) of one of the `count` records of
    /// `stride` bytes starting at `base` (relative to the current table) are elements of one array: each
    /// gets the position of the same member of the previous / next record.  An array of scalars has
    /// stride = w and moff = 0.  A field keeps the first relation it was given.
    fn sibs_from(&mut self, from: usize, base: usize, stride: usize, count: usize, moff: usize, w: u8) {
        if stride == 0 || count < 2 {
            return;
        }
        let (abs0, end) = (self.tstart + base + moff, self.tstart + self.tlen);
        let from = from.min(self.out.len());
        for f in self.out[from..].iter_mut() {
            if f.w != w || f.off < abs0 || (f.off - abs0) % stride != 0 || f.prevo >= 0 || f.nexto >= 0 {
                continue;
            }
            let k = (f.off - abs0) / stride;
            if k >= count {
                continue;
            }
            if k > 0 {
                f.prevo = (f.off - stride) as i64;
            }
            if k + 1 < count && f.off + stride + w as usize <= end {
                f.nexto = (f.off + stride) as i64;
            }
        }
    }
    /// `sibs_from` over the fields of the table being walked
    fn sibs(&mut self, base: usize, stride: usize, count: usize, moff: usize, w: u8) {
        self.sibs_from(self.tmark, base, stride, count, moff, w)
    }
    /// several members (offset in the record, width) of the same records
    fn sibs_rec(&mut self, base: usize, stride: usize, count: usize, members: &[(usize, u8)]) {
        for (moff, w) in members {
            self.sibs(base, stride, count, *moff, *w);
        }
    }
    /// field at `rel` (relative to the current table)
    fn f(&mut self, rel: usize, w: u8, role: &'static str, name: &str) {
        if rel + w as usize <= self.tlen {
            if !self.mute {
                self.out.push(Field { off: self.tstart + rel, w, role, level: self.level, tbl: self.tbl.clone(), name: name.to_string(), tstart: self.tstart, tlen: self.tlen, selfv: -1, parentv: -1, prevo: -1, nexto: -1, dv: -1 });
            }
        }
    }
    /// field with references (see `Field::selfv`)
    fn fr(&mut self, rel: usize, w: u8, role: &'static str, name: &str, sv: i64, pv: i64) {
        let n = self.out.len();
        self.f(rel, w, role, name);
        if self.out.len() > n {
            let max = if w >= 8 { i64::MAX } else { (1i64 << (8 * w as u32)) - 1 };
            let l = self.out.last_mut().unwrap();
            l.selfv = if sv > max { -1 } else { sv };
            l.parentv = if pv > max { -1 } else { pv };
        }
    }
    /// references of a field pushed earlier (position relative to the current table)
    fn refs(&mut self, rel: usize, sv: i64, pv: i64) {
        let abs = self.tstart + rel;
        if let Some(l) = self.out.iter_mut().rev().find(|f| f.off == abs) {
            let max = if l.w >= 8 { i64::MAX } else { (1i64 << (8 * l.w as u32)) - 1 };
            l.selfv = if sv > max { -1 } else { sv };
            l.parentv = if pv > max { -1 } else { pv };
        }
    }
    /// implied value of a size / length / count field pushed earlier (position relative to the current table):
    /// what the other fields of the font say the field should hold (see `Field::dv`)
    fn der(&mut self, rel: usize, dv: usize) {
        let abs = self.tstart + rel;
        if let Some(l) = self.out.iter_mut().rev().find(|f| f.off == abs) {
            let max = if l.w >= 8 { i64::MAX } else { (1i64 << (8 * l.w as u32)) - 1 };
            if (l.role == "count" || l.role == "length" || l.role == "offset") && dv as i64 <= max && dv < (1 << 31) {
                l.dv = dv as i64;
            }
        }
    }
    fn fs(&mut self, rel: usize, specs: &[(u8, &'static str, &str)]) -> usize {
        let mut p = rel;
        for (w, role, name) in specs {
            self.f(p, *w, role, name);
            p += *w as usize;
        }
        p
    }
    fn u8(&self, rel: usize) -> Option<usize> {
        if rel < self.tlen {
            self.d.get(self.tstart + rel).map(|b| *b as usize)
        } else {
            None
        }
    }
    fn u16(&self, rel: usize) -> Option<usize> {
        if rel + 2 <= self.tlen {
            let p = self.tstart + rel;
            Some(((self.d[p] as usize) << 8) | self.d[p + 1] as usize)
        } else {
            None
        }
    }
    fn u32(&self, rel: usize) -> Option<usize> {
        if rel + 4 <= self.tlen {
            let p = self.tstart + rel;
            Some(u32::from_be_bytes([self.d[p], self.d[p + 1], self.d[p + 2], self.d[p + 3]]) as usize)
        } else {
            None
        }
    }
    fn un(&self, rel: usize, w: usize) -> Option<usize> {
        if w == 0 || w > 4 || rel + w > self.tlen {
            return None;
        }
        let mut v = 0usize;
        for k in 0..w {
            v = (v << 8) | self.d[self.tstart + rel + k] as usize;
        }
        Some(v)
    }

    // ---- containers -------------------------------------------------------------------------------

    /// whole file: dispatch on the magic
    pub fn file(&mut self) {
        let d = self.d;
        if d.len() < 4 {
            return;
        }
        match &d[0..4] {
            b"ttcf" => self.ttc(),
            b"wOFF" => self.woff(),
            b"wOF2" => self.woff2_header(),
            _ => self.sfnt(0, true),
        }
    }

    pub fn sfnt(&mut self, at: usize, walk_tables: bool) {
        self.sfnt_in(at, walk_tables, -1)
    }
    /// `parent`: offset of the structure the directory hangs off (collection header), -1 = none
    fn sfnt_in(&mut self, at: usize, walk_tables: bool, parent: i64) {
        let flen = self.d.len();
        self.enter("sfnt", 0, flen, "dir");
        self.fs(at, &[(4, "version", "sfntVersion"), (2, "count", "numTables"), (2, "value", "searchRange"), (2, "value", "entrySelector"), (2, "value", "rangeShift")]);
        let n = match self.u16(at + 4) {
            Some(n) => n,
            None => return,
        };
        let mut tables = Vec::new();
        let mark = self.out.len();
        for i in 0..n {
            let r = at + 12 + 16 * i;
            if r + 16 > flen {
                break;
            }
            let tag = tag_string(&self.d[r..r + 4]);
            let off = self.u32(r + 8).unwrap();
            let len = self.u32(r + 12).unwrap();
            self.enter(&tag, 0, flen, "dir");
            self.fs(r, &[(4, "index", "rec.tag"), (4, "value", "rec.checkSum"), (4, "offset", "rec.offset"), (4, "length", "rec.length")]);
            // the record sits in its directory: self = the table is the directory itself
            self.refs(r + 8, at as i64, parent);
            self.recs.push(RecInfo { tag: tag.clone(), rec_off: r, rec_size: 16, off_field: r + 8, len_field: r + 12, count_field: at + 4, index: i, dir_start: at + 12, data_off: off, data_len: len });
            tables.push((tag, off, len));
        }
        // implied values: a table runs up to where the next one begins (the last: to the end of the file); the
        // directory of a bare font runs up to the first table
        let mut starts: Vec<usize> = tables.iter().map(|t| t.1).collect();
        starts.push(flen);
        starts.sort();
        for (i, (_, off, _)) in tables.iter().enumerate() {
            if let Some(next) = starts.iter().copied().find(|s| s > off) {
                self.der(at + 12 + 16 * i + 12, next - off);
            }
        }
        self.enter("sfnt", 0, flen, "dir");
        if at == 0 {
            if let Some(first) = starts.first().filter(|f| **f >= 12) {
                self.der(4, (first - 12) / 16);
            }
        }
        // the records are an array sorted by tag: tag, checksum, offset, length each with the same member of its neighbours
        for m in [0usize, 4, 8, 12] {
            self.sibs_from(mark, at + 12, 16, n, m, 4);
        }
        if walk_tables {
            self.tables(&tables, 0);
        }
    }

    fn ttc(&mut self) {
        let flen = self.d.len();
        self.enter("ttcf", 0, flen, "dir");
        self.fs(0, &[(4, "version", "ttcTag"), (2, "version", "majorVersion"), (2, "version", "minorVersion"), (4, "count", "numFonts")]);
        let n = self.u32(8).unwrap_or(0).min(16);
        let mut offs = Vec::new();
        let mark = self.out.len();
        for i in 0..n {
            self.fr(12 + 4 * i, 4, "offset", "offsetTable", 0, -1);
            if let Some(o) = self.u32(12 + 4 * i) {
                offs.push(o);
            }
        }
        self.sibs_from(mark, 12, 4, n, 0, 4);
        for (i, o) in offs.into_iter().enumerate() {
            // tables are walked once, for the first member
            self.sfnt_in(o, i == 0, 0);
        }
    }

    fn woff(&mut self) {
        let flen = self.d.len();
        self.enter("wOFF", 0, flen, "dir");
        self.fs(0, &[(4, "version", "signature"), (4, "version", "flavor"), (4, "length", "length"), (2, "count", "numTables"), (2, "value", "reserved"), (4, "length", "totalSfntSize"), (2, "version", "majorVersion"), (2, "version", "minorVersion"), (4, "offset", "metaOffset"), (4, "length", "metaLength"), (4, "length", "metaOrigLength"), (4, "offset", "privOffset"), (4, "length", "privLength")]);
        let n = self.u16(12).unwrap_or(0);
        // implied values: the file's own length; the size of the font the records describe
        self.der(8, flen);
        let total: usize = 12 + 16 * n + (0..n).filter_map(|i| self.u32(44 + 20 * i + 12)).map(|l| (l + 3) & !3).sum::<usize>();
        self.der(16, total);
        let mut plain = Vec::new();
        let mark = self.out.len();
        for i in 0..n {
            let r = 44 + 20 * i;
            if r + 20 > flen {
                break;
            }
            self.enter("wOFF", 0, flen, "dir");
            let tag = tag_string(&self.d[r..r + 4]);
            let off = self.u32(r + 4).unwrap();
            let comp = self.u32(r + 8).unwrap();
            let orig = self.u32(r + 12).unwrap();
            self.enter(&tag, 0, flen, "dir");
            self.fs(r, &[(4, "index", "rec.tag"), (4, "offset", "rec.offset"), (4, "length", "rec.compLength"), (4, "length", "rec.origLength"), (4, "value", "rec.origChecksum")]);
            self.refs(r + 4, 44, 0);
            self.recs.push(RecInfo { tag: tag.clone(), rec_off: r, rec_size: 20, off_field: r + 4, len_field: r + 8, count_field: 12, index: i, dir_start: 44, data_off: off, data_len: comp });
            if comp == orig {
                plain.push((tag, off, comp));
            } else {
                // compressed stream: zlib header and a few bytes inside it
                self.enter(&tag, off, comp, "table");
                self.f(0, 1, "version", "zlib.cmf");
                self.f(1, 1, "version", "zlib.flg");
                self.f(2, 1, "value", "zlib.block");
                if comp > 8 {
                    self.f(comp / 2, 1, "value", "zlib.mid");
                    self.f(comp - 4, 4, "value", "zlib.adler");
                }
            }
        }
        self.enter("wOFF", 0, flen, "dir");
        for m in [0usize, 4, 8, 12, 16] {
            self.sibs_from(mark, 44, 20, n, m, 4);
        }
        self.tables(&plain, 0);
    }

    /// WOFF2 file: header and directory bytes (the compressed block is opaque here; the decompressed
    /// stream is walked separately by `woff2_stream`)
    fn woff2_header(&mut self) {
        let flen = self.d.len();
        self.enter("wOF2", 0, flen, "dir");
        self.fs(0, &[(4, "version", "signature"), (4, "version", "flavor"), (4, "length", "length"), (2, "count", "numTables"), (2, "value", "reserved"), (4, "length", "totalSfntSize"), (4, "length", "totalCompressedSize"), (2, "version", "majorVersion"), (2, "version", "minorVersion"), (4, "offset", "metaOffset"), (4, "length", "metaLength"), (4, "length", "metaOrigLength"), (4, "offset", "privOffset"), (4, "length", "privLength")]);
        let n = self.u16(12).unwrap_or(0);
        let comp = self.u32(20).unwrap_or(0);
        self.der(8, flen);
        let mut p = 48usize;
        for _ in 0..n {
            let flags = match self.u8(p) {
                Some(f) => f,
                None => return,
            };
            let tag = if flags & 63 == 63 {
                if p + 5 > flen {
                    return;
                }
                tag_string(&self.d[p + 1..p + 5])
            } else {
                super::wrap::KNOWN_TAGS[flags & 63].to_string()
            };
            self.enter(&tag, 0, flen, "dir");
            self.f(p, 1, "version", "entry.flags");
            p += 1;
            if flags & 63 == 63 {
                self.f(p, 4, "index", "entry.tag");
                p += 4;
            }
            let ver = flags >> 6;
            let two = match (ver, tag.as_str()) {
                (3, "glyf") | (3, "loca") => false,
                (_, "glyf") | (_, "loca") => true,
                (1, "hmtx") => true,
                (0, _) => false,
                _ => true,
            };
            for k in 0..(1 + two as usize) {
                // UIntBase128: every byte is a field
                let mut j = 0;
                loop {
                    let b = match self.u8(p) {
                        Some(b) => b,
                        None => return,
                    };
                    self.f(p, 1, "length", if k == 0 { "entry.origLength.b128" } else { "entry.transformLength.b128" });
                    p += 1;
                    j += 1;
                    if b & 0x80 == 0 || j >= 5 {
                        break;
                    }
                }
            }
        }
        // collection directory bytes (flavor ttcf) up to the compressed block: byte-wise
        if self.d.len() >= 8 && &self.d[4..8] == b"ttcf" {
            self.enter("wOF2", 0, flen, "dir");
            self.f(p, 4, "version", "collection.version");
            let mut q = p + 4;
            let mut k = 0;
            while q + comp < flen && k < 48 {
                self.f(q, 1, if k == 0 { "count" } else { "index" }, "collection.byte");
                q += 1;
                k += 1;
            }
        } else {
            self.enter("wOF2", 0, flen, "dir");
            // first bytes of the brotli stream and one in the middle
            self.f(p, 1, "value", "brotli.first");
            self.f(p + 1, 1, "value", "brotli.second");
            if comp > 8 {
                self.f(p + comp / 2, 1, "value", "brotli.mid");
                self.f(p + comp - 1, 1, "value", "brotli.last");
            }
        }
    }

    /// The decompressed WOFF2 table stream: `entries` = (tag, offset in stream, stored length, transformed?)
    pub fn woff2_stream(&mut self, entries: &[(String, usize, usize, bool)]) {
        let mut plain = Vec::new();
        for (tag, off, len, transformed) in entries {
            if *transformed && tag == "glyf" {
                self.enter("glyf", *off, *len, "table");
                self.fs(0, &[(2, "version", "xglyf.reserved"), (2, "version", "xglyf.optionFlags"), (2, "count", "xglyf.numGlyphs"), (2, "version", "xglyf.indexFormat"), (4, "length", "xglyf.nContourStreamSize"), (4, "length", "xglyf.nPointsStreamSize"), (4, "length", "xglyf.flagStreamSize"), (4, "length", "xglyf.glyphStreamSize"), (4, "length", "xglyf.compositeStreamSize"), (4, "length", "xglyf.bboxStreamSize"), (4, "length", "xglyf.instructionStreamSize")]);
                // first entries of each stream
                let mut p = 36usize;
                let names = ["nContour", "nPoints", "flag", "glyph", "composite", "bbox", "instruction"];
                for (k, nm) in names.iter().enumerate() {
                    let sz = self.u32(8 + 4 * k).unwrap_or(0);
                    if sz > 0 && p < *len {
                        let w = if k == 0 { 2 } else { 1 };
                        self.f(p, w, if k == 0 { "count" } else { "value" }, &format!("xglyf.{}[0]", nm));
                        self.f(p + w as usize, w, if k == 0 { "count" } else { "value" }, &format!("xglyf.{}[1]", nm));
                        if sz > 4 {
                            self.f(p + sz - w as usize, w, if k == 0 { "count" } else { "value" }, &format!("xglyf.{}[last]", nm));
                        }
                    }
                    p = p.saturating_add(sz);
                }
            } else if *transformed && tag == "hmtx" {
                self.enter("hmtx", *off, *len, "table");
                self.f(0, 1, "version", "xhmtx.flags");
                self.f(1, 2, "value", "xhmtx.advance[0]");
                self.f(3, 2, "value", "xhmtx.advance[1]");
                if *len >= 7 {
                    self.f(*len - 2, 2, "value", "xhmtx.last");
                }
            } else if *transformed {
                self.enter(tag, *off, *len, "table");
                self.f(0, 1, "value", "xform.first");
            } else {
                plain.push((tag.clone(), *off, *len));
            }
        }
        self.tables(&plain, 0);
    }

    // ---- tables ---------------------------------------------------------------------------------------

    /// walk the tables given as (tag, offset, length) relative to `base`
    pub fn tables(&mut self, tables: &[(String, usize, usize)], base: usize) {
        let flen = self.d.len();
        let get = |t: &str| tables.iter().find(|x| x.0 == t).map(|x| (base + x.1, x.2)).filter(|(o, l)| o.checked_add(*l).map_or(false, |e| e <= flen));
        // facts needed across tables
        let num_glyphs = get("maxp").and_then(|(o, l)| if l >= 6 { Some(((self.d[o + 4] as usize) << 8) | self.d[o + 5] as usize) } else { None }).unwrap_or(0);
        let loca_long = get("head").and_then(|(o, l)| if l >= 52 { Some(self.d[o + 51] != 0) } else { None }).unwrap_or(false);
        let num_h = get("hhea").and_then(|(o, l)| if l >= 36 { Some(((self.d[o + 34] as usize) << 8) | self.d[o + 35] as usize) } else { None }).unwrap_or(0);
        let num_v = get("vhea").and_then(|(o, l)| if l >= 36 { Some(((self.d[o + 34] as usize) << 8) | self.d[o + 35] as usize) } else { None }).unwrap_or(0);
        let fvar_axes = get("fvar").and_then(|(o, l)| if l >= 10 { Some(((self.d[o + 8] as usize) << 8) | self.d[o + 9] as usize) } else { None }).unwrap_or(0);
        let mut seen = std::collections::BTreeSet::new();
        for (tag, off, len) in tables {
            let (o, l) = (base + off, *len);
            if o.checked_add(l).map_or(true, |e| e > flen) || !seen.insert((o, l)) {
                continue;
            }
            self.enter(tag, o, l, "table");
            match tag.as_str() {
                "head" => self.head(),
                "hhea" | "vhea" => {
                    self.hhea();
                    // numberOfHMetrics: what the metrics table holds for the glyph count (4 bytes per long metric, 2 per bearing)
                    if let Some((_, ml)) = get(if tag == "hhea" { "hmtx" } else { "vmtx" }) {
                        if ml >= 2 * num_glyphs {
                            self.der(34, (ml - 2 * num_glyphs) / 2);
                        }
                    }
                }
                "maxp" => {
                    self.maxp();
                    // numGlyphs: what the loca table holds
                    if let Some((_, ll)) = get("loca") {
                        let w = if loca_long { 4 } else { 2 };
                        if ll >= w {
                            self.der(4, ll / w - 1);
                        }
                    }
                }
                "hmtx" => self.hmtx(num_h, num_glyphs),
                "vmtx" => self.hmtx(num_v, num_glyphs),
                "loca" => self.loca(loca_long, num_glyphs),
                "glyf" => {
                    if let Some((lo, ll)) = get("loca") {
                        self.glyf(lo, ll, loca_long, num_glyphs)
                    }
                }
                "cmap" => self.cmap(),
                "name" => self.name(),
                "post" => self.post(),
                "OS/2" => self.os2(),
                "kern" => self.kern(),
                "fvar" => self.fvar(),
                "avar" => self.avar(),
                "gvar" => self.gvar(),
                "HVAR" => self.hvar(false),
                "VVAR" => self.hvar(true),
                "cvar" => self.cvar(fvar_axes),
                "MVAR" => self.mvar(),
                "STAT" => self.stat(),
                "GSUB" | "GPOS" => self.layout(),
                "GDEF" => self.gdef(),
                "CFF " => self.cff(false),
                "CFF2" => self.cff(true),
                "SVG " => self.svg(),
                "CBLC" | "EBLC" => {
                    let dat = get(if tag == "CBLC" { "CBDT" } else { "EBDT" });
                    self.cblc(dat)
                }
                "CBDT" | "EBDT" => {
                    self.fs(0, &[(2, "version", "majorVersion"), (2, "version", "minorVersion")]);
                    if let Some(loc) = get(if tag == "CBDT" { "CBLC" } else { "EBLC" }) {
                        self.cbdt(loc)
                    }
                }
                "sbix" => self.sbix(num_glyphs),
                "morx" => self.morx(num_glyphs),
                "VORG" => {
                    self.fs(0, &[(2, "version", "majorVersion"), (2, "version", "minorVersion"), (2, "value", "defaultVertOriginY"), (2, "count", "numVertOriginYMetrics"), (2, "index", "rec0.glyphIndex"), (2, "value", "rec0.vertOriginY")]);
                    let n = self.u16(6).unwrap_or(0);
                    if n > 1 {
                        self.fs(12, &[(2, "index", "rec1.glyphIndex"), (2, "value", "rec1.vertOriginY")]);
                    }
                    // sorted by glyph index
                    self.sibs_rec(8, 4, n, &[(0, 2), (2, 2)]);
                }
                _ => {
                    // unknown table: first words
                    self.fs(0, &[(2, "version", "word0"), (2, "value", "word1"), (4, "value", "dword1")]);
                }
            }
        }
    }

    fn head(&mut self) {
        self.fs(0, &[(2, "version", "majorVersion"), (2, "version", "minorVersion"), (4, "value", "fontRevision"), (4, "value", "checkSumAdjustment"), (4, "version", "magicNumber"), (2, "value", "flags"), (2, "value", "unitsPerEm"), (8, "value", "created"), (8, "value", "modified"), (2, "value", "xMin"), (2, "value", "yMin"), (2, "value", "xMax"), (2, "value", "yMax"), (2, "value", "macStyle"), (2, "value", "lowestRecPPEM"), (2, "value", "fontDirectionHint"), (2, "version", "indexToLocFormat"), (2, "version", "glyphDataFormat")]);
        // xMin / xMax and yMin / yMax: pairs of like values, the first not above the second
        self.sibs(36, 4, 2, 0, 2);
        self.sibs(38, 4, 2, 0, 2);
    }
    fn hhea(&mut self) {
        let p = self.fs(0, &[(2, "version", "majorVersion"), (2, "version", "minorVersion"), (2, "value", "ascender"), (2, "value", "descender"), (2, "value", "lineGap"), (2, "value", "advanceMax"), (2, "value", "minStartSideBearing"), (2, "value", "minEndSideBearing"), (2, "value", "maxExtent"), (2, "value", "caretSlopeRise"), (2, "value", "caretSlopeRun"), (2, "value", "caretOffset")]);
        self.fs(p + 8, &[(2, "version", "metricDataFormat"), (2, "count", "numberOfMetrics")]);
    }
    fn maxp(&mut self) {
        let mut p = self.fs(0, &[(4, "version", "version"), (2, "count", "numGlyphs")]);
        for nm in ["maxPoints", "maxContours", "maxCompositePoints", "maxCompositeContours", "maxZones", "maxTwilightPoints", "maxStorage", "maxFunctionDefs", "maxInstructionDefs", "maxStackElements", "maxSizeOfInstructions", "maxComponentElements", "maxComponentDepth"] {
            self.f(p, 2, "value", nm);
            p += 2;
        }
    }
    fn hmtx(&mut self, nh: usize, ng: usize) {
        for (k, nm) in [(0usize, "0"), (1, "1"), (nh.saturating_sub(1), "last")] {
            if k < nh {
                self.f(4 * k, 2, "value", &format!("metric[{}].advance", nm));
                self.f(4 * k + 2, 2, "value", &format!("metric[{}].sideBearing", nm));
            }
        }
        self.sibs_rec(0, 4, nh, &[(0, 2), (2, 2)]);
        if ng > nh {
            self.f(4 * nh, 2, "value", "sideBearing[0]");
            self.f(4 * nh + 2 * (ng - nh - 1), 2, "value", "sideBearing[last]");
            self.sibs(4 * nh, 2, ng - nh, 0, 2);
        }
    }
    fn loca(&mut self, long: bool, ng: usize) {
        let w = if long { 4 } else { 2 };
        for (k, nm) in [(0usize, "0"), (1, "1"), (2, "2"), (ng / 2, "mid"), (ng.saturating_sub(1), "n-1"), (ng, "n")] {
            if k <= ng {
                self.f(w * k, w as u8, "offset", &format!("offset[{}]", nm));
            }
        }
        self.sibs(0, w, ng + 1, 0, w as u8);
    }
    fn glyf(&mut self, lo: usize, ll: usize, long: bool, ng: usize) {
        let w = if long { 4 } else { 2 };
        let d = self.d;
        let at = |k: usize| -> Option<usize> {
            if (k + 1) * w > ll {
                return None;
            }
            let p = lo + k * w;
            Some(if long { u32::from_be_bytes([d[p], d[p + 1], d[p + 2], d[p + 3]]) as usize } else { 2 * (((d[p] as usize) << 8) | d[p + 1] as usize) })
        };
        // simple glyphs 0..3, middle, last in detail; every composite glyph among the glyph ids the
        // outlines group visits (first eight), each with all its component records, and the composite
        // glyphs those refer to (one level), so that "component := the glyph itself / its parent" closes
        // a cycle the group runs into
        let simple: Vec<usize> = vec![0, 1, 2, 3, ng / 2, ng.saturating_sub(1)];
        let is_comp = |w: &Walk, g: usize| -> bool {
            match (at(g), at(g + 1)) {
                (Some(a), Some(b)) => b > a && a + 2 <= w.tlen && w.d[w.tstart + a] >= 0x80,
                _ => false,
            }
        };
        let mut comps: Vec<(usize, i64)> = Vec::new(); // (gid, parent gid)
        for g in outline_gids(ng.min(65535) as u16) {
            let g = g as usize;
            if g < ng && is_comp(self, g) && !comps.iter().any(|c| c.0 == g) {
                comps.push((g, -1));
                if comps.len() >= 8 {
                    break;
                }
            }
        }
        let mut gids: Vec<usize> = simple.clone();
        gids.sort();
        gids.dedup();
        for g in gids {
            if g >= ng || comps.iter().any(|c| c.0 == g) {
                continue;
            }
            let (a, b) = match (at(g), at(g + 1)) {
                (Some(a), Some(b)) if b > a && b <= self.tlen => (a, b),
                _ => continue,
            };
            let nm = format!("glyph[{}]", g);
            self.fs(a, &[(2, "count", &format!("{}.numberOfContours", nm)), (2, "value", &format!("{}.xMin", nm)), (2, "value", &format!("{}.yMin", nm)), (2, "value", &format!("{}.xMax", nm)), (2, "value", &format!("{}.yMax", nm))]);
            self.sibs(a + 2, 4, 2, 0, 2);
            self.sibs(a + 4, 4, 2, 0, 2);
            let nc = self.u16(a).unwrap_or(0);
            if nc < 0x8000 && nc > 0 {
                self.f(a + 10, 2, "index", &format!("{}.endPts[0]", nm));
                if nc > 2 {
                    self.f(a + 12, 2, "index", &format!("{}.endPts[1]", nm));
                }
                self.f(a + 10 + 2 * (nc - 1), 2, "index", &format!("{}.endPts[last]", nm));
                self.sibs(a + 10, 2, nc, 0, 2);
                let il = a + 10 + 2 * nc;
                self.f(il, 2, "length", &format!("{}.instructionLength", nm));
                let ilen = self.u16(il).unwrap_or(0);
                let fl = il + 2 + ilen;
                if fl + 2 <= b {
                    // flag bytes: every bit is a switch (ON_CURVE, X / Y_SHORT, REPEAT, SAME / POSITIVE, OVERLAP) = role version
                    self.f(fl, 1, "version", &format!("{}.flags[0]", nm));
                    self.f(fl + 1, 1, "version", &format!("{}.flags[1]", nm));
                    self.f(b - 1, 1, "value", &format!("{}.lastByte", nm));
                }
            } else if nc >= 0x8000 {
                comps.push((g, -1));
            }
        }
        let mut k = 0;
        while k < comps.len() && k < 16 {
            let (g, parent) = comps[k];
            k += 1;
            let (a, b) = match (at(g), at(g + 1)) {
                (Some(a), Some(b)) if b > a && b <= self.tlen => (a, b),
                _ => continue,
            };
            let nm = format!("glyph[{}]", g);
            self.fs(a, &[(2, "count", &format!("{}.numberOfContours", nm)), (2, "value", &format!("{}.xMin", nm)), (2, "value", &format!("{}.yMax", nm))]);
            let mut p = a + 10;
            for c in 0..8 {
                let flags = match self.u16(p) {
                    Some(f) if p + 4 <= b => f,
                    _ => break,
                };
                let cn = format!("{}.comp{}", nm, c);
                self.f(p, 2, "version", &format!("{}.flags", cn));
                self.fr(p + 2, 2, "index", &format!("{}.glyphIndex", cn), g as i64, parent);
                if let Some(child) = self.u16(p + 2) {
                    if parent < 0 && child < ng && child != g && is_comp(self, child) && !comps.iter().any(|c| c.0 == child) {
                        comps.push((child, g as i64));
                    }
                }
                let aw = if flags & 1 != 0 { 2 } else { 1 };
                self.f(p + 4, aw as u8, "value", &format!("{}.arg1", cn));
                self.f(p + 4 + aw, aw as u8, "value", &format!("{}.arg2", cn));
                p += 4 + 2 * aw;
                let sw = if flags & 0x0008 != 0 { 2 } else if flags & 0x0040 != 0 { 4 } else if flags & 0x0080 != 0 { 8 } else { 0 };
                if sw > 0 {
                    self.f(p, 2, "value", &format!("{}.scale0", cn));
                }
                p += sw;
                if flags & 0x0020 == 0 {
                    if flags & 0x0100 != 0 {
                        self.f(p, 2, "length", &format!("{}.numInstr", nm));
                    }
                    break;
                }
            }
        }
    }
    fn cmap(&mut self) {
        self.fs(0, &[(2, "version", "version"), (2, "count", "numTables")]);
        let n = self.u16(2).unwrap_or(0).min(24);
        let mut subs = std::collections::BTreeSet::new();
        for i in 0..n {
            let r = 4 + 8 * i;
            self.fs(r, &[(2, "value", &format!("rec[{}].platformID", i)), (2, "value", &format!("rec[{}].encodingID", i)), (4, "offset", &format!("rec[{}].offset", i))]);
            if let Some(o) = self.u32(r + 4) {
                subs.insert(o);
            }
        }
        self.sibs_rec(4, 8, n, &[(0, 2), (2, 2), (4, 4)]);
        for o in subs {
            let fmt = match self.u16(o) {
                Some(f) => f,
                None => continue,
            };
            let nm = format!("f{}", fmt);
            self.f(o, 2, "version", &format!("{}.format", nm));
            match fmt {
                0 => {
                    self.fs(o + 2, &[(2, "length", "f0.length"), (2, "value", "f0.language"), (1, "index", "f0.glyphId[0]"), (1, "index", "f0.glyphId[1]")]);
                    self.f(o + 6 + 65, 1, "index", "f0.glyphId[65]");
                    self.der(o + 2, 262);
                    self.sibs(o + 6, 1, 256, 0, 1);
                }
                2 => {
                    self.fs(o + 2, &[(2, "length", "f2.length"), (2, "value", "f2.language"), (2, "index", "f2.subHeaderKeys[0]")]);
                    self.f(o + 6 + 2 * 0x81, 2, "index", "f2.subHeaderKeys[0x81]");
                    self.fs(o + 6 + 512, &[(2, "value", "f2.sub0.firstCode"), (2, "count", "f2.sub0.entryCount"), (2, "value", "f2.sub0.idDelta"), (2, "offset", "f2.sub0.idRangeOffset"), (2, "value", "f2.sub1.firstCode"), (2, "count", "f2.sub1.entryCount"), (2, "value", "f2.sub1.idDelta"), (2, "offset", "f2.sub1.idRangeOffset")]);
                    self.sibs(o + 6, 2, 256, 0, 2);
                    self.sibs_rec(o + 6 + 512, 8, 2, &[(0, 2), (2, 2), (4, 2), (6, 2)]);
                }
                4 => {
                    self.fs(o + 2, &[(2, "length", "f4.length"), (2, "value", "f4.language"), (2, "count", "f4.segCountX2"), (2, "value", "f4.searchRange"), (2, "value", "f4.entrySelector"), (2, "value", "f4.rangeShift")]);
                    let sc = self.u16(o + 6).unwrap_or(0) / 2;
                    // segCountX2: the four parallel arrays fill the sub-table when there is no glyphIdArray; at most that
                    if let Some(l) = self.u16(o + 2).filter(|l| *l >= 16) {
                        self.der(o + 6, (l - 16) / 8 * 2);
                    }
                    if sc > 0 {
                        let (e, s, dl, ro) = (o + 14, o + 16 + 2 * sc, o + 16 + 4 * sc, o + 16 + 6 * sc);
                        for (k, kn) in [(0usize, "0"), (1, "1"), (sc / 2, "mid"), (sc.saturating_sub(2), "last-1"), (sc - 1, "last")] {
                            if k >= sc {
                                continue;
                            }
                            self.f(e + 2 * k, 2, "value", &format!("f4.endCode[{}]", kn));
                            self.f(s + 2 * k, 2, "value", &format!("f4.startCode[{}]", kn));
                            self.f(dl + 2 * k, 2, "value", &format!("f4.idDelta[{}]", kn));
                            self.f(ro + 2 * k, 2, "offset", &format!("f4.idRangeOffset[{}]", kn));
                        }
                        // four parallel arrays; the segments are sorted by end code
                        for b in [e, s, dl, ro] {
                            self.sibs(b, 2, sc, 0, 2);
                        }
                        self.f(o + 14 + 2 * sc, 2, "value", "f4.reservedPad");
                        self.f(o + 16 + 8 * sc, 2, "index", "f4.glyphIdArray[0]");
                        let ga = o + 16 + 8 * sc;
                        let gn = self.u16(o + 2).map_or(0, |l| (o + l).saturating_sub(ga) / 2);
                        if gn > 1 {
                            self.f(ga + 2, 2, "index", "f4.glyphIdArray[1]");
                        }
                        self.sibs(ga, 2, gn, 0, 2);
                    }
                }
                6 => {
                    self.fs(o + 2, &[(2, "length", "f6.length"), (2, "value", "f6.language"), (2, "value", "f6.firstCode"), (2, "count", "f6.entryCount"), (2, "index", "f6.glyphId[0]")]);
                    let c = self.u16(o + 8).unwrap_or(0);
                    if c > 1 {
                        self.f(o + 12, 2, "index", "f6.glyphId[1]");
                    }
                    // length and entryCount imply each other
                    self.der(o + 2, 10 + 2 * c);
                    if let Some(l) = self.u16(o + 2).filter(|l| *l >= 10) {
                        self.der(o + 8, (l - 10) / 2);
                    }
                    self.sibs(o + 10, 2, c, 0, 2);
                }
                8 => {
                    self.fs(o + 2, &[(2, "value", "f8.reserved"), (4, "length", "f8.length"), (4, "value", "f8.language")]);
                    self.fs(o + 12 + 8192, &[(4, "count", "f8.numGroups"), (4, "value", "f8.group0.start"), (4, "value", "f8.group0.end"), (4, "index", "f8.group0.glyph")]);
                    let c = self.u32(o + 12 + 8192).unwrap_or(0);
                    if c > 1 {
                        self.fs(o + 28 + 8192, &[(4, "value", "f8.group1.start"), (4, "value", "f8.group1.end"), (4, "index", "f8.group1.glyph")]);
                    }
                    self.sibs_rec(o + 16 + 8192, 12, c, &[(0, 4), (4, 4), (8, 4)]);
                }
                10 => {
                    self.fs(o + 2, &[(2, "value", "f10.reserved"), (4, "length", "f10.length"), (4, "value", "f10.language"), (4, "value", "f10.startCharCode"), (4, "count", "f10.numChars"), (2, "index", "f10.glyph[0]")]);
                    let c = self.u32(o + 16).unwrap_or(0);
                    if c > 1 {
                        self.f(o + 22, 2, "index", "f10.glyph[1]");
                    }
                    self.der(o + 4, 20 + 2 * c);
                    if let Some(l) = self.u32(o + 4).filter(|l| *l >= 20) {
                        self.der(o + 16, (l - 20) / 2);
                    }
                    self.sibs(o + 20, 2, c, 0, 2);
                }
                12 | 13 => {
                    self.fs(o + 2, &[(2, "value", "f12.reserved"), (4, "length", "f12.length"), (4, "value", "f12.language"), (4, "count", "f12.numGroups")]);
                    let ng = self.u32(o + 12).unwrap_or(0);
                    self.der(o + 4, 16 + 12 * ng);
                    if let Some(l) = self.u32(o + 4).filter(|l| *l >= 16) {
                        self.der(o + 12, (l - 16) / 12);
                    }
                    for (k, kn) in [(0usize, "0"), (1, "1"), (ng / 2, "mid"), (ng.saturating_sub(1), "last")] {
                        if k < ng {
                            self.fs(o + 16 + 12 * k, &[(4, "value", &format!("f12.group[{}].start", kn)), (4, "value", &format!("f12.group[{}].end", kn)), (4, "index", &format!("f12.group[{}].glyph", kn))]);
                        }
                    }
                    // groups sorted by start code: start, end, glyph each with the same member of the neighbours
                    self.sibs_rec(o + 16, 12, ng, &[(0, 4), (4, 4), (8, 4)]);
                }
                14 => {
                    self.fs(o + 2, &[(4, "length", "f14.length"), (4, "count", "f14.numVarSelectorRecords"), (3, "value", "f14.rec0.varSelector"), (4, "offset", "f14.rec0.defaultUVSOffset"), (4, "offset", "f14.rec0.nonDefaultUVSOffset")]);
                    let c = self.u32(o + 6).unwrap_or(0);
                    if c > 1 {
                        self.fs(o + 21, &[(3, "value", "f14.rec1.varSelector"), (4, "offset", "f14.rec1.defaultUVSOffset"), (4, "offset", "f14.rec1.nonDefaultUVSOffset")]);
                    }
                    self.sibs_rec(o + 10, 11, c, &[(0, 3), (3, 4), (7, 4)]);
                    // the first default / non-default UVS table: ranges sorted by start value, mappings by unicode value
                    if let Some(du) = self.u32(o + 13).filter(|v| *v != 0) {
                        let t = o + du;
                        self.fs(t, &[(4, "count", "f14.defaultUVS.numRanges"), (3, "value", "f14.defaultUVS.range0.start"), (1, "count", "f14.defaultUVS.range0.additionalCount")]);
                        let c = self.u32(t).unwrap_or(0);
                        if c > 1 {
                            self.fs(t + 8, &[(3, "value", "f14.defaultUVS.range1.start"), (1, "count", "f14.defaultUVS.range1.additionalCount")]);
                        }
                        self.sibs_rec(t + 4, 4, c, &[(0, 3), (3, 1)]);
                    }
                    if let Some(nu) = self.u32(o + 17).filter(|v| *v != 0) {
                        let t = o + nu;
                        self.fs(t, &[(4, "count", "f14.nonDefaultUVS.numMappings"), (3, "value", "f14.nonDefaultUVS.map0.unicode"), (2, "index", "f14.nonDefaultUVS.map0.glyph")]);
                        let c = self.u32(t).unwrap_or(0);
                        if c > 1 {
                            self.fs(t + 9, &[(3, "value", "f14.nonDefaultUVS.map1.unicode"), (2, "index", "f14.nonDefaultUVS.map1.glyph")]);
                        }
                        self.sibs_rec(t + 4, 5, c, &[(0, 3), (3, 2)]);
                    }
                }
                _ => {}
            }
        }
    }
    fn name(&mut self) {
        self.fs(0, &[(2, "version", "format"), (2, "count", "count"), (2, "offset", "stringOffset")]);
        let n = self.u16(2).unwrap_or(0);
        // format 0: the records run up to the string storage; the storage starts where the records end
        if self.u16(0) == Some(0) {
            if let Some(so) = self.u16(4).filter(|x| *x >= 6) {
                self.der(2, (so - 6) / 12);
            }
            self.der(4, 6 + 12 * n);
        }
        for (k, kn) in [(0usize, "0"), (1, "1"), (n / 2, "mid"), (n.saturating_sub(1), "last")] {
            if k < n {
                self.fs(6 + 12 * k, &[(2, "value", &format!("rec[{}].platformID", kn)), (2, "value", &format!("rec[{}].encodingID", kn)), (2, "value", &format!("rec[{}].languageID", kn)), (2, "index", &format!("rec[{}].nameID", kn)), (2, "length", &format!("rec[{}].length", kn)), (2, "offset", &format!("rec[{}].offset", kn))]);
            }
        }
        self.sibs_rec(6, 12, n, &[(0, 2), (2, 2), (4, 2), (6, 2), (8, 2), (10, 2)]);
        if self.u16(0) == Some(1) {
            self.fs(6 + 12 * n, &[(2, "count", "langTagCount"), (2, "length", "langTag0.length"), (2, "offset", "langTag0.offset")]);
            let c = self.u16(6 + 12 * n).unwrap_or(0);
            if c > 1 {
                self.fs(12 + 12 * n, &[(2, "length", "langTag1.length"), (2, "offset", "langTag1.offset")]);
            }
            self.sibs_rec(8 + 12 * n, 4, c, &[(0, 2), (2, 2)]);
        }
    }
    fn post(&mut self) {
        self.fs(0, &[(4, "version", "version"), (4, "value", "italicAngle"), (2, "value", "underlinePosition"), (2, "value", "underlineThickness"), (4, "value", "isFixedPitch"), (4, "value", "minMemType42"), (4, "value", "maxMemType42"), (4, "value", "minMemType1"), (4, "value", "maxMemType1")]);
        if self.u32(0) == Some(0x20000) {
            self.f(32, 2, "count", "numGlyphs");
            let n = self.u16(32).unwrap_or(0);
            let mut maxi = 0;
            for k in 0..n {
                maxi = maxi.max(self.u16(34 + 2 * k).unwrap_or(0));
            }
            for (k, kn) in [(0usize, "0"), (1, "1"), (n / 2, "mid"), (n.saturating_sub(1), "last")] {
                if k < n {
                    self.f(34 + 2 * k, 2, "index", &format!("glyphNameIndex[{}]", kn));
                }
            }
            self.sibs(34, 2, n, 0, 2);
            let mut p = 34 + 2 * n;
            let mut k = 0;
            while let Some(l) = self.u8(p) {
                if k < 2 || (maxi >= 258 && k == maxi - 258) {
                    self.f(p, 1, "length", &format!("name[{}].length", k));
                }
                p += 1 + l;
                k += 1;
                if k > 70000 {
                    break;
                }
            }
        }
    }
    fn os2(&mut self) {
        let names = ["version", "xAvgCharWidth", "usWeightClass", "usWidthClass", "fsType", "ySubscriptXSize", "ySubscriptYSize", "ySubscriptXOffset", "ySubscriptYOffset", "ySuperscriptXSize", "ySuperscriptYSize", "ySuperscriptXOffset", "ySuperscriptYOffset", "yStrikeoutSize", "yStrikeoutPosition", "sFamilyClass"];
        let mut p = 0;
        for (k, nm) in names.iter().enumerate() {
            self.f(p, 2, if k == 0 { "version" } else { "value" }, nm);
            p += 2;
        }
        self.f(32, 1, "value", "panose[0]");
        self.fs(42, &[(4, "value", "ulUnicodeRange1"), (4, "value", "ulUnicodeRange2"), (4, "value", "ulUnicodeRange3"), (4, "value", "ulUnicodeRange4"), (4, "value", "achVendID"), (2, "value", "fsSelection"), (2, "value", "usFirstCharIndex"), (2, "value", "usLastCharIndex"), (2, "value", "sTypoAscender"), (2, "value", "sTypoDescender"), (2, "value", "sTypoLineGap"), (2, "value", "usWinAscent"), (2, "value", "usWinDescent"), (4, "value", "ulCodePageRange1"), (4, "value", "ulCodePageRange2"), (2, "value", "sxHeight"), (2, "value", "sCapHeight"), (2, "value", "usDefaultChar"), (2, "value", "usBreakChar"), (2, "value", "usMaxContext"), (2, "value", "usLowerOpticalPointSize"), (2, "value", "usUpperOpticalPointSize")]);
    }
    fn kern(&mut self) {
        self.fs(0, &[(2, "version", "version"), (2, "count", "nTables")]);
        let mut p = 4usize;
        for t in 0..self.u16(2).unwrap_or(0).min(3) {
            self.fs(p, &[(2, "version", &format!("sub[{}].version", t)), (2, "length", &format!("sub[{}].length", t)), (2, "version", &format!("sub[{}].coverage", t))]);
            let cov = self.u16(p + 4).unwrap_or(0);
            if cov >> 8 == 0 {
                self.fs(p + 6, &[(2, "count", "f0.nPairs"), (2, "value", "f0.searchRange"), (2, "value", "f0.entrySelector"), (2, "value", "f0.rangeShift"), (2, "index", "f0.pair0.left"), (2, "index", "f0.pair0.right"), (2, "value", "f0.pair0.value")]);
                let np = self.u16(p + 6).unwrap_or(0);
                // sub-table length and nPairs imply each other
                self.der(p + 2, 14 + 6 * np);
                if let Some(l) = self.u16(p + 2).filter(|l| *l >= 14) {
                    self.der(p + 6, (l - 14) / 6);
                }
                if np > 1 {
                    self.fs(p + 20, &[(2, "index", "f0.pair1.left"), (2, "index", "f0.pair1.right"), (2, "value", "f0.pair1.value")]);
                }
                if np > 2 {
                    self.fs(p + 14 + 6 * (np - 1), &[(2, "index", "f0.pairLast.left"), (2, "index", "f0.pairLast.right"), (2, "value", "f0.pairLast.value")]);
                }
                // pairs sorted by (left, right)
                self.sibs_rec(p + 14, 6, np, &[(0, 2), (2, 2), (4, 2)]);
            } else if cov >> 8 == 2 {
                self.fs(p + 6, &[(2, "length", "f2.rowWidth"), (2, "offset", "f2.leftClassOffset"), (2, "offset", "f2.rightClassOffset"), (2, "offset", "f2.kerningArrayOffset")]);
                for (nm, at) in [("left", p + 8), ("right", p + 10)] {
                    if let Some(o) = self.u16(at) {
                        self.fs(p + o, &[(2, "index", &format!("f2.{}.firstGlyph", nm)), (2, "count", &format!("f2.{}.nGlyphs", nm)), (2, "offset", &format!("f2.{}.class[0]", nm))]);
                        let c = self.u16(p + o + 2).unwrap_or(0);
                        if c > 1 {
                            self.f(p + o + 6, 2, "offset", &format!("f2.{}.class[1]", nm));
                        }
                        self.sibs(p + o + 4, 2, c, 0, 2);
                    }
                }
            }
            let l = self.u16(p + 2).unwrap_or(0);
            if l == 0 {
                break;
            }
            p += l;
        }
    }
    fn fvar(&mut self) {
        self.fs(0, &[(2, "version", "majorVersion"), (2, "version", "minorVersion"), (2, "offset", "axesArrayOffset"), (2, "value", "reserved"), (2, "count", "axisCount"), (2, "length", "axisSize"), (2, "count", "instanceCount"), (2, "length", "instanceSize")]);
        // the record sizes the format prescribes: an axis record has 20 bytes, an instance 4 + 4 per axis (+ 2)
        self.der(10, 20);
        if let (Some(ac), Some(isz)) = (self.u16(8), self.u16(14)) {
            self.der(14, 4 + 4 * ac + if isz == 6 + 4 * ac { 2 } else { 0 });
            if isz >= 8 {
                self.der(8, (isz - 4) / 4);
            }
        }
        let (o, n, sz) = (self.u16(4).unwrap_or(16), self.u16(8).unwrap_or(0), self.u16(10).unwrap_or(20));
        for k in 0..n.min(8) {
            self.fs(o + sz * k, &[(4, "index", &format!("axis[{}].tag", k)), (4, "value", &format!("axis[{}].minValue", k)), (4, "value", &format!("axis[{}].defaultValue", k)), (4, "value", &format!("axis[{}].maxValue", k)), (2, "value", &format!("axis[{}].flags", k)), (2, "index", &format!("axis[{}].nameID", k))]);
            // minimum <= default <= maximum: three like values in a row
            self.sibs(o + sz * k + 4, 4, 3, 0, 4);
        }
        self.sibs_rec(o, sz, n, &[(0, 4), (16, 2), (18, 2)]);
        let io = o + sz * n;
        let (ni, isz) = (self.u16(12).unwrap_or(0), self.u16(14).unwrap_or(0));
        for (k, kn) in [(0usize, "0"), (ni.saturating_sub(1), "last")] {
            if k < ni && (k == 0 || ni > 1) {
                let p = io + isz * k;
                self.fs(p, &[(2, "index", &format!("instance[{}].subfamilyNameID", kn)), (2, "value", &format!("instance[{}].flags", kn))]);
                for a in 0..n.min(4) {
                    self.f(p + 4 + 4 * a, 4, "value", &format!("instance[{}].coord{}", kn, a));
                }
                if isz >= 4 + 4 * n + 2 {
                    self.f(p + 4 + 4 * n, 2, "index", &format!("instance[{}].postScriptNameID", kn));
                }
            }
        }
        // the same coordinate / name id of consecutive instances
        self.sibs(io, isz, ni, 0, 2);
        for a in 0..n.min(4) {
            self.sibs(io, isz, ni, 4 + 4 * a, 4);
        }
        if isz >= 4 + 4 * n + 2 {
            self.sibs(io, isz, ni, 4 + 4 * n, 2);
        }
    }
    fn avar(&mut self) {
        self.fs(0, &[(2, "version", "majorVersion"), (2, "version", "minorVersion"), (2, "value", "reserved"), (2, "count", "axisCount")]);
        let n = self.u16(6).unwrap_or(0);
        let mut p = 8usize;
        for a in 0..n.min(8) {
            let c = match self.u16(p) {
                Some(c) => c,
                None => break,
            };
            self.f(p, 2, "count", &format!("seg[{}].positionMapCount", a));
            for (k, kn) in [(0usize, "0"), (1, "1"), (2, "2"), (c / 2, "mid"), (c.saturating_sub(2), "last-1"), (c.saturating_sub(1), "last")] {
                if k < c {
                    self.fs(p + 2 + 4 * k, &[(2, "value", &format!("seg[{}].map[{}].from", a, kn)), (2, "value", &format!("seg[{}].map[{}].to", a, kn))]);
                }
            }
            // axis value maps sorted by fromCoordinate (and monotone in toCoordinate)
            self.sibs_rec(p + 2, 4, c, &[(0, 2), (2, 2)]);
            p += 2 + 4 * c;
        }
    }
    /// packed point numbers at `p` (TupleVariationStore); returns the position after them
    fn packed_points(&mut self, p: usize, nm: &str) -> usize {
        let b0 = match self.u8(p) {
            Some(b) => b,
            None => return p,
        };
        let (count, mut q) = if b0 & 0x80 != 0 { (((b0 & 0x7f) << 8) | self.u8(p + 1).unwrap_or(0), p + 2) } else { (b0, p + 1) };
        self.f(p, (q - p) as u8, "count", &format!("{}.pointCount", nm));
        let (mut read, mut runs) = (0usize, 0usize);
        while read < count {
            let c = match self.u8(q) {
                Some(c) => c,
                None => return q,
            };
            let ew = if c & 0x80 != 0 { 2 } else { 1 };
            let rc = (c & 0x7f) + 1;
            if runs < 6 {
                self.f(q, 1, "count", &format!("{}.pointRun[{}].control", nm, runs));
                self.f(q + 1, ew as u8, "index", &format!("{}.pointRun[{}].first", nm, runs));
            }
            q += 1 + rc * ew;
            read += rc;
            runs += 1;
        }
        q
    }
    /// packed deltas in [p, end): every run control byte (first six runs) and the first delta of the run
    fn packed_deltas(&mut self, p: usize, end: usize, nm: &str) {
        let (mut q, mut runs) = (p, 0usize);
        while q < end && runs < 4096 {
            let c = match self.u8(q) {
                Some(c) => c,
                None => return,
            };
            let rc = (c & 0x3f) + 1;
            let ew = if c & 0x80 != 0 { 0 } else if c & 0x40 != 0 { 2 } else { 1 };
            if runs < 6 {
                self.f(q, 1, "count", &format!("{}.deltaRun[{}].control", nm, runs));
                if ew > 0 {
                    self.f(q + 1, ew as u8, "value", &format!("{}.deltaRun[{}].first", nm, runs));
                }
            }
            q += 1 + rc * ew;
            runs += 1;
        }
    }
    /// TupleVariationStore (gvar glyph variation data, cvar): tupleVariationCount at `cp`, dataOffset
    /// after it, tuple variation headers at `hp`, serialized data at `base` + dataOffset
    fn tuple_store(&mut self, cp: usize, hp: usize, base: usize, axis_count: usize, nm: &str) {
        let tvc = match self.u16(cp) {
            Some(v) => v,
            None => return,
        };
        self.f(cp, 2, "count", &format!("{}.tupleVariationCount", nm));
        // its high byte holds the flags (SHARED_POINT_NUMBERS, reserved bits): a field of its own for the bit classes
        self.f(cp, 1, "version", &format!("{}.tupleVariationCount.flags", nm));
        self.f(cp + 2, 2, "offset", &format!("{}.dataOffset", nm));
        let doff = self.u16(cp + 2).unwrap_or(0);
        let n = tvc & 0x0fff;
        let mut hp = hp;
        let mut sizes: Vec<(usize, bool)> = Vec::new();
        for t in 0..n.min(8) {
            let (size, ti) = match (self.u16(hp), self.u16(hp + 2)) {
                (Some(a), Some(b)) => (a, b),
                _ => break,
            };
            self.f(hp, 2, "length", &format!("{}.hdr[{}].variationDataSize", nm, t));
            self.f(hp + 2, 2, "index", &format!("{}.hdr[{}].tupleIndex", nm, t));
            // EMBEDDED_PEAK_TUPLE, INTERMEDIATE_REGION, PRIVATE_POINT_NUMBERS live in the high byte
            self.f(hp + 2, 1, "version", &format!("{}.hdr[{}].tupleIndex.flags", nm, t));
            let mut q = hp + 4;
            if ti & 0x8000 != 0 {
                self.f(q, 2, "value", &format!("{}.hdr[{}].peak0", nm, t));
                if axis_count > 1 {
                    self.f(q + 2 * (axis_count - 1), 2, "value", &format!("{}.hdr[{}].peakLast", nm, t));
                }
                if ti & 0x4000 != 0 {
                    // peak, intermediate start, intermediate end of one axis: start <= peak <= end
                    self.sibs(q, 2 * axis_count, 3, 0, 2);
                }
                q += 2 * axis_count;
            }
            if ti & 0x4000 != 0 {
                self.f(q, 2, "value", &format!("{}.hdr[{}].start0", nm, t));
                self.f(q + 2 * axis_count, 2, "value", &format!("{}.hdr[{}].end0", nm, t));
                self.sibs(q, 2 * axis_count, 2, 0, 2);
                q += 4 * axis_count;
            }
            sizes.push((size, ti & 0x2000 != 0));
            hp = q;
        }
        let mut dp = base + doff;
        if tvc & 0x8000 != 0 {
            dp = self.packed_points(dp, &format!("{}.shared", nm));
        }
        for (t, (size, private)) in sizes.iter().enumerate().take(4) {
            let end = dp + size;
            let mut q = dp;
            if *private {
                q = self.packed_points(q, &format!("{}.tuple[{}]", nm, t));
            }
            self.packed_deltas(q, end, &format!("{}.tuple[{}]", nm, t));
            dp = end;
        }
    }
    fn gvar(&mut self) {
        self.fs(0, &[(2, "version", "majorVersion"), (2, "version", "minorVersion"), (2, "count", "axisCount"), (2, "count", "sharedTupleCount"), (4, "offset", "sharedTuplesOffset"), (2, "count", "glyphCount"), (2, "version", "flags"), (4, "offset", "glyphVariationDataArrayOffset")]);
        let axes = self.u16(4).unwrap_or(0);
        let n = self.u16(12).unwrap_or(0);
        let long = self.u16(14).unwrap_or(0) & 1 == 1;
        let w = if long { 4 } else { 2 };
        for (k, kn) in [(0usize, "0"), (1, "1"), (2, "2"), (n / 2, "mid"), (n.saturating_sub(1), "n-1"), (n, "n")] {
            if k <= n {
                self.f(20 + w * k, w as u8, "offset", &format!("offset[{}]", kn));
            }
        }
        if let Some(so) = self.u32(8) {
            let nt = self.u16(6).unwrap_or(0);
            for (k, kn) in [(0usize, "0"), (nt.saturating_sub(1), "last")] {
                if k < nt && (k == 0 || nt > 1) {
                    self.f(so + 2 * axes * k, 2, "value", &format!("sharedTuple[{}].coord0", kn));
                    if axes > 1 {
                        self.f(so + 2 * axes * k + 2 * (axes - 1), 2, "value", &format!("sharedTuple[{}].coordLast", kn));
                    }
                }
            }
        }
        // variation data of the first four glyphs that have some, and of the last one
        let base = self.u32(16).unwrap_or(0);
        let range = |w_: &Walk, g: usize| -> Option<(usize, usize)> {
            match (w_.un(20 + w * g, w), w_.un(20 + w * (g + 1), w)) {
                (Some(a), Some(b)) if b > a => Some(if long { (a, b) } else { (2 * a, 2 * b) }),
                _ => None,
            }
        };
        let mut chosen: Vec<usize> = Vec::new();
        for g in 0..n.min(4096) {
            if range(self, g).is_some() {
                chosen.push(g);
                if chosen.len() >= 4 {
                    break;
                }
            }
        }
        if let Some(g) = (0..n.min(65536)).rev().find(|&g| range(self, g).is_some()) {
            if !chosen.contains(&g) {
                chosen.push(g);
            }
        }
        for g in chosen {
            if let Some((a, _)) = range(self, g) {
                let p = base + a;
                self.f(20 + w * g, w as u8, "offset", &format!("offset[gvd{}]", g));
                self.tuple_store(p, p + 4, p, axes, &format!("gvd[{}]", g));
            }
        }
        // glyph variation data offsets: non-decreasing; shared tuples: the same axis of consecutive tuples
        self.sibs(20, w, n + 1, 0, w as u8);
        if let Some(so) = self.u32(8) {
            let nt = self.u16(6).unwrap_or(0);
            self.sibs(so, 2 * axes, nt, 0, 2);
            if axes > 1 {
                self.sibs(so, 2 * axes, nt, 2 * (axes - 1), 2);
            }
        }
    }
    fn cvar(&mut self, axes: usize) {
        self.fs(0, &[(2, "version", "majorVersion"), (2, "version", "minorVersion")]);
        self.tuple_store(4, 8, 0, axes, "cvar");
    }
    /// ItemVariationStore at `o`: header, every ItemVariationData sub-table (first sixteen) with all
    /// its counts and region indexes, the region list.  Returns regionIndexCount per sub-table.
    fn ivs(&mut self, o: usize, nm: &str) -> Vec<usize> {
        let mut out = Vec::new();
        self.fs(o, &[(2, "version", &format!("{}.format", nm)), (4, "offset", &format!("{}.variationRegionListOffset", nm)), (2, "count", &format!("{}.itemVariationDataCount", nm))]);
        if let Some(r) = self.u32(o + 2) {
            self.fs(o + r, &[(2, "count", &format!("{}.regions.axisCount", nm)), (2, "count", &format!("{}.regions.regionCount", nm))]);
            let (ac, rc) = (self.u16(o + r).unwrap_or(0), self.u16(o + r + 2).unwrap_or(0));
            for (k, kn) in [(0usize, "0"), (rc / 2, "mid"), (rc.saturating_sub(1), "last")] {
                if k < rc {
                    for a in 0..ac.min(4) {
                        let p = o + r + 4 + 6 * (ac * k + a);
                        self.fs(p, &[(2, "value", &format!("{}.region[{}].axis{}.start", nm, kn, a)), (2, "value", &format!("{}.region[{}].axis{}.peak", nm, kn, a)), (2, "value", &format!("{}.region[{}].axis{}.end", nm, kn, a))]);
                        // start <= peak <= end
                        self.sibs(p, 2, 3, 0, 2);
                    }
                }
            }
        }
        let n = self.u16(o + 6).unwrap_or(0);
        for k in 0..n.min(16) {
            self.f(o + 8 + 4 * k, 4, "offset", &format!("{}.itemVariationDataOffset[{}]", nm, k));
            let dv = match self.u32(o + 8 + 4 * k) {
                Some(v) => o + v,
                None => break,
            };
            let dn = format!("{}.data[{}]", nm, k);
            self.fs(dv, &[(2, "count", &format!("{}.itemCount", dn)), (2, "count", &format!("{}.wordDeltaCount", dn)), (2, "count", &format!("{}.regionIndexCount", dn))]);
            let (ic, wc, rc) = (self.u16(dv).unwrap_or(0), self.u16(dv + 2).unwrap_or(0), self.u16(dv + 4).unwrap_or(0));
            out.push(rc);
            // itemCount / wordDeltaCount / regionIndexCount: three counts in a row
            self.sibs(dv, 2, 3, 0, 2);
            for j in 0..rc.min(8) {
                self.f(dv + 6 + 2 * j, 2, "index", &format!("{}.regionIndex[{}]", dn, j));
            }
            self.sibs(dv + 6, 2, rc, 0, 2);
            let long = wc & 0x8000 != 0;
            let row = ((wc & 0x7fff) + rc) * if long { 2 } else { 1 };
            let rows = dv + 6 + 2 * rc;
            if ic > 0 && row > 0 {
                self.f(rows, 1, "value", &format!("{}.row0.byte0", dn));
                self.f(rows + row * ic - 1, 1, "value", &format!("{}.rowLast.byteLast", dn));
            }
        }
        self.sibs(o + 8, 4, n, 0, 4);
        out
    }
    fn dsim(&mut self, o: usize, nm: &str) {
        if o == 0 {
            return;
        }
        let fmt = self.u8(o).unwrap_or(0);
        let cw = if fmt == 1 { 4 } else { 2 };
        self.fs(o, &[(1, "version", &format!("{}.format", nm)), (1, "version", &format!("{}.entryFormat", nm)), (cw, "count", &format!("{}.mapCount", nm))]);
        let ef = self.u8(o + 1).unwrap_or(0);
        let es = ((ef & 0x30) >> 4) + 1;
        let n = self.un(o + 2, cw as usize).unwrap_or(0);
        for (k, kn) in [(0usize, "0"), (1, "1"), (n / 2, "mid"), (n.saturating_sub(1), "last")] {
            if k < n {
                self.f(o + 2 + cw as usize + es * k, es as u8, "index", &format!("{}.mapData[{}]", nm, kn));
            }
        }
        self.sibs(o + 2 + cw as usize, es, n, 0, es as u8);
    }
    fn hvar(&mut self, vvar: bool) {
        self.fs(0, &[(2, "version", "majorVersion"), (2, "version", "minorVersion"), (4, "offset", "itemVariationStoreOffset"), (4, "offset", "advanceMappingOffset"), (4, "offset", if vvar { "tsbMappingOffset" } else { "lsbMappingOffset" }), (4, "offset", if vvar { "bsbMappingOffset" } else { "rsbMappingOffset" })]);
        if vvar {
            self.f(20, 4, "offset", "vOrgMappingOffset");
        }
        self.sibs(4, 4, if vvar { 5 } else { 4 }, 0, 4);
        if let Some(o) = self.u32(4) {
            self.ivs(o, "ivs");
        }
        for (k, nm) in ["advMap", "lsbMap", "rsbMap", "vOrgMap"].iter().enumerate().take(if vvar { 4 } else { 3 }) {
            if let Some(o) = self.u32(8 + 4 * k) {
                self.dsim(o, nm);
            }
        }
    }
    fn mvar(&mut self) {
        self.fs(0, &[(2, "version", "majorVersion"), (2, "version", "minorVersion"), (2, "value", "reserved"), (2, "length", "valueRecordSize"), (2, "count", "valueRecordCount"), (2, "offset", "itemVariationStoreOffset")]);
        let (sz, n) = (self.u16(6).unwrap_or(8), self.u16(8).unwrap_or(0));
        self.der(6, 8);
        // the records run up to the ItemVariationStore in the files font tools write
        if let Some(o) = self.u16(10).filter(|o| *o >= 12 && sz > 0) {
            self.der(8, (o - 12) / sz);
        }
        for (k, kn) in [(0usize, "0"), (1, "1"), (n / 2, "mid"), (n.saturating_sub(1), "last")] {
            if k < n {
                self.fs(12 + sz * k, &[(4, "index", &format!("rec[{}].valueTag", kn)), (2, "index", &format!("rec[{}].deltaSetOuterIndex", kn)), (2, "index", &format!("rec[{}].deltaSetInnerIndex", kn))]);
            }
        }
        // value records sorted by tag (binary search)
        self.sibs_rec(12, sz, n, &[(0, 4), (4, 2), (6, 2)]);
        if let Some(o) = self.u16(10) {
            self.ivs(o, "ivs");
        }
    }
    fn stat(&mut self) {
        self.fs(0, &[(2, "version", "majorVersion"), (2, "version", "minorVersion"), (2, "length", "designAxisSize"), (2, "count", "designAxisCount"), (4, "offset", "designAxesOffset"), (2, "count", "axisValueCount"), (4, "offset", "offsetToAxisValueOffsets"), (2, "index", "elidedFallbackNameID")]);
        let (asz, an) = (self.u16(4).unwrap_or(8), self.u16(6).unwrap_or(0));
        self.der(4, 8);
        if let Some(o) = self.u32(8) {
            for k in 0..an.min(8) {
                self.fs(o + asz * k, &[(4, "index", &format!("axis[{}].tag", k)), (2, "index", &format!("axis[{}].nameID", k)), (2, "value", &format!("axis[{}].ordering", k))]);
            }
            self.sibs_rec(o, asz, an, &[(0, 4), (4, 2), (6, 2)]);
        }
        let vn = self.u16(12).unwrap_or(0);
        if let Some(o) = self.u32(14) {
            for k in 0..vn.min(16) {
                self.f(o + 2 * k, 2, "offset", &format!("axisValueOffset[{}]", k));
                let p = match self.u16(o + 2 * k) {
                    Some(v) => o + v,
                    None => break,
                };
                let nm = format!("axisValue[{}]", k);
                let fmt = self.u16(p).unwrap_or(0);
                self.f(p, 2, "version", &format!("{}.format", nm));
                if fmt == 4 {
                    self.fs(p + 2, &[(2, "count", &format!("{}.axisCount", nm)), (2, "value", &format!("{}.flags", nm)), (2, "index", &format!("{}.valueNameID", nm))]);
                    let c = self.u16(p + 2).unwrap_or(0);
                    for j in 0..c.min(4) {
                        self.fs(p + 8 + 6 * j, &[(2, "index", &format!("{}.rec{}.axisIndex", nm, j)), (4, "value", &format!("{}.rec{}.value", nm, j))]);
                    }
                    self.sibs_rec(p + 8, 6, c, &[(0, 2), (2, 4)]);
                } else {
                    self.fs(p + 2, &[(2, "index", &format!("{}.axisIndex", nm)), (2, "value", &format!("{}.flags", nm)), (2, "index", &format!("{}.valueNameID", nm)), (4, "value", &format!("{}.value", nm))]);
                    if fmt == 2 {
                        self.fs(p + 12, &[(4, "value", &format!("{}.rangeMin", nm)), (4, "value", &format!("{}.rangeMax", nm))]);
                        // nominal value, range minimum, range maximum
                        self.sibs(p + 8, 4, 3, 0, 4);
                    } else if fmt == 3 {
                        self.f(p + 12, 4, "value", &format!("{}.linkedValue", nm));
                        self.sibs(p + 8, 4, 2, 0, 4);
                    }
                }
            }
            self.sibs(o, 2, vn, 0, 2);
        }
    }
    /// SequenceLookupRecords of a (chained) sequence context sub-table at `sp` of lookup `li`:
    /// lookupListIndex := li makes the lookup apply itself
    fn seq_lookup_records(&mut self, p: usize, n: usize, li: usize, nm: &str) {
        for k in 0..n.min(4) {
            self.f(p + 4 * k, 2, "index", &format!("{}.rec{}.sequenceIndex", nm, k));
            self.fr(p + 4 * k + 2, 2, "index", &format!("{}.rec{}.lookupListIndex", nm, k), li as i64, -1);
        }
        self.sibs_rec(p, 4, n, &[(0, 2), (2, 2)]);
    }
    /// Coverage table at `o`: glyph ids (format 1) or range records (format 2), both sorted by glyph id
    fn coverage(&mut self, o: usize, nm: &str) {
        let fmt = self.u16(o).unwrap_or(0);
        if o == 0 || !(1..=2).contains(&fmt) {
            return;
        }
        self.fs(o, &[(2, "version", &format!("{}.format", nm)), (2, "count", &format!("{}.count", nm))]);
        let n = self.u16(o + 2).unwrap_or(0);
        for (k, kn) in [(0usize, "0"), (1, "1"), (n / 2, "mid"), (n.saturating_sub(1), "last")] {
            if k >= n {
                continue;
            }
            if fmt == 1 {
                self.f(o + 4 + 2 * k, 2, "index", &format!("{}.glyph[{}]", nm, kn));
            } else {
                self.fs(o + 4 + 6 * k, &[(2, "index", &format!("{}.range[{}].start", nm, kn)), (2, "index", &format!("{}.range[{}].end", nm, kn)), (2, "value", &format!("{}.range[{}].startCoverageIndex", nm, kn))]);
            }
        }
        if fmt == 1 {
            self.sibs(o + 4, 2, n, 0, 2);
        } else {
            self.sibs_rec(o + 4, 6, n, &[(0, 2), (2, 2), (4, 2)]);
        }
    }
    /// ClassDef table at `o`: class values of a glyph range (format 1) or class range records sorted by glyph id (format 2)
    fn class_def(&mut self, o: usize, nm: &str) {
        let fmt = self.u16(o).unwrap_or(0);
        if o == 0 || !(1..=2).contains(&fmt) {
            return;
        }
        self.f(o, 2, "version", &format!("{}.format", nm));
        if fmt == 1 {
            self.fs(o + 2, &[(2, "index", &format!("{}.startGlyph", nm)), (2, "count", &format!("{}.glyphCount", nm))]);
            let n = self.u16(o + 4).unwrap_or(0);
            for (k, kn) in [(0usize, "0"), (1, "1"), (n.saturating_sub(1), "last")] {
                if k < n {
                    self.f(o + 6 + 2 * k, 2, "value", &format!("{}.classValue[{}]", nm, kn));
                }
            }
            self.sibs(o + 6, 2, n, 0, 2);
        } else {
            self.f(o + 2, 2, "count", &format!("{}.classRangeCount", nm));
            let n = self.u16(o + 2).unwrap_or(0);
            for (k, kn) in [(0usize, "0"), (1, "1"), (n / 2, "mid"), (n.saturating_sub(1), "last")] {
                if k < n {
                    self.fs(o + 4 + 6 * k, &[(2, "index", &format!("{}.range[{}].start", nm, kn)), (2, "index", &format!("{}.range[{}].end", nm, kn)), (2, "value", &format!("{}.range[{}].class", nm, kn))]);
                }
            }
            self.sibs_rec(o + 4, 6, n, &[(0, 2), (2, 2), (4, 2)]);
        }
    }
    /// a rule of format 1 / 2 at `rp`
    fn ctx_rule(&mut self, rp: usize, chain: bool, li: usize, nm: &str) {
        if !chain {
            self.fs(rp, &[(2, "count", &format!("{}.glyphCount", nm)), (2, "count", &format!("{}.seqLookupCount", nm))]);
            let (g, n) = (self.u16(rp).unwrap_or(0), self.u16(rp + 2).unwrap_or(0));
            self.seq_lookup_records(rp + 4 + 2 * g.saturating_sub(1), n, li, nm);
        } else {
            let mut p = rp;
            for (k, part) in ["backtrack", "input", "lookahead"].iter().enumerate() {
                self.f(p, 2, "count", &format!("{}.{}Count", nm, part));
                let c = self.u16(p).unwrap_or(0);
                p += 2 + 2 * if k == 1 { c.saturating_sub(1) } else { c };
            }
            self.f(p, 2, "count", &format!("{}.seqLookupCount", nm));
            let n = self.u16(p).unwrap_or(0);
            self.seq_lookup_records(p + 2, n, li, nm);
        }
    }
    fn ctx_subtable(&mut self, sp: usize, chain: bool, li: usize, nm: &str) {
        let fmt = self.u16(sp).unwrap_or(0);
        self.f(sp, 2, "version", &format!("{}.format", nm));
        match fmt {
            1 | 2 => {
                self.f(sp + 2, 2, "offset", &format!("{}.coverageOffset", nm));
                if let Some(co) = self.u16(sp + 2) {
                    self.coverage(sp + co, &format!("{}.coverage", nm));
                }
                let mut p = sp + 4;
                if fmt == 2 {
                    for c in 0..(if chain { 3 } else { 1 }) {
                        self.f(p, 2, "offset", &format!("{}.classDefOffset{}", nm, c));
                        if let Some(co) = self.u16(p).filter(|v| *v != 0 && c < 2) {
                            self.class_def(sp + co, &format!("{}.classDef{}", nm, c));
                        }
                        p += 2;
                    }
                }
                self.f(p, 2, "count", &format!("{}.ruleSetCount", nm));
                let n = self.u16(p).unwrap_or(0);
                let mut done = 0;
                for k in 0..n.min(64) {
                    let rs = match self.u16(p + 2 + 2 * k) {
                        Some(0) | None => continue,
                        Some(v) => sp + v,
                    };
                    self.f(p + 2 + 2 * k, 2, "offset", &format!("{}.ruleSetOffset[{}]", nm, k));
                    self.f(rs, 2, "count", &format!("{}.ruleSet[{}].ruleCount", nm, k));
                    if let Some(ro) = self.u16(rs + 2) {
                        self.f(rs + 2, 2, "offset", &format!("{}.ruleSet[{}].ruleOffset[0]", nm, k));
                        self.ctx_rule(rs + ro, chain, li, &format!("{}.ruleSet[{}].rule0", nm, k));
                    }
                    done += 1;
                    if done >= 2 {
                        break;
                    }
                }
                self.sibs(p + 2, 2, n, 0, 2);
            }
            3 => {
                let mut p = sp + 2;
                if !chain {
                    self.fs(p, &[(2, "count", &format!("{}.glyphCount", nm)), (2, "count", &format!("{}.seqLookupCount", nm))]);
                    let (g, n) = (self.u16(p).unwrap_or(0), self.u16(p + 2).unwrap_or(0));
                    self.f(p + 4, 2, "offset", &format!("{}.coverageOffset[0]", nm));
                    self.seq_lookup_records(p + 4 + 2 * g, n, li, nm);
                } else {
                    for part in ["backtrack", "input", "lookahead"] {
                        self.f(p, 2, "count", &format!("{}.{}Count", nm, part));
                        let c = self.u16(p).unwrap_or(0);
                        if c > 0 {
                            self.f(p + 2, 2, "offset", &format!("{}.{}Coverage[0]", nm, part));
                        }
                        p += 2 + 2 * c;
                    }
                    self.f(p, 2, "count", &format!("{}.seqLookupCount", nm));
                    let n = self.u16(p).unwrap_or(0);
                    self.seq_lookup_records(p + 2, n, li, nm);
                }
            }
            _ => {}
        }
    }
    /// contextual lookups (GSUB 5 / 6, GPOS 7 / 8, also behind an extension sub-table): the first four found
    fn ctx_lookups(&mut self, lo: usize, gpos: bool) {
        let n = self.u16(lo).unwrap_or(0);
        let (ctx, chain, ext) = if gpos { (7, 8, 9) } else { (5, 6, 7) };
        let mut found = 0;
        for li in 0..n.min(512) {
            let lp = match self.u16(lo + 2 + 2 * li) {
                Some(l) => lo + l,
                None => break,
            };
            let (ty, sc) = match (self.u16(lp), self.u16(lp + 4)) {
                (Some(t), Some(c)) if c > 0 => (t, c),
                _ => continue,
            };
            if ty != ctx && ty != chain && ty != ext {
                continue;
            }
            let mut sp = match self.u16(lp + 6) {
                Some(o) => lp + o,
                None => continue,
            };
            let mut real = ty;
            let nm = format!("lookup[{}].ctx", li);
            if ty == ext {
                real = self.u16(sp + 2).unwrap_or(0);
                if real != ctx && real != chain {
                    continue;
                }
                // extension sub-table: its offset is relative to itself (self = 0 = an extension of itself)
                self.fs(sp, &[(2, "version", &format!("{}.ext.format", nm)), (2, "version", &format!("{}.ext.lookupType", nm)), (4, "offset", &format!("{}.ext.offset", nm))]);
                sp += self.u32(sp + 4).unwrap_or(0);
            }
            let _ = sc;
            self.f(lo + 2 + 2 * li, 2, "offset", &format!("lookupOffset[{}]", li));
            self.fs(lp, &[(2, "version", &format!("lookup[{}].type", li)), (2, "version", &format!("lookup[{}].flag", li)), (2, "count", &format!("lookup[{}].subTableCount", li)), (2, "offset", &format!("lookup[{}].subTableOffset[0]", li))]);
            self.ctx_subtable(sp, real == chain, li, &nm);
            found += 1;
            if found >= 4 {
                break;
            }
        }
    }
    fn layout(&mut self) {
        self.fs(0, &[(2, "version", "majorVersion"), (2, "version", "minorVersion"), (2, "offset", "scriptListOffset"), (2, "offset", "featureListOffset"), (2, "offset", "lookupListOffset")]);
        if self.u16(2) == Some(1) {
            self.f(10, 4, "offset", "featureVariationsOffset");
        }
        if let Some(s) = self.u16(4) {
            self.fs(s, &[(2, "count", "scriptCount"), (4, "index", "script0.tag"), (2, "offset", "script0.offset")]);
            let sc = self.u16(s).unwrap_or(0);
            if sc > 1 {
                self.fs(s + 8, &[(4, "index", "script1.tag"), (2, "offset", "script1.offset")]);
            }
            // script records sorted by tag
            self.sibs_rec(s + 2, 6, sc, &[(0, 4), (4, 2)]);
            if let Some(so) = self.u16(s + 6) {
                self.fs(s + so, &[(2, "offset", "script0.defaultLangSys"), (2, "count", "script0.langSysCount")]);
                let lc = self.u16(s + so + 2).unwrap_or(0);
                for k in 0..lc.min(2) {
                    self.fs(s + so + 4 + 6 * k, &[(4, "index", &format!("script0.langSys{}.tag", k)), (2, "offset", &format!("script0.langSys{}.offset", k))]);
                }
                self.sibs_rec(s + so + 4, 6, lc, &[(0, 4), (4, 2)]);
                if let Some(dl) = self.u16(s + so) {
                    self.fs(s + so + dl, &[(2, "offset", "langSys.lookupOrder"), (2, "index", "langSys.requiredFeatureIndex"), (2, "count", "langSys.featureIndexCount"), (2, "index", "langSys.featureIndex[0]")]);
                    let fc = self.u16(s + so + dl + 4).unwrap_or(0);
                    if fc > 1 {
                        self.f(s + so + dl + 8, 2, "index", "langSys.featureIndex[1]");
                    }
                    self.sibs(s + so + dl + 6, 2, fc, 0, 2);
                }
            }
        }
        if let Some(fo) = self.u16(6) {
            self.fs(fo, &[(2, "count", "featureCount"), (4, "index", "feature0.tag"), (2, "offset", "feature0.offset")]);
            let fc = self.u16(fo).unwrap_or(0);
            if fc > 1 {
                self.fs(fo + 8, &[(4, "index", "feature1.tag"), (2, "offset", "feature1.offset")]);
            }
            self.sibs_rec(fo + 2, 6, fc, &[(0, 4), (4, 2)]);
            if let Some(f0) = self.u16(fo + 6) {
                self.fs(fo + f0, &[(2, "offset", "feature0.params"), (2, "count", "feature0.lookupIndexCount"), (2, "index", "feature0.lookupListIndex[0]")]);
                let lc = self.u16(fo + f0 + 2).unwrap_or(0);
                if lc > 1 {
                    self.f(fo + f0 + 6, 2, "index", "feature0.lookupListIndex[1]");
                }
                self.sibs(fo + f0 + 4, 2, lc, 0, 2);
            }
        }
        if let Some(lo) = self.u16(8) {
            let gpos = self.tbl == "GPOS";
            self.ctx_lookups(lo, gpos);
            self.f(lo, 2, "count", "lookupCount");
            let n = self.u16(lo).unwrap_or(0);
            for (k, kn) in [(0usize, "0"), (1, "1"), (n / 2, "mid"), (n.saturating_sub(1), "last")] {
                if k >= n {
                    continue;
                }
                self.f(lo + 2 + 2 * k, 2, "offset", &format!("lookupOffset[{}]", kn));
                if let Some(l) = self.u16(lo + 2 + 2 * k) {
                    let lp = lo + l;
                    self.fs(lp, &[(2, "version", &format!("lookup[{}].type", kn)), (2, "version", &format!("lookup[{}].flag", kn)), (2, "count", &format!("lookup[{}].subTableCount", kn)), (2, "offset", &format!("lookup[{}].subTableOffset[0]", kn))]);
                    if let Some(st) = self.u16(lp + 6) {
                        self.fs(lp + st, &[(2, "version", &format!("lookup[{}].sub0.format", kn)), (2, "offset", &format!("lookup[{}].sub0.word1", kn)), (2, "value", &format!("lookup[{}].sub0.word2", kn)), (2, "count", &format!("lookup[{}].sub0.word3", kn))]);
                        // the second word of a sub-table is its coverage offset, except in an extension sub-table
                        // and in the format 3 context sub-tables
                        let ty = self.u16(lp).unwrap_or(0);
                        let sf = self.u16(lp + st).unwrap_or(0);
                        let ext = if gpos { 9 } else { 7 };
                        let ctx3 = sf == 3 && (if gpos { ty == 7 || ty == 8 } else { ty == 5 || ty == 6 });
                        if ty != ext && !ctx3 {
                            if let Some(co) = self.u16(lp + st + 2).filter(|v| *v != 0) {
                                self.coverage(lp + st + co, &format!("lookup[{}].sub0.coverage", kn));
                            }
                        }
                    }
                    // the sub-table offsets of the lookup
                    let stc = self.u16(lp + 4).unwrap_or(0);
                    if stc > 1 {
                        self.f(lp + 8, 2, "offset", &format!("lookup[{}].subTableOffset[1]", kn));
                    }
                    self.sibs(lp + 6, 2, stc, 0, 2);
                }
            }
            self.sibs(lo + 2, 2, n, 0, 2);
        }
    }
    fn gdef(&mut self) {
        self.fs(0, &[(2, "version", "majorVersion"), (2, "version", "minorVersion"), (2, "offset", "glyphClassDefOffset"), (2, "offset", "attachListOffset"), (2, "offset", "ligCaretListOffset"), (2, "offset", "markAttachClassDefOffset")]);
        let minor = self.u16(2).unwrap_or(0);
        if minor >= 2 {
            self.f(12, 2, "offset", "markGlyphSetsDefOffset");
        }
        if minor >= 3 {
            self.f(14, 4, "offset", "itemVarStoreOffset");
        }
        if minor >= 3 {
            if let Some(o) = self.u32(14) {
                if o != 0 {
                    self.ivs(o, "ivs");
                }
            }
        }
        if let Some(c) = self.u16(4) {
            if c != 0 {
                self.fs(c, &[(2, "version", "classDef.format"), (2, "index", "classDef.word1"), (2, "count", "classDef.word2"), (2, "value", "classDef.word3")]);
                self.class_def(c, "classDef");
            }
        }
        if let Some(c) = self.u16(10).filter(|v| *v != 0) {
            self.class_def(c, "markAttachClassDef");
        }
        // AttachList / LigCaretList: coverage offset, count, offsets of the per-glyph tables
        for (at, nm) in [(6usize, "attachList"), (8, "ligCaretList")] {
            if let Some(l) = self.u16(at).filter(|v| *v != 0) {
                self.fs(l, &[(2, "offset", &format!("{}.coverageOffset", nm)), (2, "count", &format!("{}.count", nm)), (2, "offset", &format!("{}.offset[0]", nm))]);
                let n = self.u16(l + 2).unwrap_or(0);
                if n > 1 {
                    self.f(l + 6, 2, "offset", &format!("{}.offset[1]", nm));
                }
                self.sibs(l + 4, 2, n, 0, 2);
                if let Some(co) = self.u16(l) {
                    self.coverage(l + co, &format!("{}.coverage", nm));
                }
            }
        }
        if minor >= 2 {
            if let Some(m) = self.u16(12).filter(|v| *v != 0) {
                self.fs(m, &[(2, "version", "markGlyphSets.format"), (2, "count", "markGlyphSets.count"), (4, "offset", "markGlyphSets.coverageOffset[0]")]);
                let n = self.u16(m + 2).unwrap_or(0);
                if n > 1 {
                    self.f(m + 8, 4, "offset", "markGlyphSets.coverageOffset[1]");
                }
                self.sibs(m + 4, 4, n, 0, 4);
                if let Some(co) = self.u32(m + 4) {
                    self.coverage(m + co, "markGlyphSets.coverage0");
                }
            }
        }
    }

    // ---- CFF / CFF2 -------------------------------------------------------------------------------------

    /// INDEX at `p`; returns (count, offSize, data start (offset 1 lands here + 1 - 1), end)
    fn index(&mut self, p: usize, nm: &str, cff2: bool) -> Option<(usize, usize, usize, usize)> {
        let (count, hdr) = if cff2 { (self.u32(p)?, 4) } else { (self.u16(p)?, 2) };
        self.f(p, hdr as u8, "count", &format!("{}.count", nm));
        if count == 0 {
            return Some((0, 0, p + hdr, p + hdr));
        }
        let os = self.u8(p + hdr)?;
        self.f(p + hdr, 1, "length", &format!("{}.offSize", nm));
        if os == 0 || os > 4 {
            return None;
        }
        let oa = p + hdr + 1;
        for (k, kn) in [(0usize, "0"), (1, "1"), (count / 2, "mid"), (count.saturating_sub(1), "n-1"), (count, "n")] {
            if k <= count {
                self.f(oa + os * k, os as u8, "offset", &format!("{}.offset[{}]", nm, kn));
            }
        }
        // offsets of an INDEX: non-decreasing, the first is 1
        self.sibs(oa, os, count + 1, 0, os as u8);
        let data = oa + os * (count + 1);
        let last = self.un(oa + os * count, os)?;
        Some((count, os, data, data + last.saturating_sub(1)))
    }
    fn index_item(&self, p: usize, k: usize, cff2: bool) -> Option<(usize, usize)> {
        let (count, hdr) = if cff2 { (self.u32(p)?, 4) } else { (self.u16(p)?, 2) };
        if k >= count {
            return None;
        }
        let os = self.u8(p + hdr)?;
        let oa = p + hdr + 1;
        let data = oa + os * (count + 1);
        let a = self.un(oa + os * k, os)?;
        let b = self.un(oa + os * (k + 1), os)?;
        if a == 0 || b < a {
            return None;
        }
        Some((data + a - 1, data + b - 1))
    }
    /// DICT in [a, b): operands become fields; returns (operator, operand values)
    /// `sv` / `pv`: for operands that are offsets from the start of the table, the offset of the
    /// structure the DICT sits in and of that structure's parent (as numbers; encoded per operand)
    fn dict(&mut self, a: usize, b: usize, nm: &str, sv: i64, pv: i64) -> Vec<(usize, Vec<i64>)> {
        let mut out = Vec::new();
        let mut ops: Vec<(usize, usize, i64, u8)> = Vec::new(); // (pos, width, value, number format: 1, 2, 3 as in charstrings, 5 = i32 after 29, 0 = real)
        let mut p = a;
        let mut guard = 0;
        while p < b && guard < 1500 {
            guard += 1;
            let b0 = match self.u8(p) {
                Some(x) => x,
                None => break,
            };
            match b0 {
                0..=21 | 23..=27 => {
                    let (op, w) = if b0 == 12 { (1200 + self.u8(p + 1).unwrap_or(0), 2) } else { (b0, 1) };
                    // roles of the operands by operator
                    let roles: Vec<&'static str> = match op {
                        15 | 16 | 17 | 19 | 24 | 1236 | 1237 => vec!["offset"],
                        18 => vec!["length", "offset"],
                        22 => vec!["index"],
                        _ => vec!["value"],
                    };
                    self.f(p, w as u8, "version", &format!("{}.op{}", nm, op));
                    let n = ops.len();
                    self.note_max("dict_max_operands", n);
                    for (k, (pos, wd, _, fmt)) in ops.iter().enumerate() {
                        let role = if roles.len() == n { roles[k] } else if n > roles.len() && k >= n - roles.len() { roles[k - (n - roles.len())] } else { "value" };
                        let enc = |v: i64| -> i64 {
                            if role != "offset" || v < 0 {
                                -1
                            } else if *fmt == 5 {
                                v
                            } else {
                                encode_cs_number(v, *fmt).unwrap_or(-1)
                            }
                        };
                        self.fr(*pos, *wd as u8, role, &format!("{}.op{}.arg{}", nm, op, k), enc(sv), enc(pv));
                    }
                    out.push((op, ops.iter().map(|x| x.2).collect()));
                    ops.clear();
                    p += w;
                }
                28 => {
                    ops.push((p + 1, 2, self.u16(p + 1).map(|v| v as i16 as i64).unwrap_or(0), 3));
                    p += 3;
                }
                29 => {
                    ops.push((p + 1, 4, self.u32(p + 1).map(|v| v as u32 as i32 as i64).unwrap_or(0), 5));
                    p += 5;
                }
                30 => {
                    // real number: nibbles up to 0xf
                    let s = p;
                    p += 1;
                    let mut chars = 0;
                    while let Some(x) = self.u8(p) {
                        p += 1;
                        if x >> 4 == 0x0f {
                            break;
                        }
                        chars += if x >> 4 == 0x0c { 2 } else { 1 };
                        if x & 0x0f == 0x0f {
                            break;
                        }
                        chars += if x & 0x0f == 0x0c { 2 } else { 1 };
                    }
                    self.note_max("dict_real_chars", chars);
                    ops.push((s + 1, 1, 0, 0));
                }
                32..=246 => {
                    ops.push((p, 1, b0 as i64 - 139, 1));
                    p += 1;
                }
                247..=250 => {
                    ops.push((p, 2, (b0 as i64 - 247) * 256 + self.u8(p + 1).unwrap_or(0) as i64 + 108, 2));
                    p += 2;
                }
                251..=254 => {
                    ops.push((p, 2, -(b0 as i64 - 251) * 256 - self.u8(p + 1).unwrap_or(0) as i64 - 108, 2));
                    p += 2;
                }
                _ => {
                    self.f(p, 1, "version", &format!("{}.reserved", nm));
                    p += 1;
                }
            }
        }
        out
    }
    fn charstring(&mut self, a: usize, b: usize, nm: &str) {
        let n = b.saturating_sub(a);
        for k in 0..n.min(6) {
            self.f(a + k, 1, "value", &format!("{}.byte{}", nm, k));
        }
        if n > 8 {
            self.f(a + n / 2, 1, "value", &format!("{}.mid", nm));
            self.f(b - 1, 1, "value", &format!("{}.last", nm));
        }
    }
    /// Type 2 charstring interpreter, as far as the positions of things go (argument stack with the
    /// place each literal came from, stem count for the hint masks, subroutine calls followed): the
    /// operand of every callsubr / callgsubr it executes is an `index` field; inside a subroutine
    /// "self" = the (biased, encoded) number of the subroutine being executed, "parent" = of the one
    /// that called it.  Returns false when the program cannot be followed any further.
    fn cs_exec(&mut self, a: usize, b: usize, cs: &mut Cs, nm: &str, depth: usize) -> bool {
        let mut p = a;
        while p < b {
            cs.steps += 1;
            if cs.steps > 200_000 {
                return false;
            }
            let b0 = match self.u8(p) {
                Some(x) => x,
                None => return false,
            };
            if b0 < 32 && b0 != 28 {
                cs.max_args = cs.max_args.max(cs.stack.len());
            }
            match b0 {
                28 => {
                    cs.stack.push((self.u16(p + 1).unwrap_or(0) as u16 as i16 as i64, p + 1, 2, 3));
                    p += 3;
                }
                32..=246 => {
                    cs.stack.push((b0 as i64 - 139, p, 1, 1));
                    p += 1;
                }
                247..=250 => {
                    cs.stack.push(((b0 as i64 - 247) * 256 + self.u8(p + 1).unwrap_or(0) as i64 + 108, p, 2, 2));
                    p += 2;
                }
                251..=254 => {
                    cs.stack.push((-(b0 as i64 - 251) * 256 - self.u8(p + 1).unwrap_or(0) as i64 - 108, p, 2, 2));
                    p += 2;
                }
                255 => {
                    cs.stack.push(((self.u32(p + 1).unwrap_or(0) as u32 as i32 >> 16) as i64, p + 1, 4, 4));
                    p += 5;
                }
                1 | 3 | 18 | 23 | 19 | 20 => {
                    let mut len = cs.stack.len();
                    if len % 2 == 1 && !cs.wp {
                        cs.wp = true;
                        len -= 1;
                    }
                    cs.stems += len / 2;
                    cs.stack.clear();
                    p += 1;
                    if b0 == 19 || b0 == 20 {
                        p += (cs.stems + 7) / 8;
                    }
                }
                4 | 22 | 21 => {
                    cs.wp = true;
                    cs.stack.clear();
                    p += 1;
                }
                10 | 29 => {
                    let top = match cs.stack.pop() {
                        Some(t) => t,
                        None => return false,
                    };
                    let global = b0 == 29;
                    let (at, count) = if global { (cs.gsubr_at, cs.gcount) } else { (cs.lsubr_at, cs.lcount) };
                    if count == 0 {
                        return false;
                    }
                    let bias: i64 = if count < 1240 { 107 } else if count < 33900 { 1131 } else { 32768 };
                    if top.2 > 0 && !cs.seen.contains(&top.1) {
                        let same: Vec<usize> = cs.frames.iter().rev().filter(|f| f.0 == global).map(|f| f.1).collect();
                        let enc = |i: Option<&usize>| i.and_then(|i| encode_cs_number(*i as i64 - bias, top.3)).unwrap_or(-1);
                        let (sv, pv) = (enc(same.first()), enc(same.get(1)));
                        let room = if cs.frames.is_empty() { cs.emitted_top < 12 } else { cs.emitted_sub < 64 };
                        if room {
                            cs.seen.insert(top.1);
                            if cs.frames.is_empty() {
                                cs.emitted_top += 1;
                            } else {
                                cs.emitted_sub += 1;
                            }
                            self.fr(top.1, top.2, "index", &format!("{}.{}.arg", nm, if global { "callgsubr" } else { "callsubr" }), sv, pv);
                        }
                    }
                    let idx = top.0 + bias;
                    if idx < 0 || idx as usize >= count || depth >= 10 {
                        return false;
                    }
                    let (sa, sb) = match self.index_item(at, idx as usize, cs.cff2) {
                        Some(x) => x,
                        None => return false,
                    };
                    cs.frames.push((global, idx as usize));
                    let sub = format!("{}[{}]", if global { "gsubr" } else { "lsubr" }, idx);
                    let r = self.cs_exec(sa, sb, cs, &sub, depth + 1);
                    cs.frames.pop();
                    if !r {
                        return false;
                    }
                    if cs.done {
                        return true;
                    }
                    p += 1;
                }
                11 => return !cs.cff2,
                14 => {
                    if !cs.cff2 && (cs.stack.len() == 4 || (!cs.wp && cs.stack.len() == 5)) {
                        // seac: base and accent are character codes of the standard encoding
                        let n = cs.stack.len();
                        for (k, part) in [(n - 1, "achar"), (n - 2, "bchar")] {
                            let t = cs.stack[k];
                            if t.2 > 0 {
                                let sv = if cs.own_code >= 0 { encode_cs_number(cs.own_code, t.3).unwrap_or(-1) } else { -1 };
                                self.fr(t.1, t.2, "index", &format!("{}.seac.{}", nm, part), sv, -1);
                                cs.seac += 1;
                            }
                        }
                    }
                    cs.done = true;
                    return true;
                }
                15 if cs.cff2 => {
                    cs.vsindex = cs.stack.pop().map(|t| t.0.max(0) as usize).unwrap_or(0);
                    p += 1;
                }
                16 if cs.cff2 => {
                    let n = match cs.stack.pop() {
                        Some(t) => t.0.max(0) as usize,
                        None => return false,
                    };
                    let k = cs.region_counts.get(cs.vsindex).copied().unwrap_or(0);
                    let len = cs.stack.len();
                    if n * (k + 1) > len {
                        return false;
                    }
                    cs.stack.truncate(len - n * k);
                    let len = cs.stack.len();
                    for e in cs.stack[len - n..].iter_mut() {
                        e.2 = 0;
                    }
                    p += 1;
                }
                12 => {
                    // flex operators take everything; the arithmetic ones are not supported by allsorts either
                    match self.u8(p + 1) {
                        Some(34..=37) => cs.stack.clear(),
                        _ => return false,
                    }
                    p += 2;
                }
                0 | 2 | 9 | 13 | 17 => return false,
                _ => {
                    cs.stack.clear();
                    p += 1;
                }
            }
        }
        true
    }
    fn cff(&mut self, cff2: bool) {
        let top: Vec<(usize, Vec<i64>)>;
        let gsubr_at;
        if cff2 {
            self.fs(0, &[(1, "version", "major"), (1, "version", "minor"), (1, "length", "headerSize"), (2, "length", "topDictLength")]);
            let hs = self.u8(2).unwrap_or(5);
            let tl = self.u16(3).unwrap_or(0);
            top = self.dict(hs, hs + tl, "top", 0, -1);
            gsubr_at = hs + tl;
        } else {
            self.fs(0, &[(1, "version", "major"), (1, "version", "minor"), (1, "length", "hdrSize"), (1, "length", "offSize")]);
            let hs = self.u8(2).unwrap_or(4);
            let (_, _, _, name_end) = match self.index(hs, "nameINDEX", false) {
                Some(x) => x,
                None => return,
            };
            let (_, _, _, top_end) = match self.index(name_end, "topINDEX", false) {
                Some(x) => x,
                None => return,
            };
            // offsets of the Top DICT count from the start of the table: self = the INDEX the DICT sits in,
            // parent = the header
            top = match self.index_item(name_end, 0, false) {
                Some((a, b)) => self.dict(a, b, "top", name_end as i64, 0),
                None => return,
            };
            let (_, _, _, str_end) = match self.index(top_end, "stringINDEX", false) {
                Some(x) => x,
                None => return,
            };
            gsubr_at = str_end;
        }
        let gcount = self.index(gsubr_at, "gsubrINDEX", cff2).map(|x| x.0).unwrap_or(0);
        for k in 0..6 {
            if let Some((a, b)) = self.index_item(gsubr_at, k, cff2) {
                self.charstring(a, b, &format!("gsubr[{}]", k));
            }
        }
        let arg = |op: usize| top.iter().find(|x| x.0 == op).map(|x| x.1.clone());
        let mut n_glyphs = 0;
        let mut cs_at = 0usize;
        if let Some(v) = arg(17) {
            if let Some(&cs) = v.last() {
                let cs = cs.max(0) as usize;
                if let Some((n, _, _, _)) = self.index(cs, "charStrings", cff2) {
                    n_glyphs = n;
                    cs_at = cs;
                    for (k, kn) in [(0usize, "0"), (1, "1"), (2, "2"), (n / 2, "mid"), (n.saturating_sub(1), "last")] {
                        if let Some((a, b)) = self.index_item(cs, k, cff2) {
                            self.charstring(a, b, &format!("charstring[{}]", kn));
                        }
                    }
                }
            }
        }
        // Private DICTs: of the font (CFF, not CID-keyed) or per Font DICT; (offset, size, name)
        let mut privates: Vec<Option<(usize, usize, String)>> = Vec::new();
        let mut cid = false;
        if let Some(v) = arg(18) {
            if v.len() >= 2 {
                privates.push(Some((v[v.len() - 1].max(0) as usize, v[v.len() - 2].max(0) as usize, "private".to_string())));
            }
        }
        let mut charset_at: Option<usize> = if cff2 { None } else { Some(0) };
        if let Some(v) = arg(15) {
            if let Some(&c) = v.last() {
                charset_at = Some(c.max(0) as usize);
                if c > 2 {
                    let c = c as usize;
                    let fmt = self.u8(c).unwrap_or(0);
                    self.f(c, 1, "version", "charset.format");
                    if fmt == 0 {
                        self.f(c + 1, 2, "index", "charset.sid[1]");
                        if n_glyphs > 2 {
                            self.f(c + 3, 2, "index", "charset.sid[2]");
                        }
                        self.f(c + 1 + 2 * n_glyphs.saturating_sub(2), 2, "index", "charset.sid[last]");
                        self.sibs(c + 1, 2, n_glyphs.saturating_sub(1), 0, 2);
                    } else {
                        let lw = if fmt == 1 { 1 } else { 2 };
                        // the ranges cover glyphs 1 .. n-1
                        let (mut nr, mut covered) = (0usize, 1usize);
                        while covered < n_glyphs && nr < 65536 {
                            match self.un(c + 1 + (2 + lw) * nr + 2, lw) {
                                Some(l) => covered += l + 1,
                                None => break,
                            }
                            nr += 1;
                        }
                        for k in 0..nr.min(3) {
                            self.fs(c + 1 + (2 + lw) * k, &[(2, "index", &format!("charset.range{}.first", k)), (lw as u8, "count", &format!("charset.range{}.nLeft", k))]);
                        }
                        self.sibs_rec(c + 1, 2 + lw, nr, &[(0, 2), (2, lw as u8)]);
                    }
                }
            }
        }
        if let Some(v) = arg(16) {
            if let Some(&c) = v.last() {
                if c > 1 {
                    let c = c as usize;
                    self.fs(c, &[(1, "version", "encoding.format"), (1, "count", "encoding.n"), (1, "value", "encoding.byte0")]);
                }
            }
        }
        if let Some(v) = arg(1236) {
            if let Some(&fa) = v.last() {
                let fa = fa.max(0) as usize;
                if let Some((n, _, _, _)) = self.index(fa, "fdArray", cff2) {
                    cid = true;
                    privates.clear();
                    for k in 0..n.min(256) {
                        // the first three Font DICTs in detail, the others only for where their subroutines are
                        self.mute = k >= 3;
                        let mut pr = None;
                        if let Some((a, b)) = self.index_item(fa, k, cff2) {
                            let fd = self.dict(a, b, &format!("fd[{}]", k), fa as i64, 0);
                            if let Some(pv) = fd.iter().find(|x| x.0 == 18) {
                                if pv.1.len() >= 2 {
                                    pr = Some((pv.1[pv.1.len() - 1].max(0) as usize, pv.1[pv.1.len() - 2].max(0) as usize, format!("fd[{}].private", k)));
                                }
                            }
                        }
                        self.mute = false;
                        privates.push(pr);
                    }
                }
            }
        }
        let mut fdsel: Option<(usize, usize)> = None; // (position, format)
        if let Some(v) = arg(1237) {
            if let Some(&fs) = v.last() {
                let fs = fs.max(0) as usize;
                let fmt = self.u8(fs).unwrap_or(0);
                fdsel = Some((fs, fmt));
                self.f(fs, 1, "version", "fdSelect.format");
                if fmt == 0 {
                    self.f(fs + 1, 1, "index", "fdSelect.fd[0]");
                    self.f(fs + 1 + n_glyphs / 2, 1, "index", "fdSelect.fd[mid]");
                    self.f(fs + n_glyphs, 1, "index", "fdSelect.fd[last]");
                    self.sibs(fs + 1, 1, n_glyphs, 0, 1);
                } else if fmt == 3 {
                    self.f(fs + 1, 2, "count", "fdSelect.nRanges");
                    let nr = self.u16(fs + 1).unwrap_or(0);
                    for k in 0..nr.min(8) {
                        self.fs(fs + 3 + 3 * k, &[(2, "index", &format!("fdSelect.range{}.first", k)), (1, "index", &format!("fdSelect.range{}.fd", k))]);
                    }
                    self.f(fs + 3 + 3 * nr, 2, "index", "fdSelect.sentinel");
                    // ranges sorted by first glyph, closed by the sentinel
                    self.sibs(fs + 3, 3, nr + 1, 0, 2);
                    self.sibs(fs + 3, 3, nr, 2, 1);
                } else {
                    self.f(fs + 1, 4, "count", "fdSelect.nRanges");
                    let nr = self.u32(fs + 1).unwrap_or(0);
                    for k in 0..nr.min(8) {
                        self.fs(fs + 5 + 6 * k, &[(4, "index", &format!("fdSelect.range{}.first", k)), (2, "index", &format!("fdSelect.range{}.fd", k))]);
                    }
                    self.f(fs + 5 + 6 * nr, 4, "index", "fdSelect.sentinel");
                    self.sibs(fs + 5, 6, nr + 1, 0, 4);
                    self.sibs(fs + 5, 6, nr, 4, 2);
                }
            }
        }
        let mut region_counts = Vec::new();
        if let Some(v) = arg(24) {
            if let Some(&vs) = v.last() {
                let vs = vs.max(0) as usize;
                self.f(vs, 2, "length", "vstore.length");
                region_counts = self.ivs(vs + 2, "vstore");
            }
        }
        // local subroutines and default vsindex per Private DICT
        let mut lsubrs: Vec<(usize, usize, usize)> = Vec::new(); // (INDEX position, count, vsindex); count 0 = none
        for (k, pr) in privates.iter().enumerate() {
            let mut entry = (0usize, 0usize, 0usize);
            if let Some((off, size, nm)) = pr {
                self.mute = k >= 3;
                // the Subrs offset counts from the Private DICT: self = 0 is the class "zero"; no parent in reach
                let pd = self.dict(*off, off + size, nm, -1, -1);
                if let Some(v) = pd.iter().find(|x| x.0 == 22) {
                    entry.2 = v.1.last().copied().unwrap_or(0).max(0) as usize;
                }
                if let Some(s) = pd.iter().find(|x| x.0 == 19) {
                    if let Some(&so) = s.1.last() {
                        let at = (*off as i64 + so).max(0) as usize;
                        if let Some((n, _, _, _)) = self.index(at, &format!("{}.subrs", nm), cff2) {
                            entry.0 = at;
                            entry.1 = n;
                            for j in 0..6 {
                                if let Some((a, b)) = self.index_item(at, j, cff2) {
                                    self.charstring(a, b, &format!("{}.subr[{}]", nm, j));
                                }
                            }
                        }
                    }
                }
                self.mute = false;
            }
            lsubrs.push(entry);
        }
        // the charstrings the outlines group executes: subroutine call operands
        let fd_of = |w: &Walk, g: usize| -> usize {
            if !cid {
                return 0;
            }
            match fdsel {
                None => 0,
                Some((fs, 0)) => w.u8(fs + 1 + g).unwrap_or(0),
                Some((fs, 3)) => {
                    let nr = w.u16(fs + 1).unwrap_or(0);
                    let mut fd = 0;
                    for k in 0..nr {
                        match w.u16(fs + 3 + 3 * k) {
                            Some(first) if first <= g => fd = w.u8(fs + 5 + 3 * k).unwrap_or(0),
                            _ => break,
                        }
                    }
                    fd
                }
                Some((fs, _)) => {
                    let nr = w.u32(fs + 1).unwrap_or(0);
                    let mut fd = 0;
                    for k in 0..nr {
                        match w.u32(fs + 5 + 6 * k) {
                            Some(first) if first <= g => fd = w.u16(fs + 9 + 6 * k).unwrap_or(0),
                            _ => break,
                        }
                    }
                    fd
                }
            }
        };
        let mut cs = Cs { cff2, gsubr_at, gcount, lsubr_at: 0, lcount: 0, stack: Vec::new(), stems: 0, wp: cff2, frames: Vec::new(), steps: 0, region_counts, vsindex: 0, emitted_top: 0, emitted_sub: 0, seen: std::collections::BTreeSet::new(), seac: 0, done: false, own_code: -1, max_args: 0 };
        if cs_at > 0 {
            for g in outline_gids(n_glyphs.min(65535) as u16) {
                let g = g as usize;
                let (a, b) = match self.index_item(cs_at, g, cff2) {
                    Some(x) => x,
                    None => continue,
                };
                let (la, lc, vsi) = lsubrs.get(fd_of(self, g)).copied().unwrap_or((0, 0, 0));
                cs.lsubr_at = la;
                cs.lcount = lc;
                cs.vsindex = vsi;
                cs.stack.clear();
                cs.frames.clear();
                cs.stems = 0;
                cs.wp = cff2;
                cs.steps = 0;
                cs.done = false;
                // code of the glyph in the standard encoding: SIDs 1..95 are the codes 32..126 in order
                cs.own_code = match (cid, charset_at) {
                    (false, Some(c)) => {
                        let sid = if g == 0 {
                            0
                        } else if c == 0 {
                            g
                        } else if c <= 2 {
                            0
                        } else {
                            match self.u8(c) {
                                Some(0) => self.u16(c + 1 + 2 * (g - 1)).unwrap_or(0),
                                Some(f) => {
                                    let lw = if f == 1 { 1 } else { 2 };
                                    let (mut first_g, mut q, mut sid) = (1usize, c + 1, 0usize);
                                    while first_g <= g {
                                        let (first, left) = match (self.u16(q), self.un(q + 2, lw)) {
                                            (Some(a), Some(b)) => (a, b),
                                            _ => break,
                                        };
                                        if g <= first_g + left {
                                            sid = first + (g - first_g);
                                            break;
                                        }
                                        first_g += left + 1;
                                        q += 2 + lw;
                                    }
                                    sid
                                }
                                None => 0,
                            }
                        };
                        if (1..=95).contains(&sid) { sid as i64 + 31 } else { -1 }
                    }
                    _ => -1,
                };
                self.cs_exec(a, b, &mut cs, &format!("charstring[{}]", g), 0);
                if cs.emitted_sub >= 64 {
                    break;
                }
            }
        }
        self.note_max("max_operands", cs.max_args);
    }

    // ---- images -----------------------------------------------------------------------------------------

    fn svg(&mut self) {
        self.fs(0, &[(2, "version", "version"), (4, "offset", "svgDocumentListOffset"), (4, "value", "reserved")]);
        if let Some(o) = self.u32(2) {
            self.f(o, 2, "count", "numEntries");
            let n = self.u16(o).unwrap_or(0);
            for (k, kn) in [(0usize, "0"), (1, "1"), (n.saturating_sub(1), "last")] {
                if k < n {
                    self.fs(o + 2 + 12 * k, &[(2, "index", &format!("doc[{}].startGlyphID", kn)), (2, "index", &format!("doc[{}].endGlyphID", kn)), (4, "offset", &format!("doc[{}].svgDocOffset", kn)), (4, "length", &format!("doc[{}].svgDocLength", kn))]);
                    // counted from the document list: self = the record itself read as a document, parent = the list
                    self.refs(o + 2 + 12 * k + 4, (2 + 12 * k) as i64, 0);
                }
            }
            // document records sorted by start glyph id
            self.sibs_rec(o + 2, 12, n, &[(0, 2), (2, 2), (4, 4), (8, 4)]);
            // svgDocLength: up to the next document (or the end of the table); numEntries: up to the first document
            let offs: Vec<usize> = (0..n.min(4096)).filter_map(|k| self.u32(o + 2 + 12 * k + 4)).collect();
            for k in [0usize, 1, n.saturating_sub(1)] {
                if let Some(d) = offs.get(k) {
                    let end = offs.iter().copied().filter(|x| x > d).min().unwrap_or(self.tlen.saturating_sub(o));
                    self.der(o + 2 + 12 * k + 8, end - d);
                }
            }
            if let Some(first) = offs.iter().copied().min().filter(|x| *x >= 2) {
                self.der(o, (first - 2) / 12);
            }
            if let Some(d0) = self.u32(o + 6) {
                self.fs(o + d0, &[(1, "version", "doc0.byte0"), (1, "version", "doc0.byte1"), (1, "version", "doc0.byte2")]);
            }
        }
    }
    /// absolute readers (for a table other than the one being walked)
    fn a8(&self, p: usize) -> Option<usize> {
        self.d.get(p).map(|b| *b as usize)
    }
    fn a16(&self, p: usize) -> Option<usize> {
        self.d.get(p..p.checked_add(2)?).map(|b| ((b[0] as usize) << 8) | b[1] as usize)
    }
    fn a32(&self, p: usize) -> Option<usize> {
        self.d.get(p..p.checked_add(4)?).map(|b| u32::from_be_bytes([b[0], b[1], b[2], b[3]]) as usize)
    }
    /// The glyph records an EBLC / CBLC table (at absolute position `loc`) names in its EBDT / CBDT table: per
    /// strike (first 12) and index sub-table (first 8) a few glyphs of the range:
    /// (strike, sub-table, bit depth, index format, image format, glyph id, position of the record relative to the
    /// data table, record length as the index sub-table gives it, big metrics of the sub-table (height, width))
    #[allow(clippy::type_complexity)]
    fn bitmap_records(&self, loc: (usize, usize)) -> Vec<(usize, usize, usize, usize, usize, usize, usize, usize, Option<(usize, usize)>)> {
        let (lo, ll) = loc;
        let mut out = Vec::new();
        let inside = |p: usize, n: usize| p + n <= ll;
        let n = match self.a32(lo + 4) {
            Some(n) if inside(0, 8) => n,
            _ => return out,
        };
        for k in 0..n.min(12) {
            let b = 8 + 48 * k;
            if !inside(b, 48) {
                break;
            }
            let (arr, ns, bd) = (self.a32(lo + b).unwrap_or(0), self.a32(lo + b + 8).unwrap_or(0), self.a8(lo + b + 46).unwrap_or(1));
            for j in 0..ns.min(8) {
                let r = arr + 8 * j;
                if !inside(r, 8) {
                    break;
                }
                let (first, last, add) = (self.a16(lo + r).unwrap_or(0), self.a16(lo + r + 2).unwrap_or(0), self.a32(lo + r + 4).unwrap_or(0));
                let h = arr + add;
                if !inside(h, 8) || last < first {
                    continue;
                }
                let (ifmt, imf, ido) = (self.a16(lo + h).unwrap_or(0), self.a16(lo + h + 2).unwrap_or(0), self.a32(lo + h + 4).unwrap_or(0));
                let span = last - first + 1;
                let picks: Vec<usize> = {
                    let mut v = vec![0usize, 1, span / 2, span - 1];
                    v.retain(|x| *x < span);
                    v.dedup();
                    v
                };
                match ifmt {
                    1 | 3 => {
                        let w = if ifmt == 1 { 4 } else { 2 };
                        for g in picks {
                            let at = h + 8 + w * g;
                            if !inside(at, 2 * w) {
                                continue;
                            }
                            let (a, e) = if ifmt == 1 { (self.a32(lo + at).unwrap_or(0), self.a32(lo + at + 4).unwrap_or(0)) } else { (self.a16(lo + at).unwrap_or(0), self.a16(lo + at + 2).unwrap_or(0)) };
                            if e > a {
                                out.push((k, j, bd, ifmt, imf, first + g, ido + a, e - a, None));
                            }
                        }
                    }
                    2 | 5 if inside(h + 8, 12) => {
                        let size = self.a32(lo + h + 8).unwrap_or(0);
                        let bm = Some((self.a8(lo + h + 12).unwrap_or(0), self.a8(lo + h + 13).unwrap_or(0)));
                        if ifmt == 2 {
                            for g in picks {
                                out.push((k, j, bd, ifmt, imf, first + g, ido + g * size, size, bm));
                            }
                        } else if inside(h + 20, 4) {
                            let ng = self.a32(lo + h + 20).unwrap_or(0);
                            for g in [0usize, 1, ng.saturating_sub(1)] {
                                if g < ng && inside(h + 24 + 2 * g, 2) {
                                    out.push((k, j, bd, ifmt, imf, self.a16(lo + h + 24 + 2 * g).unwrap_or(0), ido + g * size, size, bm));
                                }
                            }
                            out.dedup();
                        }
                    }
                    4 if inside(h + 8, 4) => {
                        let ng = self.a32(lo + h + 8).unwrap_or(0);
                        for g in [0usize, 1, ng.saturating_sub(1)] {
                            let at = h + 12 + 4 * g;
                            if g < ng && inside(at, 8) {
                                let (gid, a, e) = (self.a16(lo + at).unwrap_or(0), self.a16(lo + at + 2).unwrap_or(0), self.a16(lo + at + 6).unwrap_or(0));
                                if e > a {
                                    out.push((k, j, bd, ifmt, imf, gid, ido + a, e - a, None));
                                }
                            }
                        }
                        out.dedup();
                    }
                    _ => {}
                }
            }
        }
        out
    }
    /// bytes of a bitmap of `h` rows of `w` pixels of `bd` bits: rows padded to bytes / bit-aligned
    fn bitmap_bytes(h: usize, w: usize, bd: usize, bit_aligned: bool) -> usize {
        if bit_aligned {
            (h * w * bd + 7) / 8
        } else {
            h * ((w * bd + 7) / 8)
        }
    }
    /// The length the content of a glyph record of the data table implies (metrics x bit depth, component count,
    /// dataLen), read at absolute position `p`; `bm` = the sub-table's big metrics for the formats without own metrics
    fn implied_record_len(&self, p: usize, imf: usize, bd: usize, bm: Option<(usize, usize)>) -> Option<usize> {
        Some(match imf {
            1 => 5 + Self::bitmap_bytes(self.a8(p)?, self.a8(p + 1)?, bd, false),
            2 => 5 + Self::bitmap_bytes(self.a8(p)?, self.a8(p + 1)?, bd, true),
            5 => {
                let (h, w) = bm?;
                Self::bitmap_bytes(h, w, bd, true)
            }
            6 => 8 + Self::bitmap_bytes(self.a8(p)?, self.a8(p + 1)?, bd, false),
            7 => 8 + Self::bitmap_bytes(self.a8(p)?, self.a8(p + 1)?, bd, true),
            8 => 8 + 4 * self.a16(p + 6)?,
            9 => 10 + 4 * self.a16(p + 8)?,
            17 => 9 + self.a32(p + 5)?,
            18 => 12 + self.a32(p + 8)?,
            19 => 4 + self.a32(p)?,
            _ => return None,
        })
    }
    /// EBLC / CBLC: every BitmapSize record (first 12), every index sub-table of it (first 8) in its index format.
    /// `dat` = where the EBDT / CBDT table is (for the implied sizes: a size / end offset that the metrics and the
    /// image format of the glyph record imply).
    fn cblc(&mut self, dat: Option<(usize, usize)>) {
        self.fs(0, &[(2, "version", "majorVersion"), (2, "version", "minorVersion"), (4, "count", "numSizes")]);
        let n = self.u32(4).unwrap_or(0);
        // numSizes: what the space up to the first index sub-table array holds
        if let Some(a0) = (0..n.min(12)).filter_map(|k| self.u32(8 + 48 * k)).min() {
            if a0 >= 8 {
                self.der(4, (a0 - 8) / 48);
            }
        }
        let dpos = dat.map(|d| d.0);
        for k in 0..n.min(12) {
            let b = 8 + 48 * k;
            let nm = format!("size[{}]", k);
            self.fs(b, &[(4, "offset", &format!("{}.indexSubTableArrayOffset", nm)), (4, "length", &format!("{}.indexTablesSize", nm)), (4, "count", &format!("{}.numberOfIndexSubTables", nm)), (4, "value", &format!("{}.colorRef", nm))]);
            // counted from the start of the table: self = the BitmapSize record read as its own index sub-table array
            self.refs(b, b as i64, 0);
            self.fs(b + 16, &[(1, "value", &format!("{}.hori.ascender", nm)), (1, "value", &format!("{}.hori.descender", nm)), (1, "value", &format!("{}.hori.widthMax", nm))]);
            self.fs(b + 40, &[(2, "index", &format!("{}.startGlyphIndex", nm)), (2, "index", &format!("{}.endGlyphIndex", nm)), (1, "value", &format!("{}.ppemX", nm)), (1, "value", &format!("{}.ppemY", nm)), (1, "version", &format!("{}.bitDepth", nm)), (1, "value", &format!("{}.flags", nm))]);
            self.sibs(b + 40, 2, 2, 0, 2);
            let bd = self.u8(b + 46).unwrap_or(1);
            let a = match self.u32(b) {
                Some(a) => a,
                None => continue,
            };
            let ns = self.u32(b + 8).unwrap_or(0);
            let mut end = a + 8 * ns;
            for j in 0..ns.min(8) {
                let r = a + 8 * j;
                let sn = format!("{}.sub[{}]", nm, j);
                self.fs(r, &[(2, "index", &format!("{}.firstGlyphIndex", sn)), (2, "index", &format!("{}.lastGlyphIndex", sn)), (4, "offset", &format!("{}.additionalOffset", sn))]);
                self.sibs(r, 2, 2, 0, 2);
                let (first, last, add) = match (self.u16(r), self.u16(r + 2), self.u32(r + 4)) {
                    (Some(f), Some(l), Some(x)) => (f, l, x),
                    _ => continue,
                };
                // counted from the array: self = the record read as its own sub-table
                self.refs(r + 4, (8 * j) as i64, 0);
                let h = a + add;
                let (ifmt, imf, ido) = match (self.u16(h), self.u16(h + 2), self.u32(h + 4)) {
                    (Some(x), Some(y), Some(z)) => (x, y, z),
                    _ => continue,
                };
                let fnm = format!("{}.f{}", sn, ifmt);
                self.fs(h, &[(2, "version", &format!("{}.indexFormat", fnm)), (2, "version", &format!("{}.imageFormat", fnm)), (4, "offset", &format!("{}.imageDataOffset", fnm))]);
                let span = if last >= first { last - first + 1 } else { 0 };
                let implied = |w: &Self, rel: usize, bm: Option<(usize, usize)>| dpos.and_then(|d| w.implied_record_len(d + ido + rel, imf, bd, bm));
                match ifmt {
                    1 | 3 => {
                        let w = if ifmt == 1 { 4usize } else { 2 };
                        let cnt = span + 1;
                        for (g, gn) in [(0usize, "0"), (1, "1"), (2, "2"), (cnt / 2, "mid"), (cnt.saturating_sub(1), "last")] {
                            if g < cnt {
                                self.f(h + 8 + w * g, w as u8, "offset", &format!("{}.offset[{}]", fnm, gn));
                                // the offset that ends glyph g - 1: implied by where that glyph starts and what its record holds
                                if g >= 1 {
                                    if let Some(st) = self.un(h + 8 + w * (g - 1), w) {
                                        if let Some(l) = implied(self, st, None) {
                                            self.der(h + 8 + w * g, st + l);
                                        }
                                    }
                                }
                            }
                        }
                        self.sibs(h + 8, w, cnt, 0, w as u8);
                        end = end.max(h + 8 + w * cnt);
                    }
                    2 | 5 => {
                        self.fs(h + 8, &[(4, "length", &format!("{}.imageSize", fnm)), (1, "count", &format!("{}.bigMetrics.height", fnm)), (1, "count", &format!("{}.bigMetrics.width", fnm)), (1, "value", &format!("{}.bigMetrics.horiBearingX", fnm)), (1, "value", &format!("{}.bigMetrics.horiBearingY", fnm)), (1, "value", &format!("{}.bigMetrics.horiAdvance", fnm)), (1, "value", &format!("{}.bigMetrics.vertBearingX", fnm)), (1, "value", &format!("{}.bigMetrics.vertBearingY", fnm)), (1, "value", &format!("{}.bigMetrics.vertAdvance", fnm))]);
                        let bm = match (self.u8(h + 12), self.u8(h + 13)) {
                            (Some(hh), Some(ww)) => Some((hh, ww)),
                            _ => None,
                        };
                        // imageSize: what the metrics beside it (format 5) or the first glyph record (own metrics / dataLen) imply
                        if let Some(l) = implied(self, 0, bm) {
                            self.der(h + 8, l);
                        }
                        end = end.max(h + 20);
                        if ifmt == 5 {
                            self.f(h + 20, 4, "count", &format!("{}.numGlyphs", fnm));
                            let ng = self.u32(h + 20).unwrap_or(0);
                            for (g, gn) in [(0usize, "0"), (1, "1"), (ng / 2, "mid"), (ng.saturating_sub(1), "last")] {
                                if g < ng {
                                    self.f(h + 24 + 2 * g, 2, "index", &format!("{}.glyphId[{}]", fnm, gn));
                                }
                            }
                            self.sibs(h + 24, 2, ng, 0, 2);
                            end = end.max(h + 24 + 2 * ng);
                        }
                    }
                    4 => {
                        self.f(h + 8, 4, "count", &format!("{}.numGlyphs", fnm));
                        let ng = self.u32(h + 8).unwrap_or(0);
                        for (g, gn) in [(0usize, "0"), (1, "1"), (2, "2"), (ng, "last")] {
                            if g <= ng {
                                self.fs(h + 12 + 4 * g, &[(2, "index", &format!("{}.pair[{}].glyphID", fnm, gn)), (2, "offset", &format!("{}.pair[{}].offset", fnm, gn))]);
                                if g >= 1 {
                                    if let Some(st) = self.u16(h + 12 + 4 * (g - 1) + 2) {
                                        if let Some(l) = implied(self, st, None) {
                                            self.der(h + 12 + 4 * g + 2, st + l);
                                        }
                                    }
                                }
                            }
                        }
                        self.sibs_rec(h + 12, 4, ng + 1, &[(0, 2), (2, 2)]);
                        end = end.max(h + 12 + 4 * (ng + 1));
                    }
                    _ => {}
                }
            }
            // index sub-table array: sorted by glyph range
            self.sibs_rec(a, 8, ns, &[(0, 2), (2, 2), (4, 4)]);
            // indexTablesSize: the bytes the array and its sub-tables take
            if end > a {
                self.der(b + 4, end - a);
            }
        }
        // the BitmapSize records: same member of consecutive records
        self.sibs_rec(8, 48, n, &[(0, 4), (4, 4), (8, 4), (40, 2), (42, 2), (44, 1), (45, 1), (46, 1)]);
    }
    /// EBDT / CBDT: the glyph records the location table names (see `bitmap_records`), each in its image format
    fn cbdt(&mut self, loc: (usize, usize)) {
        let mut seen = std::collections::BTreeSet::new();
        for (k, j, bd, _ifmt, imf, gid, pos, len, bm) in self.bitmap_records(loc) {
            if !seen.insert(pos) || pos + len > self.tlen {
                continue;
            }
            let nm = format!("strike[{}].sub[{}].img{}.g[{}]", k, j, imf, gid);
            let small = |w: &mut Self, p: usize| {
                w.fs(p, &[(1, "count", &format!("{}.height", nm)), (1, "count", &format!("{}.width", nm)), (1, "value", &format!("{}.bearingX", nm)), (1, "value", &format!("{}.bearingY", nm)), (1, "value", &format!("{}.advance", nm))]);
            };
            let big = |w: &mut Self, p: usize| {
                w.fs(p, &[(1, "count", &format!("{}.height", nm)), (1, "count", &format!("{}.width", nm)), (1, "value", &format!("{}.horiBearingX", nm)), (1, "value", &format!("{}.horiBearingY", nm)), (1, "value", &format!("{}.horiAdvance", nm)), (1, "value", &format!("{}.vertBearingX", nm)), (1, "value", &format!("{}.vertBearingY", nm)), (1, "value", &format!("{}.vertAdvance", nm))]);
            };
            // height: the rows the record has room for, given its width and the bit depth of the strike
            let rows = |w: &mut Self, p: usize, hdr: usize, bit_aligned: bool| {
                if let Some(wd) = w.u8(p + 1).filter(|x| *x > 0) {
                    let data = len.saturating_sub(hdr);
                    let h = if bit_aligned { data * 8 / (wd * bd.max(1)) } else { data / ((wd * bd.max(1) + 7) / 8).max(1) };
                    w.der(p, h);
                }
            };
            let comps = |w: &mut Self, p: usize, room: usize| {
                w.f(p, 2, "count", &format!("{}.numComponents", nm));
                w.der(p, room / 4);
                let nc = w.u16(p).unwrap_or(0);
                for c in 0..nc.min(3) {
                    w.fs(p + 2 + 4 * c, &[(2, "index", &format!("{}.comp[{}].glyphID", nm, c)), (1, "value", &format!("{}.comp[{}].xOffset", nm, c)), (1, "value", &format!("{}.comp[{}].yOffset", nm, c))]);
                    // self = the glyph the record belongs to
                    w.refs(p + 2 + 4 * c, gid as i64, -1);
                }
                w.sibs_rec(p + 2, 4, nc, &[(0, 2), (2, 1), (3, 1)]);
            };
            let data_len = |w: &mut Self, p: usize, hdr: usize| {
                w.f(p, 4, "length", &format!("{}.dataLen", nm));
                w.der(p, len.saturating_sub(hdr));
                w.fs(p + 4, &[(1, "value", &format!("{}.data[0]", nm)), (1, "value", &format!("{}.data[1]", nm))]);
            };
            match imf {
                1 | 2 => {
                    small(self, pos);
                    rows(self, pos, 5, imf == 2);
                    self.f(pos + 5, 1, "value", &format!("{}.data[0]", nm));
                }
                5 => {
                    self.f(pos, 1, "value", &format!("{}.data[0]", nm));
                    let _ = bm;
                }
                6 | 7 => {
                    big(self, pos);
                    rows(self, pos, 8, imf == 7);
                    self.f(pos + 8, 1, "value", &format!("{}.data[0]", nm));
                }
                8 => {
                    small(self, pos);
                    self.f(pos + 5, 1, "value", &format!("{}.pad", nm));
                    comps(self, pos + 6, len.saturating_sub(8));
                }
                9 => {
                    big(self, pos);
                    comps(self, pos + 8, len.saturating_sub(10));
                }
                17 => {
                    small(self, pos);
                    data_len(self, pos + 5, 9);
                }
                18 => {
                    big(self, pos);
                    data_len(self, pos + 8, 12);
                }
                19 => data_len(self, pos, 4),
                _ => {}
            }
        }
    }
    // ---- morx ---------------------------------------------------------------------------------------------

    /// AAT lookup table at `p` (relative to the table): formats 0, 2, 4, 6, 8, 10
    fn aat_lookup(&mut self, p: usize, nm: &str, ng: usize) {
        let fmt = match self.u16(p) {
            Some(f) => f,
            None => return,
        };
        let nm = format!("{}.lk{}", nm, fmt);
        self.f(p, 2, "version", &format!("{}.format", nm));
        match fmt {
            0 => {
                for (g, gn) in [(0usize, "0"), (1, "1"), (ng / 2, "mid"), (ng.saturating_sub(1), "last")] {
                    if g < ng {
                        self.f(p + 2 + 2 * g, 2, "value", &format!("{}.value[{}]", nm, gn));
                    }
                }
                self.sibs(p + 2, 2, ng, 0, 2);
            }
            2 | 4 | 6 => {
                self.fs(p + 2, &[(2, "length", &format!("{}.unitSize", nm)), (2, "count", &format!("{}.nUnits", nm)), (2, "value", &format!("{}.searchRange", nm)), (2, "value", &format!("{}.entrySelector", nm)), (2, "value", &format!("{}.rangeShift", nm))]);
                let us = if fmt == 6 { 4 } else { 6 };
                self.der(p + 2, us);
                let n = self.u16(p + 4).unwrap_or(0);
                for (k, kn) in [(0usize, "0"), (1, "1"), (n / 2, "mid"), (n.saturating_sub(1), "last")] {
                    if k >= n {
                        continue;
                    }
                    let u = p + 12 + us * k;
                    match fmt {
                        2 => {
                            self.fs(u, &[(2, "index", &format!("{}.seg[{}].lastGlyph", nm, kn)), (2, "index", &format!("{}.seg[{}].firstGlyph", nm, kn)), (2, "value", &format!("{}.seg[{}].value", nm, kn))]);
                            self.sibs(u, 2, 2, 0, 2);
                        }
                        4 => {
                            self.fs(u, &[(2, "index", &format!("{}.seg[{}].lastGlyph", nm, kn)), (2, "index", &format!("{}.seg[{}].firstGlyph", nm, kn)), (2, "offset", &format!("{}.seg[{}].offset", nm, kn))]);
                            self.sibs(u, 2, 2, 0, 2);
                            if let Some(o) = self.u16(u + 4) {
                                self.f(p + o, 2, "value", &format!("{}.seg[{}].value[0]", nm, kn));
                            }
                        }
                        _ => {
                            self.fs(u, &[(2, "index", &format!("{}.single[{}].glyph", nm, kn)), (2, "value", &format!("{}.single[{}].value", nm, kn))]);
                        }
                    }
                }
                if fmt == 6 {
                    self.sibs_rec(p + 12, 4, n, &[(0, 2), (2, 2)]);
                } else {
                    self.sibs_rec(p + 12, 6, n, &[(0, 2), (2, 2), (4, 2)]);
                }
            }
            8 => {
                self.fs(p + 2, &[(2, "index", &format!("{}.firstGlyph", nm)), (2, "count", &format!("{}.glyphCount", nm))]);
                let n = self.u16(p + 4).unwrap_or(0);
                for (k, kn) in [(0usize, "0"), (1, "1"), (n.saturating_sub(1), "last")] {
                    if k < n {
                        self.f(p + 6 + 2 * k, 2, "value", &format!("{}.value[{}]", nm, kn));
                    }
                }
                self.sibs(p + 6, 2, n, 0, 2);
            }
            10 => {
                self.fs(p + 2, &[(2, "length", &format!("{}.unitSize", nm)), (2, "index", &format!("{}.firstGlyph", nm)), (2, "count", &format!("{}.glyphCount", nm))]);
                let (us, n) = (self.u16(p + 2).unwrap_or(0), self.u16(p + 6).unwrap_or(0));
                if (1..=4).contains(&us) {
                    for (k, kn) in [(0usize, "0"), (1, "1"), (n.saturating_sub(1), "last")] {
                        if k < n {
                            self.f(p + 8 + us * k, us as u8, "value", &format!("{}.value[{}]", nm, kn));
                        }
                    }
                    self.sibs(p + 8, us, n, 0, us as u8);
                } else if us == 8 && n > 0 {
                    self.f(p + 8, 8, "value", &format!("{}.value[0]", nm));
                }
            }
            _ => {}
        }
    }
    /// morx: every chain (first 3), its feature entries, every sub-table (first 12) by type: extended state table
    /// header, class lookup table, first rows of the state array, first entries, per-type tables
    fn morx(&mut self, ng: usize) {
        self.fs(0, &[(2, "version", "version"), (2, "value", "unused"), (4, "count", "nChains")]);
        let nch = self.u32(4).unwrap_or(0);
        let mut p = 8usize;
        for c in 0..nch.min(3) {
            let cn = format!("chain[{}]", c);
            self.fs(p, &[(4, "value", &format!("{}.defaultFlags", cn)), (4, "length", &format!("{}.chainLength", cn)), (4, "count", &format!("{}.nFeatureEntries", cn)), (4, "count", &format!("{}.nSubtables", cn))]);
            let (clen, nf, nsub) = match (self.u32(p + 4), self.u32(p + 8), self.u32(p + 12)) {
                (Some(a), Some(b), Some(x)) => (a, b, x),
                _ => return,
            };
            for (k, kn) in [(0usize, "0"), (1, "1"), (nf.saturating_sub(1), "last")] {
                if k < nf {
                    self.fs(p + 16 + 12 * k, &[(2, "value", &format!("{}.feature[{}].featureType", cn, kn)), (2, "value", &format!("{}.feature[{}].featureSetting", cn, kn)), (4, "value", &format!("{}.feature[{}].enableFlags", cn, kn)), (4, "value", &format!("{}.feature[{}].disableFlags", cn, kn))]);
                }
            }
            self.sibs_rec(p + 16, 12, nf, &[(0, 2), (2, 2), (4, 4), (8, 4)]);
            let mut sp = p + 16 + 12 * nf;
            let mut implied_len = 16 + 12 * nf;
            for k in 0..nsub.min(12) {
                let (len, cov) = match (self.u32(sp), self.u32(sp + 4)) {
                    (Some(l), Some(c)) => (l, c),
                    _ => break,
                };
                let ty = cov & 0xff;
                let sn = format!("{}.sub[{}].t{}", cn, k, ty);
                self.fs(sp, &[(4, "length", &format!("{}.length", sn)), (4, "version", &format!("{}.coverage", sn)), (4, "value", &format!("{}.subFeatureFlags", sn))]);
                // the last sub-table ends where the chain ends
                if k + 1 == nsub && p + clen > sp {
                    self.der(sp, p + clen - sp);
                }
                let b = sp + 12;
                let blen = len.saturating_sub(12);
                if ty == 4 {
                    self.aat_lookup(b, &sn, ng);
                } else if ty <= 5 {
                    self.fs(b, &[(4, "count", &format!("{}.nClasses", sn)), (4, "offset", &format!("{}.classTableOffset", sn)), (4, "offset", &format!("{}.stateArrayOffset", sn)), (4, "offset", &format!("{}.entryTableOffset", sn))]);
                    let extra: &[&str] = match ty {
                        1 => &["substitutionTableOffset"],
                        2 => &["ligActionOffset", "componentOffset", "ligatureOffset"],
                        5 => &["insertionActionOffset"],
                        _ => &[],
                    };
                    for (x, xn) in extra.iter().enumerate() {
                        self.f(b + 16 + 4 * x, 4, "offset", &format!("{}.{}", sn, xn));
                    }
                    // the offsets of the header: increasing in the files font tools write
                    self.sibs(b + 4, 4, 3 + extra.len(), 0, 4);
                    let (nc, cto, sao, eto) = (self.u32(b).unwrap_or(0), self.u32(b + 4).unwrap_or(0), self.u32(b + 8).unwrap_or(0), self.u32(b + 12).unwrap_or(0));
                    if ty == 1 || ty == 2 {
                        self.aat_lookup(b + cto, &format!("{}.class", sn), ng);
                        // nClasses: what the state array holds per row when it runs up to the entry table in whole rows
                        if eto > sao && nc > 0 && (eto - sao) % (2 * nc) == 0 {
                            // (no implied value: the number of rows is not stored)
                        }
                        for r in 0..2usize {
                            for (cl, cln) in [(0usize, "0"), (1, "1"), (nc.saturating_sub(1), "last")] {
                                if cl < nc {
                                    self.f(b + sao + 2 * (r * nc + cl), 2, "index", &format!("{}.state[{}].class[{}]", sn, r, cln));
                                }
                            }
                        }
                        if eto > sao {
                            self.sibs(b + sao, 2, (eto - sao) / 2, 0, 2);
                        }
                        let es = if ty == 1 { 8 } else { 6 };
                        for e in 0..3usize {
                            let ep = b + eto + es * e;
                            if ep + es > b + blen {
                                break;
                            }
                            if ty == 1 {
                                self.fs(ep, &[(2, "index", &format!("{}.entry[{}].newState", sn, e)), (2, "value", &format!("{}.entry[{}].flags", sn, e)), (2, "index", &format!("{}.entry[{}].markIndex", sn, e)), (2, "index", &format!("{}.entry[{}].currentIndex", sn, e))]);
                            } else {
                                self.fs(ep, &[(2, "index", &format!("{}.entry[{}].newState", sn, e)), (2, "value", &format!("{}.entry[{}].flags", sn, e)), (2, "index", &format!("{}.entry[{}].ligActionIndex", sn, e))]);
                            }
                        }
                        self.sibs_rec(b + eto, es, 3, &[(0, 2), (2, 2), (4, 2)]);
                    }
                    if ty == 1 {
                        if let Some(sto) = self.u32(b + 16) {
                            let n = self.u32(b + sto).map_or(0, |f| f / 4).min(4);
                            for x in 0..n {
                                self.f(b + sto + 4 * x, 4, "offset", &format!("{}.subst[{}].offset", sn, x));
                            }
                            self.sibs(b + sto, 4, n, 0, 4);
                            for x in 0..n {
                                if let Some(o) = self.u32(b + sto + 4 * x) {
                                    self.aat_lookup(b + sto + o, &format!("{}.subst[{}]", sn, x), ng);
                                }
                            }
                        }
                    }
                    if ty == 2 {
                        if let (Some(la), Some(co), Some(li)) = (self.u32(b + 16), self.u32(b + 20), self.u32(b + 24)) {
                            for x in 0..3usize {
                                if b + la + 4 * x + 4 <= b + blen {
                                    self.f(b + la + 4 * x, 4, "value", &format!("{}.ligAction[{}]", sn, x));
                                }
                                if b + co + 2 * x + 2 <= b + blen {
                                    self.f(b + co + 2 * x, 2, "index", &format!("{}.component[{}]", sn, x));
                                }
                                if b + li + 2 * x + 2 <= b + blen {
                                    self.f(b + li + 2 * x, 2, "index", &format!("{}.ligature[{}]", sn, x));
                                }
                            }
                            self.sibs(b + la, 4, 3, 0, 4);
                            self.sibs(b + co, 2, 3, 0, 2);
                            self.sibs(b + li, 2, 3, 0, 2);
                        }
                    }
                }
                implied_len += len;
                if len == 0 {
                    break;
                }
                sp += len;
            }
            // chainLength: header + feature entries + the sub-tables as their own lengths say
            if nsub <= 12 {
                self.der(p + 4, implied_len);
            }
            if clen == 0 {
                break;
            }
            p += clen;
        }
    }

    fn sbix(&mut self, ng: usize) {
        self.fs(0, &[(2, "version", "version"), (2, "value", "flags"), (4, "count", "numStrikes")]);
        let n = self.u32(4).unwrap_or(0);
        for k in 0..n.min(2) {
            self.f(8 + 4 * k, 4, "offset", &format!("strikeOffset[{}]", k));
            self.sibs(8, 4, n, 0, 4);
            if let Some(s) = self.u32(8 + 4 * k) {
                self.fs(s, &[(2, "value", &format!("strike[{}].ppem", k)), (2, "value", &format!("strike[{}].ppi", k))]);
                for (g, gn) in [(0usize, "0"), (1, "1"), (2, "2"), (ng.saturating_sub(1), "n-1"), (ng, "n")] {
                    if g <= ng {
                        self.f(s + 4 + 4 * g, 4, "offset", &format!("strike[{}].glyphDataOffset[{}]", k, gn));
                    }
                }
                self.sibs(s + 4, 4, ng + 1, 0, 4);
                for g in 0..ng.min(4) {
                    if let (Some(a), Some(b)) = (self.u32(s + 4 + 4 * g), self.u32(s + 8 + 4 * g)) {
                        if b > a {
                            self.fs(s + a, &[(2, "value", &format!("strike[{}].glyph[{}].originOffsetX", k, g)), (2, "value", &format!("strike[{}].glyph[{}].originOffsetY", k, g)), (4, "version", &format!("strike[{}].glyph[{}].graphicType", k, g)), (2, "index", &format!("strike[{}].glyph[{}].data0", k, g))]);
                        }
                    }
                }
            }
        }
    }
}
