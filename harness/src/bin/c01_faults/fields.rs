//! Structural walk of a font buffer: which byte ranges are *fields* (count, offset, length,
//! version/format, index, value), at the container level (headers, directories) and inside the
//! tables (headers, first/last array entries, selected records).  Own small readers: nothing of
//! allsorts is used here.  Fields allsorts reads that the walk does not know are added from the
//! read hook by the caller (role `value`, name `hook`).
use serde_json::{json, Value};

pub const ROLES: [&str; 6] = ["count", "offset", "length", "version", "index", "value"];

#[derive(Clone, Debug)]
pub struct Field {
    pub off: usize,
    pub w: u8,
    pub role: &'static str,
    /// "dir" = container header / directory, "table" = inside a table
    pub level: &'static str,
    /// table the field belongs to (for a directory record: the table it describes); container
    /// name ("sfnt", "ttcf", "wOFF", "wOF2") for header fields
    pub tbl: String,
    pub name: String,
    /// start and length of the enclosing table (or of the file for header fields)
    pub tstart: usize,
    pub tlen: usize,
}

impl Field {
    pub fn json(&self) -> Value {
        json!([self.off, self.w, self.role, self.level, self.tbl, self.name, self.tstart, self.tlen])
    }
    pub fn from_json(v: &Value) -> Field {
        let role = v[2].as_str().unwrap();
        let level = v[3].as_str().unwrap();
        Field {
            off: v[0].as_u64().unwrap() as usize,
            w: v[1].as_u64().unwrap() as u8,
            role: ROLES.iter().find(|r| **r == role).copied().unwrap_or("value"),
            level: if level == "dir" { "dir" } else { "table" },
            tbl: v[4].as_str().unwrap().to_string(),
            name: v[5].as_str().unwrap().to_string(),
            tstart: v[6].as_u64().unwrap() as usize,
            tlen: v[7].as_u64().unwrap() as usize,
        }
    }
}

/// One directory record (sfnt / WOFF): where its fields are, for RemoveTable / SwapTables / ShrinkLength.
#[derive(Clone, Debug)]
pub struct RecInfo {
    pub tag: String,
    pub rec_off: usize,
    pub rec_size: usize,
    pub off_field: usize,
    pub len_field: usize,
    /// offset of the u16 table count of the directory the record belongs to
    pub count_field: usize,
    /// index of the record in its directory and number of records there
    pub index: usize,
    pub dir_start: usize,
    pub data_off: usize,
    pub data_len: usize,
}

impl RecInfo {
    pub fn json(&self) -> Value {
        json!([self.tag, self.rec_off, self.rec_size, self.off_field, self.len_field, self.count_field, self.index, self.dir_start, self.data_off, self.data_len])
    }
    pub fn from_json(v: &Value) -> RecInfo {
        let u = |i: usize| v[i].as_u64().unwrap() as usize;
        RecInfo { tag: v[0].as_str().unwrap().to_string(), rec_off: u(1), rec_size: u(2), off_field: u(3), len_field: u(4), count_field: u(5), index: u(6), dir_start: u(7), data_off: u(8), data_len: u(9) }
    }
}

pub struct Walk<'a> {
    pub d: &'a [u8],
    pub out: Vec<Field>,
    pub recs: Vec<RecInfo>,
    tbl: String,
    tstart: usize,
    tlen: usize,
    level: &'static str,
}

fn tag_string(b: &[u8]) -> String {
    b.iter().map(|&c| if (0x20..0x7f).contains(&c) { c as char } else { '?' }).collect()
}

impl<'a> Walk<'a> {
    pub fn new(d: &'a [u8]) -> Walk<'a> {
        Walk { d, out: Vec::new(), recs: Vec::new(), tbl: String::new(), tstart: 0, tlen: d.len(), level: "dir" }
    }
    fn enter(&mut self, tbl: &str, start: usize, len: usize, level: &'static str) {
        self.tbl = tbl.to_string();
        self.tstart = start;
        self.tlen = len.min(self.d.len().saturating_sub(start));
        self.level = level;
    }
    /// field at `rel` (relative to the current table)
    fn f(&mut self, rel: usize, w: u8, role: &'static str, name: &str) {
        if rel + w as usize <= self.tlen {
            self.out.push(Field { off: self.tstart + rel, w, role, level: self.level, tbl: self.tbl.clone(), name: name.to_string(), tstart: self.tstart, tlen: self.tlen });
        }
    }
    fn fs(&mut self, rel: usize, specs: &[(u8, &'static str, &str)]) -> usize {
        let mut p = rel;
        for (w, role, name) in specs {
            self.f(p, *w, role, name);
            p += *w as usize;
        }
        p
    }
    fn u8(&self, rel: usize) -> Option<usize> {
        if rel < self.tlen {
            self.d.get(self.tstart + rel).map(|b| *b as usize)
        } else {
            None
        }
    }
    fn u16(&self, rel: usize) -> Option<usize> {
        if rel + 2 <= self.tlen {
            let p = self.tstart + rel;
            Some(((self.d[p] as usize) << 8) | self.d[p + 1] as usize)
        } else {
            None
        }
    }
    fn u32(&self, rel: usize) -> Option<usize> {
        if rel + 4 <= self.tlen {
            let p = self.tstart + rel;
            Some(u32::from_be_bytes([self.d[p], self.d[p + 1], self.d[p + 2], self.d[p + 3]]) as usize)
        } else {
            None
        }
    }
    fn un(&self, rel: usize, w: usize) -> Option<usize> {
        if w == 0 || w > 4 || rel + w > self.tlen {
            return None;
        }
        let mut v = 0usize;
        for k in 0..w {
            v = (v << 8) | self.d[self.tstart + rel + k] as usize;
        }
        Some(v)
    }

    // ---- containers -------------------------------------------------------------------------------

    /// whole file: dispatch on the magic
    pub fn file(&mut self) {
        let d = self.d;
        if d.len() < 4 {
            return;
        }
        match &d[0..4] {
            b"ttcf" => self.ttc(),
            b"wOFF" => self.woff(),
            b"wOF2" => self.woff2_header(),
            _ => self.sfnt(0, true),
        }
    }

    pub fn sfnt(&mut self, at: usize, walk_tables: bool) {
        let flen = self.d.len();
        self.enter("sfnt", 0, flen, "dir");
        self.fs(at, &[(4, "version", "sfntVersion"), (2, "count", "numTables"), (2, "value", "searchRange"), (2, "value", "entrySelector"), (2, "value", "rangeShift")]);
        let n = match self.u16(at + 4) {
            Some(n) => n,
            None => return,
        };
        let mut tables = Vec::new();
        for i in 0..n {
            let r = at + 12 + 16 * i;
            if r + 16 > flen {
                break;
            }
            let tag = tag_string(&self.d[r..r + 4]);
            let off = self.u32(r + 8).unwrap();
            let len = self.u32(r + 12).unwrap();
            self.enter(&tag, 0, flen, "dir");
            self.fs(r, &[(4, "index", "rec.tag"), (4, "value", "rec.checkSum"), (4, "offset", "rec.offset"), (4, "length", "rec.length")]);
            self.recs.push(RecInfo { tag: tag.clone(), rec_off: r, rec_size: 16, off_field: r + 8, len_field: r + 12, count_field: at + 4, index: i, dir_start: at + 12, data_off: off, data_len: len });
            tables.push((tag, off, len));
        }
        if walk_tables {
            self.tables(&tables, 0);
        }
    }

    fn ttc(&mut self) {
        let flen = self.d.len();
        self.enter("ttcf", 0, flen, "dir");
        self.fs(0, &[(4, "version", "ttcTag"), (2, "version", "majorVersion"), (2, "version", "minorVersion"), (4, "count", "numFonts")]);
        let n = self.u32(8).unwrap_or(0).min(16);
        let mut offs = Vec::new();
        for i in 0..n {
            self.f(12 + 4 * i, 4, "offset", "offsetTable");
            if let Some(o) = self.u32(12 + 4 * i) {
                offs.push(o);
            }
        }
        for (i, o) in offs.into_iter().enumerate() {
            // tables are walked once, for the first member
            self.sfnt(o, i == 0);
        }
    }

    fn woff(&mut self) {
        let flen = self.d.len();
        self.enter("wOFF", 0, flen, "dir");
        self.fs(0, &[(4, "version", "signature"), (4, "version", "flavor"), (4, "length", "length"), (2, "count", "numTables"), (2, "value", "reserved"), (4, "length", "totalSfntSize"), (2, "version", "majorVersion"), (2, "version", "minorVersion"), (4, "offset", "metaOffset"), (4, "length", "metaLength"), (4, "length", "metaOrigLength"), (4, "offset", "privOffset"), (4, "length", "privLength")]);
        let n = self.u16(12).unwrap_or(0);
        let mut plain = Vec::new();
        for i in 0..n {
            let r = 44 + 20 * i;
            if r + 20 > flen {
                break;
            }
            self.enter("wOFF", 0, flen, "dir");
            let tag = tag_string(&self.d[r..r + 4]);
            let off = self.u32(r + 4).unwrap();
            let comp = self.u32(r + 8).unwrap();
            let orig = self.u32(r + 12).unwrap();
            self.enter(&tag, 0, flen, "dir");
            self.fs(r, &[(4, "index", "rec.tag"), (4, "offset", "rec.offset"), (4, "length", "rec.compLength"), (4, "length", "rec.origLength"), (4, "value", "rec.origChecksum")]);
            self.recs.push(RecInfo { tag: tag.clone(), rec_off: r, rec_size: 20, off_field: r + 4, len_field: r + 8, count_field: 12, index: i, dir_start: 44, data_off: off, data_len: comp });
            if comp == orig {
                plain.push((tag, off, comp));
            } else {
                // compressed stream: zlib header and a few bytes inside it
                self.enter(&tag, off, comp, "table");
                self.f(0, 1, "version", "zlib.cmf");
                self.f(1, 1, "version", "zlib.flg");
                self.f(2, 1, "value", "zlib.block");
                if comp > 8 {
                    self.f(comp / 2, 1, "value", "zlib.mid");
                    self.f(comp - 4, 4, "value", "zlib.adler");
                }
            }
        }
        self.tables(&plain, 0);
    }

    /// WOFF2 file: header and directory bytes (the compressed block is opaque here; the decompressed
    /// stream is walked separately by `woff2_stream`)
    fn woff2_header(&mut self) {
        let flen = self.d.len();
        self.enter("wOF2", 0, flen, "dir");
        self.fs(0, &[(4, "version", "signature"), (4, "version", "flavor"), (4, "length", "length"), (2, "count", "numTables"), (2, "value", "reserved"), (4, "length", "totalSfntSize"), (4, "length", "totalCompressedSize"), (2, "version", "majorVersion"), (2, "version", "minorVersion"), (4, "offset", "metaOffset"), (4, "length", "metaLength"), (4, "length", "metaOrigLength"), (4, "offset", "privOffset"), (4, "length", "privLength")]);
        let n = self.u16(12).unwrap_or(0);
        let comp = self.u32(20).unwrap_or(0);
        let mut p = 48usize;
        for _ in 0..n {
            let flags = match self.u8(p) {
                Some(f) => f,
                None => return,
            };
            let tag = if flags & 63 == 63 {
                if p + 5 > flen {
                    return;
                }
                tag_string(&self.d[p + 1..p + 5])
            } else {
                super::wrap::KNOWN_TAGS[flags & 63].to_string()
            };
            self.enter(&tag, 0, flen, "dir");
            self.f(p, 1, "version", "entry.flags");
            p += 1;
            if flags & 63 == 63 {
                self.f(p, 4, "index", "entry.tag");
                p += 4;
            }
            let ver = flags >> 6;
            let two = match (ver, tag.as_str()) {
                (3, "glyf") | (3, "loca") => false,
                (_, "glyf") | (_, "loca") => true,
                (1, "hmtx") => true,
                (0, _) => false,
                _ => true,
            };
            for k in 0..(1 + two as usize) {
                // UIntBase128: every byte is a field
                let mut j = 0;
                loop {
                    let b = match self.u8(p) {
                        Some(b) => b,
                        None => return,
                    };
                    self.f(p, 1, "length", if k == 0 { "entry.origLength.b128" } else { "entry.transformLength.b128" });
                    p += 1;
                    j += 1;
                    if b & 0x80 == 0 || j >= 5 {
                        break;
                    }
                }
            }
        }
        // collection directory bytes (flavor ttcf) up to the compressed block: byte-wise
        if self.d.len() >= 8 && &self.d[4..8] == b"ttcf" {
            self.enter("wOF2", 0, flen, "dir");
            self.f(p, 4, "version", "collection.version");
            let mut q = p + 4;
            let mut k = 0;
            while q + comp < flen && k < 48 {
                self.f(q, 1, if k == 0 { "count" } else { "index" }, "collection.byte");
                q += 1;
                k += 1;
            }
        } else {
            self.enter("wOF2", 0, flen, "dir");
            // first bytes of the brotli stream and one in the middle
            self.f(p, 1, "value", "brotli.first");
            self.f(p + 1, 1, "value", "brotli.second");
            if comp > 8 {
                self.f(p + comp / 2, 1, "value", "brotli.mid");
                self.f(p + comp - 1, 1, "value", "brotli.last");
            }
        }
    }

    /// The decompressed WOFF2 table stream: `entries` = (tag, offset in stream, stored length, transformed?)
    pub fn woff2_stream(&mut self, entries: &[(String, usize, usize, bool)]) {
        let mut plain = Vec::new();
        for (tag, off, len, transformed) in entries {
            if *transformed && tag == "glyf" {
                self.enter("glyf", *off, *len, "table");
                self.fs(0, &[(2, "version", "xglyf.reserved"), (2, "version", "xglyf.optionFlags"), (2, "count", "xglyf.numGlyphs"), (2, "version", "xglyf.indexFormat"), (4, "length", "xglyf.nContourStreamSize"), (4, "length", "xglyf.nPointsStreamSize"), (4, "length", "xglyf.flagStreamSize"), (4, "length", "xglyf.glyphStreamSize"), (4, "length", "xglyf.compositeStreamSize"), (4, "length", "xglyf.bboxStreamSize"), (4, "length", "xglyf.instructionStreamSize")]);
                // first entries of each stream
                let mut p = 36usize;
                let names = ["nContour", "nPoints", "flag", "glyph", "composite", "bbox", "instruction"];
                for (k, nm) in names.iter().enumerate() {
                    let sz = self.u32(8 + 4 * k).unwrap_or(0);
                    if sz > 0 && p < *len {
                        let w = if k == 0 { 2 } else { 1 };
                        self.f(p, w, if k == 0 { "count" } else { "value" }, &format!("xglyf.{}[0]", nm));
                        self.f(p + w as usize, w, if k == 0 { "count" } else { "value" }, &format!("xglyf.{}[1]", nm));
                        if sz > 4 {
                            self.f(p + sz - w as usize, w, if k == 0 { "count" } else { "value" }, &format!("xglyf.{}[last]", nm));
                        }
                    }
                    p = p.saturating_add(sz);
                }
            } else if *transformed && tag == "hmtx" {
                self.enter("hmtx", *off, *len, "table");
                self.f(0, 1, "version", "xhmtx.flags");
                self.f(1, 2, "value", "xhmtx.advance[0]");
                self.f(3, 2, "value", "xhmtx.advance[1]");
            } else if *transformed {
                self.enter(tag, *off, *len, "table");
                self.f(0, 1, "value", "xform.first");
            } else {
                plain.push((tag.clone(), *off, *len));
            }
        }
        self.tables(&plain, 0);
    }

    // ---- tables ---------------------------------------------------------------------------------------

    /// walk the tables given as (tag, offset, length) relative to `base`
    pub fn tables(&mut self, tables: &[(String, usize, usize)], base: usize) {
        let flen = self.d.len();
        let get = |t: &str| tables.iter().find(|x| x.0 == t).map(|x| (base + x.1, x.2)).filter(|(o, l)| o.checked_add(*l).map_or(false, |e| e <= flen));
        // facts needed across tables
        let num_glyphs = get("maxp").and_then(|(o, l)| if l >= 6 { Some(((self.d[o + 4] as usize) << 8) | self.d[o + 5] as usize) } else { None }).unwrap_or(0);
        let loca_long = get("head").and_then(|(o, l)| if l >= 52 { Some(self.d[o + 51] != 0) } else { None }).unwrap_or(false);
        let num_h = get("hhea").and_then(|(o, l)| if l >= 36 { Some(((self.d[o + 34] as usize) << 8) | self.d[o + 35] as usize) } else { None }).unwrap_or(0);
        let num_v = get("vhea").and_then(|(o, l)| if l >= 36 { Some(((self.d[o + 34] as usize) << 8) | self.d[o + 35] as usize) } else { None }).unwrap_or(0);
        let mut seen = std::collections::BTreeSet::new();
        for (tag, off, len) in tables {
            let (o, l) = (base + off, *len);
            if o.checked_add(l).map_or(true, |e| e > flen) || !seen.insert((o, l)) {
                continue;
            }
            self.enter(tag, o, l, "table");
            match tag.as_str() {
                "head" => self.head(),
                "hhea" | "vhea" => self.hhea(),
                "maxp" => self.maxp(),
                "hmtx" => self.hmtx(num_h, num_glyphs),
                "vmtx" => self.hmtx(num_v, num_glyphs),
                "loca" => self.loca(loca_long, num_glyphs),
                "glyf" => {
                    if let Some((lo, ll)) = get("loca") {
                        self.glyf(lo, ll, loca_long, num_glyphs)
                    }
                }
                "cmap" => self.cmap(),
                "name" => self.name(),
                "post" => self.post(),
                "OS/2" => self.os2(),
                "kern" => self.kern(),
                "fvar" => self.fvar(),
                "avar" => self.avar(),
                "gvar" => self.gvar(),
                "HVAR" | "VVAR" => self.hvar(),
                "MVAR" => self.mvar(),
                "STAT" => self.stat(),
                "GSUB" | "GPOS" => self.layout(),
                "GDEF" => self.gdef(),
                "CFF " => self.cff(false),
                "CFF2" => self.cff(true),
                "SVG " => self.svg(),
                "CBLC" | "EBLC" => self.cblc(),
                "CBDT" | "EBDT" => {
                    self.fs(0, &[(2, "version", "majorVersion"), (2, "version", "minorVersion"), (1, "value", "glyph0.height"), (1, "value", "glyph0.width"), (1, "value", "glyph0.bearingX"), (1, "value", "glyph0.bearingY"), (1, "value", "glyph0.advance"), (4, "length", "glyph0.dataLen")]);
                }
                "sbix" => self.sbix(num_glyphs),
                "morx" => {
                    self.fs(0, &[(2, "version", "version"), (2, "value", "unused"), (4, "count", "nChains"), (4, "value", "chain0.defaultFlags"), (4, "length", "chain0.chainLength"), (4, "count", "chain0.nFeatureEntries"), (4, "count", "chain0.nSubtables")]);
                }
                "VORG" => {
                    self.fs(0, &[(2, "version", "majorVersion"), (2, "version", "minorVersion"), (2, "value", "defaultVertOriginY"), (2, "count", "numVertOriginYMetrics"), (2, "index", "rec0.glyphIndex"), (2, "value", "rec0.vertOriginY")]);
                }
                _ => {
                    // unknown table: first words
                    self.fs(0, &[(2, "version", "word0"), (2, "value", "word1"), (4, "value", "dword1")]);
                }
            }
        }
    }

    fn head(&mut self) {
        self.fs(0, &[(2, "version", "majorVersion"), (2, "version", "minorVersion"), (4, "value", "fontRevision"), (4, "value", "checkSumAdjustment"), (4, "version", "magicNumber"), (2, "value", "flags"), (2, "value", "unitsPerEm"), (8, "value", "created"), (8, "value", "modified"), (2, "value", "xMin"), (2, "value", "yMin"), (2, "value", "xMax"), (2, "value", "yMax"), (2, "value", "macStyle"), (2, "value", "lowestRecPPEM"), (2, "value", "fontDirectionHint"), (2, "version", "indexToLocFormat"), (2, "version", "glyphDataFormat")]);
    }
    fn hhea(&mut self) {
        let p = self.fs(0, &[(2, "version", "majorVersion"), (2, "version", "minorVersion"), (2, "value", "ascender"), (2, "value", "descender"), (2, "value", "lineGap"), (2, "value", "advanceMax"), (2, "value", "minStartSideBearing"), (2, "value", "minEndSideBearing"), (2, "value", "maxExtent"), (2, "value", "caretSlopeRise"), (2, "value", "caretSlopeRun"), (2, "value", "caretOffset")]);
        self.fs(p + 8, &[(2, "version", "metricDataFormat"), (2, "count", "numberOfMetrics")]);
    }
    fn maxp(&mut self) {
        let mut p = self.fs(0, &[(4, "version", "version"), (2, "count", "numGlyphs")]);
        for nm in ["maxPoints", "maxContours", "maxCompositePoints", "maxCompositeContours", "maxZones", "maxTwilightPoints", "maxStorage", "maxFunctionDefs", "maxInstructionDefs", "maxStackElements", "maxSizeOfInstructions", "maxComponentElements", "maxComponentDepth"] {
            self.f(p, 2, "value", nm);
            p += 2;
        }
    }
    fn hmtx(&mut self, nh: usize, ng: usize) {
        for (k, nm) in [(0usize, "0"), (1, "1"), (nh.saturating_sub(1), "last")] {
            if k < nh {
                self.f(4 * k, 2, "value", &format!("metric[{}].advance", nm));
                self.f(4 * k + 2, 2, "value", &format!("metric[{}].sideBearing", nm));
            }
        }
        if ng > nh {
            self.f(4 * nh, 2, "value", "sideBearing[0]");
            self.f(4 * nh + 2 * (ng - nh - 1), 2, "value", "sideBearing[last]");
        }
    }
    fn loca(&mut self, long: bool, ng: usize) {
        let w = if long { 4 } else { 2 };
        for (k, nm) in [(0usize, "0"), (1, "1"), (2, "2"), (ng / 2, "mid"), (ng.saturating_sub(1), "n-1"), (ng, "n")] {
            if k <= ng {
                self.f(w * k, w as u8, "offset", &format!("offset[{}]", nm));
            }
        }
    }
    fn glyf(&mut self, lo: usize, ll: usize, long: bool, ng: usize) {
        let w = if long { 4 } else { 2 };
        let d = self.d;
        let at = |k: usize| -> Option<usize> {
            if (k + 1) * w > ll {
                return None;
            }
            let p = lo + k * w;
            Some(if long { u32::from_be_bytes([d[p], d[p + 1], d[p + 2], d[p + 3]]) as usize } else { 2 * (((d[p] as usize) << 8) | d[p + 1] as usize) })
        };
        // glyphs 0, 1, 2, last, plus the first composite glyphs found among the first 400
        let mut gids: Vec<usize> = vec![0, 1, 2, 3, ng / 2, ng.saturating_sub(1)];
        let mut comps = 0;
        for g in 4..ng.min(400) {
            if let (Some(a), Some(b)) = (at(g), at(g + 1)) {
                if b > a && a + 2 <= self.tlen && self.d[self.tstart + a] == 0xFF {
                    gids.push(g);
                    comps += 1;
                    if comps >= 3 {
                        break;
                    }
                }
            }
        }
        gids.sort();
        gids.dedup();
        for g in gids {
            if g >= ng {
                continue;
            }
            let (a, b) = match (at(g), at(g + 1)) {
                (Some(a), Some(b)) if b > a && b <= self.tlen => (a, b),
                _ => continue,
            };
            let nm = format!("glyph[{}]", g);
            self.fs(a, &[(2, "count", &format!("{}.numberOfContours", nm)), (2, "value", &format!("{}.xMin", nm)), (2, "value", &format!("{}.yMin", nm)), (2, "value", &format!("{}.xMax", nm)), (2, "value", &format!("{}.yMax", nm))]);
            let nc = self.u16(a).unwrap_or(0);
            if nc < 0x8000 && nc > 0 {
                self.f(a + 10, 2, "index", &format!("{}.endPts[0]", nm));
                self.f(a + 10 + 2 * (nc - 1), 2, "index", &format!("{}.endPts[last]", nm));
                let il = a + 10 + 2 * nc;
                self.f(il, 2, "length", &format!("{}.instructionLength", nm));
                let ilen = self.u16(il).unwrap_or(0);
                let fl = il + 2 + ilen;
                if fl + 2 <= b {
                    self.f(fl, 1, "value", &format!("{}.flags[0]", nm));
                    self.f(fl + 1, 1, "value", &format!("{}.flags[1]", nm));
                    self.f(b - 1, 1, "value", &format!("{}.lastByte", nm));
                }
            } else if nc >= 0x8000 {
                self.fs(a + 10, &[(2, "version", &format!("{}.comp0.flags", nm)), (2, "index", &format!("{}.comp0.glyphIndex", nm)), (1, "value", &format!("{}.comp0.arg1", nm)), (1, "value", &format!("{}.comp0.arg2", nm))]);
            }
        }
    }
    fn cmap(&mut self) {
        self.fs(0, &[(2, "version", "version"), (2, "count", "numTables")]);
        let n = self.u16(2).unwrap_or(0).min(24);
        let mut subs = std::collections::BTreeSet::new();
        for i in 0..n {
            let r = 4 + 8 * i;
            self.fs(r, &[(2, "value", &format!("rec[{}].platformID", i)), (2, "value", &format!("rec[{}].encodingID", i)), (4, "offset", &format!("rec[{}].offset", i))]);
            if let Some(o) = self.u32(r + 4) {
                subs.insert(o);
            }
        }
        for o in subs {
            let fmt = match self.u16(o) {
                Some(f) => f,
                None => continue,
            };
            let nm = format!("f{}", fmt);
            self.f(o, 2, "version", &format!("{}.format", nm));
            match fmt {
                0 => {
                    self.fs(o + 2, &[(2, "length", "f0.length"), (2, "value", "f0.language"), (1, "index", "f0.glyphId[0]"), (1, "index", "f0.glyphId[1]")]);
                    self.f(o + 6 + 65, 1, "index", "f0.glyphId[65]");
                }
                2 => {
                    self.fs(o + 2, &[(2, "length", "f2.length"), (2, "value", "f2.language"), (2, "index", "f2.subHeaderKeys[0]")]);
                    self.f(o + 6 + 2 * 0x81, 2, "index", "f2.subHeaderKeys[0x81]");
                    self.fs(o + 6 + 512, &[(2, "value", "f2.sub0.firstCode"), (2, "count", "f2.sub0.entryCount"), (2, "value", "f2.sub0.idDelta"), (2, "offset", "f2.sub0.idRangeOffset"), (2, "value", "f2.sub1.firstCode"), (2, "count", "f2.sub1.entryCount"), (2, "value", "f2.sub1.idDelta"), (2, "offset", "f2.sub1.idRangeOffset")]);
                }
                4 => {
                    self.fs(o + 2, &[(2, "length", "f4.length"), (2, "value", "f4.language"), (2, "count", "f4.segCountX2"), (2, "value", "f4.searchRange"), (2, "value", "f4.entrySelector"), (2, "value", "f4.rangeShift")]);
                    let sc = self.u16(o + 6).unwrap_or(0) / 2;
                    if sc > 0 {
                        let (e, s, dl, ro) = (o + 14, o + 16 + 2 * sc, o + 16 + 4 * sc, o + 16 + 6 * sc);
                        for (k, kn) in [(0usize, "0"), (sc / 2, "mid"), (sc - 1, "last")] {
                            self.f(e + 2 * k, 2, "value", &format!("f4.endCode[{}]", kn));
                            self.f(s + 2 * k, 2, "value", &format!("f4.startCode[{}]", kn));
                            self.f(dl + 2 * k, 2, "value", &format!("f4.idDelta[{}]", kn));
                            self.f(ro + 2 * k, 2, "offset", &format!("f4.idRangeOffset[{}]", kn));
                        }
                        self.f(o + 14 + 2 * sc, 2, "value", "f4.reservedPad");
                        self.f(o + 16 + 8 * sc, 2, "index", "f4.glyphIdArray[0]");
                    }
                }
                6 => {
                    self.fs(o + 2, &[(2, "length", "f6.length"), (2, "value", "f6.language"), (2, "value", "f6.firstCode"), (2, "count", "f6.entryCount"), (2, "index", "f6.glyphId[0]")]);
                }
                8 => {
                    self.fs(o + 2, &[(2, "value", "f8.reserved"), (4, "length", "f8.length"), (4, "value", "f8.language")]);
                    self.fs(o + 12 + 8192, &[(4, "count", "f8.numGroups"), (4, "value", "f8.group0.start"), (4, "value", "f8.group0.end"), (4, "index", "f8.group0.glyph")]);
                }
                10 => {
                    self.fs(o + 2, &[(2, "value", "f10.reserved"), (4, "length", "f10.length"), (4, "value", "f10.language"), (4, "value", "f10.startCharCode"), (4, "count", "f10.numChars"), (2, "index", "f10.glyph[0]")]);
                }
                12 | 13 => {
                    self.fs(o + 2, &[(2, "value", "f12.reserved"), (4, "length", "f12.length"), (4, "value", "f12.language"), (4, "count", "f12.numGroups")]);
                    let ng = self.u32(o + 12).unwrap_or(0);
                    for (k, kn) in [(0usize, "0"), (ng / 2, "mid"), (ng.saturating_sub(1), "last")] {
                        if k < ng {
                            self.fs(o + 16 + 12 * k, &[(4, "value", &format!("f12.group[{}].start", kn)), (4, "value", &format!("f12.group[{}].end", kn)), (4, "index", &format!("f12.group[{}].glyph", kn))]);
                        }
                    }
                }
                14 => {
                    self.fs(o + 2, &[(4, "length", "f14.length"), (4, "count", "f14.numVarSelectorRecords"), (3, "value", "f14.rec0.varSelector"), (4, "offset", "f14.rec0.defaultUVSOffset"), (4, "offset", "f14.rec0.nonDefaultUVSOffset")]);
                }
                _ => {}
            }
        }
    }
    fn name(&mut self) {
        self.fs(0, &[(2, "version", "format"), (2, "count", "count"), (2, "offset", "stringOffset")]);
        let n = self.u16(2).unwrap_or(0);
        for (k, kn) in [(0usize, "0"), (n / 2, "mid"), (n.saturating_sub(1), "last")] {
            if k < n {
                self.fs(6 + 12 * k, &[(2, "value", &format!("rec[{}].platformID", kn)), (2, "value", &format!("rec[{}].encodingID", kn)), (2, "value", &format!("rec[{}].languageID", kn)), (2, "index", &format!("rec[{}].nameID", kn)), (2, "length", &format!("rec[{}].length", kn)), (2, "offset", &format!("rec[{}].offset", kn))]);
            }
        }
        if self.u16(0) == Some(1) {
            self.fs(6 + 12 * n, &[(2, "count", "langTagCount"), (2, "length", "langTag0.length"), (2, "offset", "langTag0.offset")]);
        }
    }
    fn post(&mut self) {
        self.fs(0, &[(4, "version", "version"), (4, "value", "italicAngle"), (2, "value", "underlinePosition"), (2, "value", "underlineThickness"), (4, "value", "isFixedPitch"), (4, "value", "minMemType42"), (4, "value", "maxMemType42"), (4, "value", "minMemType1"), (4, "value", "maxMemType1")]);
        if self.u32(0) == Some(0x20000) {
            self.f(32, 2, "count", "numGlyphs");
            let n = self.u16(32).unwrap_or(0);
            let mut maxi = 0;
            for k in 0..n {
                maxi = maxi.max(self.u16(34 + 2 * k).unwrap_or(0));
            }
            for (k, kn) in [(0usize, "0"), (1, "1"), (n / 2, "mid"), (n.saturating_sub(1), "last")] {
                if k < n {
                    self.f(34 + 2 * k, 2, "index", &format!("glyphNameIndex[{}]", kn));
                }
            }
            let mut p = 34 + 2 * n;
            let mut k = 0;
            while let Some(l) = self.u8(p) {
                if k < 2 || (maxi >= 258 && k == maxi - 258) {
                    self.f(p, 1, "length", &format!("name[{}].length", k));
                }
                p += 1 + l;
                k += 1;
                if k > 70000 {
                    break;
                }
            }
        }
    }
    fn os2(&mut self) {
        let names = ["version", "xAvgCharWidth", "usWeightClass", "usWidthClass", "fsType", "ySubscriptXSize", "ySubscriptYSize", "ySubscriptXOffset", "ySubscriptYOffset", "ySuperscriptXSize", "ySuperscriptYSize", "ySuperscriptXOffset", "ySuperscriptYOffset", "yStrikeoutSize", "yStrikeoutPosition", "sFamilyClass"];
        let mut p = 0;
        for (k, nm) in names.iter().enumerate() {
            self.f(p, 2, if k == 0 { "version" } else { "value" }, nm);
            p += 2;
        }
        self.f(32, 1, "value", "panose[0]");
        self.fs(42, &[(4, "value", "ulUnicodeRange1"), (4, "value", "ulUnicodeRange2"), (4, "value", "ulUnicodeRange3"), (4, "value", "ulUnicodeRange4"), (4, "value", "achVendID"), (2, "value", "fsSelection"), (2, "value", "usFirstCharIndex"), (2, "value", "usLastCharIndex"), (2, "value", "sTypoAscender"), (2, "value", "sTypoDescender"), (2, "value", "sTypoLineGap"), (2, "value", "usWinAscent"), (2, "value", "usWinDescent"), (4, "value", "ulCodePageRange1"), (4, "value", "ulCodePageRange2"), (2, "value", "sxHeight"), (2, "value", "sCapHeight"), (2, "value", "usDefaultChar"), (2, "value", "usBreakChar"), (2, "value", "usMaxContext"), (2, "value", "usLowerOpticalPointSize"), (2, "value", "usUpperOpticalPointSize")]);
    }
    fn kern(&mut self) {
        self.fs(0, &[(2, "version", "version"), (2, "count", "nTables")]);
        let mut p = 4usize;
        for t in 0..self.u16(2).unwrap_or(0).min(3) {
            self.fs(p, &[(2, "version", &format!("sub[{}].version", t)), (2, "length", &format!("sub[{}].length", t)), (2, "version", &format!("sub[{}].coverage", t))]);
            let cov = self.u16(p + 4).unwrap_or(0);
            if cov >> 8 == 0 {
                self.fs(p + 6, &[(2, "count", "f0.nPairs"), (2, "value", "f0.searchRange"), (2, "value", "f0.entrySelector"), (2, "value", "f0.rangeShift"), (2, "index", "f0.pair0.left"), (2, "index", "f0.pair0.right"), (2, "value", "f0.pair0.value")]);
            } else if cov >> 8 == 2 {
                self.fs(p + 6, &[(2, "length", "f2.rowWidth"), (2, "offset", "f2.leftClassOffset"), (2, "offset", "f2.rightClassOffset"), (2, "offset", "f2.kerningArrayOffset")]);
                for (nm, at) in [("left", p + 8), ("right", p + 10)] {
                    if let Some(o) = self.u16(at) {
                        self.fs(p + o, &[(2, "index", &format!("f2.{}.firstGlyph", nm)), (2, "count", &format!("f2.{}.nGlyphs", nm)), (2, "offset", &format!("f2.{}.class[0]", nm))]);
                    }
                }
            }
            let l = self.u16(p + 2).unwrap_or(0);
            if l == 0 {
                break;
            }
            p += l;
        }
    }
    fn fvar(&mut self) {
        self.fs(0, &[(2, "version", "majorVersion"), (2, "version", "minorVersion"), (2, "offset", "axesArrayOffset"), (2, "value", "reserved"), (2, "count", "axisCount"), (2, "length", "axisSize"), (2, "count", "instanceCount"), (2, "length", "instanceSize")]);
        let (o, n, sz) = (self.u16(4).unwrap_or(16), self.u16(8).unwrap_or(0), self.u16(10).unwrap_or(20));
        for k in 0..n.min(3) {
            self.fs(o + sz * k, &[(4, "index", &format!("axis[{}].tag", k)), (4, "value", &format!("axis[{}].minValue", k)), (4, "value", &format!("axis[{}].defaultValue", k)), (4, "value", &format!("axis[{}].maxValue", k)), (2, "value", &format!("axis[{}].flags", k)), (2, "index", &format!("axis[{}].nameID", k))]);
        }
        let io = o + sz * n;
        self.fs(io, &[(2, "index", "instance0.subfamilyNameID"), (2, "value", "instance0.flags"), (4, "value", "instance0.coord0")]);
    }
    fn avar(&mut self) {
        self.fs(0, &[(2, "version", "majorVersion"), (2, "version", "minorVersion"), (2, "value", "reserved"), (2, "count", "axisCount"), (2, "count", "seg0.positionMapCount"), (2, "value", "seg0.map0.from"), (2, "value", "seg0.map0.to"), (2, "value", "seg0.map1.from"), (2, "value", "seg0.map1.to")]);
    }
    fn gvar(&mut self) {
        self.fs(0, &[(2, "version", "majorVersion"), (2, "version", "minorVersion"), (2, "count", "axisCount"), (2, "count", "sharedTupleCount"), (4, "offset", "sharedTuplesOffset"), (2, "count", "glyphCount"), (2, "version", "flags"), (4, "offset", "glyphVariationDataArrayOffset")]);
        let n = self.u16(12).unwrap_or(0);
        let long = self.u16(14).unwrap_or(0) & 1 == 1;
        let w = if long { 4 } else { 2 };
        for (k, kn) in [(0usize, "0"), (1, "1"), (2, "2"), (n / 2, "mid"), (n, "n")] {
            if k <= n {
                self.f(20 + w * k, w as u8, "offset", &format!("offset[{}]", kn));
            }
        }
        if let Some(so) = self.u32(4) {
            self.fs(so, &[(2, "value", "sharedTuple0.coord0"), (2, "value", "sharedTuple0.coord1")]);
        }
        // variation data of the first glyphs that have some
        let base = self.u32(16).unwrap_or(0);
        let mut done = 0;
        for g in 0..n.min(64) {
            let (a, b) = match (self.un(20 + w * g, w), self.un(20 + w * (g + 1), w)) {
                (Some(a), Some(b)) => if long { (a, b) } else { (2 * a, 2 * b) },
                _ => break,
            };
            if b > a {
                let p = base + a;
                self.fs(p, &[(2, "count", &format!("gvd[{}].tupleVariationCount", g)), (2, "offset", &format!("gvd[{}].dataOffset", g)), (2, "length", &format!("gvd[{}].hdr0.variationDataSize", g)), (2, "index", &format!("gvd[{}].hdr0.tupleIndex", g)), (2, "value", &format!("gvd[{}].hdr0.next", g))]);
                if let Some(dof) = self.u16(p + 2) {
                    self.fs(p + dof, &[(1, "count", &format!("gvd[{}].data.byte0", g)), (1, "value", &format!("gvd[{}].data.byte1", g)), (1, "value", &format!("gvd[{}].data.byte2", g)), (1, "value", &format!("gvd[{}].data.byte3", g))]);
                }
                done += 1;
                if done >= 3 {
                    break;
                }
            }
        }
    }
    fn ivs(&mut self, o: usize, nm: &str) {
        self.fs(o, &[(2, "version", &format!("{}.format", nm)), (4, "offset", &format!("{}.variationRegionListOffset", nm)), (2, "count", &format!("{}.itemVariationDataCount", nm)), (4, "offset", &format!("{}.itemVariationDataOffset[0]", nm))]);
        if let Some(r) = self.u32(o + 2) {
            self.fs(o + r, &[(2, "count", &format!("{}.regions.axisCount", nm)), (2, "count", &format!("{}.regions.regionCount", nm)), (2, "value", &format!("{}.region0.start", nm)), (2, "value", &format!("{}.region0.peak", nm)), (2, "value", &format!("{}.region0.end", nm))]);
        }
        if let Some(dv) = self.u32(o + 8) {
            self.fs(o + dv, &[(2, "count", &format!("{}.data0.itemCount", nm)), (2, "count", &format!("{}.data0.wordDeltaCount", nm)), (2, "count", &format!("{}.data0.regionIndexCount", nm)), (2, "index", &format!("{}.data0.regionIndex[0]", nm))]);
        }
    }
    fn dsim(&mut self, o: usize, nm: &str) {
        if o == 0 {
            return;
        }
        let fmt = self.u8(o).unwrap_or(0);
        self.fs(o, &[(1, "version", &format!("{}.format", nm)), (1, "version", &format!("{}.entryFormat", nm)), (if fmt == 1 { 4 } else { 2 }, "count", &format!("{}.mapCount", nm)), (1, "index", &format!("{}.mapData[0]", nm)), (1, "index", &format!("{}.mapData[1]", nm))]);
    }
    fn hvar(&mut self) {
        self.fs(0, &[(2, "version", "majorVersion"), (2, "version", "minorVersion"), (4, "offset", "itemVariationStoreOffset"), (4, "offset", "advanceMappingOffset"), (4, "offset", "lsbMappingOffset"), (4, "offset", "rsbMappingOffset")]);
        if let Some(o) = self.u32(4) {
            self.ivs(o, "ivs");
        }
        if let Some(o) = self.u32(8) {
            self.dsim(o, "advMap");
        }
        if let Some(o) = self.u32(12) {
            self.dsim(o, "lsbMap");
        }
    }
    fn mvar(&mut self) {
        self.fs(0, &[(2, "version", "majorVersion"), (2, "version", "minorVersion"), (2, "value", "reserved"), (2, "length", "valueRecordSize"), (2, "count", "valueRecordCount"), (2, "offset", "itemVariationStoreOffset"), (4, "index", "rec0.valueTag"), (2, "index", "rec0.deltaSetOuterIndex"), (2, "index", "rec0.deltaSetInnerIndex")]);
        if let Some(o) = self.u16(10) {
            self.ivs(o, "ivs");
        }
    }
    fn stat(&mut self) {
        self.fs(0, &[(2, "version", "majorVersion"), (2, "version", "minorVersion"), (2, "length", "designAxisSize"), (2, "count", "designAxisCount"), (4, "offset", "designAxesOffset"), (2, "count", "axisValueCount"), (4, "offset", "offsetToAxisValueOffsets"), (2, "index", "elidedFallbackNameID")]);
        if let Some(o) = self.u32(8) {
            self.fs(o, &[(4, "index", "axis0.tag"), (2, "index", "axis0.nameID"), (2, "value", "axis0.ordering")]);
        }
        if let Some(o) = self.u32(14) {
            self.f(o, 2, "offset", "axisValueOffset[0]");
            if let Some(v) = self.u16(o) {
                self.fs(o + v, &[(2, "version", "axisValue0.format"), (2, "index", "axisValue0.axisIndex"), (2, "value", "axisValue0.flags"), (2, "index", "axisValue0.valueNameID"), (4, "value", "axisValue0.value")]);
            }
        }
    }
    fn layout(&mut self) {
        self.fs(0, &[(2, "version", "majorVersion"), (2, "version", "minorVersion"), (2, "offset", "scriptListOffset"), (2, "offset", "featureListOffset"), (2, "offset", "lookupListOffset")]);
        if self.u16(2) == Some(1) {
            self.f(10, 4, "offset", "featureVariationsOffset");
        }
        if let Some(s) = self.u16(4) {
            self.fs(s, &[(2, "count", "scriptCount"), (4, "index", "script0.tag"), (2, "offset", "script0.offset")]);
            if let Some(so) = self.u16(s + 6) {
                self.fs(s + so, &[(2, "offset", "script0.defaultLangSys"), (2, "count", "script0.langSysCount")]);
                if let Some(dl) = self.u16(s + so) {
                    self.fs(s + so + dl, &[(2, "offset", "langSys.lookupOrder"), (2, "index", "langSys.requiredFeatureIndex"), (2, "count", "langSys.featureIndexCount"), (2, "index", "langSys.featureIndex[0]")]);
                }
            }
        }
        if let Some(fo) = self.u16(6) {
            self.fs(fo, &[(2, "count", "featureCount"), (4, "index", "feature0.tag"), (2, "offset", "feature0.offset")]);
            if let Some(f0) = self.u16(fo + 6) {
                self.fs(fo + f0, &[(2, "offset", "feature0.params"), (2, "count", "feature0.lookupIndexCount"), (2, "index", "feature0.lookupListIndex[0]")]);
            }
        }
        if let Some(lo) = self.u16(8) {
            self.f(lo, 2, "count", "lookupCount");
            let n = self.u16(lo).unwrap_or(0);
            for (k, kn) in [(0usize, "0"), (n / 2, "mid"), (n.saturating_sub(1), "last")] {
                if k >= n {
                    continue;
                }
                self.f(lo + 2 + 2 * k, 2, "offset", &format!("lookupOffset[{}]", kn));
                if let Some(l) = self.u16(lo + 2 + 2 * k) {
                    let lp = lo + l;
                    self.fs(lp, &[(2, "version", &format!("lookup[{}].type", kn)), (2, "value", &format!("lookup[{}].flag", kn)), (2, "count", &format!("lookup[{}].subTableCount", kn)), (2, "offset", &format!("lookup[{}].subTableOffset[0]", kn))]);
                    if let Some(st) = self.u16(lp + 6) {
                        self.fs(lp + st, &[(2, "version", &format!("lookup[{}].sub0.format", kn)), (2, "offset", &format!("lookup[{}].sub0.word1", kn)), (2, "value", &format!("lookup[{}].sub0.word2", kn)), (2, "count", &format!("lookup[{}].sub0.word3", kn))]);
                    }
                }
            }
        }
    }
    fn gdef(&mut self) {
        self.fs(0, &[(2, "version", "majorVersion"), (2, "version", "minorVersion"), (2, "offset", "glyphClassDefOffset"), (2, "offset", "attachListOffset"), (2, "offset", "ligCaretListOffset"), (2, "offset", "markAttachClassDefOffset")]);
        let minor = self.u16(2).unwrap_or(0);
        if minor >= 2 {
            self.f(12, 2, "offset", "markGlyphSetsDefOffset");
        }
        if minor >= 3 {
            self.f(14, 4, "offset", "itemVarStoreOffset");
        }
        if let Some(c) = self.u16(4) {
            if c != 0 {
                self.fs(c, &[(2, "version", "classDef.format"), (2, "index", "classDef.word1"), (2, "count", "classDef.word2"), (2, "value", "classDef.word3")]);
            }
        }
    }

    // ---- CFF / CFF2 -------------------------------------------------------------------------------------

    /// INDEX at `p`; returns (count, offSize, data start (offset 1 lands here + 1 - 1), end)
    fn index(&mut self, p: usize, nm: &str, cff2: bool) -> Option<(usize, usize, usize, usize)> {
        let (count, hdr) = if cff2 { (self.u32(p)?, 4) } else { (self.u16(p)?, 2) };
        self.f(p, hdr as u8, "count", &format!("{}.count", nm));
        if count == 0 {
            return Some((0, 0, p + hdr, p + hdr));
        }
        let os = self.u8(p + hdr)?;
        self.f(p + hdr, 1, "length", &format!("{}.offSize", nm));
        if os == 0 || os > 4 {
            return None;
        }
        let oa = p + hdr + 1;
        for (k, kn) in [(0usize, "0"), (1, "1"), (count / 2, "mid"), (count, "n")] {
            if k <= count {
                self.f(oa + os * k, os as u8, "offset", &format!("{}.offset[{}]", nm, kn));
            }
        }
        let data = oa + os * (count + 1);
        let last = self.un(oa + os * count, os)?;
        Some((count, os, data, data + last.saturating_sub(1)))
    }
    fn index_item(&self, p: usize, k: usize, cff2: bool) -> Option<(usize, usize)> {
        let (count, hdr) = if cff2 { (self.u32(p)?, 4) } else { (self.u16(p)?, 2) };
        if k >= count {
            return None;
        }
        let os = self.u8(p + hdr)?;
        let oa = p + hdr + 1;
        let data = oa + os * (count + 1);
        let a = self.un(oa + os * k, os)?;
        let b = self.un(oa + os * (k + 1), os)?;
        if a == 0 || b < a {
            return None;
        }
        Some((data + a - 1, data + b - 1))
    }
    /// DICT in [a, b): operands become fields; returns (operator, operand values)
    fn dict(&mut self, a: usize, b: usize, nm: &str) -> Vec<(usize, Vec<i64>)> {
        let mut out = Vec::new();
        let mut ops: Vec<(usize, usize, i64)> = Vec::new(); // (pos, width, value)
        let mut p = a;
        let mut guard = 0;
        while p < b && guard < 400 {
            guard += 1;
            let b0 = match self.u8(p) {
                Some(x) => x,
                None => break,
            };
            match b0 {
                0..=21 | 23..=27 => {
                    let (op, w) = if b0 == 12 { (1200 + self.u8(p + 1).unwrap_or(0), 2) } else { (b0, 1) };
                    // roles of the operands by operator
                    let roles: Vec<&'static str> = match op {
                        15 | 16 | 17 | 19 | 24 | 1236 | 1237 => vec!["offset"],
                        18 => vec!["length", "offset"],
                        22 => vec!["index"],
                        _ => vec!["value"],
                    };
                    self.f(p, w as u8, "version", &format!("{}.op{}", nm, op));
                    let n = ops.len();
                    for (k, (pos, wd, _)) in ops.iter().enumerate() {
                        let role = if roles.len() == n { roles[k] } else if n > roles.len() && k >= n - roles.len() { roles[k - (n - roles.len())] } else { "value" };
                        self.f(*pos, *wd as u8, role, &format!("{}.op{}.arg{}", nm, op, k));
                    }
                    out.push((op, ops.iter().map(|x| x.2).collect()));
                    ops.clear();
                    p += w;
                }
                28 => {
                    ops.push((p + 1, 2, self.u16(p + 1).map(|v| v as i16 as i64).unwrap_or(0)));
                    p += 3;
                }
                29 => {
                    ops.push((p + 1, 4, self.u32(p + 1).map(|v| v as u32 as i32 as i64).unwrap_or(0)));
                    p += 5;
                }
                30 => {
                    // real number: nibbles up to 0xf
                    let s = p;
                    p += 1;
                    while let Some(x) = self.u8(p) {
                        p += 1;
                        if x & 0x0f == 0x0f || x >> 4 == 0x0f {
                            break;
                        }
                    }
                    ops.push((s + 1, 1, 0));
                }
                32..=246 => {
                    ops.push((p, 1, b0 as i64 - 139));
                    p += 1;
                }
                247..=250 => {
                    ops.push((p, 2, (b0 as i64 - 247) * 256 + self.u8(p + 1).unwrap_or(0) as i64 + 108));
                    p += 2;
                }
                251..=254 => {
                    ops.push((p, 2, -(b0 as i64 - 251) * 256 - self.u8(p + 1).unwrap_or(0) as i64 - 108));
                    p += 2;
                }
                _ => {
                    self.f(p, 1, "version", &format!("{}.reserved", nm));
                    p += 1;
                }
            }
        }
        out
    }
    fn charstring(&mut self, a: usize, b: usize, nm: &str) {
        let n = b.saturating_sub(a);
        for k in 0..n.min(6) {
            self.f(a + k, 1, "value", &format!("{}.byte{}", nm, k));
        }
        if n > 8 {
            self.f(a + n / 2, 1, "value", &format!("{}.mid", nm));
            self.f(b - 1, 1, "value", &format!("{}.last", nm));
        }
        // operands of callsubr / callgsubr are indices of subroutines: light Type 2 tokeniser, stops
        // at the first hint mask (whose length depends on the stem count)
        let mut p = a;
        let mut last_num: Option<(usize, u8)> = None;
        let mut calls = 0;
        while p < b && calls < 4 {
            let b0 = match self.u8(p) {
                Some(x) => x,
                None => break,
            };
            match b0 {
                28 => {
                    last_num = Some((p + 1, 2));
                    p += 3;
                }
                32..=246 => {
                    last_num = Some((p, 1));
                    p += 1;
                }
                247..=254 => {
                    last_num = Some((p, 2));
                    p += 2;
                }
                255 => {
                    last_num = Some((p + 1, 4));
                    p += 5;
                }
                10 | 29 => {
                    if let Some((np, w)) = last_num {
                        self.f(np, w, "index", &format!("{}.{}.arg", nm, if b0 == 10 { "callsubr" } else { "callgsubr" }));
                        calls += 1;
                    }
                    last_num = None;
                    p += 1;
                }
                19 | 20 => break,
                12 => {
                    last_num = None;
                    p += 2;
                }
                _ => {
                    last_num = None;
                    p += 1;
                }
            }
        }
    }
    fn cff(&mut self, cff2: bool) {
        let top: Vec<(usize, Vec<i64>)>;
        let gsubr_at;
        if cff2 {
            self.fs(0, &[(1, "version", "major"), (1, "version", "minor"), (1, "length", "headerSize"), (2, "length", "topDictLength")]);
            let hs = self.u8(2).unwrap_or(5);
            let tl = self.u16(3).unwrap_or(0);
            top = self.dict(hs, hs + tl, "top");
            gsubr_at = hs + tl;
        } else {
            self.fs(0, &[(1, "version", "major"), (1, "version", "minor"), (1, "length", "hdrSize"), (1, "length", "offSize")]);
            let hs = self.u8(2).unwrap_or(4);
            let (_, _, _, name_end) = match self.index(hs, "nameINDEX", false) {
                Some(x) => x,
                None => return,
            };
            let (_, _, _, top_end) = match self.index(name_end, "topINDEX", false) {
                Some(x) => x,
                None => return,
            };
            top = match self.index_item(name_end, 0, false) {
                Some((a, b)) => self.dict(a, b, "top"),
                None => return,
            };
            let (_, _, _, str_end) = match self.index(top_end, "stringINDEX", false) {
                Some(x) => x,
                None => return,
            };
            gsubr_at = str_end;
        }
        if self.index(gsubr_at, "gsubrINDEX", cff2).is_some() {
            for k in 0..6 {
                if let Some((a, b)) = self.index_item(gsubr_at, k, cff2) {
                    self.charstring(a, b, &format!("gsubr[{}]", k));
                }
            }
        }
        let arg = |op: usize| top.iter().find(|x| x.0 == op).map(|x| x.1.clone());
        let mut n_glyphs = 0;
        if let Some(v) = arg(17) {
            if let Some(&cs) = v.last() {
                let cs = cs.max(0) as usize;
                if let Some((n, _, _, _)) = self.index(cs, "charStrings", cff2) {
                    n_glyphs = n;
                    for (k, kn) in [(0usize, "0"), (1, "1"), (2, "2"), (n / 2, "mid"), (n.saturating_sub(1), "last")] {
                        if let Some((a, b)) = self.index_item(cs, k, cff2) {
                            self.charstring(a, b, &format!("charstring[{}]", kn));
                        }
                    }
                }
            }
        }
        let mut privates: Vec<(usize, usize, String)> = Vec::new();
        if let Some(v) = arg(18) {
            if v.len() >= 2 {
                privates.push((v[v.len() - 1].max(0) as usize, v[v.len() - 2].max(0) as usize, "private".to_string()));
            }
        }
        if let Some(v) = arg(15) {
            if let Some(&c) = v.last() {
                if c > 2 {
                    let c = c as usize;
                    self.fs(c, &[(1, "version", "charset.format"), (2, "index", "charset.first"), (2, "count", "charset.word1")]);
                }
            }
        }
        if let Some(v) = arg(16) {
            if let Some(&c) = v.last() {
                if c > 1 {
                    let c = c as usize;
                    self.fs(c, &[(1, "version", "encoding.format"), (1, "count", "encoding.n"), (1, "value", "encoding.byte0")]);
                }
            }
        }
        if let Some(v) = arg(1236) {
            if let Some(&fa) = v.last() {
                let fa = fa.max(0) as usize;
                if let Some((n, _, _, _)) = self.index(fa, "fdArray", cff2) {
                    for k in 0..n.min(3) {
                        if let Some((a, b)) = self.index_item(fa, k, cff2) {
                            let fd = self.dict(a, b, &format!("fd[{}]", k));
                            if let Some(pv) = fd.iter().find(|x| x.0 == 18) {
                                if pv.1.len() >= 2 {
                                    privates.push((pv.1[pv.1.len() - 1].max(0) as usize, pv.1[pv.1.len() - 2].max(0) as usize, format!("fd[{}].private", k)));
                                }
                            }
                        }
                    }
                }
            }
        }
        if let Some(v) = arg(1237) {
            if let Some(&fs) = v.last() {
                let fs = fs.max(0) as usize;
                let fmt = self.u8(fs).unwrap_or(0);
                self.f(fs, 1, "version", "fdSelect.format");
                if fmt == 0 {
                    self.f(fs + 1, 1, "index", "fdSelect.fd[0]");
                    self.f(fs + n_glyphs, 1, "index", "fdSelect.fd[last]");
                } else if fmt == 3 {
                    self.fs(fs + 1, &[(2, "count", "fdSelect.nRanges"), (2, "index", "fdSelect.range0.first"), (1, "index", "fdSelect.range0.fd"), (2, "index", "fdSelect.range1.first")]);
                    let nr = self.u16(fs + 1).unwrap_or(0);
                    self.f(fs + 3 + 3 * nr, 2, "index", "fdSelect.sentinel");
                } else {
                    self.fs(fs + 1, &[(4, "count", "fdSelect.nRanges"), (4, "index", "fdSelect.range0.first"), (2, "index", "fdSelect.range0.fd")]);
                }
            }
        }
        if let Some(v) = arg(24) {
            if let Some(&vs) = v.last() {
                let vs = vs.max(0) as usize;
                self.f(vs, 2, "length", "vstore.length");
                self.ivs(vs + 2, "vstore");
            }
        }
        for (off, size, nm) in privates {
            let pd = self.dict(off, off + size, &nm);
            if let Some(s) = pd.iter().find(|x| x.0 == 19) {
                if let Some(&so) = s.1.last() {
                    let at = (off as i64 + so).max(0) as usize;
                    if self.index(at, &format!("{}.subrs", nm), cff2).is_some() {
                        for k in 0..6 {
                            if let Some((a, b)) = self.index_item(at, k, cff2) {
                                self.charstring(a, b, &format!("{}.subr[{}]", nm, k));
                            }
                        }
                    }
                }
            }
        }
    }

    // ---- images -----------------------------------------------------------------------------------------

    fn svg(&mut self) {
        self.fs(0, &[(2, "version", "version"), (4, "offset", "svgDocumentListOffset"), (4, "value", "reserved")]);
        if let Some(o) = self.u32(2) {
            self.f(o, 2, "count", "numEntries");
            let n = self.u16(o).unwrap_or(0);
            for (k, kn) in [(0usize, "0"), (n.saturating_sub(1), "last")] {
                if k < n {
                    self.fs(o + 2 + 12 * k, &[(2, "index", &format!("doc[{}].startGlyphID", kn)), (2, "index", &format!("doc[{}].endGlyphID", kn)), (4, "offset", &format!("doc[{}].svgDocOffset", kn)), (4, "length", &format!("doc[{}].svgDocLength", kn))]);
                }
            }
            if let Some(d0) = self.u32(o + 6) {
                self.fs(o + d0, &[(1, "version", "doc0.byte0"), (1, "version", "doc0.byte1"), (1, "version", "doc0.byte2")]);
            }
        }
    }
    fn cblc(&mut self) {
        self.fs(0, &[(2, "version", "majorVersion"), (2, "version", "minorVersion"), (4, "count", "numSizes")]);
        let n = self.u32(4).unwrap_or(0);
        for k in 0..n.min(2) {
            let b = 8 + 48 * k;
            let nm = format!("size[{}]", k);
            self.fs(b, &[(4, "offset", &format!("{}.indexSubTableArrayOffset", nm)), (4, "length", &format!("{}.indexTablesSize", nm)), (4, "count", &format!("{}.numberOfIndexSubTables", nm)), (4, "value", &format!("{}.colorRef", nm))]);
            self.fs(b + 16, &[(1, "value", &format!("{}.hori.ascender", nm)), (1, "value", &format!("{}.hori.descender", nm)), (1, "value", &format!("{}.hori.widthMax", nm))]);
            self.fs(b + 40, &[(2, "index", &format!("{}.startGlyphIndex", nm)), (2, "index", &format!("{}.endGlyphIndex", nm)), (1, "value", &format!("{}.ppemX", nm)), (1, "value", &format!("{}.ppemY", nm)), (1, "version", &format!("{}.bitDepth", nm)), (1, "value", &format!("{}.flags", nm))]);
            if let Some(a) = self.u32(b) {
                self.fs(a, &[(2, "index", &format!("{}.sub0.firstGlyphIndex", nm)), (2, "index", &format!("{}.sub0.lastGlyphIndex", nm)), (4, "offset", &format!("{}.sub0.additionalOffset", nm))]);
                if let Some(add) = self.u32(a + 4) {
                    let h = a + add;
                    self.fs(h, &[(2, "version", &format!("{}.sub0.indexFormat", nm)), (2, "version", &format!("{}.sub0.imageFormat", nm)), (4, "offset", &format!("{}.sub0.imageDataOffset", nm)), (4, "offset", &format!("{}.sub0.word0", nm)), (4, "offset", &format!("{}.sub0.word1", nm))]);
                }
            }
        }
    }
    fn sbix(&mut self, ng: usize) {
        self.fs(0, &[(2, "version", "version"), (2, "value", "flags"), (4, "count", "numStrikes")]);
        let n = self.u32(4).unwrap_or(0);
        for k in 0..n.min(2) {
            self.f(8 + 4 * k, 4, "offset", &format!("strikeOffset[{}]", k));
            if let Some(s) = self.u32(8 + 4 * k) {
                self.fs(s, &[(2, "value", &format!("strike[{}].ppem", k)), (2, "value", &format!("strike[{}].ppi", k))]);
                for (g, gn) in [(0usize, "0"), (1, "1"), (2, "2"), (ng, "n")] {
                    if g <= ng {
                        self.f(s + 4 + 4 * g, 4, "offset", &format!("strike[{}].glyphDataOffset[{}]", k, gn));
                    }
                }
                for g in 0..ng.min(4) {
                    if let (Some(a), Some(b)) = (self.u32(s + 4 + 4 * g), self.u32(s + 8 + 4 * g)) {
                        if b > a {
                            self.fs(s + a, &[(2, "value", &format!("strike[{}].glyph[{}].originOffsetX", k, g)), (2, "value", &format!("strike[{}].glyph[{}].originOffsetY", k, g)), (4, "version", &format!("strike[{}].glyph[{}].graphicType", k, g)), (2, "index", &format!("strike[{}].glyph[{}].data0", k, g))]);
                        }
                    }
                }
            }
        }
    }
}
