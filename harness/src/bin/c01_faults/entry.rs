//! Entry point groups of property C01.  Every public operation that consumes font bytes is called
//! on the (possibly corrupted) file; each single call runs under `sup::guarded`, so one group
//! reports how many of its calls returned a value, returned an error, or panicked (with site).
//! Nothing is decided here.
use super::sup::{guarded, Caught};
use allsorts::binary::read::ReadScope;
use allsorts::bitmap::cbdt::{CBDTTable, CBLCTable};
use allsorts::bitmap::sbix::Sbix as SbixTable;
use allsorts::bitmap::BitDepth;
use allsorts::cff::cff2::CFF2;
use allsorts::cff::outline::CFF2Outlines;
use allsorts::cff::CFF;
use allsorts::error::ParseError;
use allsorts::font::{read_cmap_subtable, Font, GlyphTableFlags, MatchingPresentation};
use allsorts::font_data::{DynamicFontTableProvider, FontData};
use allsorts::get_name::fontcode_get_name;
use allsorts::glyph_info;
use allsorts::outline::{OutlineBuilder, OutlineSink};
use allsorts::post::PostTable;
use allsorts::subset::{self, prince};
use allsorts::tables::cmap::{Cmap, CmapSubtable};
use allsorts::tables::glyf::GlyfTable;
use allsorts::tables::kern::KernTable;
use allsorts::tables::loca::LocaTable;
use allsorts::tables::os2::Os2;
use allsorts::tables::svg::SvgTable;
use allsorts::tables::variable_fonts::avar::AvarTable;
use allsorts::tables::variable_fonts::cvar::CvarTable;
use allsorts::tables::variable_fonts::fvar::FvarTable;
use allsorts::tables::variable_fonts::gvar::{GvarTable, NumPoints};
use allsorts::tables::variable_fonts::hvar::HvarTable;
use allsorts::tables::variable_fonts::mvar::MvarTable;
use allsorts::tables::variable_fonts::stat::{ElidableName, StatTable};
use allsorts::tables::{CvtTable, F2Dot14, Fixed, FontTableProvider, HeadTable, HheaTable, HmtxTable, MaxpTable, NameTable, SfntVersion};
use allsorts::unicode::VariationSelector;
use allsorts::{tag, variations};
use pathfinder_geometry::line_segment::LineSegment2F;
use pathfinder_geometry::vector::Vector2F;
use std::borrow::Cow;
use std::cell::RefCell;
use std::collections::BTreeSet;

/// Entry point groups, in execution order.  `container` carries the exact expectations of the
/// container level; all others are judged by the outcome alphabet only.
pub const GROUPS: [&str; 18] = [
    "container",
    "font_new",
    "lookup_glyph_index",
    "cmap_mappings",
    "glyph_names",
    "advance",
    "glyph_image",
    "outlines",
    "subset",
    "whole_font",
    "prince_subset",
    "instance",
    "axis_names",
    "kern",
    "svg",
    "bitmaps",
    "os2",
    "post_name",
];

pub fn group_index(name: &str) -> Option<usize> {
    GROUPS.iter().position(|g| *g == name)
}

#[derive(Default, Clone, Debug)]
pub struct GroupOut {
    pub ok: u32,
    pub err: u32,
    /// panic messages `message @ file:line [fn]`, one per panicking call (distinct ones kept)
    pub panics: Vec<String>,
    pub first_err: String,
    /// tables requested from the provider (tags) while the group ran
    pub touched: BTreeSet<u32>,
    pub touched_all: bool,
    /// container group only: facts about read / provider / raw tables
    pub facts: Option<serde_json::Value>,
}

impl GroupOut {
    pub fn outcome(&self) -> &'static str {
        if !self.panics.is_empty() {
            "Panic"
        } else if self.err > 0 {
            "Err"
        } else {
            "Ok"
        }
    }
}

/// One supervised call.
fn sub<T, E: std::fmt::Debug>(out: &mut GroupOut, f: impl FnOnce() -> Result<T, E>) -> Option<T> {
    match guarded(f) {
        Caught::Returned(Ok(v)) => {
            out.ok += 1;
            Some(v)
        }
        Caught::Returned(Err(e)) => {
            out.err += 1;
            if std::env::var_os("C01_TRACE_ERR").is_some() {
                // for looking into a synthesized input by hand; never set by the check
                eprintln!("  call {} of the group: Err({:?})", out.ok + out.err, e);
            }
            if out.first_err.is_empty() {
                let mut s = format!("{:?}", e);
                s.truncate(80);
                out.first_err = s;
            }
            None
        }
        Caught::Panicked(m) => {
            if !out.panics.contains(&m) && out.panics.len() < 8 {
                out.panics.push(m);
            }
            None
        }
    }
}

fn val<T>(out: &mut GroupOut, f: impl FnOnce() -> T) -> Option<T> {
    sub(out, || Ok::<T, ()>(f()))
}

// ---- provider that remembers which tables were asked for -----------------------------------------

pub struct Spy<'p, P> {
    inner: &'p P,
    log: &'p RefCell<(BTreeSet<u32>, bool)>,
}

impl<'p, P: FontTableProvider> FontTableProvider for Spy<'p, P> {
    fn table_data(&self, tag: u32) -> Result<Option<Cow<'_, [u8]>>, ParseError> {
        self.log.borrow_mut().0.insert(tag);
        self.inner.table_data(tag)
    }
    fn has_table(&self, tag: u32) -> bool {
        self.log.borrow_mut().0.insert(tag);
        self.inner.has_table(tag)
    }
    fn table_tags(&self) -> Option<Vec<u32>> {
        self.log.borrow_mut().1 = true;
        self.inner.table_tags()
    }
}

impl<'p, P: SfntVersion> SfntVersion for Spy<'p, P> {
    fn sfnt_version(&self) -> u32 {
        self.inner.sfnt_version()
    }
}

struct NullSink(usize);
impl OutlineSink for NullSink {
    fn move_to(&mut self, _: Vector2F) {
        self.0 += 1
    }
    fn line_to(&mut self, _: Vector2F) {
        self.0 += 1
    }
    fn quadratic_curve_to(&mut self, _: Vector2F, _: Vector2F) {
        self.0 += 1
    }
    fn cubic_curve_to(&mut self, _: LineSegment2F, _: Vector2F) {
        self.0 += 1
    }
    fn close(&mut self) {
        self.0 += 1
    }
}

const PROBE_CHARS: [u32; 12] = [0x41, 0x20, 0xE9, 0x0915, 0x0628, 0x4E00, 0x1F600, 0xF020, 0xF041, 0x10FFFF, 0x0, 0xFFFF];

/// glyph ids {0, 1, n-1, n, 65535} for the glyph count the (corrupted) font declares
fn probe_gids(n: u16) -> Vec<u16> {
    let mut v = vec![0u16, 1, n.wrapping_sub(1), n, 65535];
    let mut seen = BTreeSet::new();
    v.retain(|g| seen.insert(*g));
    v
}

type Prov<'a> = DynamicFontTableProvider<'a>;

/// FontData::read + table_provider(0), each supervised; None when the font does not get that far.
fn open<'a>(out: &mut GroupOut, bytes: &'a [u8]) -> Option<Prov<'a>> {
    let fd = sub(out, || ReadScope::new(bytes).read::<FontData<'a>>())?;
    sub(out, || fd.table_provider(0))
}

/// has_table iterates the directory: supervised like every other call
fn has(out: &mut GroupOut, p: &impl FontTableProvider, t: u32) -> bool {
    val(out, || p.has_table(t)).unwrap_or(false)
}

fn num_glyphs_of(p: &impl FontTableProvider) -> u16 {
    match guarded(|| -> Option<u16> {
        let d = p.read_table_data(tag::MAXP).ok()?;
        ReadScope::new(&d).read::<MaxpTable>().ok().map(|m| m.num_glyphs)
    }) {
        Caught::Returned(Some(n)) => n,
        _ => 0,
    }
}

pub fn run_group(g: usize, bytes: &[u8]) -> GroupOut {
    let mut out = GroupOut::default();
    let log = RefCell::new((BTreeSet::new(), false));
    if GROUPS[g] == "container" {
        container(&mut out, bytes);
        out.touched_all = true;
        return out;
    }
    if let Some(p) = open(&mut out, bytes) {
        let spy = Spy { inner: &p, log: &log };
        match GROUPS[g] {
            "font_new" => font_new(&mut out, spy),
            "lookup_glyph_index" => lookup_glyph_index(&mut out, spy),
            "cmap_mappings" => cmap_mappings(&mut out, &spy),
            "glyph_names" => glyph_names(&mut out, spy),
            "advance" => advance(&mut out, spy),
            "glyph_image" => glyph_image(&mut out, &p, &log),
            "outlines" => outlines(&mut out, &spy),
            "subset" => do_subset(&mut out, &spy),
            "whole_font" => whole_font(&mut out, &spy),
            "prince_subset" => prince_subset(&mut out, &spy),
            "instance" => instance(&mut out, &spy),
            "axis_names" => axis_names(&mut out, &spy),
            "kern" => kern(&mut out, &spy),
            "svg" => svg(&mut out, &spy),
            "bitmaps" => bitmaps(&mut out, &spy),
            "os2" => os2(&mut out, &spy),
            "post_name" => post_name(&mut out, &spy),
            other => panic!("unknown group {}", other),
        }
    }
    let l = log.into_inner();
    out.touched = l.0;
    out.touched_all = l.1;
    out
}

// ---- container ------------------------------------------------------------------------------------

fn status_of<T, E>(c: &Caught<Result<T, E>>) -> &'static str {
    match c {
        Caught::Returned(Ok(_)) => "Ok",
        Caught::Returned(Err(_)) => "Err",
        Caught::Panicked(_) => "Panic",
    }
}

fn fnv(d: &[u8]) -> u64 {
    let mut h: u64 = 0xcbf29ce484222325;
    for &b in d {
        h ^= b as u64;
        h = h.wrapping_mul(0x100000001b3);
    }
    h
}

/// FontData::read, table_provider(0..2), and for provider 0: table_tags, and per tag has_table +
/// read_table_data (length and hash of what allsorts hands back).
fn container(out: &mut GroupOut, bytes: &[u8]) {
    use serde_json::json;
    let mut facts = json!({"read": "Skipped", "kind": "", "prov": [], "tags": [], "tabs": [], "absent": "Skipped"});
    let r = guarded(|| ReadScope::new(bytes).read::<FontData<'_>>());
    facts["read"] = json!(status_of(&r));
    let fd = match r {
        Caught::Returned(Ok(fd)) => {
            out.ok += 1;
            fd
        }
        Caught::Returned(Err(e)) => {
            out.err += 1;
            out.first_err = format!("{:?}", e);
            out.facts = Some(facts);
            return;
        }
        Caught::Panicked(m) => {
            out.panics.push(m);
            out.facts = Some(facts);
            return;
        }
    };
    facts["kind"] = json!(match &fd {
        FontData::OpenType(f) => match f.data {
            allsorts::tables::OpenTypeData::Single(_) => "sfnt",
            allsorts::tables::OpenTypeData::Collection(_) => "ttc",
        },
        FontData::Woff(_) => "woff",
        FontData::Woff2(_) => "woff2",
    });
    let mut provs = Vec::new();
    let mut first: Option<Prov<'_>> = None;
    for i in 0..3usize {
        let r = guarded(|| fd.table_provider(i));
        provs.push(json!(status_of(&r)));
        match r {
            Caught::Returned(Ok(p)) => {
                out.ok += 1;
                if i == 0 {
                    first = Some(p);
                }
            }
            Caught::Returned(Err(_)) => out.err += 1,
            Caught::Panicked(m) => out.panics.push(m),
        }
    }
    facts["prov"] = json!(provs);
    // member indices further out (one past the end of a collection of three, far beyond any): an answer, never a crash
    for i in [3usize, 4, 255, 65536, usize::MAX] {
        sub(out, || fd.table_provider(i).map(|_| ()));
    }
    if let Some(p) = first {
        let tags = val(out, || p.table_tags()).flatten().unwrap_or_default();
        // woff2 hands the tags back in hash order: sorted here, the judge compares sets
        facts["tags"] = json!(tags.iter().map(|t| t.to_be_bytes().to_vec()).collect::<Vec<_>>());
        let mut tabs = Vec::new();
        let mut seen = BTreeSet::new();
        for &t in tags.iter().take(80) {
            if !seen.insert(t) {
                continue;
            }
            let has = val(out, || p.has_table(t)).unwrap_or(false);
            let r = guarded(|| p.read_table_data(t).map(|d| (d.len(), fnv(&d))));
            let st = status_of(&r);
            let (len, h) = match r {
                Caught::Returned(Ok(x)) => {
                    out.ok += 1;
                    x
                }
                Caught::Returned(Err(_)) => {
                    out.err += 1;
                    (0, 0)
                }
                Caught::Panicked(m) => {
                    out.panics.push(m);
                    (0, 0)
                }
            };
            tabs.push(json!([t.to_be_bytes().to_vec(), has, st, len.min(1 << 30), format!("{:016x}", h)]));
        }
        facts["tabs"] = json!(tabs);
        // a tag that no font carries
        let r = guarded(|| p.table_data(u32::from_be_bytes(*b"zz~~")));
        facts["absent"] = json!(match &r {
            Caught::Returned(Ok(None)) => "None",
            Caught::Returned(Ok(Some(_))) => "Some",
            Caught::Returned(Err(_)) => "Err",
            Caught::Panicked(_) => "Panic",
        });
        if let Caught::Panicked(m) = r {
            out.panics.push(m);
        }
    }
    // WOFF metadata accessors
    match &fd {
        FontData::Woff(w) => {
            sub(out, || w.extended_metadata());
        }
        FontData::Woff2(w) => {
            sub(out, || w.extended_metadata());
        }
        _ => {}
    }
    out.facts = Some(facts);
}

// ---- Font and its accessors -------------------------------------------------------------------------

fn font_new<P: FontTableProvider + SfntVersion>(out: &mut GroupOut, p: P) {
    let mut font = match sub(out, || Font::new(p)) {
        Some(f) => f,
        None => return,
    };
    val(out, || font.num_glyphs());
    val(out, || font.is_variable());
    sub(out, || font.variation_axes());
    sub(out, || font.os2_table());
    sub(out, || font.gdef_table());
    sub(out, || font.morx_table());
    sub(out, || font.gsub_cache());
    sub(out, || font.gpos_cache());
    sub(out, || font.kern_table());
    sub(out, || font.vhea_table());
    val(out, || font.has_embedded_images());
    val(out, || font.has_glyph_outlines());
    val(out, || font.cmap_subtable_data().len());
}

fn lookup_glyph_index<P: FontTableProvider + SfntVersion>(out: &mut GroupOut, p: P) {
    let mut font = match sub(out, || Font::new(p)) {
        Some(f) => f,
        None => return,
    };
    for &c in PROBE_CHARS.iter() {
        let ch = match char::from_u32(c) {
            Some(ch) => ch,
            None => continue,
        };
        val(out, || font.lookup_glyph_index(ch, MatchingPresentation::NotRequired, None));
        val(out, || font.lookup_glyph_index(ch, MatchingPresentation::Required, Some(VariationSelector::VS16)));
    }
    val(out, || font.lookup_glyph_index('A', MatchingPresentation::Required, Some(VariationSelector::VS15)));
    val(out, || font.lookup_glyph_index('\u{25CC}', MatchingPresentation::NotRequired, None));
    val(out, || font.map_glyphs("A\u{e9} \u{915}\u{FE0F}\u{1F600}", tag::LATN, MatchingPresentation::NotRequired).len());
    val(out, || font.map_glyphs("\u{f020}\u{f041}", tag::DFLT, MatchingPresentation::Required).len());
}

fn cmap_mappings(out: &mut GroupOut, p: &impl FontTableProvider) {
    let data = match sub(out, || p.read_table_data(tag::CMAP)) {
        Some(d) => d,
        None => return,
    };
    let cmap = match sub(out, || ReadScope::new(&data).read::<Cmap<'_>>()) {
        Some(c) => c,
        None => return,
    };
    sub(out, || read_cmap_subtable(&cmap).map(|x| x.is_some()));
    let recs: Vec<_> = match val(out, || cmap.encoding_records().take(24).collect::<Vec<_>>()) {
        Some(r) => r,
        None => return,
    };
    let mut seen = BTreeSet::new();
    for rec in recs {
        if !seen.insert(rec.offset) {
            continue;
        }
        let st = match sub(out, || cmap.scope.offset(rec.offset as usize).read::<CmapSubtable<'_>>()) {
            Some(s) => s,
            None => continue,
        };
        let mut n = 0u64;
        sub(out, || st.mappings_fn(|_c, _g| n += 1));
        sub(out, || st.mappings().map(|m| m.len()));
        for &c in PROBE_CHARS.iter() {
            sub(out, || st.map_glyph(c));
        }
        sub(out, || st.map_glyph(0xFFFF_FFFF));
        if let Some(Some(owned)) = val(out, || st.to_owned()) {
            for &c in PROBE_CHARS.iter() {
                sub(out, || owned.map_glyph(c));
            }
        }
    }
}

fn glyph_names<P: FontTableProvider + SfntVersion>(out: &mut GroupOut, p: P) {
    let font = match sub(out, || Font::new(p)) {
        Some(f) => f,
        None => return,
    };
    let n = font.num_glyphs();
    let gids = probe_gids(n);
    val(out, || font.glyph_names(&gids).len());
    let few: Vec<u16> = (0..n.min(48)).collect();
    val(out, || font.glyph_names(&few).len());
}

fn advance<P: FontTableProvider + SfntVersion>(out: &mut GroupOut, p: P) {
    let mut font = match sub(out, || Font::new(p)) {
        Some(f) => f,
        None => return,
    };
    let n = font.num_glyphs();
    for g in probe_gids(n) {
        val(out, || font.horizontal_advance(g));
        val(out, || font.vertical_advance(g));
    }
    // the free function behind them, on the tables as the provider hands them out (hhea + hmtx, vhea + vmtx)
    let p = &font.font_table_provider;
    if let Some(maxp) = sub(out, || p.read_table_data(tag::MAXP).and_then(|d| ReadScope::new(&d).read::<MaxpTable>())) {
        for (hea, mtx) in [(tag::HHEA, tag::HMTX), (tag::VHEA, tag::VMTX)] {
            if !val(out, || p.has_table(hea) && p.has_table(mtx)).unwrap_or(false) {
                continue;
            }
            let hhea = match sub(out, || p.read_table_data(hea).and_then(|d| ReadScope::new(&d).read::<HheaTable>())) {
                Some(h) => h,
                None => continue,
            };
            if let Some(md) = sub(out, || p.read_table_data(mtx)) {
                for g in probe_gids(n) {
                    sub(out, || glyph_info::advance(&maxp, &hhea, &md, g));
                }
            }
        }
    }
}

fn glyph_image<'a>(out: &mut GroupOut, p: &Prov<'a>, log: &RefCell<(BTreeSet<u32>, bool)>) {
    for filter in 0..2 {
        let mut font = match sub(out, || Font::new(Spy { inner: p, log })) {
            Some(f) => f,
            None => return,
        };
        if filter == 1 {
            font.set_embedded_image_filter(GlyphTableFlags::EBDT | GlyphTableFlags::SBIX);
            if !val(out, || font.has_embedded_images()).unwrap_or(false) {
                continue;
            }
        }
        let n = font.num_glyphs();
        let mut gids = probe_gids(n);
        gids.extend([2u16, 3, 36]);
        for &g in &gids {
            for ppem in [0u16, 20, 128, 65535] {
                sub(out, || font.lookup_glyph_image(g, ppem, BitDepth::ThirtyTwo));
            }
            sub(out, || font.lookup_glyph_image(g, 16, BitDepth::One));
        }
        // every strike the (corrupted) location tables declare, at its own ppem and bit depth, for the glyphs of its
        // range (first 24 and the last) and the probe glyphs: every index sub-table / image format is decoded
        let spy = Spy { inner: p, log };
        for (ppem, depth, first, last) in strikes_of(&spy) {
            let mut gs: Vec<u16> = (first..=last).take(24).collect();
            gs.push(last);
            gs.push(last.wrapping_add(1));
            gs.push(first.wrapping_sub(1));
            let mut seen = BTreeSet::new();
            gs.retain(|g| seen.insert(*g));
            for g in gs {
                sub(out, || font.lookup_glyph_image(g, ppem, depth));
            }
        }
    }
}

/// (ppem, bit depth, first glyph, last glyph) of the strikes of CBLC / EBLC (first 16 each) and sbix (ppem only) as the
/// (corrupted) font declares them; unreadable tables give nothing
fn strikes_of(p: &impl FontTableProvider) -> Vec<(u16, BitDepth, u16, u16)> {
    let n = num_glyphs_of(p);
    let mut v = Vec::new();
    for loc in [tag::CBLC, tag::EBLC] {
        if let Caught::Returned(Some(s)) = guarded(|| -> Option<Vec<(u16, BitDepth, u16, u16)>> {
            let d = p.table_data(loc).ok()??;
            let t = ReadScope::new(&d).read::<CBLCTable<'_>>().ok()?;
            Some(t.bitmap_sizes.iter().take(16).map(|s| (u16::from(s.inner.ppem_x), s.inner.bit_depth, s.inner.start_glyph_index, s.inner.end_glyph_index)).collect())
        }) {
            v.extend(s);
        }
    }
    if let Caught::Returned(Some(s)) = guarded(|| -> Option<Vec<(u16, BitDepth, u16, u16)>> {
        let d = p.table_data(tag::SBIX).ok()??;
        let t = ReadScope::new(&d).read_dep::<SbixTable<'_>>(usize::from(n)).ok()?;
        Some(t.strikes.iter().take(16).map(|s| (s.ppem, BitDepth::ThirtyTwo, 0, n.saturating_sub(1))).collect())
    }) {
        v.extend(s);
    }
    v
}

fn outlines(out: &mut GroupOut, p: &impl FontTableProvider) {
    let n = num_glyphs_of(p);
    // {0, 1, n-1, n, 65535}, the first 64, a spread of 24 more: the list the structural walk takes its
    // composite glyphs and subroutine-calling charstrings from
    let gids = super::fields::outline_gids(n);
    if has(out, p, tag::GLYF) {
        let head = match sub(out, || p.read_table_data(tag::HEAD).and_then(|d| ReadScope::new(&d).read::<HeadTable>())) {
            Some(h) => h,
            None => return,
        };
        let loca_data = match sub(out, || p.read_table_data(tag::LOCA)) {
            Some(d) => d,
            None => return,
        };
        let loca = match sub(out, || ReadScope::new(&loca_data).read_dep::<LocaTable<'_>>((usize::from(n), head.index_to_loc_format))) {
            Some(l) => l,
            None => return,
        };
        let glyf_data = match sub(out, || p.read_table_data(tag::GLYF)) {
            Some(d) => d,
            None => return,
        };
        let mut glyf = match sub(out, || ReadScope::new(&glyf_data).read_dep::<GlyfTable<'_>>(&loca)) {
            Some(g) => g,
            None => return,
        };
        for &g in &gids {
            sub(out, || glyf.visit(g, &mut NullSink(0)));
        }
    }
    if has(out, p, tag::CFF) {
        if let Some(d) = sub(out, || p.read_table_data(tag::CFF)) {
            if let Some(mut cff) = sub(out, || ReadScope::new(&d).read::<CFF<'_>>()) {
                for &g in &gids {
                    sub(out, || cff.visit(g, &mut NullSink(0)));
                }
            }
        }
    }
    if has(out, p, tag::CFF2) {
        if let Some(d) = sub(out, || p.read_table_data(tag::CFF2)) {
            if let Some(cff2) = sub(out, || ReadScope::new(&d).read::<CFF2<'_>>()) {
                let tuples = tuples_of(p);
                for t in [None, tuples.first(), tuples.last()] {
                    let mut o = CFF2Outlines { table: &cff2, tuple: t };
                    for &g in &gids {
                        sub(out, || o.visit(g, &mut NullSink(0)));
                    }
                }
            }
        }
    }
}

/// diagnostic (`c01_faults probe-outlines`): what the visit of every glyph of a CFF / CFF2 font answers, per glyph id
pub fn outline_report(bytes: &[u8]) -> Vec<String> {
    let mut lines = Vec::new();
    let fd = match ReadScope::new(bytes).read::<FontData<'_>>() {
        Ok(f) => f,
        Err(e) => return vec![format!("read: {:?}", e)],
    };
    let p = match fd.table_provider(0) {
        Ok(p) => p,
        Err(e) => return vec![format!("provider: {:?}", e)],
    };
    let n = num_glyphs_of(&p);
    let show = |r: Caught<Result<(), String>>| match r {
        Caught::Returned(Ok(())) => "Ok".to_string(),
        Caught::Returned(Err(e)) => format!("Err({})", e),
        _ => "PANIC".to_string(),
    };
    if let Ok(d) = p.read_table_data(tag::CFF) {
        if let Ok(mut cff) = ReadScope::new(&d).read::<CFF<'_>>() {
            for g in 0..n {
                lines.push(format!("CFF gid {}: {}", g, show(guarded(|| cff.visit(g, &mut NullSink(0)).map_err(|e| format!("{:?}", e))))));
            }
        }
    }
    if let Ok(d) = p.read_table_data(tag::CFF2) {
        if let Ok(cff2) = ReadScope::new(&d).read::<CFF2<'_>>() {
            let tuples = tuples_of(&p);
            for g in 0..n {
                let mut l = format!("CFF2 gid {}:", g);
                for t in [None, tuples.first(), tuples.last()] {
                    let mut o = CFF2Outlines { table: &cff2, tuple: t };
                    l += &format!(" {}", show(guarded(|| o.visit(g, &mut NullSink(0)).map_err(|e| format!("{:?}", e)))));
                }
                lines.push(l);
            }
        }
    }
    lines
}

/// normalised tuples (all 0, all 0.5, all -1) for the axis count the font's fvar declares
fn tuples_of(p: &impl FontTableProvider) -> Vec<allsorts::tables::variable_fonts::OwnedTuple> {
    match guarded(|| -> Option<Vec<_>> {
        let d = p.read_table_data(tag::FVAR).ok()?;
        let fvar = ReadScope::new(&d).read::<FvarTable<'_>>().ok()?;
        let mut v = Vec::new();
        for raw in [0i16, 8192, -16384] {
            let vals: Vec<F2Dot14> = (0..fvar.axis_count()).map(|_| F2Dot14::from_raw(raw)).collect();
            if let Some(t) = fvar.owned_tuple(&vals) {
                v.push(t);
            }
        }
        Some(v)
    }) {
        Caught::Returned(Some(v)) => v,
        _ => Vec::new(),
    }
}

fn id_lists(n: u16) -> Vec<Vec<u16>> {
    let mut v = vec![vec![0u16], vec![0, 1, 2], vec![0, n.wrapping_sub(1)], vec![0, n], vec![0, 65535], vec![1, 2], vec![0, 2, 2]];
    v.push((0..n.min(40)).collect());
    if n > 4 {
        v.push(vec![0, n / 2]);
    }
    v
}

fn do_subset(out: &mut GroupOut, p: &(impl FontTableProvider + SfntVersion)) {
    let n = num_glyphs_of(p);
    for ids in id_lists(n) {
        sub(out, || subset::subset(p, &ids).map(|v| v.len()));
    }
}

fn whole_font(out: &mut GroupOut, p: &(impl FontTableProvider + SfntVersion)) {
    let tags = val(out, || p.table_tags()).flatten().unwrap_or_default();
    sub(out, || subset::whole_font(p, &tags).map(|v| v.len()));
    let few = [tag::CMAP, tag::HEAD, tag::HHEA, tag::HMTX, tag::MAXP, tag::NAME, tag::OS_2, tag::POST, tag::GLYF, tag::LOCA];
    sub(out, || subset::whole_font(p, &few).map(|v| v.len()));
}

fn prince_subset(out: &mut GroupOut, p: &(impl FontTableProvider + SfntVersion)) {
    let n = num_glyphs_of(p);
    let lists = [vec![0u16, 1, 2], vec![0, n.wrapping_sub(1)], vec![0, n], (0..n.min(40)).collect()];
    for (k, ids) in lists.iter().enumerate() {
        let target = match k % 4 {
            0 => prince::PrinceCmapTarget::Unrestricted,
            1 => prince::PrinceCmapTarget::MacRoman,
            2 => prince::PrinceCmapTarget::Omit,
            _ => prince::PrinceCmapTarget::MacRomanCmap(Box::new([0u8; 256])),
        };
        sub(out, || prince::subset(p, ids, target, k % 2 == 0).map(|v| v.len()));
    }
    sub(out, || prince::subset(p, &[0, 1, 2], prince::PrinceCmapTarget::MacRoman, true).map(|v| v.len()));
    // the CFF2 -> CFF table conversion on its own
    if has(out, p, tag::CFF2) {
        for ids in [vec![0u16, 1, 2], vec![0, n.wrapping_sub(1)], vec![0, n]] {
            sub(out, || prince::subset_cff2_table(p, &ids).map(|v| v.len()));
        }
    }
}

fn instance(out: &mut GroupOut, p: &(impl FontTableProvider + SfntVersion)) {
    // user tuples from the axes the (corrupted) fvar declares: defaults, minima, maxima, half way between
    // default and maximum / minimum (no region peaks there: scalars strictly between 0 and 1), far outside
    let axes: Vec<(Fixed, Fixed, Fixed)> = match guarded(|| -> Option<Vec<_>> {
        let d = p.read_table_data(tag::FVAR).ok()?;
        let fvar = ReadScope::new(&d).read::<FvarTable<'_>>().ok()?;
        Some(fvar.axes().take(64).map(|a| (a.min_value, a.default_value, a.max_value)).collect())
    }) {
        Caught::Returned(Some(v)) => v,
        _ => Vec::new(),
    };
    let mut users: Vec<Vec<Fixed>> = vec![
        axes.iter().map(|a| a.1).collect(),
        axes.iter().map(|a| a.0).collect(),
        axes.iter().map(|a| a.2).collect(),
        axes.iter().map(|_| Fixed::from(30000i32)).collect(),
        axes.iter().map(|a| Fixed::from_raw((a.1.raw_value() >> 1).wrapping_add(a.2.raw_value() >> 1))).collect(),
        axes.iter().enumerate().map(|(k, a)| if k % 2 == 0 { Fixed::from_raw((a.1.raw_value() >> 1).wrapping_add(a.0.raw_value() >> 1)) } else { a.2 }).collect(),
    ];
    // half way between minimum and default on every axis (a default-normalised coordinate strictly inside (-1, 0))
    users.push(axes.iter().map(|a| Fixed::from_raw((a.1.raw_value() >> 1).wrapping_add(a.0.raw_value() >> 1))).collect());
    users.push(Vec::new());
    users.push(vec![Fixed::from(400i32)]);
    // the normalisation of every user tuple on its own (fvar default normalisation, then the avar segment maps):
    // reached even when instancing gives up earlier for another table
    for u in &users {
        sub(out, || {
            let fd = p.read_table_data(tag::FVAR)?;
            let fvar = ReadScope::new(&fd).read::<FvarTable<'_>>()?;
            let ad = p.table_data(tag::AVAR)?;
            let avar = match &ad {
                Some(d) => Some(ReadScope::new(d).read::<AvarTable<'_>>()?),
                None => None,
            };
            fvar.normalize(u.iter().copied(), avar.as_ref()).map(|t| t.len())
        });
    }
    for (k, u) in users.into_iter().enumerate() {
        let made = sub(out, || variations::instance(p, &u).map(|(v, _)| v));
        // multi-step sequence: the instance at the axis maxima is a font file of its own - it is loaded, subset, and the
        // subset loaded and its glyphs visited (every step under its own supervision, counted in this group)
        if k == 2 {
            if let Some(bytes) = made {
                chain(out, &bytes);
            }
        }
    }
}

fn chain(out: &mut GroupOut, bytes: &[u8]) {
    let q = match open(out, bytes) {
        Some(q) => q,
        None => return,
    };
    let n = num_glyphs_of(&q);
    let ids = [0u16, 1, n.wrapping_sub(1)];
    if let Some(sb) = sub(out, || subset::subset(&q, &ids)) {
        if let Some(r) = open(out, &sb) {
            outlines(out, &r);
            font_new(out, r);
        }
    }
}

fn axis_names(out: &mut GroupOut, p: &(impl FontTableProvider + SfntVersion)) {
    sub(out, || variations::axis_names(p).map(|v| v.len()));
    var_tables(out, p);
}

/// The public readers of the variation tables on their own (what `variations::instance` uses them for, but at the
/// probe glyph ids - the last glyph, one past it, 65535 - and at every index the table itself declares):
/// fvar instances, avar maps, gvar per-glyph stores with every tuple's variation data and peak tuple, HVAR deltas,
/// MVAR lookups, STAT axes / axis values / names, cvar applied to cvt.
fn var_tables(out: &mut GroupOut, p: &impl FontTableProvider) {
    if !has(out, p, tag::FVAR) {
        return;
    }
    let fd = match sub(out, || p.read_table_data(tag::FVAR)) {
        Some(d) => d,
        None => return,
    };
    let fvar = match sub(out, || ReadScope::new(&fd).read::<FvarTable<'_>>()) {
        Some(f) => f,
        None => return,
    };
    val(out, || fvar.axes().take(64).count());
    val(out, || fvar.instances().take(64).filter(|i| i.is_ok()).count());
    let tuples = tuples_of(p);
    let n = num_glyphs_of(p);
    let gids = probe_gids(n);
    if has(out, p, tag::AVAR) {
        if let Some(d) = sub(out, || p.read_table_data(tag::AVAR)) {
            if let Some(avar) = sub(out, || ReadScope::new(&d).read::<AvarTable<'_>>()) {
                for m in val(out, || avar.segment_maps().take(64).collect::<Vec<_>>()).unwrap_or_default() {
                    val(out, || m.axis_value_mappings().take(256).count());
                    for raw in [-65536i32, -32768, -1, 0, 1, 21845, 65536] {
                        val(out, || m.normalize(Fixed::from_raw(raw)));
                    }
                }
            }
        }
    }
    if has(out, p, tag::GVAR) {
        if let Some(d) = sub(out, || p.read_table_data(tag::GVAR)) {
            if let Some(gvar) = sub(out, || ReadScope::new(&d).read::<GvarTable<'_>>()) {
                for k in [0u16, 1, 65535] {
                    sub(out, || gvar.shared_tuple(k).map(|_| ()));
                }
                // the number of points of each glyph as its own glyf record gives it
                // (GlyfRecord::number_of_points: on the record as read, and again once it is parsed)
                let points: Vec<(u16, u16)> = val(out, || -> Option<Vec<(u16, u16)>> {
                    let head = ReadScope::new(&p.read_table_data(tag::HEAD).ok()?).read::<HeadTable>().ok()?;
                    let ld = p.read_table_data(tag::LOCA).ok()?;
                    let loca = ReadScope::new(&ld).read_dep::<LocaTable<'_>>((usize::from(n), head.index_to_loc_format)).ok()?;
                    let gd = p.read_table_data(tag::GLYF).ok()?;
                    let mut glyf = ReadScope::new(&gd).read_dep::<GlyfTable<'_>>(&loca).ok()?;
                    let mut gs: Vec<u16> = gids.clone();
                    gs.extend(2..n.min(12));
                    Some(
                        gs.into_iter()
                            .map(|g| {
                                let a = glyf.records().get(usize::from(g)).and_then(|r| r.number_of_points().ok());
                                let b = glyf.records_mut().get_mut(usize::from(g)).and_then(|r| r.parse().ok().and_then(|_| r.number_of_points().ok()));
                                (g, b.or(a).unwrap_or(0))
                            })
                            .collect(),
                    )
                })
                .flatten()
                .unwrap_or_else(|| gids.iter().map(|g| (*g, 0)).collect());
                for (g, np) in points {
                    if let Some(Some(store)) = sub(out, || gvar.glyph_variation_data(g, NumPoints::new(np))) {
                        let nh = val(out, || store.headers().count()).unwrap_or(0);
                        for k in 0..nh.min(24) as u16 {
                            sub(out, || store.variation_data(k).map(|v| v.len()));
                        }
                        sub(out, || store.variation_data(nh as u16).map(|v| v.len()));
                        for h in val(out, || store.headers().take(24).collect::<Vec<_>>()).unwrap_or_default() {
                            sub(out, || h.peak_tuple(&gvar).map(|_| ()));
                            val(out, || h.tuple_index());
                            val(out, || h.intermediate_region().is_some());
                        }
                    }
                }
            }
        }
    }
    if has(out, p, tag::HVAR) {
        if let Some(d) = sub(out, || p.read_table_data(tag::HVAR)) {
            if let Some(hvar) = sub(out, || ReadScope::new(&d).read::<HvarTable<'_>>()) {
                for t in &tuples {
                    for &g in &gids {
                        sub(out, || hvar.advance_delta(t, g));
                        sub(out, || hvar.left_side_bearing_delta(t, g));
                        sub(out, || hvar.right_side_bearing_delta(t, g));
                    }
                }
            }
        }
    }
    if has(out, p, tag::MVAR) {
        if let Some(d) = sub(out, || p.read_table_data(tag::MVAR)) {
            if let Some(mvar) = sub(out, || ReadScope::new(&d).read::<MvarTable<'_>>()) {
                let mut tags: Vec<u32> = val(out, || mvar.value_records().take(64).map(|r| r.value_tag).collect()).unwrap_or_default();
                tags.extend([tag::HASC, 0, 0xFFFF_FFFF]);
                for t in &tuples {
                    for &vt in &tags {
                        val(out, || mvar.lookup(vt, t));
                    }
                }
            }
        }
    }
    if has(out, p, tag::STAT) {
        if let Some(d) = sub(out, || p.read_table_data(tag::STAT)) {
            if let Some(stat) = sub(out, || ReadScope::new(&d).read::<StatTable<'_>>()) {
                let na = val(out, || stat.design_axes().take(64).filter(|a| a.is_ok()).count()).unwrap_or(0);
                val(out, || stat.axis_value_tables().take(256).filter(|a| a.is_ok()).count());
                for k in [0usize, na, 65535] {
                    sub(out, || stat.design_axis(k).map(|a| a.axis_tag));
                }
                for ax in 0..(na as u16 + 1).min(8) {
                    for raw in [0i32, 400 << 16, 700 << 16, -(1 << 16)] {
                        val(out, || stat.name_for_axis_value(ax, Fixed::from_raw(raw), ElidableName::Include));
                        val(out, || stat.name_for_axis_value(ax, Fixed::from_raw(raw), ElidableName::Exclude));
                    }
                }
            }
        }
    }
    if has(out, p, tag::CVAR) && has(out, p, tag::CVT) {
        if let (Some(cd), Some(vd)) = (sub(out, || p.read_table_data(tag::CVT)), sub(out, || p.read_table_data(tag::CVAR))) {
            if let Some(cvt) = sub(out, || ReadScope::new(&cd).read_dep::<CvtTable<'_>>(cd.len() as u32)) {
                if let Some(cvar) = sub(out, || ReadScope::new(&vd).read_dep::<CvarTable<'_>>((fvar.axis_count(), cvt.values.len() as u32))) {
                    for t in &tuples {
                        sub(out, || cvar.apply(t, &cvt).map(|c| c.values.len()));
                    }
                }
            }
        }
    }
}

fn kern(out: &mut GroupOut, p: &impl FontTableProvider) {
    let d = match sub(out, || p.read_table_data(tag::KERN)) {
        Some(d) => d,
        None => return,
    };
    let k = match sub(out, || ReadScope::new(&d).read::<KernTable<'_>>()) {
        Some(k) => k,
        None => return,
    };
    let subs: Vec<_> = val(out, || k.sub_tables().take(64).collect::<Vec<_>>()).unwrap_or_default();
    for st in subs {
        if let Some(st) = sub(out, || st) {
            for (l, r) in [(0u16, 0u16), (1, 2), (36, 57), (65535, 65535), (3, 65535)] {
                val(out, || st.data().lookup(l, r));
            }
        }
    }
    // the owned copy, borrowed back: the same sub-tables through the second reader
    if let Some(owned) = val(out, || k.to_owned()) {
        let back = KernTable::from(&owned);
        for st in val(out, || back.sub_tables().take(64).collect::<Vec<_>>()).unwrap_or_default().into_iter().flatten() {
            val(out, || (st.is_horizontal(), st.is_minimum(), st.is_cross_stream(), st.is_override()));
            for (l, r) in [(0u16, 0u16), (1, 2), (2, 1), (65535, 0)] {
                val(out, || st.data().lookup(l, r));
            }
        }
    }
}

fn svg(out: &mut GroupOut, p: &impl FontTableProvider) {
    let d = match sub(out, || p.read_table_data(tag::SVG)) {
        Some(d) => d,
        None => return,
    };
    let t = match sub(out, || ReadScope::new(&d).read::<SvgTable<'_>>()) {
        Some(t) => t,
        None => return,
    };
    let n = num_glyphs_of(p);
    let mut gids = probe_gids(n);
    gids.extend([2u16, 3, 36]);
    for g in gids {
        sub(out, || t.lookup_glyph(g).map(|r| r.map(|r| r.svg_document.len())));
    }
}

fn bitmaps(out: &mut GroupOut, p: &impl FontTableProvider) {
    let n = num_glyphs_of(p);
    let mut gids = probe_gids(n);
    gids.extend([2u16, 3, 36]);
    for (loc, dat) in [(tag::CBLC, tag::CBDT), (tag::EBLC, tag::EBDT)] {
        if !has(out, p, loc) {
            continue;
        }
        let ld = match sub(out, || p.read_table_data(loc)) {
            Some(d) => d,
            None => continue,
        };
        let dd = match sub(out, || p.read_table_data(dat)) {
            Some(d) => d,
            None => continue,
        };
        let cblc = match sub(out, || ReadScope::new(&ld).read::<CBLCTable<'_>>()) {
            Some(t) => t,
            None => continue,
        };
        let cbdt = match sub(out, || ReadScope::new(&dd).read::<CBDTTable<'_>>()) {
            Some(t) => t,
            None => continue,
        };
        for &g in &gids {
            for ppem in [0u8, 20, 255] {
                for depth in [BitDepth::ThirtyTwo, BitDepth::One] {
                    if let Some(Some(strike)) = val(out, || cblc.find_strike(g, ppem, depth)) {
                        sub(out, || strike.bitmap(&cbdt).map(|b| b.is_some()));
                    }
                }
            }
        }
        // every strike at its own ppem and depth, the glyphs of its range (first 24 and the last)
        let strikes: Vec<(u8, BitDepth, u16, u16)> = val(out, || cblc.bitmap_sizes.iter().take(16).map(|s| (s.inner.ppem_x, s.inner.bit_depth, s.inner.start_glyph_index, s.inner.end_glyph_index)).collect()).unwrap_or_default();
        for (ppem, depth, first, last) in strikes {
            let mut gs: Vec<u16> = (first..=last).take(24).collect();
            gs.push(last);
            let mut seen = BTreeSet::new();
            gs.retain(|g| seen.insert(*g));
            for g in gs {
                if let Some(Some(strike)) = val(out, || cblc.find_strike(g, ppem, depth)) {
                    sub(out, || strike.bitmap(&cbdt).map(|b| b.is_some()));
                }
            }
        }
    }
    if has(out, p, tag::SBIX) {
        if let Some(d) = sub(out, || p.read_table_data(tag::SBIX)) {
            if let Some(t) = sub(out, || ReadScope::new(&d).read_dep::<SbixTable<'_>>(usize::from(n))) {
                for &g in &gids {
                    for ppem in [0u16, 20, 65535] {
                        if let Some(Some(strike)) = val(out, || t.find_strike(g, ppem, BitDepth::ThirtyTwo)) {
                            sub(out, || strike.read_glyph(g).map(|x| x.is_some()));
                        }
                    }
                }
            }
        }
    }
}

fn os2(out: &mut GroupOut, p: &impl FontTableProvider) {
    if let Some(d) = sub(out, || p.read_table_data(tag::OS_2)) {
        sub(out, || ReadScope::new(&d).read_dep::<Os2>(d.len()));
    }
    for t in [tag::HHEA, tag::VHEA] {
        if has(out, p, t) {
            sub(out, || p.read_table_data(t).and_then(|d| ReadScope::new(&d).read::<HheaTable>()));
        }
    }
    sub(out, || p.read_table_data(tag::HEAD).and_then(|d| ReadScope::new(&d).read::<HeadTable>()));
    sub(out, || p.read_table_data(tag::MAXP).and_then(|d| ReadScope::new(&d).read::<MaxpTable>()));
    // hmtx through its own reader, every glyph the font declares
    let n = num_glyphs_of(p);
    if let Some(hhea) = sub(out, || p.read_table_data(tag::HHEA).and_then(|d| ReadScope::new(&d).read::<HheaTable>())) {
        if let Some(d) = sub(out, || p.read_table_data(tag::HMTX)) {
            if let Some(hmtx) = sub(out, || ReadScope::new(&d).read_dep::<HmtxTable<'_>>((usize::from(n), usize::from(hhea.num_h_metrics)))) {
                for g in probe_gids(n) {
                    sub(out, || hmtx.horizontal_advance(g));
                    sub(out, || hmtx.metric(g));
                }
            }
        }
    }
}

fn post_name(out: &mut GroupOut, p: &impl FontTableProvider) {
    let n = num_glyphs_of(p);
    if let Some(d) = sub(out, || p.read_table_data(tag::POST)) {
        if let Some(post) = sub(out, || ReadScope::new(&d).read::<PostTable<'_>>()) {
            for g in probe_gids(n) {
                sub(out, || post.glyph_name(g).map(|x| x.map(|s| s.len())));
            }
            for g in 2..n.min(24) {
                sub(out, || post.glyph_name(g).map(|x| x.map(|s| s.len())));
            }
        }
    }
    if let Some(d) = sub(out, || p.read_table_data(tag::NAME)) {
        if let Some(name) = sub(out, || ReadScope::new(&d).read::<NameTable<'_>>()) {
            for id in [0u16, 1, 2, 4, 6, 16, 256, 65535] {
                val(out, || name.string_for_id(id));
            }
        }
        // the second reader of name strings (best record by platform / encoding, decoded to a C string)
        for id in [0u16, 1, 2, 3, 4, 6, 16, 17, 256, 65535] {
            sub(out, || fontcode_get_name(&d, id).map(|s| s.map(|c| c.as_bytes().len())));
        }
    }
}
